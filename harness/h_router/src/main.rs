//! Router correspondence harness (H5) for property C14.
//!
//! `/repo/leptos_i18n_router/src/routing.rs` is compiled *as is* by `include!` inside the module
//! `routing`, next to thin wrappers that call its private path functions with plain strings.
//!
//! stdin protocol (mode `path`, argv[1]): one line per command, fields separated by U+001F.
//!   C <names sep U+001E> <default index>            configure the run-time locale set (DynLocale)
//!   E                                                switch to the compiled `declare_locales!` enum; answers `E <names> <default>`
//!   T <per-locale tables sep U+001D | ->             route tables: routes sep U+001E, segments sep U+001C,
//!                                                    segment = U | S<text> | P<name> | O<name> | W<name>; `-` = locale absent from the map
//!   L <base> <path>                                  get_locale_from_path           -> index or `-`
//!   N <base> <path> <search> <hash> <new> <old|->    get_new_path                   -> string
//!   H <base> <path> <search> <hash> <cur> <mode> <l1,l2,..>   history of switches; mode c: `locale` argument is the context's
//!                                                    previous locale (update_path_effect), mode p: the locale read from the path
//!                                                    (correct_locale_prefix_effect) -> URLs sep U+001F
//! One output line per input line; `PANIC` if the call panicked.
//! Mode `tree`: natively built I18nRoute trees (generate_routes / match_nested), see m_tree.rs.
#![allow(dead_code, unused_imports, clippy::all)]

mod dynloc;
mod m_path;
mod m_tree;

pub mod fixed {
    leptos_i18n::declare_locales! {
        default: "en",
        locales: ["en", "fr", "en-US", "de", "fr-CA", "fil", "fi", "ab", "is"],
        en: { about: "about", user: "user", empty: "x" },
        fr: { about: "a-propos", user: "utilisateur", empty: "x" },
        en_US: { about: "about-us", user: "user", empty: "x" },
        de: { about: "ueber", user: "benutzer", empty: "x" },
        fr_CA: { about: "a-propos", user: "usager", empty: "x" },
        fil: { about: "tungkol", user: "user", empty: "x" },
        fi: { about: "tietoja", user: "kayttaja", empty: "x" },
        ab: { about: "ab", user: "as", empty: "x" },
        is: { about: "fr", user: "en", empty: "x" },
    }
}

/// the real router code, compiled from the repository's source file
#[allow(dead_code, unused_imports, unused_variables)]
pub mod routing {
    #[cfg(not(feature = "patched"))]
    include!("/repo/leptos_i18n_router/src/routing.rs");
    // development only (never used by a registered command): /repo's file with /verif/fixes/C14-*.diff applied,
    // staged by `VERIF_C14_PATCHED=1 ./check C14`
    #[cfg(feature = "patched")]
    include!("/verif/.cache/work/C14/stage/s3/leptos_i18n_router/src/routing.rs");

    pub fn w_locale_from_path<L: Locale>(path: &str, base: &str) -> Option<L> {
        get_locale_from_path::<L>(path, base)
    }

    pub fn w_new_path<L: Locale>(
        path: &str,
        search: &str,
        hash: &str,
        base: &str,
        new_locale: L,
        old: Option<L>,
        table: &HashMap<L, Vec<Vec<PathSegment>>>,
    ) -> String {
        let (p, s, h, q) = (path.to_string(), search.to_string(), hash.to_string(), search.to_string());
        let location = Location {
            pathname: Memo::new(move |_| p.clone()),
            search: Memo::new(move |_| s.clone()),
            // the parsed query as leptos_router would hold it next to the raw `search` (keys grouped, no decoding needed
            // for the generated strings)
            query: Memo::new(move |_| {
                let mut m = leptos_router::params::ParamsMap::new();
                for kv in q.split('&').filter(|x| !x.is_empty()) {
                    let (k, v) = kv.split_once('=').unwrap_or((kv, ""));
                    m.insert(k.to_string(), v.to_string());
                }
                m
            }),
            hash: Memo::new(move |_| h.clone()),
            state: signal(Default::default()).0,
        };
        let segs = RouteSegments::<L>::default();
        *segs.0.lock().unwrap() = table.clone();
        get_new_path(&location, base, new_locale, old, segs)
    }

    /// (matched, remaining, params) of a successful match
    pub type MatchRes = (String, String, Vec<(String, String)>);

    pub struct MatchProbe {
        /// I18nNestedRoute::match_nested(path): locale index and result
        pub implr: Option<(Option<usize>, MatchRes)>,
        /// oracle: the inner route tree alone (leptos_router), matched against the whole path under the default locale
        pub bare: Option<MatchRes>,
        /// oracle: for every locale whose name is exactly the first segment of the path, the inner route tree matched
        /// against the rest of the path under that locale (`None` also when the name differs)
        pub per_locale: Vec<Option<MatchRes>>,
    }

    pub struct TreeProbe {
        /// RouteSegments as stored by `i18n_routing`, per locale in `get_all()` order
        pub tables: Vec<Vec<Vec<PathSegment>>>,
        /// `generate_routes()` of the I18nRoute
        pub routes: Vec<Vec<PathSegment>>,
        pub matcher: Box<dyn Fn(&str) -> MatchProbe>,
    }

    /// builds the route both through `i18n_routing` (opaque result) and by the same steps with the concrete type,
    /// so that the private fields (RouteSegments, matched locale) can be read
    pub fn w_tree<L: Locale, View, Chil>(base_path: &'static str, children: RouteChildren<Chil>, view: View) -> TreeProbe
    where
        View: ChooseView + Clone + Send + Sync + 'static,
        Chil: MatchNestedRoutes + 'static + Send + Sync + Clone,
        Chil::Match: MatchParams,
    {
        let opaque = i18n_routing::<L, View, Chil>(base_path, children.clone(), SsrMode::default(), view.clone());
        let children = children.into_inner();
        let base_route = NestedRoute::new(StaticSegment(""), view).child(children);
        let segments = RouteSegments::<L>::default();
        let concrete = I18nNestedRoute::new(base_path, base_route, segments.clone());
        let inner_segments = concrete.generate_routes_for_each_locale();
        *segments.0.lock().unwrap() = inner_segments;
        let routes: Vec<Vec<PathSegment>> = opaque.generate_routes().into_iter().map(|g| g.segments).collect();
        let routes2: Vec<Vec<PathSegment>> = concrete.generate_routes().into_iter().map(|g| g.segments).collect();
        assert_eq!(routes, routes2);
        let tables = {
            let g = segments.0.lock().unwrap();
            L::get_all().iter().map(|l| g.get(l).cloned().unwrap_or_default()).collect()
        };
        let matcher = Box::new(move |p: &str| {
            let implr = (|| {
                let (m, remaining) = concrete.match_nested(p);
                let (m2, remaining2) = opaque.match_nested(p);
                assert_eq!(m.is_some(), m2.is_some());
                assert_eq!(remaining, remaining2);
                let (_, m) = m?;
                let (_, m2) = m2?;
                assert_eq!(m.as_matched(), m2.as_matched());
                let loc = m.locale.map(|l| L::get_all().iter().position(|x| *x == l).unwrap());
                let params = m.to_params().into_iter().map(|(k, v)| (k.to_string(), v)).collect();
                Some((loc, (m.as_matched().to_string(), remaining.to_string(), params)))
            })();
            // the inner route tree on its own: leptos_router's matcher is the oracle of the model
            let inner = |l: L, q: &str| -> Option<MatchRes> {
                set_current_route_locale(l);
                let (m, remaining) = MatchNestedRoutes::match_nested(&concrete.route, q);
                let r = m.map(|(_, m)| {
                    let params = m.to_params().into_iter().map(|(k, v)| (k.to_string(), v)).collect();
                    (m.as_matched().to_string(), remaining.to_string(), params)
                });
                reset_current_route_locale();
                r
            };
            let bare = inner(L::default(), p);
            let (first, rest) = match p.strip_prefix('/') {
                Some(t) => {
                    let i = t.find('/').unwrap_or(t.len());
                    (Some(&t[..i]), &p[1 + i..])
                }
                None => (None, p),
            };
            let per_locale = L::get_all().iter().map(|l| if Some(l.as_str()) == first { inner(*l, rest) } else { None }).collect();
            MatchProbe { implr, bare, per_locale }
        });
        TreeProbe { tables, routes, matcher }
    }
}

fn main() {
    std::panic::set_hook(Box::new(|_| {}));
    let mode = std::env::args().nth(1).unwrap_or_default();
    let rt = tokio::runtime::Builder::new_current_thread().build().unwrap();
    let local = tokio::task::LocalSet::new();
    local.block_on(&rt, async {
        let _ = any_spawner::Executor::init_tokio();
        let owner = leptos::prelude::Owner::new();
        owner.set();
        match mode.as_str() {
            "path" => m_path::run(),
            "tree" => m_tree::run(),
            _ => {
                eprintln!("unknown mode {mode:?}");
                std::process::exit(2);
            }
        }
    });
}
