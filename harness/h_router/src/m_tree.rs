//! mode `tree`: real route trees built natively through the included routing.rs.
//! Start-up output, one line per tree:  `TREE <i> U+001F <tables as in the T command> U+001F <generate_routes(): routes sep U+001E>`
//! then per stdin line `<tree index> U+001F <path>`:  match_nested  ->
//!   `<locale index|-> U+001F R_impl U+001F R_bare U+001F R_locale0 U+001E R_locale1 ...`
//!   R = `none` | `<matched> U+001C <remaining> U+001C <params k=v,..>`; R_bare / R_locale are the oracle: the inner route tree
//!   (leptos_router alone) on the whole path under the default locale / on the rest of the path under each locale whose
//!   name is exactly the first segment
use crate::fixed::i18n::Locale as Fixed;
use crate::fixed::i18n::*;
use crate::routing;
use leptos::prelude::*;
use leptos_i18n::Locale as _;
use leptos_router::components::RouteChildren;
use leptos_router::{path, MatchInterface, MatchNestedRoutes, MatchParams, NestedRoute, OptionalParamSegment, ParamSegment, PathSegment, SsrMode, StaticSegment, WildcardSegment};
use std::io::{BufRead, Write};
use std::panic::{catch_unwind, AssertUnwindSafe};

fn seg(s: &PathSegment) -> String {
    match s {
        PathSegment::Unit => "U".to_string(),
        PathSegment::Static(x) => format!("S{x}"),
        PathSegment::Param(x) => format!("P{x}"),
        PathSegment::OptionalParam(x) => format!("O{x}"),
        PathSegment::Splat(x) => format!("W{x}"),
    }
}
fn route(r: &[PathSegment]) -> String {
    if r.is_empty() {
        ".".to_string()
    } else {
        r.iter().map(seg).collect::<Vec<_>>().join("\u{1c}")
    }
}

fn v() {}

type Matcher = Box<dyn Fn(&str) -> String>;

macro_rules! tree {
    ($out:ident, $matchers:ident, $base:expr, $children:expr) => {{
        let probe = routing::w_tree::<Fixed, _, _>($base, RouteChildren::to_children(|| $children), v);
        let t: Vec<String> = probe.tables.iter().map(|t| t.iter().map(|r| route(r)).collect::<Vec<_>>().join("\u{1e}")).collect();
        let g: Vec<String> = probe.routes.iter().map(|r| route(r)).collect();
        $out.push(format!("{}\u{1f}{}", t.join("\u{1d}"), g.join("\u{1e}")));
        let matcher = probe.matcher;
        let m: Matcher = Box::new(move |p: &str| {
            let pr = matcher(p);
            let enc = |r: &Option<routing::MatchRes>| match r {
                Some((matched, remaining, params)) => {
                    let params: Vec<String> = params.iter().map(|(k, v)| format!("{k}={v}")).collect();
                    format!("{}\u{1c}{}\u{1c}{}", matched, remaining, params.join(","))
                }
                None => "none".to_string(),
            };
            let (loc, ir) = match pr.implr {
                Some((loc, r)) => (loc.map(|l| l.to_string()).unwrap_or("-".to_string()), Some(r)),
                None => ("-".to_string(), None),
            };
            let per: Vec<String> = pr.per_locale.iter().map(|r| enc(r)).collect();
            format!("{}\u{1f}{}\u{1f}{}\u{1f}{}", loc, enc(&ir), enc(&pr.bare), per.join("\u{1e}"))
        });
        $matchers.push(m);
    }};
}

pub fn run() {
    let mut out: Vec<String> = vec![];
    let mut matchers: Vec<Matcher> = vec![];
    // 0: the documentation's example
    tree!(out, matchers, "/", (NestedRoute::new(path!(""), v), NestedRoute::new(path!("counter"), v)));
    // 1: the repository's example applications
    tree!(out, matchers, "/", (NestedRoute::new(path!("/"), v), NestedRoute::new(path!("/counter"), v)));
    // 2: localized segments, nesting, params, optional params, splat
    tree!(out, matchers, "/", (
        NestedRoute::new(path!("/"), v),
        NestedRoute::new(routing::make_i18n_segment::<Fixed, _>(|l| td_string!(l, about)), v),
        NestedRoute::new(routing::make_i18n_segment::<Fixed, _>(|l| td_string!(l, user)), v).child((
            NestedRoute::new(path!(""), v),
            NestedRoute::new(path!(":id"), v),
            NestedRoute::new((ParamSegment("id"), StaticSegment("edit")), v),
        )),
        NestedRoute::new((StaticSegment("files"), WildcardSegment("rest")), v),
        NestedRoute::new((StaticSegment("opt"), OptionalParamSegment("a"), OptionalParamSegment("b"), routing::make_i18n_segment::<Fixed, _>(|l| td_string!(l, about))), v),
        NestedRoute::new(path!("/en-USA/french"), v),
    ));
    // 3: same under a base path
    tree!(out, matchers, "/app", (
        NestedRoute::new(path!(""), v),
        NestedRoute::new((routing::make_i18n_segment::<Fixed, _>(|l| td_string!(l, about)), ParamSegment("x")), v),
    ));
    // 4..: tables whose first segment is a param / optional param / splat, alone and next to static routes
    tree!(out, matchers, "/", (NestedRoute::new(path!(":slug"), v),));
    tree!(out, matchers, "/", (
        NestedRoute::new(path!("/"), v),
        NestedRoute::new(routing::make_i18n_segment::<Fixed, _>(|l| td_string!(l, about)), v),
        NestedRoute::new(path!(":slug"), v),
    ));
    tree!(out, matchers, "/", (NestedRoute::new((OptionalParamSegment("a"),), v),));
    tree!(out, matchers, "/", (
        NestedRoute::new(path!("counter"), v),
        NestedRoute::new((OptionalParamSegment("a"), StaticSegment("x")), v),
    ));
    tree!(out, matchers, "/", (NestedRoute::new((WildcardSegment("any"),), v),));
    tree!(out, matchers, "/", (
        NestedRoute::new(path!("/"), v),
        NestedRoute::new(path!("counter"), v),
        NestedRoute::new(routing::make_i18n_segment::<Fixed, _>(|l| td_string!(l, about)), v),
        NestedRoute::new((WildcardSegment("any"),), v),
    ));
    tree!(out, matchers, "/", (
        NestedRoute::new(path!("counter"), v),
        NestedRoute::new((ParamSegment("a"), ParamSegment("b")), v),
    ));
    let mut o = std::io::BufWriter::new(std::io::stdout().lock());
    for (i, l) in out.iter().enumerate() {
        writeln!(o, "TREE {i}\u{1f}{l}").unwrap();
    }
    for line in std::io::stdin().lock().lines() {
        let line = line.unwrap();
        let f: Vec<&str> = line.split('\u{1f}').collect();
        let res = catch_unwind(AssertUnwindSafe(|| matchers[f[0].parse::<usize>().unwrap()](f[1])));
        writeln!(o, "{}", res.unwrap_or_else(|_| "PANIC".to_string())).unwrap();
    }
}
