//! A `Locale` whose set of names and default are configured at run time, so that the router's path
//! functions (generic over `L: Locale`) can be driven over arbitrary locale sets without recompiling.
//! Only `get_all`, `as_str`, `default`, `==` and `Hash` are used by routing.rs's path functions.
use icu_locid::{LanguageIdentifier, Locale as IcuLocale};
use leptos_i18n::{Direction, Locale, LocaleKeys};
use std::sync::{OnceLock, RwLock};

#[derive(Clone, Copy, PartialEq, Eq, Hash, Debug)]
pub struct DynLocale(pub u16);

pub struct Cfg {
    pub names: &'static [&'static str],
    pub all: &'static [DynLocale],
    pub default: u16,
}

static CFG: RwLock<Option<&'static Cfg>> = RwLock::new(None);

pub fn configure(names: &[&str], default: usize) {
    let names: Vec<&'static str> = names.iter().map(|n| &*Box::leak(n.to_string().into_boxed_str())).collect();
    let all: Vec<DynLocale> = (0..names.len() as u16).map(DynLocale).collect();
    let cfg = Box::leak(Box::new(Cfg { names: Box::leak(names.into_boxed_slice()), all: Box::leak(all.into_boxed_slice()), default: default as u16 }));
    *CFG.write().unwrap() = Some(cfg);
}

fn cfg() -> &'static Cfg {
    CFG.read().unwrap().expect("DynLocale not configured")
}

fn und() -> &'static IcuLocale {
    static UND: OnceLock<IcuLocale> = OnceLock::new();
    UND.get_or_init(|| IcuLocale::UND)
}

impl Default for DynLocale {
    fn default() -> Self {
        DynLocale(cfg().default)
    }
}
impl std::str::FromStr for DynLocale {
    type Err = ();
    fn from_str(s: &str) -> Result<Self, ()> {
        cfg().names.iter().position(|n| *n == s).map(|i| DynLocale(i as u16)).ok_or(())
    }
}
impl AsRef<LanguageIdentifier> for DynLocale {
    fn as_ref(&self) -> &LanguageIdentifier {
        &und().id
    }
}
impl AsRef<IcuLocale> for DynLocale {
    fn as_ref(&self) -> &IcuLocale {
        und()
    }
}
impl AsRef<str> for DynLocale {
    fn as_ref(&self) -> &str {
        cfg().names[self.0 as usize]
    }
}
impl AsRef<DynLocale> for DynLocale {
    fn as_ref(&self) -> &DynLocale {
        self
    }
}
impl std::fmt::Display for DynLocale {
    fn fmt(&self, f: &mut std::fmt::Formatter<'_>) -> std::fmt::Result {
        f.write_str(cfg().names[self.0 as usize])
    }
}
impl serde::Serialize for DynLocale {
    fn serialize<S: serde::Serializer>(&self, s: S) -> Result<S::Ok, S::Error> {
        s.serialize_str(cfg().names[self.0 as usize])
    }
}
impl<'de> serde::Deserialize<'de> for DynLocale {
    fn deserialize<D: serde::Deserializer<'de>>(d: D) -> Result<Self, D::Error> {
        let s = String::deserialize(d)?;
        s.parse().map_err(|_| serde::de::Error::custom("unknown locale"))
    }
}

#[derive(Clone, Copy)]
pub struct DynKeys(DynLocale);
impl LocaleKeys for DynKeys {
    type Locale = DynLocale;
    fn from_locale(l: DynLocale) -> Self {
        DynKeys(l)
    }
}

impl Locale for DynLocale {
    type Keys = DynKeys;
    type TranslationUnitId = ();
    fn as_str(self) -> &'static str {
        cfg().names[self.0 as usize]
    }
    fn as_icu_locale(self) -> &'static IcuLocale {
        und()
    }
    fn direction(self) -> Direction {
        Direction::Auto
    }
    fn get_all() -> &'static [DynLocale] {
        cfg().all
    }
    fn to_base_locale(self) -> DynLocale {
        self
    }
    fn from_base_locale(l: DynLocale) -> Self {
        l
    }
}
