//! C18 correspondence harness, custom-data-provider build (see Cargo.toml).
//! Modes (argv[1]): `ops seq|par` (operation sequences on the shared formatter cache, as in h_fmt), `rt`.
//! The provider is installed ONCE, here, on the main thread, before anything is formatted; in `ops par` the
//! operations are executed by 8 worker threads that never called set_icu_data_provider themselves.
#![allow(dead_code, unused_imports)]

#[path = "../../h_fmt/src/m_parse.rs"]
mod m_parse;
#[macro_use]
#[path = "../../h_fmt/src/m_rt.rs"]
mod m_rt;
/// the defaulted-key fixture belongs to the other build (it needs this package's own locales directory)
mod m_dflt {
    pub fn run(_o: &mut impl std::io::Write) {}
}

use leptos_i18n::custom_provider::{set_icu_data_provider, IcuDataProvider};
use leptos_i18n::reexports::icu::currency::formatter::CurrencyFormatter;
use leptos_i18n::reexports::icu::currency::options::CurrencyFormatterOptions;
use leptos_i18n::reexports::icu::datetime::options::{length, DateTimeFormatterOptions};
use leptos_i18n::reexports::icu::datetime::{DateFormatter, DateTimeError, DateTimeFormatter, TimeFormatter};
use leptos_i18n::reexports::icu::decimal::options::FixedDecimalFormatterOptions;
use leptos_i18n::reexports::icu::decimal::{DecimalError, FixedDecimalFormatter};
use leptos_i18n::reexports::icu::list::{ListError, ListFormatter, ListLength};
use leptos_i18n::reexports::icu::plurals::{PluralRuleType, PluralRules, PluralsError};
use leptos_i18n::reexports::icu::provider::{DataError, DataLocale};

/// the application's provider: ICU4X's compiled data, constructor by constructor
struct AppProvider;

impl IcuDataProvider for AppProvider {
    fn try_new_num_formatter(&self, locale: &DataLocale, options: FixedDecimalFormatterOptions) -> Result<FixedDecimalFormatter, DecimalError> {
        FixedDecimalFormatter::try_new(locale, options)
    }
    fn try_new_date_formatter(&self, locale: &DataLocale, length: length::Date) -> Result<DateFormatter, DateTimeError> {
        DateFormatter::try_new_with_length(locale, length)
    }
    fn try_new_time_formatter(&self, locale: &DataLocale, length: length::Time) -> Result<TimeFormatter, DateTimeError> {
        TimeFormatter::try_new_with_length(locale, length)
    }
    fn try_new_datetime_formatter(&self, locale: &DataLocale, options: DateTimeFormatterOptions) -> Result<DateTimeFormatter, DateTimeError> {
        DateTimeFormatter::try_new(locale, options)
    }
    fn try_new_and_list_formatter(&self, locale: &DataLocale, style: ListLength) -> Result<ListFormatter, ListError> {
        ListFormatter::try_new_and_with_length(locale, style)
    }
    fn try_new_or_list_formatter(&self, locale: &DataLocale, style: ListLength) -> Result<ListFormatter, ListError> {
        ListFormatter::try_new_or_with_length(locale, style)
    }
    fn try_new_unit_list_formatter(&self, locale: &DataLocale, style: ListLength) -> Result<ListFormatter, ListError> {
        ListFormatter::try_new_unit_with_length(locale, style)
    }
    fn try_new_plural_rules(&self, locale: &DataLocale, rule_type: PluralRuleType) -> Result<PluralRules, PluralsError> {
        PluralRules::try_new(locale, rule_type)
    }
    fn try_new_currency_formatter(&self, locale: &DataLocale, options: CurrencyFormatterOptions) -> Result<CurrencyFormatter, DataError> {
        CurrencyFormatter::try_new(locale, options)
    }
}

fn main() {
    if std::env::var_os("H_FMT_VERBOSE").is_none() {
        std::panic::set_hook(Box::new(|_| {}));
    }
    set_icu_data_provider(AppProvider);
    let mode = std::env::args().nth(1).unwrap_or_default();
    match mode.as_str() {
        "rt" => m_rt::run_rt(),
        "ops" => m_rt::run_ops(std::env::args().nth(2).as_deref() == Some("par")),
        _ => {
            eprintln!("unknown mode {mode:?}");
            std::process::exit(2);
        }
    }
}
