//! C09 (pipeline totality), build-script API: one project directory per stdin line, every stage under catch_unwind.
//!   B <ok | err <Variant> <Display text> | PANIC <msg>>      TranslationsInfos::parse_at_dir
//!   T <ok <files written> | err <io error> | PANIC <msg>>    get_translations().write_to_dir(<dir>/_out)
//!   I <ok <number of data keys> | PANIC <msg>>               get_icu_keys()
//!   L <ok <langids> | PANIC <msg>>                           get_locales_langids() (+ get_locales, get_namespaces)
//!   END <dir>
//! Mode `depth`: the same calls WITHOUT catch_unwind (run in a child process: a stack overflow aborts).
use leptos_i18n_build::TranslationsInfos;
use std::io::{BufRead, Write};
use std::panic::{catch_unwind, AssertUnwindSafe};

fn one_line(s: &str) -> String {
    s.replace('\\', "\\\\").replace('\n', "\\n").replace('\t', "\\t")
}
fn variant_name(dbg: &str) -> String {
    dbg.chars().take_while(|c| c.is_alphanumeric() || *c == '_').collect()
}
fn panic_msg(p: Box<dyn std::any::Any + Send>) -> String {
    p.downcast_ref::<String>().cloned().or_else(|| p.downcast_ref::<&str>().map(|s| s.to_string())).unwrap_or_default()
}
fn count_files(p: &std::path::Path) -> usize {
    let mut n = 0;
    if let Ok(rd) = std::fs::read_dir(p) {
        for e in rd.flatten() {
            let p = e.path();
            if p.is_dir() {
                n += count_files(&p);
            } else {
                n += 1;
            }
        }
    }
    n
}

fn stages(dir: &str, o: &mut dyn Write) {
    let infos = match catch_unwind(AssertUnwindSafe(|| TranslationsInfos::parse_at_dir(dir))) {
        Err(p) => {
            writeln!(o, "B\tPANIC\t{}", one_line(&panic_msg(p))).unwrap();
            return;
        }
        Ok(Err(e)) => {
            writeln!(o, "B\terr\t{}\t{}", variant_name(&format!("{:?}", e)), one_line(&e.to_string().replace(dir, "$DIR"))).unwrap();
            return;
        }
        Ok(Ok(i)) => {
            writeln!(o, "B\tok").unwrap();
            i
        }
    };
    let out = std::path::Path::new(dir).join("_out");
    let _ = std::fs::remove_dir_all(&out);
    match catch_unwind(AssertUnwindSafe(|| infos.get_translations().write_to_dir(out.clone()))) {
        Err(p) => writeln!(o, "T\tPANIC\t{}", one_line(&panic_msg(p))).unwrap(),
        Ok(Err(e)) => writeln!(o, "T\terr\t{}", one_line(&e.to_string())).unwrap(),
        Ok(Ok(())) => writeln!(o, "T\tok\t{}", count_files(&out)).unwrap(),
    }
    match catch_unwind(AssertUnwindSafe(|| infos.get_icu_keys().count())) {
        Err(p) => writeln!(o, "I\tPANIC\t{}", one_line(&panic_msg(p))).unwrap(),
        Ok(n) => writeln!(o, "I\tok\t{}", n).unwrap(),
    }
    match catch_unwind(AssertUnwindSafe(|| {
        let l: Vec<String> = infos.get_locales_langids().map(|l| l.to_string()).collect();
        let n = infos.get_locales().count();
        let ns = infos.get_namespaces().map(|i| i.count()).unwrap_or(0);
        format!("{} {} {}", l.join(","), n, ns)
    })) {
        Err(p) => writeln!(o, "L\tPANIC\t{}", one_line(&panic_msg(p))).unwrap(),
        Ok(s) => writeln!(o, "L\tok\t{}", s).unwrap(),
    }
}

fn main() {
    let mode = std::env::args().nth(1).unwrap_or_default();
    let stdin = std::io::stdin();
    let mut o = std::io::BufWriter::new(std::io::stdout().lock());
    if mode == "depth" {
        for line in stdin.lock().lines() {
            let dir = line.unwrap();
            let r = TranslationsInfos::parse_at_dir(dir.as_str());
            writeln!(o, "B\t{}", if r.is_ok() { "ok" } else { "err" }).unwrap();
            writeln!(o, "END\t{}", dir).unwrap();
            o.flush().unwrap();
        }
        return;
    }
    std::panic::set_hook(Box::new(|_| {}));
    for line in stdin.lock().lines() {
        let dir = line.unwrap();
        stages(&dir, &mut o);
        writeln!(o, "END\t{}", dir).unwrap();
        o.flush().unwrap();
    }
}
