//! Correspondence harness for C03 / C07 / C19: drives leptos_i18n_parser's public
//! `parse_locales_raw` + `make_builder_keys` (= `parse_locales`) on generated project
//! directories.  One case per stdin line (`<mode>\t<project dir>`), one canonical
//! result line per case.  Modes: `merge` (DefaultedLocales / warnings / key sets /
//! merge errors) and `cfg` (ConfigFile fields, tracked files, config / file errors).
use leptos_i18n_parser::parse_locales::{
    cfg_file::ConfigFile,
    error::Error,
    locale::{BuildersKeys, BuildersKeysInner, InterpolOrLit, Locale, LocaleValue},
    make_builder_keys, parse_locales_raw,
    parsed_value::{Literal, ParsedValue},
    warning::Warning,
};
use leptos_i18n_parser::utils::{Key, KeyPath};
use std::fmt::Write as _;
use std::io::{BufRead, Write};
use std::path::PathBuf;

fn esc(s: &str) -> String {
    // canonical, separator-free rendering of arbitrary text
    let mut o = String::new();
    for c in s.chars() {
        if c.is_ascii_alphanumeric() || "_-./ :".contains(c) {
            o.push(c);
        } else {
            write!(o, "%{:x}%", c as u32).unwrap();
        }
    }
    o
}

fn kp(p: &KeyPath) -> String {
    let ns = match &p.namespace {
        Some(ns) => esc(&ns.name),
        None => "-".to_string(),
    };
    let path: Vec<String> = p.path.iter().map(|k| esc(&k.name)).collect();
    format!("{},{}", ns, path.join("."))
}

fn pv_tag(v: Option<&ParsedValue>) -> String {
    match v {
        None => "A".into(), // absent from the map (cannot happen after merge)
        Some(ParsedValue::Default) => "D".into(),
        Some(ParsedValue::Literal(Literal::String(s, _))) => format!("L{}", esc(s)),
        Some(ParsedValue::Literal(_)) => "l".into(),
        // an interpolated value: identified by its leading literal
        Some(ParsedValue::Bloc(v)) => match v.first() {
            Some(ParsedValue::Literal(Literal::String(s, _))) => format!("L{}", esc(s)),
            _ => "O".into(),
        },
        Some(ParsedValue::Subkeys(_)) => "S".into(),
        Some(ParsedValue::Plurals(_)) => "P".into(),
        Some(ParsedValue::Ranges(_)) => "R".into(),
        Some(_) => "O".into(),
    }
}

fn dump_keys(ns: &str, path: &mut Vec<String>, locales: &[Locale], keys: &BuildersKeysInner, all: &[Key], out: &mut Vec<String>) {
    for (key, value) in &keys.0 {
        path.push(esc(&key.name));
        let p = path.join(".");
        match value {
            LocaleValue::Value { value, defaults } => {
                let kind = match value {
                    InterpolOrLit::Lit(_) => "L",
                    InterpolOrLit::Interpol(_) => "I",
                };
                let comp = defaults.compute();
                let comp_s: Vec<String> = comp
                    .iter()
                    .map(|(t, set)| format!("{}={}", esc(&t.name), set.iter().map(|k| esc(&k.name)).collect::<Vec<_>>().join("+")))
                    .collect();
                let dof: Vec<String> = all.iter().map(|l| format!("{}>{}", esc(&l.name), esc(&defaults.default_of(l).name))).collect();
                let own: Vec<String> = locales
                    .iter()
                    .map(|l| format!("{}={}", esc(&l.top_locale_name.name), pv_tag(l.keys.get(key))))
                    .collect();
                out.push(format!("V,{},{},{},{},{},{}", ns, p, kind, comp_s.join("&"), dof.join("&"), own.join("&")));
            }
            LocaleValue::Subkeys { locales: subs, keys: sub_keys } => {
                let names: Vec<String> = subs.iter().map(|l| esc(&l.top_locale_name.name)).collect();
                out.push(format!("G,{},{},{}", ns, p, names.join("&")));
                dump_keys(ns, path, subs, sub_keys, all, out);
            }
        }
        path.pop();
    }
}

fn warn_s(w: &Warning) -> String {
    match w {
        Warning::MissingKey { locale, key_path } => format!("M,{},{}", esc(&locale.name), kp(key_path)),
        Warning::SurplusKey { locale, key_path } => format!("S,{},{}", esc(&locale.name), kp(key_path)),
        Warning::UnusedForm { locale, key_path, .. } => format!("U,{},{}", esc(&locale.name), kp(key_path)),
        Warning::NonUnicodePath { locale, .. } => format!("N,{},-,", esc(&locale.name)),
    }
}

fn keyset(keys: &std::collections::BTreeSet<Key>) -> String {
    keys.iter().map(|k| esc(&k.name)).collect::<Vec<_>>().join("+")
}

fn err_s(e: &Error) -> String {
    match e {
        Error::SubKeyMissmatch { locale, key_path } => format!("ERR|SubKeyMissmatch|{}|{}", esc(&locale.name), kp(key_path)),
        Error::ExplicitDefaultInDefault(key_path) => format!("ERR|ExplicitDefaultInDefault|-|{}", kp(key_path)),
        Error::ManifestNotFound(_) => "ERR|ManifestNotFound||".into(),
        Error::ConfigNotPresent => "ERR|ConfigNotPresent||".into(),
        Error::ConfigFileDeser(err) => format!("ERR|ConfigFileDeser|{}|", esc(err.message())),
        Error::DuplicateLocalesInConfig(d) => format!("ERR|DuplicateLocalesInConfig|{}|", keyset(d)),
        Error::DuplicateNamespacesInConfig(d) => format!("ERR|DuplicateNamespacesInConfig|{}|", keyset(d)),
        Error::LocaleFileNotFound(errs) => format!(
            "ERR|LocaleFileNotFound|{}|",
            errs.iter().map(|(p, _)| esc(&p.to_string_lossy())).collect::<Vec<_>>().join("&")
        ),
        Error::LocaleFileDeser { path, .. } => format!("ERR|LocaleFileDeser|{}|", esc(&path.to_string_lossy())),
        Error::InvalidKey(k) => format!("ERR|InvalidKey|{}|", esc(k)),
        other => {
            let d = format!("{:?}", other);
            let name: String = d.chars().take_while(|c| c.is_ascii_alphanumeric()).collect();
            format!("ERR|Other:{}||", name)
        }
    }
}

fn cfg_s(cfg: &ConfigFile) -> String {
    let locs: Vec<String> = cfg.locales.iter().map(|k| esc(&k.name)).collect();
    let nss = match &cfg.name_spaces {
        None => "-".to_string(),
        Some(v) => format!("[{}]", v.iter().map(|k| esc(&k.name)).collect::<Vec<_>>().join("&")),
    };
    let ext: Vec<String> = cfg.extensions.iter().map(|(k, v)| format!("{}>{}", esc(&k.name), esc(&v.name))).collect();
    let uri = match &cfg.translations_uri {
        None => "-".to_string(),
        Some(u) => format!("[{}]", esc(u)),
    };
    format!("{}|{}|{}|{}|{}|{}", esc(&cfg.default.name), locs.join("&"), nss, esc(&cfg.locales_dir), uri, ext.join("&"))
}

fn run_merge(dir: &str) -> String {
    let (locales, cfg_file, fkp, warnings, _tracked) = match parse_locales_raw(false, Some(PathBuf::from(dir))) {
        Ok(x) => x,
        Err(e) => return format!("RAW{}", err_s(&e)),
    };
    let all: Vec<Key> = cfg_file.locales.clone();
    let bk = match make_builder_keys(locales, &cfg_file, fkp, &warnings, false) {
        Ok(bk) => bk,
        Err(e) => return err_s(&e),
    };
    let mut ws: Vec<String> = warnings.into_inner().iter().map(warn_s).collect();
    ws.sort();
    let mut out = Vec::new();
    match &bk {
        BuildersKeys::Locales { locales, keys } => {
            dump_keys("-", &mut Vec::new(), locales, keys, &all, &mut out);
        }
        BuildersKeys::NameSpaces { namespaces, keys } => {
            for ns in namespaces {
                let k = keys.get(&ns.key).expect("namespace keys");
                dump_keys(&esc(&ns.key.name), &mut Vec::new(), &ns.locales, k, &all, &mut out);
            }
        }
    }
    format!("OK|{}|{}|{}", all.iter().map(|k| esc(&k.name)).collect::<Vec<_>>().join("&"), ws.join(";"), out.join(";"))
}

fn run_cfg(dir: &str) -> String {
    match parse_locales_raw(false, Some(PathBuf::from(dir))) {
        Ok((_locales, cfg_file, _fkp, _warnings, tracked)) => {
            format!("OK|{}|{}", cfg_s(&cfg_file), tracked.iter().map(|t| esc(t)).collect::<Vec<_>>().join("&"))
        }
        Err(e) => err_s(&e),
    }
}

fn main() {
    std::panic::set_hook(Box::new(|_| {}));
    if std::env::args().nth(1).as_deref() == Some("features") {
        println!(
            "suppress={} json={} yaml={} json5={}",
            cfg!(feature = "suppress"),
            cfg!(feature = "json"),
            cfg!(feature = "yaml"),
            cfg!(feature = "json5")
        );
        return;
    }
    let stdin = std::io::stdin();
    let mut o = std::io::stdout().lock();
    for line in stdin.lock().lines() {
        let line = line.unwrap();
        let (mode, dir) = line.split_once('\t').unwrap_or(("merge", &line));
        let mode = mode.to_string();
        let dir = dir.to_string();
        let r = std::panic::catch_unwind(move || match mode.as_str() {
            "cfg" => run_cfg(&dir),
            _ => run_merge(&dir),
        });
        writeln!(o, "{}", r.unwrap_or_else(|_| "PANIC".to_string())).unwrap();
    }
}
