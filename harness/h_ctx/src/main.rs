//! Context harness (H4, properties C15 and C16): drives leptos_i18n's real `I18nContext` machinery natively.
//!
//! Build: `ssr` feature of leptos_i18n (cookies and Accept-Language come from injectable getters) together with
//! `reactive_graph/effects` (feature unification makes effects live), tokio current-thread runtime + LocalSet +
//! any_spawner. One process runs many scenarios, one per stdin line, each under a fresh `Owner`.
//!
//! Line formats (strings are lower-case hex of their UTF-8 bytes, `.` = empty string, `-` = None):
//!   `15 M <enable:0|1|-> <cookie_name|-> <cookie_header|-> <accept_header|->`
//!   `15 S <parent_locale_idx|-> <initial_idx|-> <cookie_name|-> <cookie_header|-> <accept:-|N(one: pass no options)|hex>`
//!   `16 <enable:0|1> <cookie_header|-> <accept_header|-> <op> <op> ...`   (ops: see `run16`)
//!   `17`   the fixed-locale oracle tables of the plural and format accessors (see `tables_line`)
//! Output: one line per scenario (see `run15_*`, `run16`), `PANIC` on a panic.
#![allow(clippy::type_complexity)]

use leptos::prelude::*;
use leptos_i18n::context::{
    init_i18n_context_with_options, init_i18n_subcontext_with_options, CookieOptions, I18nContextOptions,
    UseLocalesOptions,
};
use leptos_i18n::{I18nContext, Locale as _};
use std::borrow::Cow;
use std::io::{BufRead, Write};
use std::panic::{catch_unwind, AssertUnwindSafe};
use std::sync::{Arc, Mutex};

leptos_i18n::declare_locales! {
    interpolate_display,
    default: "en",
    locales: ["en", "fr", "fr-CA", "de", "pt-BR", "ru", "ar", "pl"],
    en: { hello: "hello@0", hello_n: "hello {{ n }}@0", sub: { inner: "inner@0", inner_n: "inner {{ n }}@0", deep: { leaf: "leaf@0", leaf_n: "leaf {{ n }}@0" } } },
    fr: { hello: "hello@1", hello_n: "hello {{ n }}@1", sub: { inner: "inner@1", inner_n: "inner {{ n }}@1", deep: { leaf: "leaf@1", leaf_n: "leaf {{ n }}@1" } } },
    fr_CA: { hello: "hello@2", hello_n: "hello {{ n }}@2", sub: { inner: "inner@2", inner_n: "inner {{ n }}@2", deep: { leaf: "leaf@2", leaf_n: "leaf {{ n }}@2" } } },
    de: { hello: "hello@3", hello_n: "hello {{ n }}@3", sub: { inner: "inner@3", inner_n: "inner {{ n }}@3", deep: { leaf: "leaf@3", leaf_n: "leaf {{ n }}@3" } } },
    pt_BR: { hello: "hello@4", hello_n: "hello {{ n }}@4", sub: { inner: "inner@4", inner_n: "inner {{ n }}@4", deep: { leaf: "leaf@4", leaf_n: "leaf {{ n }}@4" } } },
    ru: { hello: "hello@5", hello_n: "hello {{ n }}@5", sub: { inner: "inner@5", inner_n: "inner {{ n }}@5", deep: { leaf: "leaf@5", leaf_n: "leaf {{ n }}@5" } } },
    ar: { hello: "hello@6", hello_n: "hello {{ n }}@6", sub: { inner: "inner@6", inner_n: "inner {{ n }}@6", deep: { leaf: "leaf@6", leaf_n: "leaf {{ n }}@6" } } },
    pl: { hello: "hello@7", hello_n: "hello {{ n }}@7", sub: { inner: "inner@7", inner_n: "inner {{ n }}@7", deep: { leaf: "leaf@7", leaf_n: "leaf {{ n }}@7" } } },
}
use i18n::*;
use leptos_i18n::{
    t_format, t_format_display, t_format_string, t_plural, t_plural_ordinal, td_format, td_format_display, td_format_string, td_plural,
    td_plural_ordinal, tu_format, tu_format_display, tu_format_string, tu_plural, tu_plural_ordinal,
};

fn idx(l: Locale) -> usize {
    Locale::get_all().iter().position(|x| *x == l).unwrap()
}
fn loc(i: usize) -> Locale {
    Locale::get_all()[i]
}
fn hex(s: &str) -> String {
    s.bytes().map(|b| format!("{:02x}", b)).collect()
}
fn unhex(s: &str) -> Option<String> {
    if s == "-" {
        return None;
    }
    if s == "." {
        return Some(String::new());
    }
    let b: Vec<u8> = (0..s.len() / 2).map(|i| u8::from_str_radix(&s[2 * i..2 * i + 2], 16).unwrap()).collect();
    Some(String::from_utf8(b).unwrap())
}
fn opt_idx(s: &str) -> Option<usize> {
    if s == "-" {
        None
    } else {
        Some(s.parse().unwrap())
    }
}

fn fields(l: &icu_locid::LanguageIdentifier) -> String {
    let lang = if l.language.is_empty() { String::new() } else { l.language.to_string() };
    let script = l.script.map(|s| s.to_string()).unwrap_or_default();
    let region = l.region.map(|s| s.to_string()).unwrap_or_default();
    let vars: Vec<String> = l.variants.iter().map(|v| v.to_string()).collect();
    format!("{}/{}/{}/{}", lang, script, region, vars.join("."))
}

type Log = Arc<Mutex<Vec<String>>>;

fn cookie_opts(header: Option<String>, log: Log) -> CookieOptions<Locale> {
    CookieOptions::default()
        .ssr_cookies_header_getter(move || header.clone())
        .ssr_set_cookie(move |c: &cookie::Cookie| log.lock().unwrap().push(format!("{}={}", c.name(), c.value())))
}
fn lang_opts(header: Option<String>) -> UseLocalesOptions {
    UseLocalesOptions::default().ssr_lang_header_getter(move || header.clone())
}

/// oracle read-back: the cookie jar as the `cookie` crate parses the header (the call leptos-use makes)
fn jar_readback(header: &Option<String>) -> String {
    match header {
        None => "-".to_string(),
        Some(h) => {
            let v: Vec<String> = cookie::Cookie::split_parse_encoded(h.clone())
                .flatten()
                .map(|c| format!("{}:{}", hex(c.name()), hex(c.value())))
                .collect();
            format!("[{}]", v.join(","))
        }
    }
}
/// oracle read-back: the language list leptos-use derives from the header, each entry with icu_locid's parse
fn accept_readback(header: &Option<String>) -> String {
    let sig = leptos_use::use_locales_with_options(lang_opts(header.clone()));
    let v: Vec<String> = sig
        .get_untracked()
        .iter()
        .map(|s| {
            let p = icu_locid::LanguageIdentifier::try_from_bytes(s.as_bytes()).map(|l| fields(&l)).unwrap_or_else(|_| "!".to_string());
            format!("{}:{}", hex(s), p)
        })
        .collect();
    format!("[{}]", v.join(","))
}

fn main_options(
    enable: Option<bool>,
    name: Option<String>,
    cookie: Option<String>,
    accept: Option<String>,
    log: Log,
) -> I18nContextOptions<'static, Locale> {
    let mut o = I18nContextOptions::<Locale>::default().cookie_options(cookie_opts(cookie, log)).ssr_lang_header_getter(lang_opts(accept));
    if let Some(e) = enable {
        o = o.enable_cookie(e);
    }
    if let Some(n) = name {
        o = o.cookie_name(Cow::Owned(n));
    }
    o
}

async fn flush() {
    for _ in 0..12 {
        any_spawner::Executor::tick().await;
        tokio::task::yield_now().await;
    }
}

// ------------------------------------------------------------------ C15

/// `L <init_i18n_context_with_options → get_locale_untracked>|R <resolve_locale_with_options>|T <locale after a flush>|J <jar>|A <accept list>|U <universe>`
async fn run15_main(f: &[&str]) -> String {
    let enable = match f[0] {
        "-" => None,
        "0" => Some(false),
        _ => Some(true),
    };
    let (name, cookie, accept) = (unhex(f[1]), unhex(f[2]), unhex(f[3]));
    let log: Log = Default::default();
    let r = catch_unwind(AssertUnwindSafe(|| {
        let ctx = init_i18n_context_with_options::<Locale>(main_options(enable, name.clone(), cookie.clone(), accept.clone(), log.clone()));
        let l = idx(ctx.get_locale_untracked());
        let r = idx(leptos_i18n::locale::resolve_locale_with_options::<Locale>(main_options(
            enable,
            name.clone(),
            cookie.clone(),
            accept.clone(),
            Default::default(),
        )));
        (ctx, l, r)
    }));
    let Ok((ctx, l, r)) = r else { return "PANIC".into() };
    flush().await;
    let t = idx(ctx.get_locale_untracked());
    format!("L {}|R {}|T {}|J {}|A {}|W {}", l, r, t, jar_readback(&cookie), accept_readback(&accept), log.lock().unwrap().join(","))
}

/// `L <sub-context locale>|T <after flush>|P <parent locale after flush or ->|J..|A..`
async fn run15_sub(f: &[&str], owner: &Owner) -> String {
    let parent = opt_idx(f[0]);
    let initial = opt_idx(f[1]);
    let (name, cookie) = (unhex(f[2]), unhex(f[3]));
    let accept_mode = f[4];
    let accept = if accept_mode == "N" { None } else { unhex(accept_mode) };
    let log: Log = Default::default();
    let r = catch_unwind(AssertUnwindSafe(|| {
        let pctx = parent.map(|p| {
            // a parent context whose own sources (no cookie, no header) give the default, then set to p
            let c = init_i18n_context_with_options::<Locale>(main_options(Some(false), None, None, None, Default::default()));
            c.set_locale(loc(p));
            provide_context(c);
            c
        });
        let child = owner.child();
        let sub = child.with(|| {
            let init = initial.map(|i| Signal::derive(move || loc(i)));
            let lo = if accept_mode == "N" { None } else { Some(lang_opts(accept.clone())) };
            init_i18n_subcontext_with_options::<Locale>(init, name.clone().map(Cow::Owned), Some(cookie_opts(cookie.clone(), log.clone())), lo)
        });
        (pctx, child, sub, idx(sub.get_locale_untracked()))
    }));
    let Ok((pctx, _child, sub, l)) = r else { return "PANIC".into() };
    flush().await;
    let t = idx(sub.get_locale_untracked());
    let p = pctx.map(|c| idx(c.get_locale_untracked()).to_string()).unwrap_or("-".into());
    format!("L {}|T {}|P {}|J {}|A {}|W {}", l, t, p, jar_readback(&cookie), accept_readback(&accept), log.lock().unwrap().join(","))
}

// ------------------------------------------------------------------ C16

type Render = Box<dyn Fn() -> String>;

struct Holder<T> {
    i18n: T,
}
impl<T: Copy> Holder<T> {
    fn get(&self) -> T {
        self.i18n
    }
}
fn idf<T>(x: T) -> T {
    x
}

struct Handle {
    ctx: usize,
    /// the owner under which accessors of this handle are created and rendered (where `use_i18n()` is evaluated): for a
    /// handle obtained by a component's `use_i18n()` the owner of that component, else (None) the owner of the context
    owner: Option<Owner>,
    get: Box<dyn Fn() -> Locale>,
    get_tracked: Box<dyn Fn() -> Locale>,
    set: Box<dyn Fn(Locale)>,
    set_untracked: Box<dyn Fn(Locale)>,
    scope: Box<dyn Fn(usize) -> Option<Handle>>,
    /// creates one accessor of this handle, flavour = (macro, kind of the first macro argument, with interpolation arguments);
    /// the result renders it (a `t!`-like view closure is created once here and called + rendered to html on every render,
    /// a `t_string!`/`t_display!`-like call is re-evaluated on every render)
    /// the fourth argument is the payload of the plural / format macros (count index; formatter family * 4 + value index)
    accessor: Box<dyn Fn(usize, usize, usize, usize) -> Option<Render>>,
}

fn html(v: impl IntoView) -> String {
    v.into_view().to_html()
}

// ---- payloads of the plural and format accessors, and the fixed-locale oracle tables (td_plural!, td_format!, ..)
const COUNTS: [u64; 8] = [0, 1, 2, 3, 5, 11, 21, 100];
const FORMS: [&str; 6] = ["zero", "one", "two", "few", "many", "other"];
const NUMS: [f64; 3] = [2000.5, 1234567.891, 0.5];
const DATES: [(i32, u8, u8); 2] = [(2024, 3, 5), (1999, 12, 31)];
const LISTS: [&[&str]; 2] = [&["a", "b", "c"], &["x", "y"]];
/// number of values of each formatter family (0 number, 1 date, 2 list)
const FAMILY_VALUES: [usize; 3] = [3, 2, 2];

type IcuDate = leptos_i18n::reexports::icu::calendar::Date<leptos_i18n::reexports::icu::calendar::AnyCalendar>;
fn num_of(i: usize) -> f64 {
    NUMS[i % NUMS.len()]
}
fn date_of(i: usize) -> IcuDate {
    let (y, m, d) = DATES[i % DATES.len()];
    leptos_i18n::reexports::icu::calendar::Date::try_new_iso_date(y, m, d).unwrap().to_any()
}
fn list_of(i: usize) -> Vec<&'static str> {
    LISTS[i % LISTS.len()].to_vec()
}

/// `$mac!(<first argument tokens>, count = .., every form => its name)`
macro_rules! pl {
    ($mac:ident, $n:ident; $($e:tt)+) => {
        $mac!($($e)+, count = move || $n, zero => "zero", one => "one", two => "two", few => "few", many => "many", _ => "other")
    };
}
/// `$mac!(<first argument tokens>, <value>, formatter: ..)`, one formatter per family; view flavours take the value as a closure
macro_rules! fm {
    (view, 0, $mac:ident, $v:ident; $($e:tt)+) => { $mac!($($e)+, move || num_of($v), formatter: number) };
    (view, 1, $mac:ident, $v:ident; $($e:tt)+) => { $mac!($($e)+, move || date_of($v), formatter: date(date_length: long)) };
    (view, 2, $mac:ident, $v:ident; $($e:tt)+) => { $mac!($($e)+, move || list_of($v), formatter: list(list_type: and; list_style: wide)) };
    (string, 0, $mac:ident, $v:ident; $($e:tt)+) => { $mac!($($e)+, num_of($v), formatter: number) };
    (string, 1, $mac:ident, $v:ident; $($e:tt)+) => { $mac!($($e)+, &date_of($v), formatter: date(date_length: long)) };
    (string, 2, $mac:ident, $v:ident; $($e:tt)+) => { $mac!($($e)+, list_of($v), formatter: list(list_type: and; list_style: wide)) };
}

struct Tables {
    /// [rule: 0 cardinal, 1 ordinal][locale][count index] -> form name, by td_plural! / td_plural_ordinal!
    plural: Vec<Vec<Vec<String>>>,
    /// [family][value][locale] -> html of the view of td_format!
    fmt_view: Vec<Vec<Vec<String>>>,
    /// the same by td_format_string! (td_format_display! is asserted to give the same text)
    fmt_str: Vec<Vec<Vec<String>>>,
}

fn tables() -> &'static Tables {
    static T: std::sync::OnceLock<Tables> = std::sync::OnceLock::new();
    T.get_or_init(|| {
        let locs = Locale::get_all();
        let mut plural = vec![vec![], vec![]];
        for l in locs.iter().copied() {
            plural[0].push(COUNTS.iter().copied().map(|n| pl!(td_plural, n; l).to_string()).collect::<Vec<_>>());
            plural[1].push(COUNTS.iter().copied().map(|n| pl!(td_plural_ordinal, n; l).to_string()).collect::<Vec<_>>());
        }
        let (mut fmt_view, mut fmt_str) = (vec![], vec![]);
        macro_rules! family {
            ($f:tt) => {{
                let (mut fv, mut fs) = (vec![], vec![]);
                for v in 0..FAMILY_VALUES[$f] {
                    let (mut rv, mut rs) = (vec![], vec![]);
                    for l in locs.iter().copied() {
                        let view = fm!(view, $f, td_format, v; l);
                        rv.push(html(view()));
                        let s = fm!(string, $f, td_format_string, v; l).to_string();
                        let d = fm!(string, $f, td_format_display, v; l).to_string();
                        rs.push(if s == d { s } else { format!("STRING/DISPLAY DIFFER {} / {}", s, d) });
                    }
                    fv.push(rv);
                    fs.push(rs);
                }
                fmt_view.push(fv);
                fmt_str.push(fs);
            }};
        }
        family!(0);
        family!(1);
        family!(2);
        Tables { plural, fmt_view, fmt_str }
    })
}

/// one line: `P<rule>:<locale>:<count index>=<form index>`, `V<family>:<value>:<locale>=<hex html>`, `S..=<hex text>`
fn tables_line() -> String {
    let t = tables();
    let mut out = vec![];
    for (r, tr) in t.plural.iter().enumerate() {
        for (l, tl) in tr.iter().enumerate() {
            for (c, f) in tl.iter().enumerate() {
                out.push(format!("P{}:{}:{}={}", r, l, c, FORMS.iter().position(|x| x == f).map(|x| x.to_string()).unwrap_or("9".into())));
            }
        }
    }
    for (tag, tb) in [("V", &t.fmt_view), ("S", &t.fmt_str)] {
        for (f, tf) in tb.iter().enumerate() {
            for (v, tv) in tf.iter().enumerate() {
                for (l, s) in tv.iter().enumerate() {
                    out.push(format!("{}{}:{}:{}={}", tag, f, v, l, hex(s)));
                }
            }
        }
    }
    format!("T {}", out.join(" "))
}

/// what a rendering is printed as: one digit
///   - `t!` family: the locale index written at the end of the translation;
///   - plural macros: the index of the form name;
///   - format macros: the least locale index whose fixed-locale rendering of the same value is this text (9: none)
fn digit_of(m: usize, p: usize, s: &str) -> String {
    let class = |row: &Vec<String>| row.iter().position(|x| x == s).map(|x| x.to_string()).unwrap_or("9".into());
    match m {
        0..=8 => locale_of_text(s),
        9..=12 => FORMS.iter().position(|x| *x == s).map(|x| x.to_string()).unwrap_or("9".into()),
        13 | 14 => class(&tables().fmt_view[p / 4][p % 4]),
        _ => class(&tables().fmt_str[p / 4][p % 4]),
    }
}

/// view flavours: the closure the macro returns is created now, called at every rendering;
/// string/display flavours: the macro call is evaluated at every rendering
macro_rules! wrap {
    (view, $call:expr) => {{
        let v = $call;
        Some(Box::new(move || v().to_html()) as Render)
    }};
    (string, $call:expr) => {
        Some(Box::new(move || $call.to_string()) as Render)
    };
    // `t_plural!`: the closure the macro returns is created now, called at every rendering
    (closure, $call:expr) => {{
        let v = $call;
        Some(Box::new(move || v().to_string()) as Render)
    }};
    // `t_format!` / `tu_format!`: the same, the result is a view
    (fview, $call:expr) => {{
        let v = $call;
        Some(Box::new(move || html(v())) as Render)
    }};
}

/// the macros over a payload (`pl!` plural macros, `fm!` format macros) for every kind of context expression (as `ctx_arms`)
macro_rules! payload_arms {
    ($out:ident, $e:expr, $c:ident, $cb:ident [$($args:tt)*]; $k:ident $kn:ident [$($full:tt)+] [$($fulln:tt)+] [$($sc:tt)+] $sk:ident $skn:ident [$($us:tt)+] $uk:ident $ukn:ident) => {{
        let holder = Holder { i18n: $c };
        match $e {
            0 => wrap!($out, $cb!($($args)*; $c)),
            1 => wrap!($out, $cb!($($args)*; use_i18n())),
            2 => wrap!($out, $cb!($($args)*; $($sc)+)),
            3 => wrap!($out, $cb!($($args)*; $($us)+)),
            4 => wrap!($out, $cb!($($args)*; holder.i18n)),
            5 => {
                let r: &'static _ = Box::leak(Box::new($c));
                wrap!($out, $cb!($($args)*; *r))
            }
            6 => wrap!($out, $cb!($($args)*; { $c })),
            7 => wrap!($out, $cb!($($args)*; ($c))),
            8 => wrap!($out, $cb!($($args)*; holder.get())),
            9 => wrap!($out, $cb!($($args)*; idf($c))),
            _ => None,
        }
    }};
}

/// the accessor macros that take a context (`t!`, `tu!`, `t_string!`, `tu_string!`, `t_display!`, `tu_display!`), for
/// every kind of context expression:
/// 0 bound identifier, 1 `use_i18n()`, 2 inline `scope_i18n!(..)`, 3 inline `use_i18n_scoped!(..)`, 4 struct field,
/// 5 deref of a reference, 6 block, 7 parenthesised, 8 method call, 9 generic function call
macro_rules! ctx_arms {
    ($out:ident, $mac:ident, $e:expr, $i:expr, $c:ident; $k:ident $kn:ident [$($full:tt)+] [$($fulln:tt)+] [$($sc:tt)+] $sk:ident $skn:ident [$($us:tt)+] $uk:ident $ukn:ident) => {{
        let holder = Holder { i18n: $c };
        match ($e, $i) {
            (0, 0) => wrap!($out, $mac!($c, $k)),
            (0, _) => wrap!($out, $mac!($c, $kn, n = "x")),
            (1, 0) => wrap!($out, $mac!(use_i18n(), $($full)+)),
            (1, _) => wrap!($out, $mac!(use_i18n(), $($fulln)+, n = "x")),
            (2, 0) => wrap!($out, $mac!($($sc)+, $sk)),
            (2, _) => wrap!($out, $mac!($($sc)+, $skn, n = "x")),
            (3, 0) => wrap!($out, $mac!($($us)+, $uk)),
            (3, _) => wrap!($out, $mac!($($us)+, $ukn, n = "x")),
            (4, 0) => wrap!($out, $mac!(holder.i18n, $k)),
            (4, _) => wrap!($out, $mac!(holder.i18n, $kn, n = "x")),
            (5, 0) => {
                let r: &'static _ = Box::leak(Box::new($c));
                wrap!($out, $mac!(*r, $k))
            }
            (5, _) => {
                let r: &'static _ = Box::leak(Box::new($c));
                wrap!($out, $mac!(*r, $kn, n = "x"))
            }
            (6, 0) => wrap!($out, $mac!({ $c }, $k)),
            (6, _) => wrap!($out, $mac!({ $c }, $kn, n = "x")),
            (7, 0) => wrap!($out, $mac!(($c), $k)),
            (7, _) => wrap!($out, $mac!(($c), $kn, n = "x")),
            (8, 0) => wrap!($out, $mac!(holder.get(), $k)),
            (8, _) => wrap!($out, $mac!(holder.get(), $kn, n = "x")),
            (9, 0) => wrap!($out, $mac!(idf($c), $k)),
            (9, _) => wrap!($out, $mac!(idf($c), $kn, n = "x")),
            _ => None,
        }
    }};
}

/// the accessor macros that take a locale (`td!`, `td_string!`, `td_display!`); the locale expression is
/// 0 a `Locale` value bound when the accessor is created (frozen by construction), 1 `use_i18n().get_locale()`,
/// 2 `scope_locale!(ctx.get_locale(), sub)`, 3 `use_i18n().get_locale_untracked()`, 4 `holder.i18n.get_locale()`,
/// 5 `(*r).get_locale()`, 6 `{ ctx.get_locale() }`, 7 `(ctx.get_locale())`, 8 `ctx.get_locale()`,
/// 9 `idf(ctx.get_locale_untracked())`
macro_rules! loc_arms {
    ($out:ident, $mac:ident, $e:expr, $i:expr, $c:ident; $k:ident $kn:ident [$($full:tt)+] [$($fulln:tt)+] [$($sc:tt)+] $sk:ident $skn:ident [$($us:tt)+] $uk:ident $ukn:ident) => {{
        let holder = Holder { i18n: $c };
        match ($e, $i) {
            (0, 0) => {
                let l = $c.get_locale_untracked();
                wrap!($out, $mac!(l, $($full)+))
            }
            (0, _) => {
                let l = $c.get_locale_untracked();
                wrap!($out, $mac!(l, $($fulln)+, n = "x"))
            }
            (1, 0) => wrap!($out, $mac!(use_i18n().get_locale(), $($full)+)),
            (1, _) => wrap!($out, $mac!(use_i18n().get_locale(), $($fulln)+, n = "x")),
            (2, 0) => wrap!($out, $mac!(scope_locale!($c.get_locale(), sub), inner)),
            (2, _) => wrap!($out, $mac!(scope_locale!($c.get_locale(), sub), inner_n, n = "x")),
            (3, 0) => wrap!($out, $mac!(use_i18n().get_locale_untracked(), $($full)+)),
            (3, _) => wrap!($out, $mac!(use_i18n().get_locale_untracked(), $($fulln)+, n = "x")),
            (4, 0) => wrap!($out, $mac!(holder.i18n.get_locale(), $($full)+)),
            (4, _) => wrap!($out, $mac!(holder.i18n.get_locale(), $($fulln)+, n = "x")),
            (5, 0) => {
                let r: &'static _ = Box::leak(Box::new($c));
                wrap!($out, $mac!((*r).get_locale(), $($full)+))
            }
            (5, _) => {
                let r: &'static _ = Box::leak(Box::new($c));
                wrap!($out, $mac!((*r).get_locale(), $($fulln)+, n = "x"))
            }
            (6, 0) => wrap!($out, $mac!({ $c.get_locale() }, $($full)+)),
            (6, _) => wrap!($out, $mac!({ $c.get_locale() }, $($fulln)+, n = "x")),
            (7, 0) => wrap!($out, $mac!(($c.get_locale()), $($full)+)),
            (7, _) => wrap!($out, $mac!(($c.get_locale()), $($fulln)+, n = "x")),
            (8, 0) => wrap!($out, $mac!($c.get_locale(), $($full)+)),
            (8, _) => wrap!($out, $mac!($c.get_locale(), $($fulln)+, n = "x")),
            (9, 0) => wrap!($out, $mac!(idf($c.get_locale_untracked()), $($full)+)),
            (9, _) => wrap!($out, $mac!(idf($c.get_locale_untracked()), $($fulln)+, n = "x")),
            _ => None,
        }
    }};
}

macro_rules! mk_handle {
    ($id:expr, $ctx:ident, $scope:expr; $($lv:tt)+) => {{
        let id: usize = $id;
        Handle {
            ctx: id,
            owner: None,
            get: Box::new(move || $ctx.get_locale_untracked()),
            get_tracked: Box::new(move || $ctx.get_locale()),
            set: Box::new(move |l| $ctx.set_locale(l)),
            set_untracked: Box::new(move |l| $ctx.set_locale_untracked(l)),
            scope: Box::new($scope),
            accessor: Box::new(move |m: usize, e: usize, i: usize, p: usize| -> Option<Render> {
                let n = COUNTS[p % COUNTS.len()];
                let v = p % 4;
                match m {
                    0 => ctx_arms!(view, t, e, i, $ctx; $($lv)+),
                    1 => ctx_arms!(view, tu, e, i, $ctx; $($lv)+),
                    2 => ctx_arms!(string, t_string, e, i, $ctx; $($lv)+),
                    3 => ctx_arms!(string, tu_string, e, i, $ctx; $($lv)+),
                    4 => ctx_arms!(string, t_display, e, i, $ctx; $($lv)+),
                    5 => ctx_arms!(string, tu_display, e, i, $ctx; $($lv)+),
                    6 => loc_arms!(view, td, e, i, $ctx; $($lv)+),
                    7 => loc_arms!(string, td_string, e, i, $ctx; $($lv)+),
                    8 => loc_arms!(string, td_display, e, i, $ctx; $($lv)+),
                    9 => payload_arms!(closure, e, $ctx, pl [t_plural, n]; $($lv)+),
                    10 => payload_arms!(string, e, $ctx, pl [tu_plural, n]; $($lv)+),
                    11 => payload_arms!(closure, e, $ctx, pl [t_plural_ordinal, n]; $($lv)+),
                    12 => payload_arms!(string, e, $ctx, pl [tu_plural_ordinal, n]; $($lv)+),
                    13 | 14 => match (m, p / 4) {
                        (13, 0) => payload_arms!(fview, e, $ctx, fm [view, 0, t_format, v]; $($lv)+),
                        (13, 1) => payload_arms!(fview, e, $ctx, fm [view, 1, t_format, v]; $($lv)+),
                        (13, 2) => payload_arms!(fview, e, $ctx, fm [view, 2, t_format, v]; $($lv)+),
                        (14, 0) => payload_arms!(fview, e, $ctx, fm [view, 0, tu_format, v]; $($lv)+),
                        (14, 1) => payload_arms!(fview, e, $ctx, fm [view, 1, tu_format, v]; $($lv)+),
                        (14, 2) => payload_arms!(fview, e, $ctx, fm [view, 2, tu_format, v]; $($lv)+),
                        _ => None,
                    },
                    15..=18 => match (m, p / 4) {
                        (15, 0) => payload_arms!(string, e, $ctx, fm [string, 0, t_format_string, v]; $($lv)+),
                        (15, 1) => payload_arms!(string, e, $ctx, fm [string, 1, t_format_string, v]; $($lv)+),
                        (15, 2) => payload_arms!(string, e, $ctx, fm [string, 2, t_format_string, v]; $($lv)+),
                        (16, 0) => payload_arms!(string, e, $ctx, fm [string, 0, tu_format_string, v]; $($lv)+),
                        (16, 1) => payload_arms!(string, e, $ctx, fm [string, 1, tu_format_string, v]; $($lv)+),
                        (16, 2) => payload_arms!(string, e, $ctx, fm [string, 2, tu_format_string, v]; $($lv)+),
                        (17, 0) => payload_arms!(string, e, $ctx, fm [string, 0, t_format_display, v]; $($lv)+),
                        (17, 1) => payload_arms!(string, e, $ctx, fm [string, 1, t_format_display, v]; $($lv)+),
                        (17, 2) => payload_arms!(string, e, $ctx, fm [string, 2, t_format_display, v]; $($lv)+),
                        (18, 0) => payload_arms!(string, e, $ctx, fm [string, 0, tu_format_display, v]; $($lv)+),
                        (18, 1) => payload_arms!(string, e, $ctx, fm [string, 1, tu_format_display, v]; $($lv)+),
                        (18, 2) => payload_arms!(string, e, $ctx, fm [string, 2, tu_format_display, v]; $($lv)+),
                        _ => None,
                    },
                    _ => None,
                }
            }),
        }
    }};
}

fn root_handle(id: usize, ctx: I18nContext<Locale>) -> Handle {
    mk_handle!(id, ctx, move |id| {
        let c1 = scope_i18n!(ctx, sub);
        Some(mk_handle!(id, c1, move |id| {
            let c2 = scope_i18n!(c1, deep);
            Some(mk_handle!(id, c2, move |_| None;
                leaf leaf_n [sub.deep.leaf] [sub.deep.leaf_n] [scope_i18n!(use_i18n(), sub.deep)] leaf leaf_n [use_i18n_scoped!(sub.deep)] leaf leaf_n))
        };
            inner inner_n [sub.inner] [sub.inner_n] [scope_i18n!(c1, deep)] leaf leaf_n [use_i18n_scoped!(sub)] inner inner_n))
    };
        hello hello_n [hello] [hello_n] [scope_i18n!(ctx, sub)] inner inner_n [use_i18n_scoped!(sub)] inner inner_n)
}

fn locale_of_text(s: &str) -> String {
    match s.rsplit_once('@') {
        Some((_, n)) if n.len() == 1 => n.to_string(),
        _ => format!("?{}", hex(s)),
    }
}

/// flavour number = macro * 32 + expression kind * 2 + (1 when interpolation arguments are given)
fn flavour(n: &str) -> (usize, usize, usize) {
    let n: usize = n.parse().unwrap();
    (n / 32, (n % 32) / 2, n % 2)
}

// ---- component-level providers: a forest of `<Probe/>` and `<I18nSubContextProvider>` rendered natively (SSR)
#[derive(Clone)]
enum Node {
    Lookup,
    Sub { wire: Option<usize>, name: Option<String>, children: Vec<Node> },
}

/// `L` | `P<signal idx|->_<cookie name hex|->[<forest>]`, nodes separated by `.`
fn parse_forest(b: &[u8], i: &mut usize) -> Vec<Node> {
    let mut out = vec![];
    loop {
        match b.get(*i) {
            Some(b'L') => {
                *i += 1;
                out.push(Node::Lookup);
            }
            Some(b'P') => {
                *i += 1;
                let st = *i;
                while b[*i] != b'[' {
                    *i += 1;
                }
                let head = std::str::from_utf8(&b[st..*i]).unwrap();
                let (w, n) = head.split_once('_').unwrap();
                *i += 1;
                let children = parse_forest(b, i);
                assert_eq!(b[*i], b']');
                *i += 1;
                out.push(Node::Sub { wire: opt_idx(w), name: unhex(n), children });
            }
            _ => {}
        }
        if b.get(*i) == Some(&b'.') {
            *i += 1;
        } else {
            return out;
        }
    }
}

/// what rendering records, in order
enum Ev {
    /// a sub-context provider was reached: its Set-Cookie log
    NewCtx(Log),
    /// a component called `use_i18n()`: what it got and the owner it ran under
    Probe(I18nContext<Locale>, Owner),
}
type Reg = Arc<Mutex<Vec<Ev>>>;

#[derive(Clone)]
struct Env {
    reg: Reg,
    signals: Vec<RwSignal<Locale>>,
    cookie: Option<String>,
    accept: Option<String>,
}

/// a component that looks the context up
#[component]
fn Probe(reg: Reg) -> impl IntoView {
    let i18n = use_i18n();
    reg.lock().unwrap().push(Ev::Probe(i18n, Owner::current().unwrap()));
    view! { <span>{t!(i18n, hello)}</span> }
}

/// the nodes one after the other, as sibling components; every provider gets a `<Probe/>` as first child
fn render_forest(nodes: Vec<Node>, env: Env) -> AnyView {
    nodes
        .into_iter()
        .map(|n| match n {
            Node::Lookup => view! { <Probe reg=env.reg.clone() /> }.into_any(),
            Node::Sub { wire, name, children } => {
                let log: Log = Default::default();
                env.reg.lock().unwrap().push(Ev::NewCtx(log.clone()));
                let (e2, reg) = (env.clone(), env.reg.clone());
                let (co, lo) = (cookie_opts(env.cookie.clone(), log), lang_opts(env.accept.clone()));
                let sig = wire.map(|s| env.signals[s]);
                match (sig, name) {
                    (Some(sig), Some(name)) => view! {
                        <I18nSubContextProvider initial_locale=sig cookie_name=name cookie_options=co ssr_lang_header_getter=lo>
                            <Probe reg=reg />
                            {render_forest(children, e2)}
                        </I18nSubContextProvider>
                    }
                    .into_any(),
                    (Some(sig), None) => view! {
                        <I18nSubContextProvider initial_locale=sig cookie_options=co ssr_lang_header_getter=lo>
                            <Probe reg=reg />
                            {render_forest(children, e2)}
                        </I18nSubContextProvider>
                    }
                    .into_any(),
                    (None, Some(name)) => view! {
                        <I18nSubContextProvider cookie_name=name cookie_options=co ssr_lang_header_getter=lo>
                            <Probe reg=reg />
                            {render_forest(children, e2)}
                        </I18nSubContextProvider>
                    }
                    .into_any(),
                    (None, None) => view! {
                        <I18nSubContextProvider cookie_options=co ssr_lang_header_getter=lo>
                            <Probe reg=reg />
                            {render_forest(children, e2)}
                        </I18nSubContextProvider>
                    }
                    .into_any(),
                }
            }
        })
        .collect::<Vec<_>>()
        .into_any()
}

struct Watcher {
    cell: Arc<Mutex<String>>,
    _eff: RenderEffect<()>,
}

enum Frozen {
    Acc(Owner, Render, Render),
    Watch(Watcher),
}

struct World {
    owners: Vec<Owner>,
    logs: Vec<Log>,
    handles: Vec<Handle>,
    /// (owner of the handle, accessor a, accessor b)
    accessors: Vec<(Owner, Render, Render)>,
    watchers: Vec<Watcher>,
    /// observers the model expects never to change: accessors over a `Locale` value bound at creation, effects that
    /// only read untracked
    frozen: Vec<Frozen>,
    signals: Vec<RwSignal<Locale>>,
    /// the rendered component trees (kept alive: they own the child owners of the providers)
    views: Vec<AnyView>,
}

impl World {
    /// registers what a rendering recorded: a provider's context gets the next context index (its owner = the owner of the
    /// probe placed first inside it), every probe becomes a handle
    fn register(&mut self, reg: &Reg) {
        let evs: Vec<Ev> = std::mem::take(&mut *reg.lock().unwrap());
        let mut pending: Option<Log> = None;
        for ev in evs {
            match ev {
                Ev::NewCtx(log) => pending = Some(log),
                Ev::Probe(i18n, owner) => {
                    let id = match pending.take() {
                        Some(log) => {
                            self.owners.push(owner.clone());
                            self.logs.push(log);
                            self.owners.len() - 1
                        }
                        None => usize::MAX,
                    };
                    let mut h = root_handle(id, i18n);
                    h.owner = Some(owner);
                    self.handles.push(h);
                }
            }
        }
    }

    /// `h<locales of all handles (untracked get, tracked get)>/a<accessor pairs>/w<watchers>/c<per context Set-Cookie log>/z<frozen observers>`
    /// every accessor is rendered under the owner of its context (where `use_i18n()` finds that context)
    fn snapshot(&self) -> String {
        let h: Vec<String> = self.handles.iter().map(|h| format!("{}{}", idx((h.get)()), idx((h.get_tracked)()))).collect();
        let pair = |c: &Owner, a: &Render, b: &Render| c.with(|| format!("{}{}", a(), b()));
        let a: Vec<String> = self.accessors.iter().map(|(c, a, b)| pair(c, a, b)).collect();
        let w: Vec<String> = self.watchers.iter().map(|w| w.cell.lock().unwrap().clone()).collect();
        let c: Vec<String> = self.logs.iter().map(|l| l.lock().unwrap().iter().map(|x| x.rsplit_once('=').map(|p| p.1.to_string()).unwrap_or_default()).collect::<Vec<_>>().join("+")).collect();
        let z: Vec<String> = self
            .frozen
            .iter()
            .map(|f| match f {
                Frozen::Acc(c, a, b) => pair(c, a, b),
                Frozen::Watch(w) => {
                    let d = w.cell.lock().unwrap().clone();
                    format!("{}{}", d, d)
                }
            })
            .collect();
        format!("h{}/a{}/w{}/c{}/z{}", h.join("."), a.join("."), w.join("."), c.join("."), z.join("."))
    }

    /// one accessor of handle `h`, created under the owner of its context
    fn owner_of(&self, h: usize) -> Owner {
        let hd = &self.handles[h];
        hd.owner.clone().unwrap_or_else(|| self.owners[hd.ctx].clone())
    }

    /// the result renders the accessor and prints the rendering as one digit (`digit_of`)
    fn make(&self, h: usize, fl: &str, p: &str) -> Render {
        let hd = &self.handles[h];
        let (m, e, i) = flavour(fl);
        let p: usize = p.parse().unwrap();
        let raw = self.owner_of(h).with(|| (hd.accessor)(m, e, i, p)).expect("unknown flavour");
        Box::new(move || digit_of(m, p, &raw()))
    }

    /// a render effect showing one accessor of handle `h` (created before and outside the effect, rendered inside)
    fn mount(&self, h: usize, fl: &str, p: &str) -> Watcher {
        let s = self.make(h, fl, p);
        let cell: Arc<Mutex<String>> = Default::default();
        let c2 = cell.clone();
        let eff = self.owner_of(h).with(|| RenderEffect::new(move |_| *c2.lock().unwrap() = s()));
        Watcher { cell, _eff: eff }
    }
}

/// ops (space separated):
///   `N<parent ctx>,<signal idx|->,<cookie name hex|->`  new sub-context below context `parent` (provided to its own child owner)
///   `I<l>` new initial-locale signal   `W<s>,<l>` write signal s
///   `S<h>,<l>` set_locale   `U<h>,<l>` set_locale_untracked   `C<h>` scope handle h (new handle)
///   `A<h>,<fa>,<fb>[,<pa>,<pb>]` create two accessors on handle h (flavours fa, fb: see `flavour`, `ctx_arms`, `loc_arms`,
///   `payload_arms`; payloads pa, pb of the plural / format macros: count index, formatter family * 4 + value index)
///   `Z<h>,<fa>,<fb>` the same, listed with the frozen observers
///   `M<h>,<f>[,<p>]` mount a render effect showing an accessor of flavour f of handle h   `Y<h>,<f>` the same, listed with the
///   frozen observers
///   `T<h>,<forest>` render a forest of components (`parse_forest`: lookups and `<I18nSubContextProvider>`s) under the
///   owner of handle h: every lookup becomes a new handle, every provider a new context (its first handle: the lookup placed
///   first inside it)
///   `G` no-op (just observe)   `F` flush (executor ticks until quiescent)
/// output: `snapshot` after context creation and after every op, joined by `;`
async fn run16(f: &[&str]) -> String {
    // 0 / 1: root context by init_i18n_context_with_options + provide_context; 2 / 3: by rendering <I18nContextProvider>
    let (enable, component_root) = (f[0] == "1" || f[0] == "3", f[0] == "2" || f[0] == "3");
    let (cookie, accept) = (unhex(f[1]), unhex(f[2]));
    let owner = Owner::current().unwrap();
    let mut w = World { owners: vec![], logs: vec![], handles: vec![], accessors: vec![], watchers: vec![], frozen: vec![], signals: vec![], views: vec![] };
    let mut out: Vec<String> = vec![];
    let log: Log = Default::default();
    if component_root {
        let reg: Reg = Default::default();
        let (r2, co, lo) = (reg.clone(), cookie_opts(cookie.clone(), log.clone()), lang_opts(accept.clone()));
        let r = catch_unwind(AssertUnwindSafe(|| {
            view! {
                <I18nContextProvider enable_cookie=enable cookie_options=co ssr_lang_header_getter=lo>
                    <Probe reg=r2 />
                </I18nContextProvider>
            }
            .into_any()
        }));
        let Ok(v) = r else { return "PANIC".into() };
        w.views.push(v);
        reg.lock().unwrap().insert(0, Ev::NewCtx(log));
        w.register(&reg);
        if w.handles.len() != 1 {
            return "PANIC".into();
        }
        w.handles[0].ctx = 0;
    } else {
    let r = catch_unwind(AssertUnwindSafe(|| {
        let ctx = init_i18n_context_with_options::<Locale>(main_options(Some(enable), None, cookie.clone(), accept.clone(), log.clone()));
        provide_context(ctx);
        ctx
    }));
    let Ok(ctx) = r else { return "PANIC".into() };
    w.owners.push(owner);
    w.logs.push(log);
    w.handles.push(root_handle(0, ctx));
    }
    out.push(w.snapshot());
    for op in &f[3..] {
        let (k, rest) = op.split_at(1);
        let a: Vec<&str> = rest.split(',').collect();
        if k == "F" {
            flush().await;
            let s1 = w.snapshot();
            flush().await;
            let s2 = w.snapshot();
            out.push(if s1 == s2 { s1 } else { format!("UNSTABLE {} -> {}", s1, s2) });
            continue;
        }
        let r = catch_unwind(AssertUnwindSafe(|| {
            match k {
                "N" => {
                    let p: usize = a[0].parse().unwrap();
                    let sig = opt_idx(a[1]).map(|s| w.signals[s]);
                    let name = unhex(a[2]);
                    let log: Log = Default::default();
                    let child = w.owners[p].child();
                    let sub = child.with(|| {
                        let s = init_i18n_subcontext_with_options::<Locale>(
                            sig.map(|s| s.into()),
                            name.map(Cow::Owned),
                            Some(cookie_opts(cookie.clone(), log.clone())),
                            Some(lang_opts(accept.clone())),
                        );
                        provide_context(s);
                        s
                    });
                    let id = w.owners.len();
                    w.owners.push(child);
                    w.logs.push(log);
                    w.handles.push(root_handle(id, sub));
                }
                "I" => w.signals.push(RwSignal::new(loc(a[0].parse().unwrap()))),
                "W" => w.signals[a[0].parse::<usize>().unwrap()].set(loc(a[1].parse().unwrap())),
                "S" => (w.handles[a[0].parse::<usize>().unwrap()].set)(loc(a[1].parse().unwrap())),
                "U" => (w.handles[a[0].parse::<usize>().unwrap()].set_untracked)(loc(a[1].parse().unwrap())),
                "C" => {
                    let h = &w.handles[a[0].parse::<usize>().unwrap()];
                    if let Some(mut n) = (h.scope)(h.ctx) {
                        n.owner = h.owner.clone();
                        w.handles.push(n);
                    }
                }
                "A" | "Z" => {
                    let h: usize = a[0].parse().unwrap();
                    let (pa, pb) = (a.get(3).copied().unwrap_or("0"), a.get(4).copied().unwrap_or("0"));
                    let (x, y) = (w.make(h, a[1], pa), w.make(h, a[2], pb));
                    let c = w.owner_of(h);
                    if k == "A" {
                        w.accessors.push((c, x, y));
                    } else {
                        w.frozen.push(Frozen::Acc(c, x, y));
                    }
                }
                "T" => {
                    // render a forest of components under the owner of handle h
                    let h: usize = a[0].parse().unwrap();
                    let forest = parse_forest(a[1].as_bytes(), &mut 0);
                    let reg: Reg = Default::default();
                    let env = Env { reg: reg.clone(), signals: w.signals.clone(), cookie: cookie.clone(), accept: accept.clone() };
                    let v = w.owner_of(h).with(|| render_forest(forest, env));
                    w.views.push(v);
                    w.register(&reg);
                }
                "M" | "Y" => {
                    let m = w.mount(a[0].parse().unwrap(), a[1], a.get(2).copied().unwrap_or("0"));
                    if k == "M" {
                        w.watchers.push(m);
                    } else {
                        w.frozen.push(Frozen::Watch(m));
                    }
                }
                _ => {}
            }
            w.snapshot()
        }));
        match r {
            Ok(s) => out.push(s),
            Err(_) => {
                out.push("PANIC".into());
                break;
            }
        }
    }
    out.join(";")
}

fn main() {
    std::panic::set_hook(Box::new(|_| {}));
    let rt = tokio::runtime::Builder::new_current_thread().build().unwrap();
    let local = tokio::task::LocalSet::new();
    local.block_on(&rt, async {
        let _ = any_spawner::Executor::init_tokio();
        let stdin = std::io::stdin();
        let mut o = std::io::stdout().lock();
        let u: Vec<String> = Locale::get_all().iter().map(|l| format!("{}:{}", hex(l.as_str()), fields(l.as_langid()))).collect();
        writeln!(o, "U {}", u.join(",")).unwrap();
        for line in stdin.lock().lines() {
            let line = line.unwrap();
            let f: Vec<&str> = line.split(' ').filter(|x| !x.is_empty()).collect();
            if f.is_empty() {
                continue;
            }
            let owner = Owner::new();
            owner.set();
            let res = match (f[0], f.get(1).copied()) {
                ("15", Some("M")) => run15_main(&f[2..]).await,
                ("15", Some("S")) => run15_sub(&f[2..], &owner).await,
                ("16", _) => run16(&f[1..]).await,
                ("17", _) => tables_line(),
                _ => "BAD-INPUT".to_string(),
            };
            writeln!(o, "{}", res).unwrap();
            drop(owner);
            flush().await;
        }
    });
}
