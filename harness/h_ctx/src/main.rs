//! Context harness (H4, properties C15 and C16): drives leptos_i18n's real `I18nContext` machinery natively.
//!
//! Build: `ssr` feature of leptos_i18n (cookies and Accept-Language come from injectable getters) together with
//! `reactive_graph/effects` (feature unification makes effects live), tokio current-thread runtime + LocalSet +
//! any_spawner. One process runs many scenarios, one per stdin line, each under a fresh `Owner`.
//!
//! Line formats (strings are lower-case hex of their UTF-8 bytes, `.` = empty string, `-` = None):
//!   `15 M <enable:0|1|-> <cookie_name|-> <cookie_header|-> <accept_header|->`
//!   `15 S <parent_locale_idx|-> <initial_idx|-> <cookie_name|-> <cookie_header|-> <accept:-|N(one: pass no options)|hex>`
//!   `16 <enable:0|1> <cookie_header|-> <accept_header|-> <op> <op> ...`   (ops: see `run16`)
//! Output: one line per scenario (see `run15_*`, `run16`), `PANIC` on a panic.
#![allow(clippy::type_complexity)]

use leptos::prelude::*;
use leptos_i18n::context::{
    init_i18n_context_with_options, init_i18n_subcontext_with_options, CookieOptions, I18nContextOptions,
    UseLocalesOptions,
};
use leptos_i18n::{I18nContext, Locale as _};
use std::borrow::Cow;
use std::io::{BufRead, Write};
use std::panic::{catch_unwind, AssertUnwindSafe};
use std::sync::{Arc, Mutex};

leptos_i18n::declare_locales! {
    interpolate_display,
    default: "en",
    locales: ["en", "fr", "fr-CA", "de", "pt-BR"],
    en: { hello: "hello@0", sub: { inner: "inner@0", deep: { leaf: "leaf@0" } } },
    fr: { hello: "hello@1", sub: { inner: "inner@1", deep: { leaf: "leaf@1" } } },
    fr_CA: { hello: "hello@2", sub: { inner: "inner@2", deep: { leaf: "leaf@2" } } },
    de: { hello: "hello@3", sub: { inner: "inner@3", deep: { leaf: "leaf@3" } } },
    pt_BR: { hello: "hello@4", sub: { inner: "inner@4", deep: { leaf: "leaf@4" } } },
}
use i18n::*;

fn idx(l: Locale) -> usize {
    Locale::get_all().iter().position(|x| *x == l).unwrap()
}
fn loc(i: usize) -> Locale {
    Locale::get_all()[i]
}
fn hex(s: &str) -> String {
    s.bytes().map(|b| format!("{:02x}", b)).collect()
}
fn unhex(s: &str) -> Option<String> {
    if s == "-" {
        return None;
    }
    if s == "." {
        return Some(String::new());
    }
    let b: Vec<u8> = (0..s.len() / 2).map(|i| u8::from_str_radix(&s[2 * i..2 * i + 2], 16).unwrap()).collect();
    Some(String::from_utf8(b).unwrap())
}
fn opt_idx(s: &str) -> Option<usize> {
    if s == "-" {
        None
    } else {
        Some(s.parse().unwrap())
    }
}

fn fields(l: &icu_locid::LanguageIdentifier) -> String {
    let lang = if l.language.is_empty() { String::new() } else { l.language.to_string() };
    let script = l.script.map(|s| s.to_string()).unwrap_or_default();
    let region = l.region.map(|s| s.to_string()).unwrap_or_default();
    let vars: Vec<String> = l.variants.iter().map(|v| v.to_string()).collect();
    format!("{}/{}/{}/{}", lang, script, region, vars.join("."))
}

type Log = Arc<Mutex<Vec<String>>>;

fn cookie_opts(header: Option<String>, log: Log) -> CookieOptions<Locale> {
    CookieOptions::default()
        .ssr_cookies_header_getter(move || header.clone())
        .ssr_set_cookie(move |c: &cookie::Cookie| log.lock().unwrap().push(format!("{}={}", c.name(), c.value())))
}
fn lang_opts(header: Option<String>) -> UseLocalesOptions {
    UseLocalesOptions::default().ssr_lang_header_getter(move || header.clone())
}

/// oracle read-back: the cookie jar as the `cookie` crate parses the header (the call leptos-use makes)
fn jar_readback(header: &Option<String>) -> String {
    match header {
        None => "-".to_string(),
        Some(h) => {
            let v: Vec<String> = cookie::Cookie::split_parse_encoded(h.clone())
                .flatten()
                .map(|c| format!("{}:{}", hex(c.name()), hex(c.value())))
                .collect();
            format!("[{}]", v.join(","))
        }
    }
}
/// oracle read-back: the language list leptos-use derives from the header, each entry with icu_locid's parse
fn accept_readback(header: &Option<String>) -> String {
    let sig = leptos_use::use_locales_with_options(lang_opts(header.clone()));
    let v: Vec<String> = sig
        .get_untracked()
        .iter()
        .map(|s| {
            let p = icu_locid::LanguageIdentifier::try_from_bytes(s.as_bytes()).map(|l| fields(&l)).unwrap_or_else(|_| "!".to_string());
            format!("{}:{}", hex(s), p)
        })
        .collect();
    format!("[{}]", v.join(","))
}

fn main_options(
    enable: Option<bool>,
    name: Option<String>,
    cookie: Option<String>,
    accept: Option<String>,
    log: Log,
) -> I18nContextOptions<'static, Locale> {
    let mut o = I18nContextOptions::<Locale>::default().cookie_options(cookie_opts(cookie, log)).ssr_lang_header_getter(lang_opts(accept));
    if let Some(e) = enable {
        o = o.enable_cookie(e);
    }
    if let Some(n) = name {
        o = o.cookie_name(Cow::Owned(n));
    }
    o
}

async fn flush() {
    for _ in 0..12 {
        any_spawner::Executor::tick().await;
        tokio::task::yield_now().await;
    }
}

// ------------------------------------------------------------------ C15

/// `L <init_i18n_context_with_options → get_locale_untracked>|R <resolve_locale_with_options>|T <locale after a flush>|J <jar>|A <accept list>|U <universe>`
async fn run15_main(f: &[&str]) -> String {
    let enable = match f[0] {
        "-" => None,
        "0" => Some(false),
        _ => Some(true),
    };
    let (name, cookie, accept) = (unhex(f[1]), unhex(f[2]), unhex(f[3]));
    let log: Log = Default::default();
    let r = catch_unwind(AssertUnwindSafe(|| {
        let ctx = init_i18n_context_with_options::<Locale>(main_options(enable, name.clone(), cookie.clone(), accept.clone(), log.clone()));
        let l = idx(ctx.get_locale_untracked());
        let r = idx(leptos_i18n::locale::resolve_locale_with_options::<Locale>(main_options(
            enable,
            name.clone(),
            cookie.clone(),
            accept.clone(),
            Default::default(),
        )));
        (ctx, l, r)
    }));
    let Ok((ctx, l, r)) = r else { return "PANIC".into() };
    flush().await;
    let t = idx(ctx.get_locale_untracked());
    format!("L {}|R {}|T {}|J {}|A {}|W {}", l, r, t, jar_readback(&cookie), accept_readback(&accept), log.lock().unwrap().join(","))
}

/// `L <sub-context locale>|T <after flush>|P <parent locale after flush or ->|J..|A..`
async fn run15_sub(f: &[&str], owner: &Owner) -> String {
    let parent = opt_idx(f[0]);
    let initial = opt_idx(f[1]);
    let (name, cookie) = (unhex(f[2]), unhex(f[3]));
    let accept_mode = f[4];
    let accept = if accept_mode == "N" { None } else { unhex(accept_mode) };
    let log: Log = Default::default();
    let r = catch_unwind(AssertUnwindSafe(|| {
        let pctx = parent.map(|p| {
            // a parent context whose own sources (no cookie, no header) give the default, then set to p
            let c = init_i18n_context_with_options::<Locale>(main_options(Some(false), None, None, None, Default::default()));
            c.set_locale(loc(p));
            provide_context(c);
            c
        });
        let child = owner.child();
        let sub = child.with(|| {
            let init = initial.map(|i| Signal::derive(move || loc(i)));
            let lo = if accept_mode == "N" { None } else { Some(lang_opts(accept.clone())) };
            init_i18n_subcontext_with_options::<Locale>(init, name.clone().map(Cow::Owned), Some(cookie_opts(cookie.clone(), log.clone())), lo)
        });
        (pctx, child, sub, idx(sub.get_locale_untracked()))
    }));
    let Ok((pctx, _child, sub, l)) = r else { return "PANIC".into() };
    flush().await;
    let t = idx(sub.get_locale_untracked());
    let p = pctx.map(|c| idx(c.get_locale_untracked()).to_string()).unwrap_or("-".into());
    format!("L {}|T {}|P {}|J {}|A {}|W {}", l, t, p, jar_readback(&cookie), accept_readback(&accept), log.lock().unwrap().join(","))
}

// ------------------------------------------------------------------ C16

struct Handle {
    ctx: usize,
    get: Box<dyn Fn() -> Locale>,
    get_tracked: Box<dyn Fn() -> Locale>,
    set: Box<dyn Fn(Locale)>,
    set_untracked: Box<dyn Fn(Locale)>,
    scope: Box<dyn Fn(usize) -> Option<Handle>>,
    /// creates the reactive accessors of this handle: (`t!` view closure rendered to html, `t_string!` re-evaluated)
    accessor: Box<dyn Fn() -> (Box<dyn Fn() -> String>, Box<dyn Fn() -> String>)>,
}

macro_rules! mk_handle {
    ($id:expr, $ctx:ident, $key:ident, $scope:expr) => {{
        let id: usize = $id;
        Handle {
            ctx: id,
            get: Box::new(move || $ctx.get_locale_untracked()),
            get_tracked: Box::new(move || $ctx.get_locale()),
            set: Box::new(move |l| $ctx.set_locale(l)),
            set_untracked: Box::new(move |l| $ctx.set_locale_untracked(l)),
            scope: Box::new($scope),
            accessor: Box::new(move || {
                let view = t!($ctx, $key);
                (Box::new(move || view().to_html()), Box::new(move || t_string!($ctx, $key).to_string()))
            }),
        }
    }};
}

fn root_handle(id: usize, ctx: I18nContext<Locale>) -> Handle {
    mk_handle!(id, ctx, hello, move |id| {
        let c1 = scope_i18n!(ctx, sub);
        Some(mk_handle!(id, c1, inner, move |id| {
            let c2 = scope_i18n!(c1, deep);
            Some(mk_handle!(id, c2, leaf, move |_| None))
        }))
    })
}

fn locale_of_text(s: &str) -> String {
    match s.rsplit_once('@') {
        Some((_, n)) if n.len() == 1 => n.to_string(),
        _ => format!("?{}", hex(s)),
    }
}

struct World {
    owners: Vec<Owner>,
    logs: Vec<Log>,
    handles: Vec<Handle>,
    accessors: Vec<(Box<dyn Fn() -> String>, Box<dyn Fn() -> String>)>,
    watchers: Vec<(Arc<Mutex<String>>, RenderEffect<()>)>,
    signals: Vec<RwSignal<Locale>>,
}

impl World {
    /// `h<locales of all handles (untracked get, tracked get)>/a<accessors (view,string)>/w<watchers>/c<per context Set-Cookie log>`
    fn snapshot(&self) -> String {
        let h: Vec<String> = self.handles.iter().map(|h| format!("{}{}", idx((h.get)()), idx((h.get_tracked)()))).collect();
        let a: Vec<String> = self.accessors.iter().map(|(v, s)| format!("{}{}", locale_of_text(&v()), locale_of_text(&s()))).collect();
        let w: Vec<String> = self.watchers.iter().map(|(c, _)| locale_of_text(&c.lock().unwrap())).collect();
        let c: Vec<String> = self.logs.iter().map(|l| l.lock().unwrap().iter().map(|x| x.rsplit_once('=').map(|p| p.1.to_string()).unwrap_or_default()).collect::<Vec<_>>().join("+")).collect();
        format!("h{}/a{}/w{}/c{}", h.join("."), a.join("."), w.join("."), c.join("."))
    }
}

/// ops (space separated):
///   `N<parent ctx>,<signal idx|->,<cookie name hex|->`  new sub-context below context `parent` (provided to its own child owner)
///   `I<l>` new initial-locale signal   `W<s>,<l>` write signal s
///   `S<h>,<l>` set_locale   `U<h>,<l>` set_locale_untracked   `C<h>` scope handle h (new handle)
///   `A<h>` create accessors on handle h   `M<h>` mount a render effect showing t_string! of handle h
///   `G` no-op (just observe)   `F` flush (executor ticks until quiescent)
/// output: `snapshot` after context creation and after every op, joined by `;`
async fn run16(f: &[&str]) -> String {
    let enable = f[0] == "1";
    let (cookie, accept) = (unhex(f[1]), unhex(f[2]));
    let owner = Owner::current().unwrap();
    let mut w = World { owners: vec![], logs: vec![], handles: vec![], accessors: vec![], watchers: vec![], signals: vec![] };
    let mut out: Vec<String> = vec![];
    let log: Log = Default::default();
    let r = catch_unwind(AssertUnwindSafe(|| {
        let ctx = init_i18n_context_with_options::<Locale>(main_options(Some(enable), None, cookie.clone(), accept.clone(), log.clone()));
        provide_context(ctx);
        ctx
    }));
    let Ok(ctx) = r else { return "PANIC".into() };
    w.owners.push(owner);
    w.logs.push(log);
    w.handles.push(root_handle(0, ctx));
    out.push(w.snapshot());
    for op in &f[3..] {
        let (k, rest) = op.split_at(1);
        let a: Vec<&str> = rest.split(',').collect();
        if k == "F" {
            flush().await;
            let s1 = w.snapshot();
            flush().await;
            let s2 = w.snapshot();
            out.push(if s1 == s2 { s1 } else { format!("UNSTABLE {} -> {}", s1, s2) });
            continue;
        }
        let r = catch_unwind(AssertUnwindSafe(|| match k {
            "N" => {
                let p: usize = a[0].parse().unwrap();
                let sig = opt_idx(a[1]).map(|s| w.signals[s]);
                let name = unhex(a[2]);
                let log: Log = Default::default();
                let child = w.owners[p].child();
                let sub = child.with(|| {
                    let s = init_i18n_subcontext_with_options::<Locale>(
                        sig.map(|s| s.into()),
                        name.map(Cow::Owned),
                        Some(cookie_opts(cookie.clone(), log.clone())),
                        Some(lang_opts(accept.clone())),
                    );
                    provide_context(s);
                    s
                });
                let id = w.owners.len();
                w.owners.push(child);
                w.logs.push(log);
                w.handles.push(root_handle(id, sub));
            }
            "I" => w.signals.push(RwSignal::new(loc(a[0].parse().unwrap()))),
            "W" => w.signals[a[0].parse::<usize>().unwrap()].set(loc(a[1].parse().unwrap())),
            "S" => (w.handles[a[0].parse::<usize>().unwrap()].set)(loc(a[1].parse().unwrap())),
            "U" => (w.handles[a[0].parse::<usize>().unwrap()].set_untracked)(loc(a[1].parse().unwrap())),
            "C" => {
                let h = &w.handles[a[0].parse::<usize>().unwrap()];
                if let Some(n) = (h.scope)(h.ctx) {
                    w.handles.push(n);
                }
            }
            "A" => {
                let acc = (w.handles[a[0].parse::<usize>().unwrap()].accessor)();
                w.accessors.push(acc);
            }
            "M" => {
                let h = &w.handles[a[0].parse::<usize>().unwrap()];
                let (_, s) = (h.accessor)();
                let cell: Arc<Mutex<String>> = Default::default();
                let c2 = cell.clone();
                let own = w.owners[h.ctx].clone();
                let eff = own.with(|| RenderEffect::new(move |_| *c2.lock().unwrap() = s()));
                w.watchers.push((cell, eff));
            }
            _ => {}
        }));
        if r.is_err() {
            out.push("PANIC".into());
            break;
        }
        out.push(w.snapshot());
    }
    out.join(";")
}

fn main() {
    std::panic::set_hook(Box::new(|_| {}));
    let rt = tokio::runtime::Builder::new_current_thread().build().unwrap();
    let local = tokio::task::LocalSet::new();
    local.block_on(&rt, async {
        let _ = any_spawner::Executor::init_tokio();
        let stdin = std::io::stdin();
        let mut o = std::io::stdout().lock();
        let u: Vec<String> = Locale::get_all().iter().map(|l| format!("{}:{}", hex(l.as_str()), fields(l.as_langid()))).collect();
        writeln!(o, "U {}", u.join(",")).unwrap();
        for line in stdin.lock().lines() {
            let line = line.unwrap();
            let f: Vec<&str> = line.split(' ').filter(|x| !x.is_empty()).collect();
            if f.is_empty() {
                continue;
            }
            let owner = Owner::new();
            owner.set();
            let res = match (f[0], f.get(1).copied()) {
                ("15", Some("M")) => run15_main(&f[2..]).await,
                ("15", Some("S")) => run15_sub(&f[2..], &owner).await,
                ("16", _) => run16(&f[1..]).await,
                _ => "BAD-INPUT".to_string(),
            };
            writeln!(o, "{}", res).unwrap();
            drop(owner);
            flush().await;
        }
    });
}
