//! Formatters in DEFAULTED keys (C18): a key that the requested locale does not define (absent, explicit `null`,
//! or reached through the `inherits` chain fr-CA -> fr) shows the template of the locale it falls back to, and
//! its `{{ v, formatter(args) }}` must still be formatted for the REQUESTED locale.
//!
//! Fixture: `leptos_i18n::load_locales!()` over this package's Cargo.toml metadata (default en; en, fr, fr-CA
//! inherits fr, ar, ja) and ./locales/*.json.  For every formatter family p in n c d t x l:
//!   p_only_en  defined by en only            p_inh   defined by en and fr, absent elsewhere
//!   p_null     en and fr; null in fr-CA, ja; absent in ar      p_all   defined by every locale (control)
//! Every template is `<MARK>[{{ v, <formatter> }}]<mark>` with the mark of the locale that wrote it (EN FR CA AR JA)
//! and options that differ between en, fr and the others.
//!
//! Output (appended to mode `rt`):
//!   `X <key> <requested locale> <value id> <flavour> <out>`   flavour s = td_string!, d = td_display!, h = td!(..).to_html()
//!   `J <key> <source locale> <requested locale> <value id> <out>`   for every locale that defines the key: its literal
//!        parts around a direct ICU4X call for the REQUESTED locale with the options the parser selects for that template
use crate::m_parse::cps;
use crate::m_rt::{date, datetime, dec, guard, html, icu_direct, n_values, time, value_for, Num, Tm, Val, DATES, LISTS, NUMS, TIMES};
use leptos::prelude::*;
use leptos_i18n::formatting::IntoFixedDecimal;
use leptos_i18n::{td, td_display, td_string};
use leptos_i18n_parser::parse_locales::{
    parsed_value::{Literal, ParsedValue},
    ForeignKeysPaths,
};
use leptos_i18n_parser::utils::formatter as pf;
use leptos_i18n_parser::utils::{Key, KeyPath};
use std::io::Write;

pub mod gen {
    leptos_i18n::load_locales!();
}
use gen::i18n::Locale;

pub const LOCALES: &[(&str, Locale)] =
    &[("en", Locale::en), ("fr", Locale::fr), ("fr-CA", Locale::fr_CA), ("ar", Locale::ar), ("ja", Locale::ja)];

macro_rules! emit3 {
    ($emit:ident, $loc:ident, $k:ident, $strv:expr, $viewv:expr) => {
        $emit(stringify!($k), 's', guard(|| td_string!($loc, $k, v = $strv).to_string()));
        $emit(stringify!($k), 'd', guard(|| td_display!($loc, $k, v = $strv).to_string()));
        $emit(stringify!($k), 'h', guard(|| html(td!($loc, $k, v = $viewv))));
    };
}

fn keys_num<T: IntoFixedDecimal + Send + Sync + 'static>(loc: Locale, v: T, emit: &mut dyn FnMut(&str, char, String)) {
    macro_rules! k {
        ($($k:ident)*) => { $( { let w = v.clone(); emit3!(emit, loc, $k, v.clone(), move || w.clone()); } )* };
    }
    k!(n_only_en n_null n_inh n_all c_only_en c_null c_inh c_all);
}
fn keys_date(loc: Locale, d: (i32, u8, u8), emit: &mut dyn FnMut(&str, char, String)) {
    macro_rules! k {
        ($($k:ident)*) => { $( emit3!(emit, loc, $k, date(d), move || date(d)); )* };
    }
    k!(d_only_en d_null d_inh d_all);
}
fn keys_time(loc: Locale, t: Tm, emit: &mut dyn FnMut(&str, char, String)) {
    macro_rules! k {
        ($($k:ident)*) => { $( emit3!(emit, loc, $k, time(t), move || time(t)); )* };
    }
    k!(t_only_en t_null t_inh t_all);
}
fn keys_datetime(loc: Locale, d: (i32, u8, u8), t: Tm, emit: &mut dyn FnMut(&str, char, String)) {
    macro_rules! k {
        ($($k:ident)*) => { $( emit3!(emit, loc, $k, datetime(d, t), move || datetime(d, t)); )* };
    }
    k!(x_only_en x_null x_inh x_all);
}
fn keys_list(loc: Locale, l: &'static [&'static str], emit: &mut dyn FnMut(&str, char, String)) {
    macro_rules! k {
        ($($k:ident)*) => { $( emit3!(emit, loc, $k, l.to_vec(), move || l.to_vec()); )* };
    }
    k!(l_only_en l_null l_inh l_all);
}

/// (literal before, formatter, literal after) of a `PRE{{ v, fmt }}POST` template, by the parser
fn split_template(s: &str) -> Option<(String, pf::Formatter, String)> {
    let kp = KeyPath::new(None);
    let loc = Key::new("en").unwrap();
    let f = ForeignKeysPaths::new();
    match ParsedValue::new(s, &kp, &loc, &f) {
        Ok(ParsedValue::Bloc(v)) => match v.as_slice() {
            [ParsedValue::Literal(Literal::String(a, _)), ParsedValue::Variable { formatter, .. }, ParsedValue::Literal(Literal::String(b, _))] => {
                Some((a.clone(), *formatter, b.clone()))
            }
            _ => None,
        },
        _ => None,
    }
}

/// the value ids used for a family (a spread over the pools of m_rt)
fn value_ids(f: &pf::Formatter) -> Vec<usize> {
    let n = n_values(f);
    match f {
        pf::Formatter::Number(_) | pf::Formatter::Currency(..) => (0..n).filter(|i| *i < 10 || i % 6 == 0).collect(),
        pf::Formatter::DateTime(..) => (0..n).filter(|i| i % 9 == 0).collect(),
        _ => (0..n).collect(),
    }
}

pub fn run(o: &mut impl Write) {
    // the fixture as the translator wrote it
    let dir = concat!(env!("CARGO_MANIFEST_DIR"), "/locales");
    let mut files: Vec<(&str, serde_json::Map<String, serde_json::Value>)> = vec![];
    for (ln, _) in LOCALES {
        let txt = std::fs::read_to_string(format!("{}/{}.json", dir, ln)).expect("locale file");
        files.push((*ln, serde_json::from_str(&txt).expect("locale json")));
    }
    let keys: Vec<String> = files[0].1.keys().cloned().collect();
    let en_fmt = |k: &str| split_template(files[0].1[k].as_str().unwrap()).expect("template").1;
    // oracle
    for k in &keys {
        let fam = en_fmt(k);
        for (src, file) in &files {
            let Some(t) = file.get(k).and_then(|v| v.as_str()) else { continue };
            let (pre, f, post) = split_template(t).expect("template");
            for (req, _) in LOCALES {
                for vi in value_ids(&fam) {
                    let v = value_for(&f, vi).unwrap();
                    let s = guard(|| format!("{}{}{}", pre, icu_direct(&f, req, v), post));
                    writeln!(o, "J {} {} {} {} {}", k, src, req, vi, cps(&s)).unwrap();
                }
            }
        }
    }
    // generated code
    for (ln, loc) in LOCALES.iter().copied() {
        let mut run = |vi: usize, call: &dyn Fn(&mut dyn FnMut(&str, char, String))| {
            let mut lines = vec![];
            call(&mut |k: &str, fl: char, s: String| lines.push(format!("X {} {} {} {} {}", k, ln, vi, fl, cps(&s))));
            for l in lines {
                writeln!(o, "{}", l).unwrap();
            }
        };
        for vi in value_ids(&en_fmt("n_all")) {
            let n = NUMS[vi];
            with_num!(n, |v| run(vi, &|e| keys_num(loc, v.clone(), e)));
        }
        for vi in value_ids(&en_fmt("d_all")) {
            run(vi, &|e| keys_date(loc, DATES[vi], e));
        }
        for vi in value_ids(&en_fmt("t_all")) {
            run(vi, &|e| keys_time(loc, TIMES[vi], e));
        }
        for vi in value_ids(&en_fmt("x_all")) {
            run(vi, &|e| keys_datetime(loc, DATES[vi % DATES.len()], TIMES[vi / DATES.len()], e));
        }
        for vi in value_ids(&en_fmt("l_all")) {
            run(vi, &|e| keys_list(loc, LISTS[vi], e));
        }
    }
}
