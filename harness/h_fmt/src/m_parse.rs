//! Parser level.  Strings travel as comma separated decimal code points (they contain every kind of white space).
//!
//! mode `parse`: line = code points of a whole translation value, e.g. `{{ v, date(date_length: short) }}`.
//!   output `V <key cps> <fmt>`            the value parsed to  Bloc["", Variable{key, formatter}, ""]
//!          `E2 <name cps>`                Error::UnknownFormatter { name }
//!          `E4 <fmt>`                     Error::DisabledFormatter
//!          `E1` / `E?`                    UnexpectedToken / any other error
//!          `SHAPE`                        parsed, but not to the shape above (the generator avoids this)
//!          `PANIC`
//! mode `direct`: line = `<name cps>|-` (args = None) or `<name cps>|<a cps>=<v cps>|...` (args = Some([...]))
//!   output `S <fmt>` (Ok(Some)), `NONE` (Ok(None)), `D <fmt>` (Err(disabled)), `PANIC`
//!
//! <fmt> ::= N | n<g> | d<dl> | t<tl> | D<dl>_<tl> | l<type>_<style> | c<width>_<code cps>   (enum discriminants in declaration order)
use leptos_i18n_parser::parse_locales::{
    error::Error,
    parsed_value::{Literal, ParsedValue},
    ForeignKeysPaths,
};
use leptos_i18n_parser::utils::formatter::*;
use leptos_i18n_parser::utils::{Key, KeyPath};
use std::io::{BufRead, Write};

pub fn cps(s: &str) -> String {
    s.chars().map(|c| (c as u32).to_string()).collect::<Vec<_>>().join(",")
}

pub fn from_cps(s: &str) -> String {
    s.split(',').filter(|x| !x.is_empty()).map(|x| char::from_u32(x.parse::<u32>().unwrap()).unwrap()).collect()
}

fn g(x: GroupingStrategy) -> u32 {
    match x {
        GroupingStrategy::Auto => 0,
        GroupingStrategy::Never => 1,
        GroupingStrategy::Always => 2,
        GroupingStrategy::Min2 => 3,
    }
}
fn dl(d: DateLength) -> u32 {
    match d {
        DateLength::Full => 0,
        DateLength::Long => 1,
        DateLength::Medium => 2,
        DateLength::Short => 3,
    }
}
fn tl(d: TimeLength) -> u32 {
    match d {
        TimeLength::Full => 0,
        TimeLength::Long => 1,
        TimeLength::Medium => 2,
        TimeLength::Short => 3,
    }
}
fn lt(x: ListType) -> u32 {
    match x {
        ListType::And => 0,
        ListType::Or => 1,
        ListType::Unit => 2,
    }
}
fn ls(x: ListStyle) -> u32 {
    match x {
        ListStyle::Wide => 0,
        ListStyle::Short => 1,
        ListStyle::Narrow => 2,
    }
}
fn cw(x: CurrencyWidth) -> u32 {
    match x {
        CurrencyWidth::Short => 0,
        CurrencyWidth::Narrow => 1,
    }
}

pub fn pfmt(f: &Formatter) -> String {
    match f {
        Formatter::None => "N".to_string(),
        Formatter::Number(x) => format!("n{}", g(*x)),
        Formatter::Date(d) => format!("d{}", dl(*d)),
        Formatter::Time(t) => format!("t{}", tl(*t)),
        Formatter::DateTime(d, t) => format!("D{}_{}", dl(*d), tl(*t)),
        Formatter::List(a, b) => format!("l{}_{}", lt(*a), ls(*b)),
        Formatter::Currency(w, c) => format!("c{}_{}", cw(*w), cps(c.0.as_str())),
    }
}

fn parse_one(s: &str) -> String {
    let kp = KeyPath::new(None);
    let loc = Key::new("en").unwrap();
    let f = ForeignKeysPaths::new();
    match ParsedValue::new(s, &kp, &loc, &f) {
        Ok(ParsedValue::Bloc(v)) => match v.as_slice() {
            [ParsedValue::Literal(Literal::String(a, _)), ParsedValue::Variable { key, formatter }, ParsedValue::Literal(Literal::String(b, _))]
                if a.is_empty() && b.is_empty() =>
            {
                format!("V {} {}", cps(&key.name), pfmt(formatter))
            }
            _ => "SHAPE".to_string(),
        },
        Ok(_) => "SHAPE".to_string(),
        Err(e) => match *e {
            Error::UnexpectedToken { .. } => "E1".to_string(),
            Error::UnknownFormatter { name, .. } => format!("E2 {}", cps(&name)),
            Error::DisabledFormatter { formatter, .. } => format!("E4 {}", pfmt(&formatter)),
            _ => "E?".to_string(),
        },
    }
}

pub fn run_parse() {
    let stdin = std::io::stdin();
    let mut o = std::io::BufWriter::new(std::io::stdout().lock());
    for line in stdin.lock().lines() {
        let s = from_cps(&line.unwrap());
        let r = std::panic::catch_unwind(|| parse_one(&s));
        writeln!(o, "{}", r.unwrap_or_else(|_| "PANIC".to_string())).unwrap();
    }
}

fn direct_one(name: &str, args: Option<&[(&str, &str)]>) -> String {
    match Formatter::from_name_and_args(name, args) {
        Ok(Some(f)) => format!("S {}", pfmt(&f)),
        Ok(None) => "NONE".to_string(),
        Err(f) => format!("D {}", pfmt(&f)),
    }
}

pub fn run_direct() {
    let stdin = std::io::stdin();
    let mut o = std::io::BufWriter::new(std::io::stdout().lock());
    for line in stdin.lock().lines() {
        let line = line.unwrap();
        let mut it = line.split('|');
        let name = from_cps(it.next().unwrap_or(""));
        let rest: Vec<&str> = it.collect();
        let none = rest.len() == 1 && rest[0] == "-";
        let owned: Vec<(String, String)> = if none {
            vec![]
        } else {
            rest.iter()
                .filter(|x| !x.is_empty())
                .map(|p| {
                    let (a, b) = p.split_once('=').unwrap();
                    (from_cps(a), from_cps(b))
                })
                .collect()
        };
        let r = std::panic::catch_unwind(|| {
            let args: Vec<(&str, &str)> = owned.iter().map(|(a, b)| (a.as_str(), b.as_str())).collect();
            direct_one(&name, if none { None } else { Some(&args) })
        });
        writeln!(o, "{}", r.unwrap_or_else(|_| "PANIC".to_string())).unwrap();
    }
}
