//! Runtime level of C18: what the generated code and the t*_format! macros print, against direct ICU4X calls
//! made in this same binary with the options the *parser* selected for the same formatter text
//! (translation validation against the library that is wrapped; ICU4X is the oracle).
//!
//! mode `rt` (no input).  Output lines (strings as code points):
//!   `P <kind> <n>` / `N <value id> <Debug of the numeric input>`   sizes of the value pools, the numeric pool
//!   `K <key> <text> <fmt>`                      key of the declare_locales! module, its source text, parser's Formatter
//!   `T <key> <locale> <value id> <flavour> <out>` flavour s = td_string!, d = td_display!, h = td!(..).to_html(),
//!                                               S = td_string! fed a DateTime (date and time keys), V = td_string! fed a Vec<String> (list keys);
//!                                               numeric keys are fed the Rust value of its own type (u8 .. i128, f32, f64, FixedDecimal)
//!   `I <key> <locale> <value id> <out>`          direct ICU4X call with the parser's options; numbers are converted the documented
//!                                               way (`From` for integers, `try_from_f64(v, FloatPrecision::Floating)` for floats)
//!   `F <tokens> <locale> <value id> <flavour> <out>`   td_format_string! (s) / td_format_display! (d), <tokens> = stringify!(formatter tokens)
//!   `A <key> <locale> <value id> <flavour> <out>`  like T, but executed after the keys whose options ICU4X refuses (time zone lengths)
//! mode `ops <seq|par>`: stdin lines `<fmt> <locale> <value id>`; the operations are executed through
//!   leptos_i18n::__private::format_*_to_display in order by one thread (seq) or dealt round-robin to 8 threads that
//!   start together (par), in a fresh process (= cold cache).  Output per operation, in input order:
//!   `<library out>|<direct ICU4X out>`.
//! <out> is `PANIC` when the call panicked.
use crate::m_parse::{cps, pfmt};
use leptos::prelude::*;
use leptos_i18n::reexports::fixed_decimal::{FixedDecimal, FloatPrecision};
use leptos_i18n::formatting::IntoFixedDecimal;
use leptos_i18n::reexports::icu::calendar::{AnyCalendar, Date, DateTime, Time};
use leptos_i18n::reexports::icu::currency::formatter::{CurrencyCode, CurrencyFormatter};
use leptos_i18n::reexports::icu::currency::options::{CurrencyFormatterOptions, Width};
use leptos_i18n::reexports::icu::datetime::options::length;
use leptos_i18n::reexports::icu::datetime::{DateFormatter, DateTimeFormatter, TimeFormatter};
use leptos_i18n::reexports::icu::decimal::options::{FixedDecimalFormatterOptions, GroupingStrategy};
use leptos_i18n::reexports::icu::decimal::FixedDecimalFormatter;
use leptos_i18n::reexports::icu::list::{ListFormatter, ListLength};
use leptos_i18n::reexports::icu::locid::Locale as IcuLocale;
use leptos_i18n::reexports::icu::provider::DataLocale;
use leptos_i18n::{td, td_display, td_format_display, td_format_string, td_string};
use leptos_i18n_parser::parse_locales::{
    parsed_value::{Literal, ParsedValue},
    ForeignKeysPaths,
};
use leptos_i18n_parser::utils::formatter as pf;
use leptos_i18n_parser::utils::{Key, KeyPath};
use std::io::{BufRead, Write};
use writeable::Writeable;
use std::panic::{catch_unwind, AssertUnwindSafe};

macro_rules! all_keys {
    (
        num { $($nk:ident : $nv:literal,)* }
        cur { $($ck:ident : $cv:literal,)* }
        date { $($dk:ident : $dv:literal,)* }
        time { $($tk:ident : $tv:literal,)* }
        datetime { $($xk:ident : $xv:literal,)* }
        list { $($lk:ident : $lv:literal,)* }
        time_tz { $($ztk:ident : $ztv:literal,)* }
        datetime_tz { $($zxk:ident : $zxv:literal,)* }
    ) => {
        leptos_i18n::declare_locales! {
            path: leptos_i18n,
            interpolate_display,
            default: "en",
            locales: ["en", "fr", "ar", "ja"],
            en: { $($nk: $nv,)* $($ck: $cv,)* $($dk: $dv,)* $($tk: $tv,)* $($xk: $xv,)* $($lk: $lv,)* $($ztk: $ztv,)* $($zxk: $zxv,)* },
            fr: { $($nk: $nv,)* $($ck: $cv,)* $($dk: $dv,)* $($tk: $tv,)* $($xk: $xv,)* $($lk: $lv,)* $($ztk: $ztv,)* $($zxk: $zxv,)* },
            ar: { $($nk: $nv,)* $($ck: $cv,)* $($dk: $dv,)* $($tk: $tv,)* $($xk: $xv,)* $($lk: $lv,)* $($ztk: $ztv,)* $($zxk: $zxv,)* },
            ja: { $($nk: $nv,)* $($ck: $cv,)* $($dk: $dv,)* $($tk: $tv,)* $($xk: $xv,)* $($lk: $lv,)* $($ztk: $ztv,)* $($zxk: $zxv,)* },
        }
        use i18n::Locale;

        pub const KEYS: &[(&str, &str)] = &[
            $((stringify!($nk), $nv),)* $((stringify!($ck), $cv),)* $((stringify!($dk), $dv),)*
            $((stringify!($tk), $tv),)* $((stringify!($xk), $xv),)* $((stringify!($lk), $lv),)*
        ];
        /// keys whose options need a time zone: ICU4X refuses to build their formatter
        pub const TZ_KEYS: &[(&str, &str)] = &[ $((stringify!($ztk), $ztv),)* $((stringify!($zxk), $zxv),)* ];

        fn keys_time_tz(loc: Locale, t: Tm, emit: &mut dyn FnMut(&str, char, String)) {
            $(
                emit(stringify!($ztk), 's', guard(|| td_string!(loc, $ztk, v = time(t)).to_string()));
                emit(stringify!($ztk), 'd', guard(|| td_display!(loc, $ztk, v = time(t)).to_string()));
                emit(stringify!($ztk), 'h', guard(|| html(td!(loc, $ztk, v = move || time(t)))));
            )*
        }
        fn keys_datetime_tz(loc: Locale, d: (i32, u8, u8), t: Tm, emit: &mut dyn FnMut(&str, char, String)) {
            $(
                emit(stringify!($zxk), 's', guard(|| td_string!(loc, $zxk, v = datetime(d, t)).to_string()));
                emit(stringify!($zxk), 'd', guard(|| td_display!(loc, $zxk, v = datetime(d, t)).to_string()));
                emit(stringify!($zxk), 'h', guard(|| html(td!(loc, $zxk, v = move || datetime(d, t)))));
            )*
        }

        fn keys_num<T: IntoFixedDecimal + Send + Sync + 'static>(loc: Locale, v: T, emit: &mut dyn FnMut(&str, char, String)) {
            $(
                emit(stringify!($nk), 's', guard(|| td_string!(loc, $nk, v = v.clone()).to_string()));
                emit(stringify!($nk), 'd', guard(|| td_display!(loc, $nk, v = v.clone()).to_string()));
                emit(stringify!($nk), 'h', guard(|| { let w = v.clone(); html(td!(loc, $nk, v = move || w.clone())) }));
            )*
            $(
                emit(stringify!($ck), 's', guard(|| td_string!(loc, $ck, v = v.clone()).to_string()));
                emit(stringify!($ck), 'd', guard(|| td_display!(loc, $ck, v = v.clone()).to_string()));
                emit(stringify!($ck), 'h', guard(|| { let w = v.clone(); html(td!(loc, $ck, v = move || w.clone())) }));
            )*
        }
        fn keys_date(loc: Locale, d: (i32, u8, u8), emit: &mut dyn FnMut(&str, char, String)) {
            $(
                emit(stringify!($dk), 's', guard(|| td_string!(loc, $dk, v = date(d)).to_string()));
                emit(stringify!($dk), 'd', guard(|| td_display!(loc, $dk, v = date(d)).to_string()));
                emit(stringify!($dk), 'h', guard(|| html(td!(loc, $dk, v = move || date(d)))));
                emit(stringify!($dk), 'S', guard(|| td_string!(loc, $dk, v = datetime(d, TIMES[0])).to_string()));
            )*
        }
        fn keys_time(loc: Locale, t: Tm, emit: &mut dyn FnMut(&str, char, String)) {
            $(
                emit(stringify!($tk), 's', guard(|| td_string!(loc, $tk, v = time(t)).to_string()));
                emit(stringify!($tk), 'd', guard(|| td_display!(loc, $tk, v = time(t)).to_string()));
                emit(stringify!($tk), 'h', guard(|| html(td!(loc, $tk, v = move || time(t)))));
                emit(stringify!($tk), 'S', guard(|| td_string!(loc, $tk, v = datetime(DATES[0], t)).to_string()));
            )*
        }
        fn keys_datetime(loc: Locale, d: (i32, u8, u8), t: Tm, emit: &mut dyn FnMut(&str, char, String)) {
            $(
                emit(stringify!($xk), 's', guard(|| td_string!(loc, $xk, v = datetime(d, t)).to_string()));
                emit(stringify!($xk), 'd', guard(|| td_display!(loc, $xk, v = datetime(d, t)).to_string()));
                emit(stringify!($xk), 'h', guard(|| html(td!(loc, $xk, v = move || datetime(d, t)))));
            )*
        }
        fn keys_list(loc: Locale, l: &'static [&'static str], emit: &mut dyn FnMut(&str, char, String)) {
            $(
                emit(stringify!($lk), 's', guard(|| td_string!(loc, $lk, v = l.to_vec()).to_string()));
                emit(stringify!($lk), 'd', guard(|| td_display!(loc, $lk, v = l.to_vec()).to_string()));
                emit(stringify!($lk), 'h', guard(|| html(td!(loc, $lk, v = move || l.to_vec()))));
                emit(stringify!($lk), 'V', guard(|| td_string!(loc, $lk, v = l.iter().map(|x| x.to_string()).collect::<Vec<String>>()).to_string()));
            )*
        }
    };
}

all_keys! {
    num {
        n_plain: "{{ v, number }}",
        n_empty: "{{ v, number() }}",
        n_auto: "{{ v, number(grouping_strategy: auto) }}",
        n_never: "{{ v, number(grouping_strategy: never) }}",
        n_always: "{{ v, number(grouping_strategy: always) }}",
        n_min2: "{{ v, number(grouping_strategy: min2) }}",
        n_ws: "{{\u{3000}v\t,\u{a0}number\u{2003}(\u{2028}grouping_strategy\u{85}:\u{1680}never\u{205f})\u{202f}}}",
        n_tight: "{{v,number(grouping_strategy:always)}}",
        n_badval: "{{ v, number(grouping_strategy: sometimes) }}",
        n_dup: "{{ v, number(grouping_strategy: bad; grouping_strategy: min2; grouping_strategy: never) }}",
        n_other: "{{ v, number(date_length: full; width: narrow) }}",
    }
    cur {
        c_plain: "{{ v, currency }}",
        c_short: "{{ v, currency(width: short) }}",
        c_narrow: "{{ v, currency(width: narrow) }}",
        c_eur: "{{ v, currency(currency_code: EUR) }}",
        c_short_eur: "{{ v, currency(width: short; currency_code: EUR) }}",
        c_narrow_eur: "{{ v, currency(currency_code: EUR; width: narrow) }}",
        c_short_jpy: "{{ v, currency(width: short; currency_code: JPY) }}",
        c_narrow_jpy: "{{ v, currency(width: narrow; currency_code: JPY) }}",
        c_narrow_usd: "{{ v, currency(width: narrow; currency_code: USD) }}",
        c_toolong: "{{ v, currency(currency_code: EURO; width: narrow) }}",
        c_ws: "{{ v ,\u{2009}currency (\ncurrency_code\u{a0}:\u{3000}JPY ;\twidth : narrow\u{2029}) }}",
    }
    date {
        d_plain: "{{ v, date }}",
        d_full: "{{ v, date(date_length: full) }}",
        d_long: "{{ v, date(date_length: long) }}",
        d_medium: "{{ v, date(date_length: medium) }}",
        d_short: "{{ v, date(date_length: short) }}",
        d_ws: "{{ v,\u{2000}date\u{2001}(\u{2002}date_length\u{2004}:\u{2005}long\u{2006})\u{2007}}}",
        d_badval: "{{ v, date(date_length: tiny) }}",
        d_timeopt: "{{ v, date(time_length: full) }}",
    }
    time {
        t_plain: "{{ v, time }}",
        t_medium: "{{ v, time(time_length: medium) }}",
        t_short: "{{ v, time(time_length: short) }}",
        t_ws: "{{ v , time\u{2008}(\u{200a}time_length\u{b}:\u{c}medium\r) }}",
        t_dup: "{{ v, time(time_length: ; time_length: medium; time_length: short) }}",
    }
    datetime {
        x_plain: "{{ v, datetime }}",
        x_full_medium: "{{ v, datetime(date_length: full; time_length: medium) }}",
        x_full_short: "{{ v, datetime(date_length: full; time_length: short) }}",
        x_long_medium: "{{ v, datetime(date_length: long; time_length: medium) }}",
        x_long_short: "{{ v, datetime(date_length: long; time_length: short) }}",
        x_medium_medium: "{{ v, datetime(time_length: medium; date_length: medium) }}",
        x_medium_short: "{{ v, datetime(date_length: medium; time_length: short) }}",
        x_short_medium: "{{ v, datetime(date_length: short; time_length: medium) }}",
        x_short_short: "{{ v, datetime(date_length: short; time_length: short) }}",
        x_date_only: "{{ v, datetime(date_length: short) }}",
        x_time_only: "{{ v, datetime(time_length: medium) }}",
        x_ws: "{{ v,datetime ( time_length\u{a0}: medium\u{3000};\u{2003}date_length :\tlong ) }}",
    }
    list {
        l_plain: "{{ v, list }}",
        l_and_wide: "{{ v, list(list_type: and; list_style: wide) }}",
        l_and_short: "{{ v, list(list_type: and; list_style: short) }}",
        l_and_narrow: "{{ v, list(list_type: and; list_style: narrow) }}",
        l_or_wide: "{{ v, list(list_type: or; list_style: wide) }}",
        l_or_short: "{{ v, list(list_type: or; list_style: short) }}",
        l_or_narrow: "{{ v, list(list_type: or; list_style: narrow) }}",
        l_unit_wide: "{{ v, list(list_type: unit; list_style: wide) }}",
        l_unit_short: "{{ v, list(list_type: unit; list_style: short) }}",
        l_unit_narrow: "{{ v, list(list_style: narrow; list_type: unit) }}",
        l_type_only: "{{ v, list(list_type: or) }}",
        l_style_only: "{{ v, list(list_style: narrow) }}",
        l_ws: "{{ v,\u{2003}list\u{a0}(\u{3000}list_style\u{2009}:\u{200a}short\u{205f};\u{1680}list_type\u{85}:\u{2028}and\u{2029}) }}",
    }
    time_tz {
        t_full: "{{ v, time(time_length: full) }}",
        t_long: "{{ v, time(time_length: long) }}",
    }
    datetime_tz {
        x_medium_full: "{{ v, datetime(date_length: medium; time_length: full) }}",
        x_short_long: "{{ v, datetime(date_length: short; time_length: long) }}",
    }
}

pub const LOCALES: &[(&str, Locale)] = &[("en", Locale::en), ("fr", Locale::fr), ("ar", Locale::ar), ("ja", Locale::ja)];
/// (hour, minute, second, nanosecond)
pub type Tm = (u8, u8, u8, u32);

/// a numeric input of every type `IntoFixedDecimal` is implemented for
#[derive(Clone, Copy, Debug)]
pub enum Num {
    Dec(i64, i16),
    U8(u8),
    U16(u16),
    U32(u32),
    U64(u64),
    U128(u128),
    Usize(usize),
    I8(i8),
    I16(i16),
    I32(i32),
    I64(i64),
    I128(i128),
    Isize(isize),
    F32(f32),
    F64(f64),
}

/// run `$body` with `$v` bound to the Rust value of its own type
macro_rules! with_num {
    ($n:expr, |$v:ident| $body:expr) => {
        match $n {
            Num::Dec(m, p) => { let $v = dec(m, p); $body }
            Num::U8($v) => $body,
            Num::U16($v) => $body,
            Num::U32($v) => $body,
            Num::U64($v) => $body,
            Num::U128($v) => $body,
            Num::Usize($v) => $body,
            Num::I8($v) => $body,
            Num::I16($v) => $body,
            Num::I32($v) => $body,
            Num::I64($v) => $body,
            Num::I128($v) => $body,
            Num::Isize($v) => $body,
            Num::F32($v) => $body,
            Num::F64($v) => $body,
        }
    };
}

/// the documented conversion (book, "Number"): `From` for the integer types,
/// `FixedDecimal::try_from_f64(v, FloatPrecision::Floating)` for f32 (widened) and f64
pub fn documented_decimal(n: Num) -> FixedDecimal {
    match n {
        Num::Dec(m, p) => dec(m, p),
        Num::U8(v) => FixedDecimal::from(v),
        Num::U16(v) => FixedDecimal::from(v),
        Num::U32(v) => FixedDecimal::from(v),
        Num::U64(v) => FixedDecimal::from(v),
        Num::U128(v) => FixedDecimal::from(v),
        Num::Usize(v) => FixedDecimal::from(v),
        Num::I8(v) => FixedDecimal::from(v),
        Num::I16(v) => FixedDecimal::from(v),
        Num::I32(v) => FixedDecimal::from(v),
        Num::I64(v) => FixedDecimal::from(v),
        Num::I128(v) => FixedDecimal::from(v),
        Num::Isize(v) => FixedDecimal::from(v),
        Num::F32(v) => FixedDecimal::try_from_f64(f64::from(v), FloatPrecision::Floating).unwrap(),
        Num::F64(v) => FixedDecimal::try_from_f64(v, FloatPrecision::Floating).unwrap(),
    }
}

const P53: f64 = 9007199254740992.0; // 2^53
pub const NUMS: &[Num] = &[
    // (the first ten are referred to by index elsewhere)
    Num::Dec(0, 0), Num::Dec(7, 0), Num::Dec(999, 0), Num::Dec(1000, 0), Num::Dec(9999, 0), Num::Dec(10000, 0),
    Num::Dec(1234567891, -3), Num::Dec(-9876543210, 0), Num::Dec(5, -1), Num::Dec(12345, -2),
    Num::Dec(i64::MAX, 0), Num::Dec(i64::MIN, 0), Num::Dec(1, -18), Num::Dec(-1, 12), Num::Dec(123456789, -9),
    // every integer width at MIN / MAX / 0 / +-1 and around the grouping boundaries
    Num::U8(0), Num::U8(1), Num::U8(u8::MAX),
    Num::U16(0), Num::U16(1), Num::U16(1000), Num::U16(9999), Num::U16(10000), Num::U16(u16::MAX),
    Num::U32(0), Num::U32(1), Num::U32(999), Num::U32(100000), Num::U32(u32::MAX),
    Num::U64(0), Num::U64(1), Num::U64(1 << 53), Num::U64((1 << 53) + 1), Num::U64(u64::MAX),
    Num::U128(0), Num::U128(1), Num::U128(u64::MAX as u128 + 1), Num::U128(u128::MAX),
    Num::Usize(0), Num::Usize(1), Num::Usize(usize::MAX),
    Num::I8(i8::MIN), Num::I8(-1), Num::I8(0), Num::I8(1), Num::I8(i8::MAX),
    Num::I16(i16::MIN), Num::I16(-1), Num::I16(0), Num::I16(1), Num::I16(-1000), Num::I16(i16::MAX),
    Num::I32(i32::MIN), Num::I32(-1), Num::I32(0), Num::I32(1), Num::I32(-9999), Num::I32(-10000), Num::I32(i32::MAX),
    Num::I64(i64::MIN), Num::I64(-1), Num::I64(0), Num::I64(1), Num::I64(-(1 << 53) - 1), Num::I64(i64::MAX),
    Num::I128(i128::MIN), Num::I128(-1), Num::I128(0), Num::I128(1), Num::I128(i64::MIN as i128 - 1), Num::I128(i128::MAX),
    Num::Isize(isize::MIN), Num::Isize(-1), Num::Isize(0), Num::Isize(1), Num::Isize(isize::MAX),
    // f32: signed zeros, subnormals, 2^24 +- 1, shortest-digit cases, extremes
    Num::F32(0.0), Num::F32(-0.0), Num::F32(1.0), Num::F32(-1.0), Num::F32(f32::from_bits(1)), Num::F32(f32::MIN_POSITIVE),
    Num::F32(16777215.0), Num::F32(16777216.0), Num::F32(16777218.0), Num::F32(-16777216.0), Num::F32(0.1), Num::F32(0.1 + 0.2),
    Num::F32(1e-7), Num::F32(123456.79), Num::F32(1000.5), Num::F32(3.0e9), Num::F32(1e21), Num::F32(f32::MAX), Num::F32(f32::MIN),
    // f64: signed zeros, subnormals, 2^53 +- 1, whole floats between 2^53 and 2^63, powers of ten, many fraction digits
    Num::F64(0.0), Num::F64(-0.0), Num::F64(1.0), Num::F64(-1.0), Num::F64(7.0), Num::F64(1000.0), Num::F64(-10000.0), Num::F64(100000.0),
    Num::F64(5e-324), Num::F64(f64::MIN_POSITIVE), Num::F64(2.2250738585072009e-308),
    Num::F64(P53 - 1.0), Num::F64(P53), Num::F64(P53 + 2.0), Num::F64(-P53 - 2.0), Num::F64(P53 * 2.0 + 4.0),
    Num::F64(1.2345678901234567e18), Num::F64(-1.2345678901234567e18), Num::F64(4.611686018427388e18), Num::F64(9.223372036854775e18),
    Num::F64(9.223372036854776e18), Num::F64(-9.223372036854776e18), Num::F64(1.8446744073709552e19),
    Num::F64(1e15), Num::F64(1e16), Num::F64(1e17), Num::F64(1e18), Num::F64(1e19), Num::F64(1e21), Num::F64(1e22), Num::F64(1e23), Num::F64(-1e21),
    Num::F64(0.1 + 0.2), Num::F64(0.1), Num::F64(1e-7), Num::F64(-1e-7), Num::F64(0.000001234), Num::F64(123456789.12345679),
    Num::F64(1e15 + 0.3), Num::F64(-123.456), Num::F64(0.5), Num::F64(2.5), Num::F64(1.0 / 3.0), Num::F64(-1.5e300), Num::F64(1e-300),
    Num::F64(f64::MAX), Num::F64(f64::MIN), Num::F64(4503599627370496.5), Num::F64(999999999999999.9),
];
pub const DATES: &[(i32, u8, u8)] = &[
    (1970, 1, 2), (2024, 2, 29), (1999, 12, 31), (2025, 7, 4), (1970, 1, 1), (1969, 12, 31), (2000, 2, 29), (1900, 3, 1),
    (1, 1, 1), (0, 12, 31), (-1, 6, 15), (9999, 12, 31), (2038, 1, 19), (1582, 10, 15),
];
pub const TIMES: &[Tm] = &[
    (14, 34, 28, 0), (0, 0, 0, 0), (9, 5, 7, 0), (23, 59, 59, 0), (12, 0, 0, 0), (11, 59, 59, 999_999_999), (0, 0, 1, 1), (23, 59, 60, 0),
];
pub const LISTS: &[&[&str]] = &[
    &[], &["A"], &["A", "B"], &["A", "B", "C"], &["un", "deux", "trois", "quatre"], &["\u{645}", "\u{65e5}\u{672c}", "x y"],
    &[""], &["", ""], &["A", "", "B"], &["", "B", ""], &["a", "b", "c", "d", "e", "f"], &[" ", "A,B", "and"],
];

pub fn dec(m: i64, p: i16) -> FixedDecimal {
    FixedDecimal::from(m).multiplied_pow10(p)
}
pub fn date(d: (i32, u8, u8)) -> Date<AnyCalendar> {
    Date::try_new_iso_date(d.0, d.1, d.2).unwrap().to_any()
}
pub fn time(t: Tm) -> Time {
    Time::try_new(t.0, t.1, t.2, t.3).unwrap()
}
pub fn datetime(d: (i32, u8, u8), t: Tm) -> DateTime<AnyCalendar> {
    DateTime::new(date(d), time(t))
}

pub fn guard(f: impl FnOnce() -> String) -> String {
    catch_unwind(AssertUnwindSafe(f)).unwrap_or_else(|_| "PANIC".to_string())
}

pub fn html(v: impl IntoView) -> String {
    let owner = Owner::new();
    owner.with(|| v.to_html())
}

// ---------------------------------------------------------------- option mapping of the harness (independent of the macro crate's)
fn m_g(x: pf::GroupingStrategy) -> GroupingStrategy {
    match x {
        pf::GroupingStrategy::Auto => GroupingStrategy::Auto,
        pf::GroupingStrategy::Never => GroupingStrategy::Never,
        pf::GroupingStrategy::Always => GroupingStrategy::Always,
        pf::GroupingStrategy::Min2 => GroupingStrategy::Min2,
    }
}
fn m_dl(x: pf::DateLength) -> length::Date {
    match x {
        pf::DateLength::Full => length::Date::Full,
        pf::DateLength::Long => length::Date::Long,
        pf::DateLength::Medium => length::Date::Medium,
        pf::DateLength::Short => length::Date::Short,
    }
}
fn m_tl(x: pf::TimeLength) -> length::Time {
    match x {
        pf::TimeLength::Full => length::Time::Full,
        pf::TimeLength::Long => length::Time::Long,
        pf::TimeLength::Medium => length::Time::Medium,
        pf::TimeLength::Short => length::Time::Short,
    }
}
fn m_ls(x: pf::ListStyle) -> ListLength {
    match x {
        pf::ListStyle::Wide => ListLength::Wide,
        pf::ListStyle::Short => ListLength::Short,
        pf::ListStyle::Narrow => ListLength::Narrow,
    }
}
fn m_lt(x: pf::ListType) -> leptos_i18n::__private::ListType {
    match x {
        pf::ListType::And => leptos_i18n::__private::ListType::And,
        pf::ListType::Or => leptos_i18n::__private::ListType::Or,
        pf::ListType::Unit => leptos_i18n::__private::ListType::Unit,
    }
}
fn m_w(x: pf::CurrencyWidth) -> Width {
    match x {
        pf::CurrencyWidth::Short => Width::Short,
        pf::CurrencyWidth::Narrow => Width::Narrow,
    }
}
fn m_code(c: &pf::CurrencyCode) -> CurrencyCode {
    CurrencyCode(c.0.as_str().parse().unwrap())
}

#[derive(Clone, Copy, Debug)]
pub enum Val {
    Num(Num),
    Date((i32, u8, u8)),
    Time(Tm),
    DateTime((i32, u8, u8), Tm),
    List(&'static [&'static str]),
}

/// the sample value number `i` for a formatter kind
pub fn value_for(f: &pf::Formatter, i: usize) -> Option<Val> {
    Some(match f {
        pf::Formatter::Number(_) | pf::Formatter::Currency(..) => {
            Val::Num(*NUMS.get(i)?)
        }
        pf::Formatter::Date(_) => Val::Date(*DATES.get(i)?),
        pf::Formatter::Time(_) => Val::Time(*TIMES.get(i)?),
        pf::Formatter::DateTime(..) => Val::DateTime(*DATES.get(i % DATES.len())?, *TIMES.get(i / DATES.len())?),
        pf::Formatter::List(..) => Val::List(LISTS.get(i)?),
        pf::Formatter::None => return None,
    })
}

/// ICU4X called directly, formatter built from scratch for this one call (the oracle)
pub fn icu_direct(f: &pf::Formatter, locale: &str, v: Val) -> String {
    let loc: IcuLocale = locale.parse().unwrap();
    let dl: DataLocale = (&loc).into();
    match (f, v) {
        (pf::Formatter::Number(g), Val::Num(n)) => {
            let mut o = FixedDecimalFormatterOptions::default();
            o.grouping_strategy = m_g(*g);
            FixedDecimalFormatter::try_new(&dl, o).unwrap().format_to_string(&documented_decimal(n))
        }
        (pf::Formatter::Currency(w, c), Val::Num(n)) => {
            let mut o = CurrencyFormatterOptions::default();
            o.width = m_w(*w);
            CurrencyFormatter::try_new(&dl, o).unwrap().format_fixed_decimal(&documented_decimal(n), m_code(c)).write_to_string().into_owned()
        }
        (pf::Formatter::Date(l), Val::Date(d)) => {
            DateFormatter::try_new_with_length(&dl, m_dl(*l)).unwrap().format_to_string(&date(d)).unwrap()
        }
        (pf::Formatter::Time(l), Val::Time(t)) => TimeFormatter::try_new_with_length(&dl, m_tl(*l)).unwrap().format_to_string(&time(t)),
        (pf::Formatter::DateTime(a, b), Val::DateTime(d, t)) => {
            let bag = length::Bag::from_date_time_style(m_dl(*a), m_tl(*b));
            DateTimeFormatter::try_new(&dl, bag.into()).unwrap().format_to_string(&datetime(d, t)).unwrap()
        }
        (pf::Formatter::List(ty, st), Val::List(l)) => {
            let st = m_ls(*st);
            let fm = match ty {
                pf::ListType::And => ListFormatter::try_new_and_with_length(&dl, st),
                pf::ListType::Or => ListFormatter::try_new_or_with_length(&dl, st),
                pf::ListType::Unit => ListFormatter::try_new_unit_with_length(&dl, st),
            }
            .unwrap();
            fm.format_to_string(l.iter())
        }
        _ => "MISMATCH".to_string(),
    }
}

/// the library's entry points (what the generated code calls), through the shared formatter cache
pub fn lib_call(f: &pf::Formatter, loc: Locale, v: Val) -> String {
    use leptos_i18n::__private as p;
    match (f, v) {
        (pf::Formatter::Number(g), Val::Num(n)) => with_num!(n, |v| p::format_number_to_display(loc, v, m_g(*g)).to_string()),
        (pf::Formatter::Currency(w, c), Val::Num(n)) => {
            with_num!(n, |v| p::format_currency_to_display(loc, v, m_w(*w), m_code(c)).to_string())
        }
        (pf::Formatter::Date(l), Val::Date(d)) => p::format_date_to_display(loc, &date(d), m_dl(*l)).to_string(),
        (pf::Formatter::Time(l), Val::Time(t)) => p::format_time_to_display(loc, &time(t), m_tl(*l)).to_string(),
        (pf::Formatter::DateTime(a, b), Val::DateTime(d, t)) => {
            p::format_datetime_to_display(loc, &datetime(d, t), m_dl(*a), m_tl(*b)).to_string()
        }
        (pf::Formatter::List(ty, st), Val::List(l)) => p::format_list_to_display(loc, l.to_vec(), m_lt(*ty), m_ls(*st)).to_string(),
        _ => "MISMATCH".to_string(),
    }
}

/// the parser's Formatter for a `{{ v, ... }}` value
pub fn formatter_of_text(s: &str) -> Option<pf::Formatter> {
    let kp = KeyPath::new(None);
    let loc = Key::new("en").unwrap();
    let f = ForeignKeysPaths::new();
    match ParsedValue::new(s, &kp, &loc, &f) {
        Ok(ParsedValue::Bloc(v)) => match v.as_slice() {
            [_, ParsedValue::Variable { formatter, .. }, _] => Some(*formatter),
            _ => None,
        },
        _ => None,
    }
}

pub fn n_values(f: &pf::Formatter) -> usize {
    match f {
        pf::Formatter::Number(_) | pf::Formatter::Currency(..) => NUMS.len(),
        pf::Formatter::Date(_) => DATES.len(),
        pf::Formatter::Time(_) => TIMES.len(),
        pf::Formatter::DateTime(..) => DATES.len() * TIMES.len(),
        pf::Formatter::List(..) => LISTS.len(),
        pf::Formatter::None => 0,
    }
}

// ---------------------------------------------------------------- t*_format! macros: every option combination, written out
macro_rules! fmt_calls {
    ($o:ident, $ln:ident, $loc:ident, $vi:ident, $val:expr; $([$($f:tt)*])*) => {
        $(
            let s = guard(|| td_format_string!($loc, $val, formatter: $($f)*).to_string());
            writeln!($o, "F {} {} {} s {}", cps(stringify!($($f)*)), $ln, $vi, cps(&s)).unwrap();
            let s = guard(|| td_format_display!($loc, $val, formatter: $($f)*).to_string());
            writeln!($o, "F {} {} {} d {}", cps(stringify!($($f)*)), $ln, $vi, cps(&s)).unwrap();
        )*
    };
}

fn run_format_macros(o: &mut impl Write) {
    for (ln, loc) in LOCALES.iter().copied() {
        for (vi, n) in NUMS.iter().copied().enumerate() {
            with_num!(n, |v| { fmt_calls!(o, ln, loc, vi, v.clone();
                [number] [number()] [number(grouping_strategy: auto)] [number(grouping_strategy: never)]
                [number(grouping_strategy: always)] [number(grouping_strategy: min2)]
                [number ( grouping_strategy : never ; )] [number(grouping_strategy: sometimes; grouping_strategy: min2)]
                [currency] [currency(width: short)] [currency(width: narrow)] [currency(currency_code: EUR)]
                [currency(width: narrow; currency_code: EUR)] [currency(currency_code: JPY; width: short)]
                [currency(width: narrow; currency_code: JPY)] [currency(width: wide; currency_code: USD)]); });
        }
        for (vi, d) in DATES.iter().copied().enumerate() {
            fmt_calls!(o, ln, loc, vi, &date(d);
                [date] [date(date_length: full)] [date(date_length: long)] [date(date_length: medium)] [date(date_length: short)]
                [date(time_length: short; date_length: long)] [date(date_length: tiny)]);
        }
        for (vi, t) in TIMES.iter().copied().enumerate() {
            fmt_calls!(o, ln, loc, vi, &time(t);
                [time] [time(time_length: medium)] [time(time_length: short)] [time(time_length: tiny; time_length: medium)]);
        }
        for ti in 0..TIMES.len() {
            for di in 0..DATES.len() {
                let vi = ti * DATES.len() + di;
                let (d, t) = (DATES[di], TIMES[ti]);
                fmt_calls!(o, ln, loc, vi, &datetime(d, t);
                    [datetime] [datetime(date_length: full; time_length: medium)] [datetime(date_length: full; time_length: short)]
                    [datetime(date_length: long; time_length: medium)] [datetime(time_length: short; date_length: long)]
                    [datetime(date_length: medium; time_length: medium)] [datetime(date_length: medium; time_length: short)]
                    [datetime(date_length: short; time_length: medium)] [datetime(date_length: short; time_length: short)]
                    [datetime(date_length: short)] [datetime(time_length: medium)]);
            }
        }
        for (vi, l) in LISTS.iter().copied().enumerate() {
            fmt_calls!(o, ln, loc, vi, l.to_vec();
                [list] [list(list_type: and; list_style: wide)] [list(list_type: and; list_style: short)]
                [list(list_type: and; list_style: narrow)] [list(list_type: or; list_style: wide)]
                [list(list_type: or; list_style: short)] [list(list_type: or; list_style: narrow)]
                [list(list_type: unit; list_style: wide)] [list(list_type: unit; list_style: short)]
                [list(list_style: narrow; list_type: unit)] [list(list_type: or)] [list(list_style: short)]);
        }
    }
}

pub fn run_rt() {
    let mut o = std::io::BufWriter::new(std::io::stdout().lock());
    let mut fmts = std::collections::HashMap::new();
    writeln!(o, "P n {}\nP c {}\nP d {}\nP t {}\nP D {}\nP l {}", NUMS.len(), NUMS.len(), DATES.len(), TIMES.len(), DATES.len() * TIMES.len(), LISTS.len()).unwrap();
    for (i, n) in NUMS.iter().enumerate() {
        writeln!(o, "N {} {}", i, cps(&format!("{:?}", n))).unwrap();
    }
    for (k, text) in KEYS.iter().chain(TZ_KEYS.iter()) {
        let f = formatter_of_text(text);
        writeln!(o, "K {} {} {}", k, cps(text), f.as_ref().map(pfmt).unwrap_or_else(|| "?".to_string())).unwrap();
        if let Some(f) = f {
            fmts.insert(*k, f);
        }
    }
    for (ln, loc) in LOCALES.iter().copied() {
        // generated code: td_string!/td_display!/td! for every key
        let mut run = |vi: usize, call: &dyn Fn(&mut dyn FnMut(&str, char, String))| {
            let mut lines = vec![];
            call(&mut |k: &str, fl: char, s: String| lines.push(format!("T {} {} {} {} {}", k, ln, vi, fl, cps(&s))));
            for l in lines {
                writeln!(o, "{}", l).unwrap();
            }
        };
        for (vi, n) in NUMS.iter().copied().enumerate() {
            with_num!(n, |v| run(vi, &|e| keys_num(loc, v.clone(), e)));
        }
        for (vi, d) in DATES.iter().copied().enumerate() {
            run(vi, &|e| keys_date(loc, d, e));
        }
        for (vi, t) in TIMES.iter().copied().enumerate() {
            run(vi, &|e| keys_time(loc, t, e));
        }
        for ti in 0..TIMES.len() {
            for di in 0..DATES.len() {
                run(ti * DATES.len() + di, &|e| keys_datetime(loc, DATES[di], TIMES[ti], e));
            }
        }
        for (vi, l) in LISTS.iter().copied().enumerate() {
            run(vi, &|e| keys_list(loc, l, e));
        }
        // the oracle for every key
        for (k, _) in KEYS {
            if let Some(f) = fmts.get(k) {
                for vi in 0..n_values(f) {
                    let v = value_for(f, vi).unwrap();
                    let s = guard(|| icu_direct(f, ln, v));
                    writeln!(o, "I {} {} {} {}", k, ln, vi, cps(&s)).unwrap();
                }
            }
        }
    }
    run_format_macros(&mut o);
    crate::m_dflt::run(&mut o);
    // last: options ICU4X refuses (a panic here must not disturb anything above)
    for (ln, loc) in LOCALES.iter().copied() {
        let mut lines = vec![];
        {
            let mut emit = |k: &str, fl: char, s: String| lines.push(format!("T {} {} 0 {} {}", k, ln, fl, cps(&s)));
            keys_time_tz(loc, TIMES[0], &mut emit);
            keys_datetime_tz(loc, DATES[0], TIMES[0], &mut emit);
        }
        for l in lines {
            writeln!(o, "{}", l).unwrap();
        }
        for (k, _) in TZ_KEYS {
            if let Some(f) = fmts.get(k) {
                let s = guard(|| icu_direct(f, ln, value_for(f, 0).unwrap()));
                writeln!(o, "I {} {} 0 {}", k, ln, cps(&s)).unwrap();
            }
        }
        let t = TIMES[0];
        let d = DATES[0];
        let vi = 0;
        fmt_calls!(o, ln, loc, vi, &time(t); [time(time_length: full)] [time(time_length: long)]);
        fmt_calls!(o, ln, loc, vi, &datetime(d, t); [datetime(time_length: full)] [datetime(date_length: short; time_length: long)]);
    }
    // and afterwards an ordinary call again: does the cache still work?
    for (ln, loc) in LOCALES.iter().copied() {
        let mut lines = vec![];
        keys_num(loc, dec(7, 0), &mut |k: &str, fl: char, s: String| lines.push(format!("A {} {} 1 {} {}", k, ln, fl, cps(&s))));
        for l in lines.into_iter().take(3) {
            writeln!(o, "{}", l).unwrap();
        }
    }
}

// ---------------------------------------------------------------- operation sequences on the shared cache
fn parse_fmt_code(code: &str) -> Option<pf::Formatter> {
    // inverse of m_parse::pfmt, through the parser itself: rebuild a formatter text and parse it
    let n = |s: &str| s.parse::<usize>().ok();
    let g = ["auto", "never", "always", "min2"];
    let l4 = ["full", "long", "medium", "short"];
    let lt = ["and", "or", "unit"];
    let ls = ["wide", "short", "narrow"];
    let cw = ["short", "narrow"];
    let (k, rest) = code.split_at(1);
    let text = match k {
        "n" => format!("number(grouping_strategy: {})", g.get(n(rest)?)?),
        "d" => format!("date(date_length: {})", l4.get(n(rest)?)?),
        "t" => format!("time(time_length: {})", l4.get(n(rest)?)?),
        "D" => {
            let (a, b) = rest.split_once('_')?;
            format!("datetime(date_length: {}; time_length: {})", l4.get(n(a)?)?, l4.get(n(b)?)?)
        }
        "l" => {
            let (a, b) = rest.split_once('_')?;
            format!("list(list_type: {}; list_style: {})", lt.get(n(a)?)?, ls.get(n(b)?)?)
        }
        "c" => {
            let (a, b) = rest.split_once('_')?;
            format!("currency(width: {}; currency_code: {})", cw.get(n(a)?)?, crate::m_parse::from_cps(b))
        }
        _ => return None,
    };
    let f = formatter_of_text(&format!("{{{{ v, {} }}}}", text))?;
    if pfmt(&f) == code {
        Some(f)
    } else {
        None
    }
}

pub fn run_ops(par: bool) {
    let stdin = std::io::stdin();
    let mut ops: Vec<(pf::Formatter, &'static str, Locale, Val)> = vec![];
    for line in stdin.lock().lines() {
        let line = line.unwrap();
        let p: Vec<&str> = line.split(' ').collect();
        let f = parse_fmt_code(p[0]).expect("formatter code");
        let (ln, loc) = LOCALES.iter().copied().find(|(n, _)| *n == p[1]).expect("locale");
        let v = value_for(&f, p[2].parse().unwrap()).expect("value id");
        ops.push((f, ln, loc, v));
    }
    let n = ops.len();
    let mut lib: Vec<String> = vec![String::new(); n];
    if par {
        const T: usize = 8;
        let barrier = std::sync::Barrier::new(T);
        let ops = &ops;
        let results: Vec<Vec<(usize, String)>> = std::thread::scope(|s| {
            let hs: Vec<_> = (0..T)
                .map(|t| {
                    let barrier = &barrier;
                    s.spawn(move || {
                        let mine: Vec<usize> = (t..n).step_by(T).collect();
                        barrier.wait();
                        mine.into_iter()
                            .map(|i| {
                                let (f, _, loc, v) = &ops[i];
                                (i, guard(|| lib_call(f, *loc, *v)))
                            })
                            .collect::<Vec<_>>()
                    })
                })
                .collect();
            hs.into_iter().map(|h| h.join().unwrap()).collect()
        });
        for r in results {
            for (i, s) in r {
                lib[i] = s;
            }
        }
    } else {
        for (i, (f, _, loc, v)) in ops.iter().enumerate() {
            lib[i] = guard(|| lib_call(f, *loc, *v));
        }
    }
    let mut o = std::io::BufWriter::new(std::io::stdout().lock());
    for (i, (f, ln, _, v)) in ops.iter().enumerate() {
        let d = guard(|| icu_direct(f, ln, *v));
        writeln!(o, "{}|{}", cps(&lib[i]), cps(&d)).unwrap();
    }
}
