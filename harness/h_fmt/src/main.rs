//! C18 correspondence harness: formatter selection (parser level) and formatter application (runtime level).
//! Modes (argv[1]):
//!   parse   one `{{ v, <formatter text> }}` value per stdin line (code points, comma separated) -> ParsedValue::new
//!   direct  `Formatter::from_name_and_args` called directly (the entry point the t*_format! macros use)
//!   rt      generated code and t*_format! macros against direct ICU4X calls (see m_rt.rs)
//!   ops seq|par   operation sequences on the shared formatter cache, one thread or 8 racing threads
#![allow(dead_code, unused_imports)]

mod m_parse;
#[macro_use]
mod m_rt;
mod m_dflt;

fn main() {
    if std::env::var_os("H_FMT_VERBOSE").is_none() {
        std::panic::set_hook(Box::new(|_| {}));
    }
    let mode = std::env::args().nth(1).unwrap_or_default();
    match mode.as_str() {
        "parse" => m_parse::run_parse(),
        "direct" => m_parse::run_direct(),
        "rt" => m_rt::run_rt(),
        "ops" => m_rt::run_ops(std::env::args().nth(2).as_deref() == Some("par")),
        _ => {
            eprintln!("unknown mode {mode:?}");
            std::process::exit(2);
        }
    }
}
