//! String-table correspondence harness (C11, and the table oracle of C17).
//!
//! stdin: one case per line `<project_dir>\t<out_dir>[\t<project_dir of an earlier generation into the same out_dir>]`
//! stdout: one line per case, records separated by `;`, fields by a space:
//!   `R OK` | `R ERR <hex of the error text>` | `R PANIC`
//!   `U <ns|-> <locale> <top_locale_string_count> <n> <hexstr>*n`          table of one translation unit
//!   `T <ns|-> <locale> <tree>`                                            value tree of that unit, see `dump_group`
//!   `I <ns|-> <kinds>`                                                    final InterpolOrLit of every key, see `dump_kinds`
//!   `P OK` | `P ERR <hex>` | `P PANIC`                                    result of the earlier generation, if any
//!   `W OK` | `W ERR <hex>` | `W PANIC`                                    result of write_to_dir
//!   `F <hex of relative path> <hex of the file's bytes>`                  every file found below <out_dir>
//! strings are printed as `s` followed by the code points in hex joined by `.`
use std::collections::BTreeMap;
use std::fmt::Write as _;
use std::panic::{catch_unwind, AssertUnwindSafe};
use std::path::{Path, PathBuf};

use leptos_i18n_build::TranslationsInfos;
use leptos_i18n_parser::parse_locales::locale::{BuildersKeys, BuildersKeysInner, InterpolOrLit, LiteralType, Locale, LocaleValue};
use leptos_i18n_parser::parse_locales::parse_locales;
use leptos_i18n_parser::parse_locales::parsed_value::{Literal, ParsedValue};
use leptos_i18n_parser::utils::Key;

fn hs(s: &str) -> String {
    let mut o = String::from("s");
    let mut first = true;
    for c in s.chars() {
        if !first {
            o.push('.');
        }
        first = false;
        write!(o, "{:x}", c as u32).unwrap();
    }
    o
}

fn hexbytes(b: &[u8]) -> String {
    let mut o = String::from("x");
    for x in b {
        write!(o, "{:02x}", x).unwrap();
    }
    o
}

/// value tree, prefix notation:
/// D default | F foreign key | V variable | S subkeys (in value position) | Ob Oi Ou Of bool / signed / unsigned / float literal
/// L <str> <index> | R n v*n | C v | P n v*n v | B n v*n
fn dump_value(v: &ParsedValue, o: &mut String) {
    match v {
        ParsedValue::Default => o.push_str(" D"),
        ParsedValue::ForeignKey(_) => o.push_str(" F"),
        ParsedValue::Variable { .. } => o.push_str(" V"),
        ParsedValue::Subkeys(_) => o.push_str(" S"),
        ParsedValue::Literal(Literal::String(s, i)) => {
            write!(o, " L {} {}", hs(s), i).unwrap();
        }
        ParsedValue::Literal(Literal::Bool(_)) => o.push_str(" Ob"),
        ParsedValue::Literal(Literal::Signed(_)) => o.push_str(" Oi"),
        ParsedValue::Literal(Literal::Unsigned(_)) => o.push_str(" Ou"),
        ParsedValue::Literal(Literal::Float(_)) => o.push_str(" Of"),
        ParsedValue::Ranges(r) => {
            let mut n = 0usize;
            let mut inner = String::new();
            let _ = r.try_for_each_value::<_, ()>(|v| {
                n += 1;
                dump_value(v, &mut inner);
                Ok(())
            });
            write!(o, " R {}{}", n, inner).unwrap();
        }
        ParsedValue::Component { inner, .. } => {
            o.push_str(" C");
            dump_value(inner, o);
        }
        ParsedValue::Plurals(p) => {
            write!(o, " P {}", p.forms.len()).unwrap();
            for v in p.forms.values() {
                dump_value(v, o);
            }
            dump_value(&p.other, o);
        }
        ParsedValue::Bloc(vs) => {
            write!(o, " B {}", vs.len()).unwrap();
            for v in vs {
                dump_value(v, o);
            }
        }
    }
}

/// group: `G n` then n entries `k<hexkey>` followed by a value (see above), or by
/// `N <top_locale_string_count> <number of sub locales> <n strings of the sub locale> <group>` for subkeys,
/// or `M` when the locale has no entry for a key the generated code has
fn dump_group(keys: &BuildersKeysInner, top_name: &str, values: &BTreeMap<Key, ParsedValue>, o: &mut String) {
    write!(o, " G {}", keys.0.len()).unwrap();
    for (k, lv) in &keys.0 {
        write!(o, " k{}", &hs(&k.name)[1..]).unwrap();
        match lv {
            LocaleValue::Value { .. } => match values.get(k) {
                Some(v) => dump_value(v, o),
                None => o.push_str(" M"),
            },
            // the nested Locale of THIS top locale: the generated code names accessors and match arms after
            // `top_locale_name` of each nested Locale, `propagate_string_count` pairs them with the top locales by position
            LocaleValue::Subkeys { locales, keys } => match locales.iter().find(|l| &*l.top_locale_name.name == top_name) {
                Some(sub) => {
                    write!(o, " N {} {} {}", sub.top_locale_string_count, locales.len(), sub.strings.len()).unwrap();
                    dump_group(keys, top_name, &sub.keys, o);
                }
                None => write!(o, " X {}", locales.len()).unwrap(),
            },
        }
    }
}

/// `G n` then n entries `k<hexkey>` followed by `I` (interpolation: a builder), `Ts` `Tb` `Ti` `Tu` `Tf` (literal of
/// that type in every locale) or a nested group for subkeys: the state `merge` leaves in `LocaleValue::Value { value }`
fn dump_kinds(keys: &BuildersKeysInner, o: &mut String) {
    write!(o, " G {}", keys.0.len()).unwrap();
    for (k, lv) in &keys.0 {
        write!(o, " k{}", &hs(&k.name)[1..]).unwrap();
        match lv {
            LocaleValue::Value { value, .. } => match value {
                InterpolOrLit::Interpol(_) => o.push_str(" I"),
                InterpolOrLit::Lit(LiteralType::String) => o.push_str(" Ts"),
                InterpolOrLit::Lit(LiteralType::Bool) => o.push_str(" Tb"),
                InterpolOrLit::Lit(LiteralType::Signed) => o.push_str(" Ti"),
                InterpolOrLit::Lit(LiteralType::Unsigned) => o.push_str(" Tu"),
                InterpolOrLit::Lit(LiteralType::Float) => o.push_str(" Tf"),
            },
            LocaleValue::Subkeys { keys, .. } => dump_kinds(keys, o),
        }
    }
}

fn dump_unit(ns: Option<&str>, locales: &[Locale], keys: &BuildersKeysInner, out: &mut String) {
    let nsn = ns.map(|n| hs(n)).unwrap_or_else(|| "-".to_string());
    write!(out, ";I {}", nsn).unwrap();
    dump_kinds(keys, out);
    for l in locales.iter() {
        let nsn = ns.map(|n| hs(n)).unwrap_or_else(|| "-".to_string());
        write!(out, ";U {} {} {} {}", nsn, hs(&l.name.name), l.top_locale_string_count, l.strings.len()).unwrap();
        for s in &l.strings {
            write!(out, " {}", hs(s)).unwrap();
        }
        write!(out, ";T {} {}", nsn, hs(&l.name.name)).unwrap();
        dump_group(keys, &l.name.name, &l.keys, out);
    }
}

fn walk_files(root: &Path, dir: &Path, out: &mut Vec<(String, Vec<u8>)>) {
    let Ok(rd) = std::fs::read_dir(dir) else { return };
    let mut entries: Vec<PathBuf> = rd.filter_map(|e| e.ok().map(|e| e.path())).collect();
    entries.sort();
    for p in entries {
        if p.is_dir() {
            walk_files(root, &p, out);
        } else if let Ok(bytes) = std::fs::read(&p) {
            let rel = p.strip_prefix(root).unwrap_or(&p).to_string_lossy().replace('\\', "/");
            out.push((rel, bytes));
        }
    }
}

fn run_case(project: &str, out_dir: &str, previous: Option<&str>) -> String {
    let mut out = String::new();
    let parsed = catch_unwind(AssertUnwindSafe(|| parse_locales(true, Some(PathBuf::from(project)))));
    match parsed {
        Err(_) => return "R PANIC".to_string(),
        Ok(Err(e)) => return format!("R ERR {}", hs(&e.to_string())),
        Ok(Ok((bk, _warnings, _files))) => {
            out.push_str("R OK");
            match &bk {
                BuildersKeys::NameSpaces { namespaces, keys } => {
                    for ns in namespaces {
                        match keys.get(&ns.key) {
                            Some(k) => dump_unit(Some(&ns.key.name), &ns.locales, k, &mut out),
                            None => out.push_str(";R NOKEYS"),
                        }
                    }
                }
                BuildersKeys::Locales { locales, keys } => dump_unit(None, locales, keys, &mut out),
            }
        }
    }
    // the build helper, exactly as a build.rs calls it
    let _ = std::fs::remove_dir_all(out_dir);
    if let Some(prev) = previous {
        // an earlier generation into the SAME directory (a build.rs is run again whenever a locale file changes)
        let p = catch_unwind(AssertUnwindSafe(|| -> Result<(), String> {
            let infos = TranslationsInfos::parse_at_dir(prev).map_err(|e| e.to_string())?;
            infos.get_translations().write_to_dir(out_dir).map_err(|e| e.to_string())
        }));
        match p {
            Err(_) => out.push_str(";P PANIC"),
            Ok(Err(e)) => write!(out, ";P ERR {}", hs(&e)).unwrap(),
            Ok(Ok(())) => out.push_str(";P OK"),
        }
    }
    let w = catch_unwind(AssertUnwindSafe(|| -> Result<(), String> {
        let infos = TranslationsInfos::parse_at_dir(project).map_err(|e| e.to_string())?;
        infos.get_translations().write_to_dir(out_dir).map_err(|e| e.to_string())
    }));
    match w {
        Err(_) => out.push_str(";W PANIC"),
        Ok(Err(e)) => write!(out, ";W ERR {}", hs(&e)).unwrap(),
        Ok(Ok(())) => out.push_str(";W OK"),
    }
    let mut files = vec![];
    walk_files(Path::new(out_dir), Path::new(out_dir), &mut files);
    for (rel, bytes) in files {
        write!(out, ";F {} {}", hs(&rel), hexbytes(&bytes)).unwrap();
    }
    out
}

fn main() {
    std::panic::set_hook(Box::new(|_| {}));
    let stdin = std::io::stdin();
    let mut line = String::new();
    loop {
        line.clear();
        match stdin.read_line(&mut line) {
            Ok(0) | Err(_) => break,
            Ok(_) => {}
        }
        let l = line.trim_end_matches(['\n', '\r']);
        if l.is_empty() {
            continue;
        }
        let mut it = l.split('\t');
        let (Some(project), Some(out_dir)) = (it.next(), it.next()) else {
            println!("R BADCASE");
            continue;
        };
        println!("{}", run_case(project, out_dir, it.next().filter(|p| !p.is_empty())));
    }
}
