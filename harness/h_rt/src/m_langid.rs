//! C12: one case per stdin line:  `<i,j,k>|<n>|<req U+001F req ...>`  (available = indices into the universe, in that order)
//! output: `U <fields of every universe locale>` first, then per case
//! `P <per request: parsed fields or `!`>|M <filter_matches indices>|F <find_match index>|L <find_locale (full universe) index>`
use crate::langid::{convert_vec_str_to_langids_lossy, filter_matches, find_match};
use crate::uni::i18n::Locale as U;
use icu_locid::LanguageIdentifier;
use leptos_i18n::Locale;
use std::io::{BufRead, Write};

fn fields(l: &LanguageIdentifier) -> String {
    let lang = if l.language.is_empty() { String::new() } else { l.language.to_string() };
    let script = l.script.map(|s| s.to_string()).unwrap_or_default();
    let region = l.region.map(|s| s.to_string()).unwrap_or_default();
    let vars: Vec<String> = l.variants.iter().map(|v| v.to_string()).collect();
    format!("{}/{}/{}/{}", lang, script, region, vars.join("."))
}

fn idx(l: U) -> usize {
    U::get_all().iter().position(|x| *x == l).unwrap()
}

pub fn run() {
    let stdin = std::io::stdin();
    let mut o = std::io::stdout().lock();
    let all = U::get_all();
    let u: Vec<String> = all.iter().map(|l| fields(l.as_langid())).collect();
    writeln!(o, "U {}", u.join(",")).unwrap();
    for line in stdin.lock().lines() {
        let line = line.unwrap();
        let mut it = line.splitn(3, '|');
        let a = it.next().unwrap();
        let n: usize = it.next().unwrap().parse().unwrap();
        let r = it.next().unwrap();
        let avail: Vec<U> = a.split(',').filter(|x| !x.is_empty()).map(|x| all[x.parse::<usize>().unwrap()]).collect();
        let reqs: Vec<&str> = if n == 0 { vec![] } else { r.split('\u{1f}').collect() };
        let res = std::panic::catch_unwind(|| {
            let ids = convert_vec_str_to_langids_lossy(reqs.iter());
            let p: Vec<String> = reqs
                .iter()
                .map(|r| LanguageIdentifier::try_from_bytes(r.as_bytes()).map(|l| fields(&l)).unwrap_or_else(|_| "!".to_string()))
                .collect();
            let m: Vec<String> = filter_matches(&ids, &avail).into_iter().map(|l| idx(l).to_string()).collect();
            let f = idx(find_match(&ids, &avail));
            let l = idx(<U as Locale>::find_locale(&reqs));
            format!("P {}|M {}|F {}|L {}", p.join(";"), m.join(","), f, l)
        });
        writeln!(o, "{}", res.unwrap_or_else(|_| "PANIC".to_string())).unwrap();
    }
}
