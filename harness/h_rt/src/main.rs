//! Runtime correspondence harness (H4): drives leptos_i18n's runtime natively.
//! Modes (argv[1]): langid
#![allow(dead_code, unused_imports)]

pub use leptos_i18n::Locale;

mod uni {
    leptos_i18n::declare_locales! {
        default: "en",
        locales: [
            "en", "en-US", "en-GB", "en-Latn", "en-Latn-US", "en-US-posix",
            "fr", "fr-FR", "fr-CA", "de", "de-DE", "de-CH",
            "zh", "zh-Hant", "zh-Hant-TW", "zh-Hans-CN", "ca-ES-valencia", "und-FR"
        ],
        en: {}, en_US: {}, en_GB: {}, en_Latn: {}, en_Latn_US: {}, en_US_posix: {},
        fr: {}, fr_FR: {}, fr_CA: {}, de: {}, de_DE: {}, de_CH: {},
        zh: {}, zh_Hant: {}, zh_Hant_TW: {}, zh_Hans_CN: {}, ca_ES_valencia: {}, und_FR: {},
    }
}

/// the real negotiation code, compiled from the repository's source file
#[path = "/repo/leptos_i18n/src/langid.rs"]
mod langid;

mod m_langid;

fn main() {
    std::panic::set_hook(Box::new(|_| {}));
    let mode = std::env::args().nth(1).unwrap_or_default();
    match mode.as_str() {
        "langid" => m_langid::run(),
        _ => {
            eprintln!("unknown mode {mode:?}");
            std::process::exit(2);
        }
    }
}
