//! C04 correspondence harness: drives leptos_i18n_parser's range code.
//! One case per stdin line, tab separated, first field = mode; one result line per case.
//!
//! `new <ty> <codepoints> <counts>`
//!     Range::<ty>::new(string).  counts: comma separated numerals of type <ty> (`all` = every value of i8/u8).
//!     -> `<OK range | ERR kind codepoints>\t<native bits>\t<do_match bits>`
//!     native  = meaning of the parsed structure under Rust's own `==` / `RangeBounds::contains`
//!               (what the generated patterns / if-chain compute), independent of `do_match`;
//!     do_match = observed through the pub `Ranges::populate_with_count_arg` on `[(range,"Y"),(Fallback,"N")]`.
//! `decl <json> <count literals ;-separated>`
//!     the serde entry (ParsedValueSeed, i.e. what a locale file value goes through), then for each JSON
//!     count literal: static selection by `populate_with_count_arg` (+ reduce, rendered) and the native
//!     first-match index when the literal is a value of the declared type.
//!     -> `<OK ty [range=>value|...] | ERR kind>\t<per count: S:<codepoints> | E:<kind> | PANIC>;..\t<per count: idx | - | x>;..`
//! `fnum <codepoints>`
//!     float oracle: `<f64 key|nan|ERR> <f32 key|nan|ERR> <key of (f64 as f32)> <Display f64 cps> <Display f32 cps>
//!     <key of serde_json's f64> <key of that as f32> <Display of serde_json's f64> <Display of that as f32>`
#![allow(dead_code)]
use leptos_i18n_parser::parse_locales::error::Error;
use leptos_i18n_parser::parse_locales::parsed_value::{Literal, ParsedValue, ParsedValueSeed};
use leptos_i18n_parser::parse_locales::ranges::{Range, RangeNumber, Ranges, UntypedRangesInner};
use leptos_i18n_parser::parse_locales::ForeignKeysPaths;
use leptos_i18n_parser::utils::{Key, KeyPath};
use serde::de::DeserializeSeed;
use std::collections::BTreeMap;
use std::io::{BufRead, Write};
use std::ops::{Bound, RangeBounds};
use std::panic::{catch_unwind, AssertUnwindSafe};

fn cps(s: &str) -> String {
    s.chars().map(|c| (c as u32).to_string()).collect::<Vec<_>>().join(",")
}
fn from_cps(s: &str) -> String {
    s.split(',').filter(|x| !x.is_empty()).map(|x| char::from_u32(x.parse::<u32>().unwrap()).unwrap()).collect()
}

fn key64(x: f64) -> String {
    if x.is_nan() {
        return "nan".into();
    }
    let b = x.to_bits();
    let m = (b & 0x7fff_ffff_ffff_ffff) as i128;
    (if b >> 63 == 1 { -m } else { m }).to_string()
}
fn key32(x: f32) -> String {
    if x.is_nan() {
        return "nan".into();
    }
    let b = x.to_bits();
    let m = (b & 0x7fff_ffff) as i128;
    (if b >> 31 == 1 { -m } else { m }).to_string()
}

trait Num: RangeNumber + std::fmt::Debug + 'static {
    fn canon(&self) -> String;
    fn parse_count(s: &str) -> Option<Self>;
    fn lit(self) -> Literal;
    /// the count a literal denotes in this type (None: wrong kind or outside the type)
    fn from_lit(l: &Literal) -> Option<Self>;
    fn wrap(v: Vec<(Range<Self>, ParsedValue)>) -> UntypedRangesInner;
    fn all() -> Vec<Self> {
        vec![]
    }
}
macro_rules! int_num {
    ($t:ty, $v:ident, $lit:ident, $lt:ty, $all:expr) => {
        impl Num for $t {
            fn canon(&self) -> String {
                self.to_string()
            }
            fn parse_count(s: &str) -> Option<Self> {
                s.parse::<$t>().ok()
            }
            fn lit(self) -> Literal {
                Literal::$lit(self as $lt)
            }
            fn from_lit(l: &Literal) -> Option<Self> {
                match l {
                    Literal::Unsigned(u) => <$t>::try_from(*u).ok(),
                    Literal::Signed(i) => <$t>::try_from(*i).ok(),
                    _ => None,
                }
            }
            fn wrap(v: Vec<(Range<Self>, ParsedValue)>) -> UntypedRangesInner {
                UntypedRangesInner::$v(v)
            }
            fn all() -> Vec<Self> {
                $all
            }
        }
    };
}
int_num!(i8, I8, Signed, i64, (i8::MIN..=i8::MAX).collect());
int_num!(i16, I16, Signed, i64, vec![]);
int_num!(i32, I32, Signed, i64, vec![]);
int_num!(i64, I64, Signed, i64, vec![]);
int_num!(u8, U8, Unsigned, u64, (u8::MIN..=u8::MAX).collect());
int_num!(u16, U16, Unsigned, u64, vec![]);
int_num!(u32, U32, Unsigned, u64, vec![]);
int_num!(u64, U64, Unsigned, u64, vec![]);
impl Num for f64 {
    fn canon(&self) -> String {
        key64(*self)
    }
    fn parse_count(s: &str) -> Option<Self> {
        s.parse::<f64>().ok()
    }
    fn lit(self) -> Literal {
        Literal::Float(self)
    }
    fn from_lit(l: &Literal) -> Option<Self> {
        match l {
            Literal::Float(f) => Some(*f),
            _ => None,
        }
    }
    fn wrap(v: Vec<(Range<Self>, ParsedValue)>) -> UntypedRangesInner {
        UntypedRangesInner::F64(v)
    }
}
impl Num for f32 {
    fn canon(&self) -> String {
        key32(*self)
    }
    fn parse_count(s: &str) -> Option<Self> {
        // the same route as a literal count: f64 first, then `as f32`
        s.parse::<f64>().ok().map(|x| x as f32)
    }
    fn lit(self) -> Literal {
        Literal::Float(self as f64)
    }
    fn from_lit(l: &Literal) -> Option<Self> {
        match l {
            Literal::Float(f) => Some(*f as f32),
            _ => None,
        }
    }
    fn wrap(v: Vec<(Range<Self>, ParsedValue)>) -> UntypedRangesInner {
        UntypedRangesInner::F32(v)
    }
}

fn canon_range<T: Num>(r: &Range<T>) -> String {
    match r {
        Range::Exact(v) => format!("E({})", v.canon()),
        Range::Bounds { start, end } => format!(
            "B({},{})",
            start.map(|s| s.canon()).unwrap_or_else(|| "-".into()),
            match end {
                Bound::Included(e) => format!("I{}", e.canon()),
                Bound::Excluded(e) => format!("X{}", e.canon()),
                Bound::Unbounded => "U".into(),
            }
        ),
        Range::Multiple(rs) => format!("M[{}]", rs.iter().map(canon_range).collect::<Vec<_>>().join(" ")),
        Range::Fallback => "F".into(),
    }
}

/// meaning of a parsed range under Rust's own operators (what the generated code evaluates)
fn native<T: Num>(r: &Range<T>, n: T) -> bool {
    match r {
        Range::Exact(v) => n == *v,
        Range::Bounds { start, end } => {
            let sb = match start {
                Some(s) => Bound::Included(s),
                None => Bound::Unbounded,
            };
            let eb = match end {
                Bound::Included(e) => Bound::Included(e),
                Bound::Excluded(e) => Bound::Excluded(e),
                Bound::Unbounded => Bound::Unbounded,
            };
            (sb, eb).contains(&n)
        }
        Range::Multiple(rs) => rs.iter().any(|r| native(r, n)),
        Range::Fallback => true,
    }
}

fn err_kind(e: &Error) -> String {
    match e {
        Error::RangeParse { range, .. } => format!("RangeParse {}", cps(range)),
        Error::InvalidBoundEnd { range, .. } => format!("InvalidBoundEnd {}", cps(range)),
        Error::ImpossibleRange(range) => format!("ImpossibleRange {}", cps(range)),
        Error::InvalidCountArg { .. } => "InvalidCountArg".into(),
        Error::InvalidCountArgType { input_type, range_type, .. } => format!("InvalidCountArgType {} {}", input_type, range_type),
        Error::CountArgOutsideRange { .. } => "CountArgOutsideRange".into(),
        other => {
            let d = format!("{:?}", other);
            format!("Other:{}", d.split(|c: char| !c.is_alphanumeric()).next().unwrap_or(""))
        }
    }
}

fn serde_kind(msg: &str) -> String {
    let table: &[(&str, &str)] = &[
        ("error parsing ", "RangeParse"),
        ("end bound is invalid", "InvalidBoundEnd"),
        ("is impossible, it end before", "ImpossibleRange"),
        ("empty ranges are not allowed", "EmptyRange"),
        ("invalid range type", "InvalidRangeType"),
        ("nested ranges are not allowed", "NestedRanges"),
        ("fallbacks are only allowed in last position", "InvalidFallback"),
        ("only one fallback is allowed", "MultipleFallbacks"),
        ("require a fallback", "MissingFallback"),
        ("subkeys for ranges are not allowed", "RangeSubkeys"),
        ("number type ", "RangeNumberType"),
        ("missing field", "Serde:missing_field"),
        ("duplicate field", "Serde:duplicate_field"),
        ("unknown field", "Serde:unknown_field"),
        ("invalid length", "Serde:invalid_length"),
        ("invalid type", "Serde:invalid_type"),
    ];
    for (pat, k) in table {
        if msg.contains(pat) {
            return (*k).to_string();
        }
    }
    format!("Serde:other:{}", cps(&msg.chars().take(60).collect::<String>()))
}

fn render(v: &ParsedValue) -> String {
    match v {
        ParsedValue::Default => "<default>".into(),
        ParsedValue::ForeignKey(_) => "<fk>".into(),
        ParsedValue::Literal(l) => l.to_string(),
        ParsedValue::Variable { key, .. } => format!("{{{}}}", key.name),
        ParsedValue::Component { key, inner } => format!("<{}>{}</{}>", key.name, render(inner), key.name),
        ParsedValue::Bloc(vs) => vs.iter().map(render).collect(),
        ParsedValue::Subkeys(_) => "<subkeys>".into(),
        ParsedValue::Plurals(_) => "<plurals>".into(),
        ParsedValue::Ranges(r) => format!("R({})[{}]", r.count_key.name, render_branches(r)),
    }
}
fn rb<T: Num>(v: &[(Range<T>, ParsedValue)]) -> String {
    v.iter().map(|(r, v)| format!("{}=>{}", canon_range(r), cps(&render(v)))).collect::<Vec<_>>().join("|")
}
fn render_branches(r: &Ranges) -> String {
    match &r.inner {
        UntypedRangesInner::I8(v) => rb(v),
        UntypedRangesInner::I16(v) => rb(v),
        UntypedRangesInner::I32(v) => rb(v),
        UntypedRangesInner::I64(v) => rb(v),
        UntypedRangesInner::U8(v) => rb(v),
        UntypedRangesInner::U16(v) => rb(v),
        UntypedRangesInner::U32(v) => rb(v),
        UntypedRangesInner::U64(v) => rb(v),
        UntypedRangesInner::F32(v) => rb(v),
        UntypedRangesInner::F64(v) => rb(v),
    }
}

struct Env {
    locale: Key,
    key: Key,
    key_path: KeyPath,
    fk: KeyPath,
}
fn env() -> Env {
    let mut fk = KeyPath::new(None);
    fk.push_key(Key::new("r").unwrap());
    let mut key_path = KeyPath::new(None);
    key_path.push_key(Key::new("k").unwrap());
    Env { locale: Key::new("en").unwrap(), key: Key::new("r").unwrap(), key_path, fk }
}

fn lit_value(s: &str) -> ParsedValue {
    ParsedValue::Literal(Literal::String(s.to_string(), usize::MAX))
}

fn run_new<T: Num>(s: &str, counts: &str) -> String {
    let parsed = catch_unwind(|| Range::<T>::new(s));
    let range = match parsed {
        Err(_) => return "PANIC\t\t".into(),
        Ok(Err(e)) => return format!("ERR {}\t\t", err_kind(&e)),
        Ok(Ok(r)) => r,
    };
    let cs: Vec<T> = if counts == "all" {
        T::all()
    } else {
        // a count the harness itself cannot read is a generator error, never to be confused with a panic of the code under test
        match counts.split(',').filter(|x| !x.is_empty()).map(T::parse_count).collect::<Option<Vec<T>>>() {
            Some(v) => v,
            None => return "BADCOUNT\t\t".into(),
        }
    };
    let e = env();
    let ranges = Ranges {
        count_key: Key::count(),
        inner: T::wrap(vec![(range.clone(), lit_value("Y")), (Range::Fallback, lit_value("N"))]),
    };
    let mut nat = String::new();
    let mut dm = String::new();
    for n in cs {
        nat.push(if native(&range, n) { '1' } else { '0' });
        let arg = ParsedValue::Literal(n.lit());
        let args = BTreeMap::new();
        let r = catch_unwind(AssertUnwindSafe(|| ranges.populate_with_count_arg(&arg, &args, &e.fk, &e.locale, &e.key_path)));
        dm.push(match r {
            Err(_) => 'P',
            Ok(Err(_)) => 'E',
            Ok(Ok(v)) => match render(&v).as_str() {
                "Y" => '1',
                "N" => '0',
                _ => '?',
            },
        });
    }
    format!("OK {}\t{}\t{}", canon_range(&range), nat, dm)
}

fn first_native<T: Num>(v: &[(Range<T>, ParsedValue)], lit: Option<&Literal>) -> String {
    match lit.and_then(T::from_lit) {
        None => "x".into(),
        Some(n) => v.iter().position(|(r, _)| native(r, n)).map(|i| i.to_string()).unwrap_or_else(|| "-".into()),
    }
}

fn run_decl(json: &str, counts: &str) -> String {
    let e = env();
    let fkp = ForeignKeysPaths::new();
    let parsed = catch_unwind(AssertUnwindSafe(|| {
        let seed = ParsedValueSeed {
            top_locale_name: &e.locale,
            in_range: false,
            key_path: &e.key_path,
            key: &e.key,
            foreign_keys_paths: &fkp,
        };
        let mut de = serde_json::Deserializer::from_str(json);
        let v = seed.deserialize(&mut de);
        match v {
            Ok(v) => de.end().map(|_| v),
            Err(e) => Err(e),
        }
    }));
    let value = match parsed {
        Err(_) => return "PANIC\t\t".into(),
        Ok(Err(err)) => return format!("ERR {}\t\t", serde_kind(&err.to_string())),
        Ok(Ok(v)) => v,
    };
    let ParsedValue::Ranges(ranges) = &value else {
        return format!("NOTRANGE {}\t\t", cps(&render(&value)));
    };
    let head = format!("OK {} {}", ranges.get_type(), render_branches(ranges));
    let mut stat = vec![];
    let mut nat = vec![];
    for c in counts.split(';').filter(|x| !x.is_empty()) {
        // the same route as parse_foreign_key_args_inner: serde_json -> Literal, strings go through ParsedValue::new
        let lit = match serde_json::from_str::<Literal>(c) {
            Ok(l) => l,
            Err(_) => {
                stat.push("BADLIT".to_string());
                nat.push("x".to_string());
                continue;
            }
        };
        let arg = match lit {
            Literal::String(s, _) => match catch_unwind(AssertUnwindSafe(|| ParsedValue::new(&s, &e.key_path, &e.locale, &fkp))) {
                Ok(Ok(v)) => v,
                _ => {
                    stat.push("BADLIT".to_string());
                    nat.push("x".to_string());
                    continue;
                }
            },
            other => ParsedValue::Literal(other),
        };
        let c = match &arg {
            ParsedValue::Literal(l) => Some(l),
            _ => None,
        };
        let mut args = BTreeMap::new();
        args.insert("var_count".to_string(), arg.clone());
        let r = catch_unwind(AssertUnwindSafe(|| {
            ranges.populate_with_count_arg(&arg, &args, &e.fk, &e.locale, &e.key_path).map(|mut v| {
                v.reduce();
                render(&v)
            })
        }));
        stat.push(match r {
            Err(_) => "PANIC".to_string(),
            Ok(Err(err)) => format!("E:{}", err_kind(&err)),
            Ok(Ok(s)) => format!("S:{}", cps(&s)),
        });
        nat.push(match &ranges.inner {
            UntypedRangesInner::I8(v) => first_native(v, c),
            UntypedRangesInner::I16(v) => first_native(v, c),
            UntypedRangesInner::I32(v) => first_native(v, c),
            UntypedRangesInner::I64(v) => first_native(v, c),
            UntypedRangesInner::U8(v) => first_native(v, c),
            UntypedRangesInner::U16(v) => first_native(v, c),
            UntypedRangesInner::U32(v) => first_native(v, c),
            UntypedRangesInner::U64(v) => first_native(v, c),
            UntypedRangesInner::F32(v) => first_native(v, c),
            UntypedRangesInner::F64(v) => first_native(v, c),
        });
    }
    format!("{}\t{}\t{}", head, stat.join(";"), nat.join(";"))
}

fn run_fnum(s: &str) -> String {
    let a = s.parse::<f64>();
    let b = s.parse::<f32>();
    // the JSON route (serde_json's own number parser; without its float_roundtrip feature it may differ from from_str)
    let j = serde_json::from_str::<Literal>(s).ok().and_then(|l| match l {
        Literal::Float(f) => Some(f),
        _ => None,
    });
    let j64 = j.map(key64).unwrap_or_else(|| "ERR".into());
    let j32 = j.map(|x| key32(x as f32)).unwrap_or_else(|| "ERR".into());
    let dj = j.map(|x| cps(&x.to_string())).unwrap_or_default();
    let dj32 = j.map(|x| cps(&(x as f32).to_string())).unwrap_or_default();
    let k64 = a.as_ref().map(|x| key64(*x)).unwrap_or_else(|_| "ERR".into());
    let k32 = b.as_ref().map(|x| key32(*x)).unwrap_or_else(|_| "ERR".into());
    let kc = a.as_ref().map(|x| key32(*x as f32)).unwrap_or_else(|_| "ERR".into());
    let d64 = a.as_ref().map(|x| cps(&x.to_string())).unwrap_or_default();
    let d32 = a.as_ref().map(|x| cps(&(*x as f32).to_string())).unwrap_or_default();
    let dash = |x: String| if x.is_empty() { "-".to_string() } else { x };
    format!("{} {} {} {} {} {} {} {} {}", k64, k32, kc, dash(d64), dash(d32), j64, j32, dash(dj), dash(dj32))
}

/// self-test of the ordering oracle: key order == PartialOrd on a fixed grid of floats
fn order_selftest() -> bool {
    let xs: Vec<f64> = vec![
        f64::NEG_INFINITY, f64::MIN, -1e300, -2.5, -1.0, -f64::MIN_POSITIVE, -5e-324, -0.0, 0.0, 5e-324, f64::MIN_POSITIVE, 0.1, 0.5, 1.0,
        1.0000000000000002, 1.5, 2.0, 1e10, 1e300, f64::MAX, f64::INFINITY,
    ];
    let k = |x: f64| key64(x).parse::<i128>().unwrap();
    let k3 = |x: f32| key32(x).parse::<i128>().unwrap();
    for &a in &xs {
        for &b in &xs {
            if (a < b) != (k(a) < k(b)) || (a == b) != (k(a) == k(b)) {
                return false;
            }
            let (a3, b3) = (a as f32, b as f32);
            if (a3 < b3) != (k3(a3) < k3(b3)) || (a3 == b3) != (k3(a3) == k3(b3)) {
                return false;
            }
        }
    }
    true
}

fn dispatch_new(ty: &str, s: &str, counts: &str) -> String {
    match ty {
        "i8" => run_new::<i8>(s, counts),
        "i16" => run_new::<i16>(s, counts),
        "i32" => run_new::<i32>(s, counts),
        "i64" => run_new::<i64>(s, counts),
        "u8" => run_new::<u8>(s, counts),
        "u16" => run_new::<u16>(s, counts),
        "u32" => run_new::<u32>(s, counts),
        "u64" => run_new::<u64>(s, counts),
        "f32" => run_new::<f32>(s, counts),
        "f64" => run_new::<f64>(s, counts),
        _ => "BADTYPE\t\t".into(),
    }
}

fn main() {
    std::panic::set_hook(Box::new(|_| {}));
    let stdin = std::io::stdin();
    let mut o = std::io::BufWriter::new(std::io::stdout().lock());
    writeln!(o, "SELFTEST {}", if order_selftest() { "ok" } else { "FAILED" }).unwrap();
    for line in stdin.lock().lines() {
        let line = line.unwrap();
        let f: Vec<&str> = line.split('\t').collect();
        let out = match f.first().copied() {
            Some("new") if f.len() == 4 => {
                let s = from_cps(f[2]);
                catch_unwind(|| dispatch_new(f[1], &s, f[3])).unwrap_or_else(|_| "PANIC\t\t".into())
            }
            Some("decl") if f.len() == 3 => catch_unwind(|| run_decl(f[1], f[2])).unwrap_or_else(|_| "PANIC\t\t".into()),
            Some("fnum") if f.len() == 2 => run_fnum(&from_cps(f[1])),
            _ => "BADLINE".into(),
        };
        writeln!(o, "{}", out).unwrap();
    }
}
