(** Lemmas about the model of the build helper's ICU key discovery (property C20). *)
From Coq Require Import List NArith Bool Arith Lia.
Import ListNotations.
From LI Require Import Build.IcuKeys.
Open Scope N_scope.

(** ** nested induction principles *)

Lemma locale_value_ind' (P : locale_value -> Prop) :
  (forall v, P (Value v)) ->
  (forall ks, Forall (fun kv => P (snd kv)) ks -> P (Subkeys ks)) ->
  forall lv, P lv.
Proof.
  intros HV HS. fix IH 1. intros [v|ks]; [apply HV|]. apply HS.
  induction ks as [|kv r IHr]; constructor; [apply IH|exact IHr].
Qed.

Lemma uvalue_ind' (P : uvalue -> Prop) :
  P UDefault -> (forall ty, P (ULit ty)) -> (forall ps, P (UInterp ps)) ->
  (forall ks, Forall (fun kv => P (snd kv)) ks -> P (USub ks)) ->
  forall u, P u.
Proof.
  intros HD HL HI HS. fix IH 1. intros [|ty|ps|ks]; [exact HD|apply HL|apply HI|]. apply HS.
  induction ks as [|kv r IHr]; constructor; [apply IH|exact IHr].
Qed.

(** ** the option set *)

Definition option_eqb (a b : option_) : bool :=
  match a, b with
  | Plurals, Plurals | FormatDateTime, FormatDateTime | FormatList, FormatList
  | FormatNums, FormatNums | FormatCurrency, FormatCurrency => true
  | _, _ => false
  end.

Lemma mem_insert : forall o o' s, mem o (insert o' s) = option_eqb o o' || mem o s.
Proof. intros [] [] s; reflexivity. Qed.

Lemma mem_empty : forall o, mem o empty_opts = false.
Proof. intros []; reflexivity. Qed.

Definition uses_fmt (o : option_) (f : formatter) : bool :=
  match option_of_formatter f with Some o' => option_eqb o o' | None => false end.
Definition count_uses (o : option_) (c : option range_or_plural) : bool :=
  match c with Some Plural => option_eqb o Plurals | _ => false end.
Definition var_uses (o : option_) (vi : var_info) : bool :=
  count_uses o (vi_count vi) || existsb (uses_fmt o) (vi_formatters vi).

Lemma scan_formatter_mem : forall o f acc, mem o (scan_formatter acc f) = mem o acc || uses_fmt o f.
Proof.
  intros o f acc. unfold scan_formatter, uses_fmt. destruct (option_of_formatter f) as [o'|].
  - rewrite mem_insert. apply orb_comm.
  - rewrite orb_false_r. reflexivity.
Qed.

Lemma fold_scan_formatter_mem : forall o fs acc,
  mem o (fold_left scan_formatter fs acc) = mem o acc || existsb (uses_fmt o) fs.
Proof.
  intros o. induction fs as [|f r IH]; intros acc; cbn [fold_left existsb].
  - rewrite orb_false_r. reflexivity.
  - rewrite IH, scan_formatter_mem, orb_assoc. reflexivity.
Qed.

Lemma scan_var_mem : forall o kv acc, mem o (scan_var acc kv) = mem o acc || var_uses o (snd kv).
Proof.
  intros o kv acc. unfold scan_var, var_uses, count_uses. rewrite fold_scan_formatter_mem.
  destruct (vi_count (snd kv)) as [[ty|]|].
  - cbn [orb]. reflexivity.
  - rewrite mem_insert. rewrite (orb_comm (option_eqb o Plurals) (mem o acc)), orb_assoc. reflexivity.
  - cbn [orb]. reflexivity.
Qed.

Definition vars_uses (o : option_) (vars : interpolation_keys) : bool := existsb (fun kv => var_uses o (snd kv)) vars.

Lemma fold_scan_var_mem : forall o vars acc, mem o (fold_left scan_var vars acc) = mem o acc || vars_uses o vars.
Proof.
  intros o. induction vars as [|kv r IH]; intros acc; cbn [fold_left vars_uses existsb].
  - rewrite orb_false_r. reflexivity.
  - rewrite IH, scan_var_mem, orb_assoc. reflexivity.
Qed.

(** ** the walk over the merged tree *)

Definition iol_uses (o : option_) (v : interpol_or_lit) : bool := vars_uses o (interpol_keys_of v).

Fixpoint lv_uses (o : option_) (lv : locale_value) {struct lv} : bool :=
  match lv with
  | Value v => iol_uses o v
  | Subkeys ks => (fix go (l : list (key * locale_value)) : bool :=
                     match l with [] => false | kv :: r => lv_uses o (snd kv) || go r end) ks
  end.

Lemma lv_uses_subkeys : forall o ks, lv_uses o (Subkeys ks) = existsb (fun kv => lv_uses o (snd kv)) ks.
Proof. intros o ks. cbn [lv_uses]. induction ks as [|kv r IH]; cbn [existsb]; [reflexivity|]. rewrite IH. reflexivity. Qed.

Lemma scan_value_subkeys : forall ks acc,
  scan_value (Subkeys ks) acc = fold_left (fun a kv => scan_value (snd kv) a) ks acc.
Proof.
  intros ks. cbn [scan_value]. induction ks as [|kv r IH]; intros acc; cbn [fold_left]; [reflexivity|]. apply IH.
Qed.

Lemma scan_value_mem : forall o lv acc, mem o (scan_value lv acc) = mem o acc || lv_uses o lv.
Proof.
  intros o lv. induction lv as [v|ks IH] using locale_value_ind'; intros acc.
  - destruct v as [ty|vars]; cbn [scan_value lv_uses]; unfold iol_uses; cbn [interpol_keys_of].
    + cbn [vars_uses existsb]. rewrite orb_false_r. reflexivity.
    + apply fold_scan_var_mem.
  - rewrite scan_value_subkeys, lv_uses_subkeys. revert acc.
    induction IH as [|kv r Hkv _ IHr]; intros acc; cbn [fold_left existsb].
    + rewrite orb_false_r. reflexivity.
    + rewrite IHr, Hkv, orb_assoc. reflexivity.
Qed.

Lemma find_used_datakey_mem : forall o keys acc,
  mem o (find_used_datakey keys acc) = mem o acc || lv_uses o (Subkeys keys).
Proof. intros o keys acc. unfold find_used_datakey. apply scan_value_mem. Qed.

(** every variable of the tree, at any depth *)
Fixpoint all_vars (lv : locale_value) {struct lv} : list var_info :=
  match lv with
  | Value v => map snd (interpol_keys_of v)
  | Subkeys ks => (fix go (l : list (key * locale_value)) : list var_info :=
                     match l with [] => [] | kv :: r => all_vars (snd kv) ++ go r end) ks
  end.

Lemma all_vars_subkeys : forall ks, all_vars (Subkeys ks) = flat_map (fun kv => all_vars (snd kv)) ks.
Proof. intros ks. cbn [all_vars]. induction ks as [|kv r IH]; cbn [flat_map]; [reflexivity|]. rewrite IH. reflexivity. Qed.

Lemma lv_uses_all_vars : forall o lv, lv_uses o lv = existsb (var_uses o) (all_vars lv).
Proof.
  intros o lv. induction lv as [v|ks IH] using locale_value_ind'.
  - cbn [lv_uses all_vars]. unfold iol_uses, vars_uses. induction (interpol_keys_of v) as [|kv r IHr]; cbn [existsb map]; [reflexivity|].
    rewrite IHr. reflexivity.
  - rewrite lv_uses_subkeys, all_vars_subkeys.
    induction IH as [|kv r Hkv _ IHr]; cbn [existsb flat_map]; [reflexivity|].
    rewrite existsb_app, IHr, Hkv. reflexivity.
Qed.

Lemma option_eqb_eq : forall a b, option_eqb a b = true <-> a = b.
Proof. intros [] []; cbn [option_eqb]; split; intros H; try reflexivity; try discriminate. Qed.

(** C20_iff on the walked tree *)
Lemma used_iff : forall o keys,
  mem o (find_used_datakey keys empty_opts) = true <->
  exists vi, In vi (all_vars (Subkeys keys)) /\
    ((o = Plurals /\ vi_count vi = Some Plural) \/
     (exists f, In f (vi_formatters vi) /\ option_of_formatter f = Some o)).
Proof.
  intros o keys. rewrite find_used_datakey_mem, mem_empty, lv_uses_all_vars. cbn [orb]. rewrite existsb_exists.
  split.
  - intros [vi [Hin Hu]]. exists vi. split; [exact Hin|]. unfold var_uses in Hu. apply orb_true_iff in Hu.
    destruct Hu as [Hc|Hf].
    + left. unfold count_uses in Hc. destruct (vi_count vi) as [[ty|]|]; try discriminate.
      apply option_eqb_eq in Hc. split; [exact Hc|reflexivity].
    + right. apply existsb_exists in Hf. destruct Hf as [f [Hfin Hfu]]. exists f. split; [exact Hfin|].
      unfold uses_fmt in Hfu. destruct (option_of_formatter f) as [o'|]; [|discriminate].
      apply option_eqb_eq in Hfu. subst. reflexivity.
  - intros [vi [Hin H]]. exists vi. split; [exact Hin|]. unfold var_uses. apply orb_true_iff.
    destruct H as [[Ho Hc]|[f [Hfin Hf]]].
    + left. unfold count_uses. rewrite Hc. apply option_eqb_eq. exact Ho.
    + right. apply existsb_exists. exists f. split; [exact Hfin|]. unfold uses_fmt. rewrite Hf. apply option_eqb_eq. reflexivity.
Qed.

(** all namespaces are walked *)
Lemma fold_namespaces_mem : forall o (keys : list (key * builders_keys_inner)) acc,
  mem o (fold_left (fun a nk => find_used_datakey (snd nk) a) keys acc)
  = mem o acc || existsb (fun nk => lv_uses o (Subkeys (snd nk))) keys.
Proof.
  intros o. induction keys as [|nk r IH]; intros acc; cbn [fold_left existsb].
  - rewrite orb_false_r. reflexivity.
  - rewrite IH, find_used_datakey_mem, orb_assoc. reflexivity.
Qed.

Lemma used_iff_all : forall o bk,
  mem o (get_icu_keys_inner bk) = true <->
  exists keys, In keys (match bk with BNamespaces _ ks => map snd ks | BLocales _ k => [k] end) /\
    mem o (find_used_datakey keys empty_opts) = true.
Proof.
  intros o [nss keys|ls keys]; cbn [get_icu_keys_inner].
  - rewrite fold_namespaces_mem, mem_empty. cbn [orb]. rewrite existsb_exists. split.
    + intros [nk [Hin Hu]]. exists (snd nk). split; [apply in_map; exact Hin|].
      rewrite find_used_datakey_mem, mem_empty. exact Hu.
    + intros [k [Hin Hu]]. apply in_map_iff in Hin. destruct Hin as [nk [E Hin]]. subst k. exists nk. split; [exact Hin|].
      rewrite find_used_datakey_mem, mem_empty in Hu. exact Hu.
  - split.
    + intros H. exists keys. split; [left; reflexivity|exact H].
    + intros [k [[E|[]] Hu]]. subst k. exact Hu.
Qed.

(** ** accumulation over locales *)

Lemma formatter_eqb_eq : forall a b, formatter_eqb a b = true -> a = b.
Proof. intros [] []; cbn [formatter_eqb]; intros H; try reflexivity; discriminate. Qed.

Lemma set_insert_uses : forall o f fs,
  existsb (uses_fmt o) (set_insert f fs) = existsb (uses_fmt o) fs || uses_fmt o f.
Proof.
  intros o f fs. unfold set_insert. destruct (existsb (formatter_eqb f) fs) eqn:E.
  - apply existsb_exists in E. destruct E as [g [Hin Heq]]. apply formatter_eqb_eq in Heq. subst g.
    destruct (uses_fmt o f) eqn:U; [|rewrite orb_false_r; reflexivity].
    rewrite orb_true_r. apply existsb_exists. exists f. split; assumption.
  - rewrite existsb_app. cbn [existsb]. rewrite orb_false_r. reflexivity.
Qed.

Lemma var_uses_default : forall o, var_uses o (vi_or_default None) = false.
Proof. intros o. reflexivity. Qed.

Lemma upsert_uses : forall o k h b vars,
  var_uses o (h (lookup k vars)) = var_uses o (vi_or_default (lookup k vars)) || b ->
  vars_uses o (upsert k h vars) = vars_uses o vars || b.
Proof.
  intros o k h b. induction vars as [|[k' vi] r IH]; intros H; cbn [upsert lookup] in *.
  - cbn [vars_uses existsb snd]. rewrite H, var_uses_default. cbn [orb]. rewrite orb_false_r. reflexivity.
  - destruct (k' =? k).
    + cbn [vars_uses existsb snd vi_or_default] in *. rewrite H.
      rewrite <- !orb_assoc. f_equal. apply orb_comm.
    + cbn [vars_uses existsb snd]. fold (vars_uses o (upsert k h r)). fold (vars_uses o r).
      rewrite (IH H), orb_assoc. reflexivity.
Qed.

Lemma push_var_uses : forall o k f vars, vars_uses o (push_var k f vars) = vars_uses o vars || uses_fmt o f.
Proof.
  intros o k f vars. unfold push_var. apply upsert_uses. unfold var_uses. cbn [vi_formatters vi_count].
  rewrite set_insert_uses, orb_assoc. reflexivity.
Qed.

Definition is_plural (c : range_or_plural) : bool := match c with Plural => true | Range _ => false end.

Lemma push_count_uses : forall o k c vars vars',
  push_count k c vars = Some vars' ->
  vars_uses o vars' = vars_uses o vars || (is_plural c && option_eqb o Plurals).
Proof.
  intros o k c vars vars' H. unfold push_count in H.
  destruct (count_compatible (vi_count (vi_or_default (lookup k vars))) c) eqn:E; [|discriminate].
  inversion H; subst vars'. clear H. apply upsert_uses. unfold var_uses. cbn [vi_formatters vi_count].
  destruct (vi_count (vi_or_default (lookup k vars))) as [[a|]|]; destruct c as [b|]; cbn [count_compatible] in E;
    try discriminate; cbn [count_uses is_plural andb];
    destruct (option_eqb o Plurals); destruct (existsb (uses_fmt o) (vi_formatters (vi_or_default (lookup k vars))));
    reflexivity.
Qed.

Lemma push_uses_var : forall o k f, push_uses o (PushVar k f) = uses_fmt o f.
Proof. intros [] k []; reflexivity. Qed.
Lemma push_uses_count : forall o k c, push_uses o (PushCount k c) = is_plural c && option_eqb o Plurals.
Proof. intros [] k [ty|]; reflexivity. Qed.

Lemma fold_apply_push_none : forall ps, fold_left apply_push ps None = None.
Proof. induction ps as [|p r IH]; cbn [fold_left apply_push]; [reflexivity|exact IH]. Qed.

Lemma get_keys_inner_uses : forall o ps v v',
  get_keys_inner ps v = Some v' -> iol_uses o v' = iol_uses o v || existsb (push_uses o) ps.
Proof.
  intros o. unfold get_keys_inner. induction ps as [|p r IH]; intros v v' H; cbn [fold_left existsb] in *.
  - inversion H; subst. rewrite orb_false_r. reflexivity.
  - destruct p as [k f|k c]; cbn [apply_push] in H.
    + rewrite (IH _ _ H). unfold iol_uses at 1. cbn [interpol_keys_of].
      rewrite push_var_uses, push_uses_var, orb_assoc. reflexivity.
    + destruct (push_count k c (interpol_keys_of v)) as [vars'|] eqn:E; cbn [option_map] in H.
      * rewrite (IH _ _ H). unfold iol_uses at 1. cbn [interpol_keys_of].
        rewrite (push_count_uses o k c _ _ E), push_uses_count, orb_assoc. reflexivity.
      * rewrite fold_apply_push_none in H. discriminate.
Qed.

(** what a locale's value contributes, read along the shape of the merged tree *)
Definition child (k : key) (l : list (key * uvalue)) : uvalue := match lookup k l with Some c => c | None => UDefault end.

Fixpoint uses_lv (o : option_) (lv : locale_value) (u : uvalue) {struct lv} : bool :=
  match lv with
  | Subkeys ks =>
      match u with
      | USub l => (fix go (s : list (key * locale_value)) : bool :=
                     match s with [] => false | kv :: r => uses_lv o (snd kv) (child (fst kv) l) || go r end) ks
      | _ => false
      end
  | Value _ => match u with UInterp ps => existsb (push_uses o) ps | _ => false end
  end.

Lemma uses_lv_subkeys : forall o ks l,
  uses_lv o (Subkeys ks) (USub l) = existsb (fun kv => uses_lv o (snd kv) (child (fst kv) l)) ks.
Proof. intros o ks l. cbn [uses_lv]. induction ks as [|kv r IH]; cbn [existsb]; [reflexivity|]. rewrite IH. reflexivity. Qed.

Lemma uses_lv_default : forall o lv, uses_lv o lv UDefault = false.
Proof. intros o [v|ks]; reflexivity. Qed.

Lemma uses_subkeys : forall o sk l,
  uses o (USub sk) (USub l) = existsb (fun kv => uses o (snd kv) (child (fst kv) l)) sk.
Proof.
  intros o sk l. cbn [uses]. induction sk as [|[k sh] r IH]; cbn [existsb fst snd]; [reflexivity|].
  rewrite IH. reflexivity.
Qed.

(** merging another locale: the tree gains exactly that locale's contribution and keeps its shape *)
Definition go_merge (children : list (key * uvalue)) :=
  fix go (l : list (key * locale_value)) : option (list (key * locale_value)) :=
    match l with
    | [] => Some []
    | (k, v) :: r =>
        match merge_value (match lookup k children with Some c => c | None => UDefault end) v, go r with
        | Some v', Some r' => Some ((k, v') :: r')
        | _, _ => None
        end
    end.

Lemma merge_value_subkeys : forall u ks,
  merge_value u (Subkeys ks) =
  match (match u with UDefault => Some [] | USub l => Some l | _ => None end) with
  | None => None
  | Some children => option_map Subkeys (go_merge children ks)
  end.
Proof. intros u ks. reflexivity. Qed.

Lemma merge_value_props : forall o lv u lv',
  merge_value u lv = Some lv' ->
  lv_uses o lv' = lv_uses o lv || uses_lv o lv u
  /\ (forall u2, uses_lv o lv' u2 = uses_lv o lv u2).
Proof.
  intros o lv. induction lv as [v|ks IH] using locale_value_ind'.
  - intros u lv' H. destruct u as [|ty|ps|l]; cbn [merge_value] in H.
    + inversion H; subst. split; [cbn [uses_lv]; rewrite orb_false_r; reflexivity|reflexivity].
    + destruct v as [ty'|vars].
      * destruct (ty =? ty'); inversion H; subst; split; try reflexivity; cbn [uses_lv lv_uses]; rewrite orb_false_r; reflexivity.
      * inversion H; subst. split; [cbn [uses_lv]; rewrite orb_false_r; reflexivity|reflexivity].
    + destruct (get_keys_inner ps v) as [v'|] eqn:E; cbn [option_map] in H; [|discriminate].
      inversion H; subst. split; [|reflexivity]. cbn [lv_uses uses_lv]. apply get_keys_inner_uses. exact E.
    + discriminate.
  - assert (G : forall children ks',
      go_merge children ks = Some ks' ->
      existsb (fun kv => lv_uses o (snd kv)) ks' =
        existsb (fun kv => lv_uses o (snd kv)) ks || existsb (fun kv => uses_lv o (snd kv) (child (fst kv) children)) ks
      /\ (forall l2, existsb (fun kv => uses_lv o (snd kv) (child (fst kv) l2)) ks'
                     = existsb (fun kv => uses_lv o (snd kv) (child (fst kv) l2)) ks)).
    { intros children. induction IH as [|[k v] r Hkv _ IHr]; intros ks' Hg; cbn [go_merge] in Hg.
      - inversion Hg; subst. split; [reflexivity|reflexivity].
      - fold (go_merge children) in Hg. fold (child k children) in Hg.
        destruct (merge_value (child k children) v) as [v'|] eqn:Ev; [|discriminate].
        destruct (go_merge children r) as [r'|] eqn:Er; [|discriminate].
        inversion Hg; subst ks'. cbn [snd] in Hkv. destruct (Hkv _ _ Ev) as [H1 H2]. destruct (IHr _ eq_refl) as [H3 H4].
        split.
        + cbn [existsb fst snd]. rewrite H1, H3.
          rewrite <- !orb_assoc. f_equal. rewrite !orb_assoc. f_equal. apply orb_comm.
        + intros l2. cbn [existsb fst snd]. rewrite H2, H4. reflexivity. }
    intros u lv' H. rewrite merge_value_subkeys in H.
    destruct u as [|ty|ps|l]; try discriminate.
    + destruct (go_merge [] ks) as [ks'|] eqn:E; cbn [option_map] in H; [|discriminate]. inversion H; subst lv'.
      destruct (G _ _ E) as [G1 G2]. split.
      * rewrite !lv_uses_subkeys, G1. f_equal. cbn [uses_lv].
        clear. induction ks as [|kv r IHr]; cbn [existsb]; [reflexivity|].
        rewrite IHr. unfold child. cbn [lookup]. rewrite uses_lv_default. reflexivity.
      * intros [|ty|ps|l2]; try reflexivity. rewrite !uses_lv_subkeys. apply G2.
    + destruct (go_merge l ks) as [ks'|] eqn:E; cbn [option_map] in H; [|discriminate]. inversion H; subst lv'.
      destruct (G _ _ E) as [G1 G2]. split.
      * rewrite !lv_uses_subkeys, uses_lv_subkeys. exact G1.
      * intros [|ty|ps|l2]; try reflexivity. rewrite !uses_lv_subkeys. apply G2.
Qed.

(** the default locale: the tree holds exactly its own contribution, and has its shape *)
Definition go_make :=
  fix go (l : list (key * uvalue)) : option (list (key * locale_value)) :=
    match l with
    | [] => Some []
    | (k, v) :: r => match make_locale_value v, go r with
                     | Some v', Some r' => Some ((k, v') :: r')
                     | _, _ => None
                     end
    end.

Lemma make_locale_value_sub : forall ks, make_locale_value (USub ks) = option_map Subkeys (go_make ks).
Proof. intros ks. reflexivity. Qed.

Lemma self_uses_sub : forall o ks, self_uses o (USub ks) = existsb (fun kv => self_uses o (snd kv)) ks.
Proof. intros o ks. cbn [self_uses]. induction ks as [|kv r IH]; cbn [existsb]; [reflexivity|]. rewrite IH. reflexivity. Qed.

Lemma make_locale_value_props : forall o d lv,
  make_locale_value d = Some lv ->
  lv_uses o lv = self_uses o d
  /\ (forall u, uses_lv o lv u = uses o d u).
Proof.
  intros o d. induction d as [|ty|ps|ks IH] using uvalue_ind'; intros lv H.
  - discriminate.
  - cbn [make_locale_value] in H. inversion H; subst. split; [reflexivity|]. intros u. reflexivity.
  - cbn [make_locale_value] in H. destruct (get_keys_inner ps (Lit 0)) as [v'|] eqn:E; cbn [option_map] in H; [|discriminate].
    inversion H; subst. split; [|intros u; reflexivity].
    cbn [lv_uses self_uses]. rewrite (get_keys_inner_uses o _ _ _ E). reflexivity.
  - rewrite make_locale_value_sub in H. destruct (go_make ks) as [ks'|] eqn:E; cbn [option_map] in H; [|discriminate].
    inversion H; subst lv. clear H.
    assert (G : forall ks', go_make ks = Some ks' ->
      existsb (fun kv => lv_uses o (snd kv)) ks' = existsb (fun kv => self_uses o (snd kv)) ks
      /\ (forall l, existsb (fun kv => uses_lv o (snd kv) (child (fst kv) l)) ks'
                    = existsb (fun kv => uses o (snd kv) (child (fst kv) l)) ks)).
    { clear E ks'. induction IH as [|[k v] r Hkv _ IHr]; intros ks' Hg; cbn [go_make] in Hg.
      - inversion Hg; subst. split; [reflexivity|intros l; reflexivity].
      - fold go_make in Hg. destruct (make_locale_value v) as [v'|] eqn:Ev; [|discriminate].
        destruct (go_make r) as [r'|] eqn:Er; [|discriminate]. inversion Hg; subst ks'.
        cbn [snd] in Hkv. destruct (Hkv _ Ev) as [H1 H2]. destruct (IHr _ eq_refl) as [H3 H4].
        split.
        + cbn [existsb snd]. rewrite H1, H3. reflexivity.
        + intros l. cbn [existsb fst snd]. rewrite H2, (H4 l). reflexivity. }
    destruct (G _ E) as [G1 G2]. split.
    + rewrite lv_uses_subkeys, self_uses_sub. exact G1.
    + intros [|ty|ps|l]; try reflexivity. rewrite uses_lv_subkeys, uses_subkeys. apply G2.
Qed.

(** ** [check_locales_inner]: the merged tree uses exactly what the locales use *)

Definition merge_step (acc : option builders_keys_inner) (l : key * ulocale) : option builders_keys_inner :=
  match acc with
  | Some ks => match merge_value (USub (snd l)) (Subkeys ks) with
               | Some (Subkeys ks') => Some ks'
               | _ => None
               end
  | None => None
  end.

Lemma fold_merge_step_none : forall rest, fold_left merge_step rest None = None.
Proof. induction rest as [|l r IH]; cbn [fold_left merge_step]; [reflexivity|exact IH]. Qed.

Lemma fold_merge_props : forall o d rest keys keys',
  (forall u, uses_lv o (Subkeys keys) u = uses o (USub d) u) ->
  fold_left merge_step rest (Some keys) = Some keys' ->
  lv_uses o (Subkeys keys') = lv_uses o (Subkeys keys) || existsb (fun l => uses o (USub d) (USub (snd l))) rest
  /\ (forall u, uses_lv o (Subkeys keys') u = uses o (USub d) u).
Proof.
  intros o d. induction rest as [|l r IH]; intros keys keys' Hshape H; cbn [fold_left existsb] in *.
  - inversion H; subst. split; [rewrite orb_false_r; reflexivity|exact Hshape].
  - cbn [merge_step] in H. destruct (merge_value (USub (snd l)) (Subkeys keys)) as [[v|ks1]|] eqn:E;
      try (rewrite fold_merge_step_none in H; discriminate).
    destruct (merge_value_props o _ _ _ E) as [M1 M2].
    assert (Hshape1 : forall u, uses_lv o (Subkeys ks1) u = uses o (USub d) u).
    { intros u. rewrite M2. apply Hshape. }
    destruct (IH _ _ Hshape1 H) as [I1 I2]. split; [|exact I2].
    rewrite I1, M1, Hshape, orb_assoc. reflexivity.
Qed.

Lemma check_locales_inner_uses : forall o locales keys,
  check_locales_inner locales = Some keys -> lv_uses o (Subkeys keys) = ns_uses o locales.
Proof.
  intros o [|[n d] rest] keys H; [discriminate|]. unfold check_locales_inner in H.
  destruct (make_locale_value (USub d)) as [[v|keys0]|] eqn:E; try discriminate.
  destruct (make_locale_value_props o _ _ E) as [D1 D2].
  change (fold_left merge_step rest (Some keys0) = Some keys) in H.
  destruct (fold_merge_props o d rest keys0 keys D2 H) as [F1 _].
  unfold ns_uses. rewrite F1, D1. reflexivity.
Qed.

Lemma all_some_uses : forall o (nss : list (key * list (key * ulocale))) kss,
  all_some (map (fun n => check_locales_inner (snd n)) nss) = Some kss ->
  existsb (fun nk => lv_uses o (Subkeys (snd nk))) (combine (map fst nss) kss) = existsb (fun n => ns_uses o (snd n)) nss.
Proof.
  intros o. induction nss as [|n r IH]; intros kss H; cbn [map all_some combine existsb] in *.
  - reflexivity.
  - destruct (check_locales_inner (snd n)) as [k|] eqn:E; [|discriminate].
    destruct (all_some (map (fun n0 => check_locales_inner (snd n0)) r)) as [kr|] eqn:Er; cbn [option_map] in H; [|discriminate].
    inversion H; subst kss. cbn [combine existsb snd]. rewrite (IH _ eq_refl), (check_locales_inner_uses o _ _ E). reflexivity.
Qed.

Lemma subset_N_refl : forall l, subset_N l l = true.
Proof.
  intros l. unfold subset_N. apply forallb_forall. intros x Hx. apply existsb_exists. exists x. split; [exact Hx|apply N.eqb_refl].
Qed.
Lemma set_eq_N_refl : forall l, set_eq_N l l = true.
Proof. intros l. unfold set_eq_N. rewrite subset_N_refl. reflexivity. Qed.

Lemma model_options : forall o p os ls nss,
  model_C20 p = Some (os, ls, nss) -> mem o os = project_uses o p.
Proof.
  intros o p os ls nss H. unfold model_C20 in H. destruct (check_locales p) as [bk|] eqn:E; [|discriminate].
  inversion H; subst os ls nss. clear H. destruct p as [nsl|locs]; cbn [check_locales] in E.
  - destruct (all_some (map (fun n => check_locales_inner (snd n)) nsl)) as [kss|] eqn:Ea; cbn [option_map] in E; [|discriminate].
    inversion E; subst bk. cbn [get_icu_keys_inner project_uses].
    rewrite fold_namespaces_mem, mem_empty. cbn [orb]. apply all_some_uses. exact Ea.
  - destruct (check_locales_inner locs) as [keys|] eqn:Ec; cbn [option_map] in E; [|discriminate].
    inversion E; subst bk. cbn [get_icu_keys_inner project_uses].
    rewrite find_used_datakey_mem, mem_empty. cbn [orb]. apply check_locales_inner_uses. exact Ec.
Qed.

Lemma model_locales : forall p os ls nss,
  model_C20 p = Some (os, ls, nss) ->
  ls = project_locales p
  /\ nss = match p with PNamespaces l => Some (map fst l) | PLocales _ => None end.
Proof.
  intros p os ls nss H. unfold model_C20 in H. destruct (check_locales p) as [bk|] eqn:E; [|discriminate].
  inversion H; subst os ls nss. clear H. destruct p as [nsl|locs]; cbn [check_locales] in E.
  - destruct (all_some (map (fun n => check_locales_inner (snd n)) nsl)) as [kss|]; cbn [option_map] in E; [|discriminate].
    inversion E; subst bk. cbn [get_locales get_namespaces project_locales]. split.
    + destruct nsl as [|n r]; reflexivity.
    + rewrite map_map. reflexivity.
  - destruct (check_locales_inner locs) as [keys|]; cbn [option_map] in E; [|discriminate].
    inversion E; subst bk. split; reflexivity.
Qed.

Lemma eqb_refl' : forall a b, a = b -> Bool.eqb a b = true.
Proof. intros a b H. subst. apply eqb_reflx. Qed.

Lemma spec_C20_holds : forall p os ls nss,
  model_C20 p = Some (os, ls, nss) -> spec_C20 p (os, ls) = true.
Proof.
  intros p os ls nss H. unfold spec_C20. cbn [fst snd].
  destruct (model_locales _ _ _ _ H) as [Hl _]. subst ls. rewrite set_eq_N_refl, Nat.eqb_refl, !andb_true_r.
  apply forallb_forall. intros o _. apply eqb_refl'. exact (model_options o _ _ _ _ H).
Qed.

Lemma model_keys_model : forall into p ks ls nss,
  model_keys into p = Some (ks, ls, nss) ->
  exists os, model_C20 p = Some (os, ls, nss) /\ ks = flat_map into (used_options os).
Proof.
  intros into p ks ls nss H. unfold model_keys in H. unfold model_C20.
  destruct (check_locales p) as [bk|]; [|discriminate]. inversion H; subst.
  exists (get_icu_keys_inner bk). split; reflexivity.
Qed.

Lemma spec_C20_keys_holds : forall into p ks ls nss,
  model_keys into p = Some (ks, ls, nss) -> spec_C20_keys into p ks ls = true.
Proof.
  intros into p ks ls nss H. destruct (model_keys_model _ _ _ _ _ H) as [os [Hm Hk]]. subst ks.
  unfold spec_C20_keys, expected_keys, used_options.
  destruct (model_locales _ _ _ _ Hm) as [Hl _]. subst ls. rewrite set_eq_N_refl, Nat.eqb_refl, !andb_true_r.
  rewrite (filter_ext (fun o => mem o os) (fun o => project_uses o p)).
  - apply set_eq_N_refl.
  - intros o. exact (model_options o _ _ _ _ Hm).
Qed.

(** the data keys requested are exactly those of the used options *)
Lemma get_icu_keys_in : forall {datakey} (into : option_ -> list datakey) bk k,
  In k (get_icu_keys into bk) <-> exists o, mem o (get_icu_keys_inner bk) = true /\ In k (into o).
Proof.
  intros datakey into bk k. unfold get_icu_keys, used_options. rewrite in_flat_map. split.
  - intros [o [Ho Hk]]. apply filter_In in Ho. exists o. split; [apply Ho|exact Hk].
  - intros [o [Ho Hk]]. exists o. split; [|exact Hk]. apply filter_In. split; [|exact Ho].
    destruct o; cbn [all_options In]; auto 6.
Qed.

(** ** the formatters of a variable are a SET: every formatter attached to any occurrence of a variable - whatever
    other formatters the same variable already carries in this key, in this or in another locale - stays recorded
    and contributes its family *)
Lemma push_var_keeps : forall o k f vars,
  option_of_formatter f = Some o -> vars_uses o (push_var k f vars) = true.
Proof.
  intros o k f vars H. rewrite push_var_uses. unfold uses_fmt. rewrite H.
  assert (E : option_eqb o o = true) by (apply option_eqb_eq; reflexivity). rewrite E. apply orb_true_r.
Qed.

Lemma var_formatters_union : forall o ps v v' k f,
  get_keys_inner ps v = Some v' -> In (PushVar k f) ps -> option_of_formatter f = Some o ->
  iol_uses o v' = true.
Proof.
  intros o ps v v' k f H Hin Hf. rewrite (get_keys_inner_uses o _ _ _ H). apply orb_true_iff. right.
  apply existsb_exists. exists (PushVar k f). split; [exact Hin|]. rewrite push_uses_var. unfold uses_fmt. rewrite Hf.
  apply option_eqb_eq. reflexivity.
Qed.

(** ... and the mapping is monotone: what a leaf used before another locale is merged it still uses afterwards *)
Lemma merge_keeps_uses : forall o lv u lv', merge_value u lv = Some lv' -> lv_uses o lv = true -> lv_uses o lv' = true.
Proof. intros o lv u lv' H Hu. destruct (merge_value_props o lv u lv' H) as [E _]. rewrite E, Hu. reflexivity. Qed.
