(** Executable correspondence predicate for C20: evaluated on harness-generated case files.
    A case holds the per-locale description of a generated project (the independent description: what
    each locale's value at each key pushes, after foreign keys are substituted), the per-option data-key
    lists read from the public [Options::into_data_keys] (data keys interned as numbers), and what
    [TranslationsInfos] answered. *)
From Coq Require Import List NArith Bool Arith.
Import ListNotations.
From LI Require Import Build.IcuKeys.
Open Scope N_scope.

Record case := mk_case {
  c_project : project;
  c_tables : list (list N);          (* into_data_keys of Plurals, FormatDateTime, FormatList, FormatNums, FormatCurrency *)
  c_impl_ok : bool;                  (* false: parse_at_dir returned an error *)
  c_impl_keys : list N;              (* get_icu_keys as a set *)
  c_impl_locales : list N;           (* get_locales, in order *)
  c_impl_namespaces : option (list N) }.

Definition table_of (t : list (list N)) (o : option_) : list N :=
  nth (match o with Plurals => 0 | FormatDateTime => 1 | FormatList => 2 | FormatNums => 3 | FormatCurrency => 4 end)%nat t [].

Definition opt_list_eqb (a b : option (list N)) : bool :=
  match a, b with
  | Some x, Some y => list_N_eqb x y
  | None, None => true
  | _, _ => false
  end.

(** 0 = agree and spec holds; 2 = implementation differs from the model (spec holds, or acceptance differs);
    3 = spec violated *)
Definition check (c : case) : N :=
  let into := table_of (c_tables c) in
  match model_keys into (c_project c), c_impl_ok c with
  | None, false => 0
  | None, true =>
      (* the model rejects the project but the helper answered: its answer must still satisfy the property *)
      if spec_C20_keys into (c_project c) (c_impl_keys c) (c_impl_locales c) then 2 else 3
  | Some _, false => 2
  | Some (ks, ls, nss), true =>
      if negb (spec_C20_keys into (c_project c) (c_impl_keys c) (c_impl_locales c)) then 3
      else if negb (set_eq_N ks (c_impl_keys c) && list_N_eqb ls (c_impl_locales c)
                    && opt_list_eqb nss (c_impl_namespaces c)) then 2 else 0
  end.
