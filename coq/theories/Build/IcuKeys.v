(** Model of the build helper's ICU data-key discovery (property C20).

    Mirrors
    - leptos_i18n_build/src/datakey.rs: [Options], [find_used_datakey] (walk over [BuildersKeysInner]),
      [get_keys];
    - leptos_i18n_build/src/lib.rs: [get_icu_keys_inner] / [get_icu_keys] (all namespaces), [get_locales]
      (first namespace only), [get_namespaces];
    - the part of leptos_i18n_parser that produces the walked tree from the per-locale values:
      [check_locales_inner] (default locale first, then [Locale::merge] of every other locale),
      [ParsedValue::make_locale_value] / [ParsedValue::merge] / [get_keys_inner] and
      [InterpolationKeys::push_var] / [push_count] (parse_locales/locale.rs, parsed_value.rs).

    A locale's value at a key is abstracted to what [get_keys_inner] does with it *after foreign keys have
    been substituted and the value reduced*: nothing ([UDefault]: absent or null), a literal, a sequence of
    [push_var] / [push_count] calls, or sub-keys.  Components are not modelled (they never reach
    [find_used_datakey]).  Keys, variable names and locale names are interned numbers.
    [HashSet<Options>] is a record of five booleans.  No proofs in this file. *)
From Coq Require Import List NArith Bool Arith.
Import ListNotations.
Open Scope N_scope.

Definition key := N.

(** utils/formatter.rs [Formatter] with its arguments dropped *)
Inductive formatter := FmtNone | FmtNumber | FmtDate | FmtTime | FmtDateTime | FmtList | FmtCurrency.
Definition formatter_eqb (a b : formatter) : bool :=
  match a, b with
  | FmtNone, FmtNone | FmtNumber, FmtNumber | FmtDate, FmtDate | FmtTime, FmtTime
  | FmtDateTime, FmtDateTime | FmtList, FmtList | FmtCurrency, FmtCurrency => true
  | _, _ => false
  end.

Inductive range_or_plural := Range (ty : N) | Plural.

Record var_info := mk_var_info { vi_formatters : list formatter; vi_count : option range_or_plural }.
Definition interpolation_keys := list (key * var_info).
Inductive interpol_or_lit := Lit (ty : N) | Interpol (vars : interpolation_keys).

Inductive locale_value :=
  | Value (v : interpol_or_lit)
  | Subkeys (keys : list (key * locale_value)).
Definition builders_keys_inner := list (key * locale_value).

(** ** datakey.rs *)

Inductive option_ := Plurals | FormatDateTime | FormatList | FormatNums | FormatCurrency.
Definition all_options : list option_ := [Plurals; FormatDateTime; FormatList; FormatNums; FormatCurrency].

Record opts := mk_opts { o_plurals : bool; o_datetime : bool; o_list : bool; o_nums : bool; o_currency : bool }.
Definition empty_opts : opts := mk_opts false false false false false.
Definition insert (o : option_) (s : opts) : opts :=
  match o with
  | Plurals => mk_opts true (o_datetime s) (o_list s) (o_nums s) (o_currency s)
  | FormatDateTime => mk_opts (o_plurals s) true (o_list s) (o_nums s) (o_currency s)
  | FormatList => mk_opts (o_plurals s) (o_datetime s) true (o_nums s) (o_currency s)
  | FormatNums => mk_opts (o_plurals s) (o_datetime s) (o_list s) true (o_currency s)
  | FormatCurrency => mk_opts (o_plurals s) (o_datetime s) (o_list s) (o_nums s) true
  end.
Definition mem (o : option_) (s : opts) : bool :=
  match o with
  | Plurals => o_plurals s
  | FormatDateTime => o_datetime s
  | FormatList => o_list s
  | FormatNums => o_nums s
  | FormatCurrency => o_currency s
  end.

(** the [match formatter { ... }] of [find_used_datakey]; [None] = [continue] *)
Definition option_of_formatter (f : formatter) : option option_ :=
  match f with
  | FmtNone => None
  | FmtNumber => Some FormatNums
  | FmtDate | FmtTime | FmtDateTime => Some FormatDateTime
  | FmtList => Some FormatList
  | FmtCurrency => Some FormatCurrency
  end.

Definition scan_formatter (acc : opts) (f : formatter) : opts :=
  match option_of_formatter f with None => acc | Some o => insert o acc end.

(** body of [for (_, var_infos) in interpolation_keys.iter_vars()] *)
Definition scan_var (acc : opts) (kv : key * var_info) : opts :=
  let acc := match vi_count (snd kv) with Some Plural => insert Plurals acc | _ => acc end in
  fold_left scan_formatter (vi_formatters (snd kv)) acc.

Fixpoint scan_value (lv : locale_value) (acc : opts) {struct lv} : opts :=
  match lv with
  | Subkeys ks =>
      (fix go (l : list (key * locale_value)) (acc : opts) : opts :=
         match l with [] => acc | kv :: r => go r (scan_value (snd kv) acc) end) ks acc
  | Value (Lit _) => acc
  | Value (Interpol vars) => fold_left scan_var vars acc
  end.

(** [find_used_datakey(keys, used_icu_keys)] *)
Definition find_used_datakey (keys : builders_keys_inner) (acc : opts) : opts := scan_value (Subkeys keys) acc.

(** ** lib.rs *)

Inductive builders_keys :=
  | BNamespaces (namespaces : list (key * list key)) (keys : list (key * builders_keys_inner))
      (* per namespace: its name and the names of its locales; the merged keys per namespace *)
  | BLocales (locales : list key) (keys : builders_keys_inner).

Definition get_icu_keys_inner (bk : builders_keys) : opts :=
  match bk with
  | BNamespaces _ keys => fold_left (fun acc nk => find_used_datakey (snd nk) acc) keys empty_opts
  | BLocales _ keys => find_used_datakey keys empty_opts
  end.

(** [get_icu_keys]: the data keys of every used option ([into_data_keys] is ICU knowledge: an argument) *)
Definition used_options (s : opts) : list option_ := filter (fun o => mem o s) all_options.
Definition get_icu_keys {datakey} (into_data_keys : option_ -> list datakey) (bk : builders_keys) : list datakey :=
  flat_map into_data_keys (used_options (get_icu_keys_inner bk)).

(** [get_locales]: the locales of the first namespace ([take(1)]) or the locales *)
Definition get_locales (bk : builders_keys) : list key :=
  match bk with
  | BNamespaces (ns :: _) _ => snd ns
  | BNamespaces [] _ => []
  | BLocales ls _ => ls
  end.
Definition get_namespaces (bk : builders_keys) : option (list key) :=
  match bk with
  | BNamespaces nss _ => Some (map fst nss)
  | BLocales _ _ => None
  end.

(** ** parser side: from per-locale values to the merged tree *)

Inductive push := PushVar (k : key) (f : formatter) | PushCount (k : key) (c : range_or_plural).

Inductive uvalue :=
  | UDefault                              (* key absent in this locale, or null *)
  | ULit (ty : N)                         (* a literal: no variable *)
  | UInterp (pushes : list push)          (* the push_var / push_count calls of get_keys_inner, in order *)
  | USub (keys : list (key * uvalue)).
Definition ulocale := list (key * uvalue).

Fixpoint lookup {A} (k : key) (l : list (key * A)) : option A :=
  match l with [] => None | (k', v) :: r => if k' =? k then Some v else lookup k r end.

Fixpoint upsert (k : key) (f : option var_info -> var_info) (vars : interpolation_keys) : interpolation_keys :=
  match vars with
  | [] => [(k, f None)]
  | (k', vi) :: r => if k' =? k then (k', f (Some vi)) :: r else (k', vi) :: upsert k f r
  end.
Definition vi_or_default (o : option var_info) : var_info :=
  match o with Some vi => vi | None => mk_var_info [] None end.
Definition set_insert (f : formatter) (l : list formatter) : list formatter :=
  if existsb (formatter_eqb f) l then l else l ++ [f].

(** [InterpolationKeys::push_var] *)
Definition push_var (k : key) (f : formatter) (vars : interpolation_keys) : interpolation_keys :=
  upsert k (fun o => let vi := vi_or_default o in mk_var_info (set_insert f (vi_formatters vi)) (vi_count vi)) vars.

(** [InterpolationKeys::push_count]; [None] = RangeAndPluralsMix / RangeTypeMissmatch *)
Definition count_compatible (old : option range_or_plural) (new : range_or_plural) : bool :=
  match old, new with
  | None, _ => true
  | Some Plural, Plural => true
  | Some (Range a), Range b => a =? b
  | _, _ => false
  end.
Definition push_count (k : key) (c : range_or_plural) (vars : interpolation_keys) : option interpolation_keys :=
  if count_compatible (vi_count (vi_or_default (lookup k vars))) c
  then Some (upsert k (fun o => mk_var_info (vi_formatters (vi_or_default o)) (Some c)) vars)
  else None.

(** [get_interpol_keys_mut]: a literal becomes an empty builder at the first push *)
Definition interpol_keys_of (v : interpol_or_lit) : interpolation_keys :=
  match v with Interpol vars => vars | Lit _ => [] end.

Definition apply_push (acc : option interpol_or_lit) (p : push) : option interpol_or_lit :=
  match acc with
  | None => None
  | Some v =>
      match p with
      | PushVar k f => Some (Interpol (push_var k f (interpol_keys_of v)))
      | PushCount k c => option_map Interpol (push_count k c (interpol_keys_of v))
      end
  end.
(** [get_keys_inner(.., keys, false)] for a non-literal value *)
Definition get_keys_inner (ps : list push) (v : interpol_or_lit) : option interpol_or_lit :=
  fold_left apply_push ps (Some v).

(** [ParsedValue::make_locale_value] / [Locale::make_builder_keys] on the default locale *)
Fixpoint make_locale_value (u : uvalue) : option locale_value :=
  match u with
  | UDefault => None                              (* ExplicitDefaultInDefault *)
  | ULit ty => Some (Value (Lit ty))
  | UInterp ps => option_map Value (get_keys_inner ps (Lit 0))
  | USub ks =>
      option_map Subkeys
        ((fix go (l : list (key * uvalue)) : option (list (key * locale_value)) :=
            match l with
            | [] => Some []
            | (k, v) :: r => match make_locale_value v, go r with
                             | Some v', Some r' => Some ((k, v') :: r')
                             | _, _ => None
                             end
            end) ks)
  end.

(** [ParsedValue::merge] / [Locale::merge] of another locale's value into the tree; [None] = SubKeyMissmatch
    or a push_count error *)
Fixpoint merge_value (u : uvalue) (lv : locale_value) {struct lv} : option locale_value :=
  match lv with
  | Subkeys ks =>
      match (match u with UDefault => Some [] | USub l => Some l | _ => None end) with
      | None => None
      | Some children =>
          option_map Subkeys
            ((fix go (l : list (key * locale_value)) : option (list (key * locale_value)) :=
                match l with
                | [] => Some []
                | (k, v) :: r =>
                    match merge_value (match lookup k children with Some c => c | None => UDefault end) v, go r with
                    | Some v', Some r' => Some ((k, v') :: r')
                    | _, _ => None
                    end
                end) ks)
      end
  | Value v =>
      match u with
      | UDefault => Some lv
      | ULit ty => match v with
                   | Interpol _ => Some lv
                   | Lit ty' => if ty =? ty' then Some lv else Some (Value (Interpol []))
                   end
      | UInterp ps => option_map Value (get_keys_inner ps v)
      | USub _ => None
      end
  end.

(** [check_locales_inner]: the first locale is the default *)
Definition check_locales_inner (locales : list (key * ulocale)) : option builders_keys_inner :=
  match locales with
  | [] => None
  | (_, d) :: rest =>
      match make_locale_value (USub d) with
      | Some (Subkeys keys) =>
          fold_left (fun acc l => match acc with
                                  | Some ks => match merge_value (USub (snd l)) (Subkeys ks) with
                                               | Some (Subkeys ks') => Some ks'
                                               | _ => None
                                               end
                                  | None => None
                                  end) rest (Some keys)
      | _ => None
      end
  end.

Inductive project :=
  | PNamespaces (nss : list (key * list (key * ulocale)))
  | PLocales (locales : list (key * ulocale)).

Fixpoint all_some {A} (l : list (option A)) : option (list A) :=
  match l with
  | [] => Some []
  | Some x :: r => option_map (cons x) (all_some r)
  | None :: _ => None
  end.

(** [check_locales] *)
Definition check_locales (p : project) : option builders_keys :=
  match p with
  | PNamespaces nss =>
      option_map (fun ks => BNamespaces (map (fun n => (fst n, map fst (snd n))) nss) (combine (map fst nss) ks))
        (all_some (map (fun n => check_locales_inner (snd n)) nss))
  | PLocales ls => option_map (BLocales (map fst ls)) (check_locales_inner ls)
  end.

(** the whole helper: [None] = the project is rejected *)
Definition model_C20 (p : project) : option (opts * list key * option (list key)) :=
  match check_locales p with
  | None => None
  | Some bk => Some (get_icu_keys_inner bk, get_locales bk, get_namespaces bk)
  end.

(** ** executable specification, on the per-locale description

    [shape]: the key tree of the default locale (surplus keys of other locales are dropped with a warning and
    are not keys of the project).  Option [o] is expected iff some locale of some namespace, at a key of
    that tree at any depth, gives a value that uses it. *)
Definition push_uses (o : option_) (p : push) : bool :=
  match p, o with
  | PushCount _ Plural, Plurals => true
  | PushVar _ f, _ => match option_of_formatter f with
                      | Some o' => match o, o' with
                                   | FormatDateTime, FormatDateTime | FormatList, FormatList
                                   | FormatNums, FormatNums | FormatCurrency, FormatCurrency => true
                                   | _, _ => false
                                   end
                      | None => false
                      end
  | _, _ => false
  end.

Fixpoint uses (o : option_) (shape u : uvalue) {struct shape} : bool :=
  match shape with
  | USub sk =>
      match u with
      | USub l =>
          (fix go (s : list (key * uvalue)) : bool :=
             match s with
             | [] => false
             | (k, sh) :: r => uses o sh (match lookup k l with Some c => c | None => UDefault end) || go r
             end) sk
      | _ => false
      end
  | UDefault => false
  | _ => match u with UInterp ps => existsb (push_uses o) ps | _ => false end
  end.

(** what a locale's own tree uses (the default locale defines the keys) *)
Fixpoint self_uses (o : option_) (u : uvalue) {struct u} : bool :=
  match u with
  | USub ks => (fix go (s : list (key * uvalue)) : bool :=
                  match s with [] => false | kv :: r => self_uses o (snd kv) || go r end) ks
  | UInterp ps => existsb (push_uses o) ps
  | _ => false
  end.

(** one namespace (or the whole project without namespaces): the default locale's own values, and every
    other locale's values at the default's keys *)
Definition ns_uses (o : option_) (locales : list (key * ulocale)) : bool :=
  match locales with
  | [] => false
  | (_, d) :: rest => self_uses o (USub d) || existsb (fun l => uses o (USub d) (USub (snd l))) rest
  end.
Definition project_uses (o : option_) (p : project) : bool :=
  match p with
  | PNamespaces nss => existsb (fun n => ns_uses o (snd n)) nss
  | PLocales ls => ns_uses o ls
  end.
Definition project_locales (p : project) : list key :=
  match p with
  | PNamespaces (n :: _) => map fst (snd n)
  | PNamespaces [] => []
  | PLocales ls => map fst ls
  end.

Fixpoint list_N_eqb (a b : list N) : bool :=
  match a, b with
  | [], [] => true
  | x :: r, y :: t => (x =? y) && list_N_eqb r t
  | _, _ => false
  end.
Definition subset_N (a b : list N) : bool := forallb (fun x => existsb (N.eqb x) b) a.
Definition set_eq_N (a b : list N) : bool := subset_N a b && subset_N b a.

(** the options derived are exactly the ones used; the locales reported are exactly the configured ones *)
Definition spec_C20 (p : project) (out : opts * list key) : bool :=
  forallb (fun o => Bool.eqb (mem o (fst out)) (project_uses o p)) all_options
  && set_eq_N (snd out) (project_locales p) && Nat.eqb (length (snd out)) (length (project_locales p)).

(** the same at the level the helper is observed: the requested data keys are those of the used options
    ([into_data_keys], the per-option key lists, is ICU knowledge supplied by the caller) *)
Definition expected_keys (into_data_keys : option_ -> list N) (p : project) : list N :=
  flat_map into_data_keys (filter (fun o => project_uses o p) all_options).
Definition spec_C20_keys (into_data_keys : option_ -> list N) (p : project) (keys locales : list N) : bool :=
  set_eq_N keys (expected_keys into_data_keys p)
  && set_eq_N locales (project_locales p) && Nat.eqb (length locales) (length (project_locales p)).

Definition model_keys (into_data_keys : option_ -> list N) (p : project) : option (list N * list key * option (list key)) :=
  match check_locales p with
  | None => None
  | Some bk => Some (get_icu_keys into_data_keys bk, get_locales bk, get_namespaces bk)
  end.
