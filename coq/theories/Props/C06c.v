(** Property C06 — foreign keys are pure substitution: the BRIDGE to the executable predicate.
    [spec_C06] (Parser/ForeignCheck.v) is what the correspondence evaluates on the implementation's
    output; here it is proved of the MODEL's output, for every case whose files are the printed
    sources of its source table ([fcase_wfb], Parser/ForeignBridge3.v), and the rejection half is
    characterised.  This file holds only property theorems (closed by [exact]) and examples. *)
From Coq Require Import List NArith Bool String Ascii.
Import ListNotations.
From LI Require Import Base.StrOps Base.StrLemmas Parser.Parse Parser.Json Parser.Reduce Parser.ParseCheck
  Parser.Foreign Parser.ForeignProofs Parser.ForeignCheck Parser.ForeignSound Parser.ForeignFull
  Parser.ForeignBridge1 Parser.ForeignBridge2 Parser.ForeignBridge3.

(** * the bridge: [C06_spec] in the sense of CONVENTIONS.md
    [fcase_wfb c] (executable): the case is expected to load; one file per (namespace, locale) and
    keys unique per object; the source table lists a key at most once, every listed source is
    well formed ([xitems_wf ident_check]) and the files hold, at that key, exactly the printed source
    ([xprint_list]; JSON null for [None]); every leaf of the files is listed (so: absent <-> not
    listed; literal leaves are excluded, they have no source).
    Then, whenever the model loads the project, the executable predicate holds of its output: every
    final value denotes the source-level inlining semantics of its source. *)
Theorem C06c_spec : forall c ents, fcase_wfb c = true -> model_project c = Ok ents ->
  spec_C06 (mk_fcase (f_default c) (f_inherits c) (f_files c) (f_src c) None (Ok ents)) = true.
Proof. exact spec_of_model. Qed.

(** the pieces of the bridge: every lookup in the files is the lookup in the built values
    (build_values / build_kmap / map_insert against get_value_at) ... *)
Theorem C06c_build_values_lookup : forall files vals L p, build_values files = Ok vals ->
  node_rel model_parse (jget files L p) (get_value_at vals L p).
Proof. exact build_values_lookup. Qed.
(** ... a lookup that ends on a leaf is the first entry of [all_leaves] with its key, which is the one
    [find_entry] reads in the driver's output ... *)
Theorem C06c_get_value_at_lfind : forall vals L ns p n, get_value_at vals L (ns, p) = Some n -> nis_leaf n = true ->
  lfind (ns, L, p) (all_leaves vals) = Some (ns, L, p, n).
Proof. exact get_value_at_lfind. Qed.
Theorem C06c_collect_find : forall run lv ents k leaf, collect run lv = Ok ents -> lfind k lv = Some leaf ->
  exists v, run leaf = Ok v /\ find_entry k ents = Some v.
Proof. exact collect_find. Qed.
(** ... and the comparison of pieces is reflexive *)
Theorem C06c_pieces_eqb_refl : forall l, pieces_eqb l l = true.
Proof. exact pieces_eqb_refl. Qed.

(** * rejections
    every error of the resolver is one of the four foreign-key kinds (missing target, group target,
    recursive, explicit default in the default locale) ... *)
Theorem C06c_resolve_err_kinds : forall vals dflt inherits fuel stack L v k,
  resolve vals dflt inherits fuel stack L v = Err k -> fk_kind k.
Proof. exact resolve_err_kinds. Qed.
Theorem C06c_final_value_err_kinds : forall vals dflt inherits ns L path n k,
  final_value vals dflt inherits ns L path n = Err k -> fk_kind k.
Proof. exact final_value_err_kinds. Qed.
(** ... so a rejection of the model is a load error of the files or a foreign-key error of a value *)
Theorem C06c_model_project_err : forall c k, model_project c = Err k ->
  build_values (f_files c) = Err k \/ (exists vals, build_values (f_files c) = Ok vals /\ fk_kind k).
Proof. exact model_project_err. Qed.
(** the driver reports the error of the FIRST failing registered value in its (sorted) order *)
Theorem C06c_first_error : forall c vals pre e post k,
  build_values (f_files c) = Ok vals ->
  sort_reg (filter (fun '(_, _, _, n) => node_has_foreign n) (all_leaves vals)) = pre ++ e :: post ->
  Forall (run_ok (run_of vals (f_default c) (f_inherits c))) pre ->
  run_of vals (f_default c) (f_inherits c) e = Err k ->
  model_project c = Err k.
Proof. exact model_project_first_error. Qed.
(** planted defects, on the value the parser builds for `…$t(target…)…` after a leading literal:
    a missing target, a group target, a value that refers to itself *)
Theorem C06c_missing : forall vals dflt inherits ns L path lit tns tp args a,
  get_value_at vals L (tns, tp) = None ->
  final_value vals dflt inherits ns L path (NVal (PBloc [PLit lit; PForeign tns tp args; a])) = Err E_MissingForeignKey.
Proof. exact final_value_missing. Qed.
Theorem C06c_group : forall vals dflt inherits ns L path lit tns tp a sub,
  get_value_at vals L (tns, tp) = Some (NSub sub) ->
  final_value vals dflt inherits ns L path (NVal (PBloc [PLit lit; PForeign tns tp []; a])) = Err E_InvalidForeignKey.
Proof. exact final_value_group. Qed.
Theorem C06c_self_cycle : forall vals dflt inherits ns L path lit args a T,
  get_value_at vals L (ns, path) = Some (NVal T) ->
  final_value vals dflt inherits ns L path (NVal (PBloc [PLit lit; PForeign ns path args; a])) = Err E_RecursiveForeignKey.
Proof. exact final_value_self_cycle. Qed.
(** the predicate on a rejected case: it holds of the model exactly when the model's kind is the expected one *)
Theorem C06c_spec_reject : forall c k, f_expect c = Some k -> model_project c = Err k ->
  spec_C06 (mk_fcase (f_default c) (f_inherits c) (f_files c) (f_src c) (Some k) (model_project c)) = true.
Proof. exact spec_of_model_reject. Qed.

(** * non-vacuity: k1 = $t(k2, {"x": "A"})   k2 = $t(k3)   k3 = [{{x}}]   k4 = null   g.h = <b>$t(k1)</b>
    fr (inherits nothing): k4 = "quatre" *)
Definition t (x : string) : str := map (fun a => N.of_nat (nat_of_ascii a)) (list_ascii_of_string x).
Definition w_k1 : list xitem := [XRef None [t "k2"] [(t "x", XAStr [XText (t "A")])]].
Definition w_k2 : list xitem := [XRef None [t "k3"] []].
Definition w_k3 : list xitem := [XText (t "["); XVar (t "x"); XText (t "]")].
Definition w_gh : list xitem := [XComp (t "b") [XRef None [t "k1"] []]].
Definition w_fr4 : list xitem := [XText (t "quatre")].
Definition w_files : list jfile :=
  [(None, t "en", [(t "k1", JStr (xprint_list w_k1)); (t "k2", JStr (xprint_list w_k2)); (t "k3", JStr (xprint_list w_k3));
                   (t "k4", JNull); (t "g", JObj [(t "h", JStr (xprint_list w_gh))])]);
   (None, t "fr", [(t "k4", JStr (xprint_list w_fr4))])].
Definition w_src : list src_entry :=
  [(None, t "en", [t "k1"], Some w_k1); (None, t "en", [t "k2"], Some w_k2); (None, t "en", [t "k3"], Some w_k3);
   (None, t "en", [t "k4"], None); (None, t "en", [t "g"; t "h"], Some w_gh); (None, t "fr", [t "k4"], Some w_fr4)].
Definition w_case (impl : res (list entry)) : fcase := mk_fcase (t "en") [] w_files w_src None impl.
Example C06c_ex_wf : fcase_wfb (w_case (Ok [])) = true.
Proof. vm_compute. reflexivity. Qed.
Example C06c_ex_loads :
  match model_project (w_case (Ok [])) with
  | Ok ents => List.length ents = 6%nat
               /\ option_map (option_map pieces) (find_entry (None, t "en", [t "g"; t "h"]) ents)
                  = Some (Some [PcComp (t "comp_b") [PcText (t "[A]")]])
               /\ spec_C06 (w_case (Ok ents)) = true /\ check_C06 (w_case (Ok ents)) = 0%N
  | _ => False
  end.
Proof. vm_compute. repeat split. Qed.
(** a planted self-reference is rejected as recursive, a dangling one as missing *)
Definition w_bad (target : str) : fcase :=
  mk_fcase (t "en") [] [(None, t "en", [(t "k1", JStr (xprint_list [XRef None [target] []]))])]
           [(None, t "en", [t "k1"], Some [XRef None [target] []])] None (Ok []).
Example C06c_ex_rejects :
  model_project (w_bad (t "k1")) = Err E_RecursiveForeignKey /\ model_project (w_bad (t "nope")) = Err E_MissingForeignKey.
Proof. split; vm_compute; reflexivity. Qed.
