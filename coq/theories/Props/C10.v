(** Property C10 — Results depend only on translation content, not on order, run or file format.
    Only the property theorems (each closed by [exact] of a lemma of Parser/OrderProofs.v).
    Model: Parser/Order.v.  A file is its member LIST in file order ([jv]); [build] is the loop of `LocaleSeed::visit_map`
    (insert into the `BTreeMap`, duplicate key = error after the repair); [run_unit] computes what the loader produces for
    one namespace: key listing of every locale, string tables, Missing/Surplus warnings in emission order, or the error.
    File formats differ only in how the member list is obtained (serde front-ends, external): the model has no format. *)
From Coq Require Import List NArith Bool Permutation.
Import ListNotations.
From LI Require Import Base.StrOps.
From LI Require Import Parser.Order.
From LI Require Import Parser.OrderCheck.
From LI Require Import Parser.OrderProofs.
Open Scope N_scope.

(** reordering the members of an object changes nothing: same sorted map, or the same (duplicate key) error.
    No distinctness hypothesis is needed any more: duplicates are rejected in every order. *)
Theorem C10_order : forall ms ms', Permutation ms ms' -> build ms = build ms'.
Proof. exact build_perm. Qed.

(** ... at every nesting level ([tperm]: members permuted inside every object of the tree) *)
Theorem C10_tree_order : forall t t', tperm t t' -> build_val t = build_val t'.
Proof. exact build_val_tperm. Qed.

(** every observable of a unit — key listings, string tables, diagnostics in emission order, and the error INCLUDING the key,
    locale and target a foreign-key diagnostic names (cycles, missing targets, references to a subkeys group) — is unchanged
    when the members of any object of any of its files are reordered *)
Theorem C10_observables : forall names a b, files_perm a b -> run_unit names a = run_unit names b.
Proof. exact run_unit_perm. Qed.

(** in particular the string tables (indices baked into the generated code) depend only on the sorted maps *)
Theorem C10_strings_order : forall names a b, files_perm a b ->
  match run_unit names a, run_unit names b with
  | inl oa, inl ob => o_tables oa = o_tables ob /\ o_lists oa = o_lists ob /\ o_warnings oa = o_warnings ob
  | inr ea, inr eb => ea = eb
  | _, _ => False
  end.
Proof. exact tables_perm. Qed.

(** determinism of the model is definitional (it is a function); the content is that it factors through the sorted maps:
    nothing downstream of `visit_map` sees the file order, and no unordered container is iterated (StringIndexer's HashMap is
    only looked up) *)
Theorem C10_deterministic : forall names files, run_unit names files = from_sorted names (build_all files).
Proof. exact run_unit_factors. Qed.

(** the executable predicate evaluated by the correspondence check holds of the model for every pair of orders *)
Theorem C10_spec : forall names a b, files_perm a b -> spec_C10 a b (model_result names a) (model_result names b) = true.
Proof. exact spec_C10_model. Qed.

(** the code before the repair (`insert` silently replacing) is refuted: distinct member names, a permutation, two results *)
Theorem C10_old_refuted :
  NoDup (map fst w_members) /\ Permutation w_members (rev w_members) /\ build_old w_members <> build_old (rev w_members).
Proof. exact old_model_refuted. Qed.
