(** Property C01 — end to end on the model: from the translation string to the text the generated
    accessor produces.  Composition of the parser round trip (Props/C01.v) and the code-generation
    theorems (Props/C01b.v). *)
From Coq Require Import List NArith Bool.
Import ListNotations.
From LI Require Import Base.StrOps Parser.Parse Parser.Json Parser.Reduce Parser.Source Parser.RoundTrip2 Parser.RoundTrip5
  Codegen.Target Codegen.TargetProofs.

Lemma end_to_end (idc : str -> idres) (json_args : str -> res (list (str * jarg))) (items : list Source.item) (e : env) :
  items_wfb idc items = true ->
  exists v r, parse_top idc json_args true (print_list items) = Ok v /\ reduce v = Ok r
    /\ eval_view e (gen_view r) = render e (denote_list items)
    /\ eval_string e (gen_string r) = render e (denote_list items).
Proof.
  intros H. destruct (roundtrip_reduced idc json_args items H) as (v & r & Ev & Er & P).
  exists v, r. repeat split; [exact Ev | exact Er | |].
  - rewrite gen_view_renders, P. reflexivity.
  - rewrite gen_string_renders, P. reflexivity.
Qed.

(** For every well-formed source of the documented grammar, every identifier / JSON oracle and every
    environment (argument values, components): loading the printed source and evaluating the code
    generated for it — the view back-end (t!/td!/tu!) and the string back-end (t_string!/t_display!…) —
    yields exactly the rendering of the source: literal text verbatim and in order, every variable
    replaced by its value, every component applied to its rendered children. *)
Theorem C01_end_to_end : forall (idc : str -> idres) (json_args : str -> res (list (str * jarg)))
                                (items : list Source.item) (e : env),
  items_wfb idc items = true ->
  exists v r, parse_top idc json_args true (print_list items) = Ok v /\ reduce v = Ok r
    /\ eval_view e (gen_view r) = render e (denote_list items)
    /\ eval_string e (gen_string r) = render e (denote_list items).
Proof. exact end_to_end. Qed.
