(** Property C11 — Exported string tables match the indices the generated code reads.
    This file holds only the property theorems (each closed by [exact] of a lemma proved in
    Parser/StringsProofs.v or Runtime/EscapeProofs.v), and non-vacuity examples.
    Strings are lists of code points; every statement is for ALL such strings (no bound). *)
From Coq Require Import List NArith Bool.
Import ListNotations.
From LI Require Import Base.StrOps Runtime.Escape Runtime.EscapeProofs Parser.Strings Parser.StringsProofs.
Open Scope N_scope.

(** invariant of the indexer over any value tree, from any well-formed indexer state: the
    state stays well formed (table without repetition, map = inverse of the table), the table only
    grows at its end (indices handed out earlier stay valid) and every literal of the resulting
    tree selects its own text *)
Theorem C11_index_inv :
  (forall v ix v' ix', ix_wf ix -> index_pv v ix = (v', ix') ->
     ix_wf ix' /\ ext ix ix' /\ LI (ix_acc ix') v')
  /\ (forall g ix g' ix', ix_wf ix -> index_group g ix = (g', ix') ->
     ix_wf ix' /\ ext ix ix' /\ LIg (ix_acc ix') g').
Proof. exact (conj (proj1 index_pv_inv) (proj2 index_group_inv)). Qed.

(** a text already in the table is not added again *)
Theorem C11_dedup : forall ix s, ix_wf ix -> In s (ix_acc ix) -> snd (push_str ix s) = ix.
Proof. exact push_str_dedup. Qed.

(** the table of a unit has no repetition, its length is the N of the generated code, every
    literal of every (nested) group selects its text, only indices and counts were changed,
    and the exported file is the formatter applied to that same table *)
Theorem C11_unit : forall g,
  let o := index_locale g in
  NoDup (o_strings o)
  /\ o_count o = N.of_nat (length (o_strings o))
  /\ LIg (o_strings o) (o_tree o)
  /\ erase_g (o_tree o) = erase_g g
  /\ o_file o = format (o_strings o).
Proof. exact index_locale_facts. Qed.

(** literal kinds.  `Literal::index_strings` gives an index to string literals only: *)
Theorem C11_non_string_not_indexed : forall t ix, index_pv (PLitOther t) ix = (PLitOther t, ix).
Proof. exact index_pv_other. Qed.

(** `ParsedValue::merge` / `Locale::merge` with the per-key state `InterpolOrLit` left by the locales merged before
    ([ik]: literal of some type in all of them, or a builder): every string literal of this locale's final values has
    an index below the table length that selects its own text ([LIg]), the table only grows, and values and table are
    exactly those of the walk that ignores the state — whatever the other locales' literal types are.  (A string where
    the default locale has a boolean, a number where it has a string, ... : [ik] is universally quantified.) *)
Theorem C11_literal_kinds_indexed : forall g ik ix g' ik' ix',
  ix_wf ix -> merge_group g ik ix = Some (g', ik', ix') ->
  ix_wf ix' /\ ext ix ix' /\ LIg (ix_acc ix') g' /\ index_group g ix = (g', ix').
Proof. exact literal_kinds_indexed. Qed.

(** the same for the default locale (`make_builder_keys`), which creates that state *)
Theorem C11_literal_kinds_indexed_default : forall g ix g' ik' ix',
  ix_wf ix -> builder_group g ix = Some (g', ik', ix') ->
  ix_wf ix' /\ ext ix ix' /\ LIg (ix_acc ix') g' /\ index_group g ix = (g', ix').
Proof. exact literal_kinds_indexed_default. Qed.

(** `check_locales_inner` over all locales of a namespace in configuration order: the values and the table of every
    locale are those of that locale taken alone (no dependence on the order or on the other locales) *)
Theorem C11_locales_independent : forall gs outs ikf,
  check_locales gs = Some (outs, ikf) -> outs = map unit_of gs.
Proof. exact locales_independent. Qed.

(** propagate_string_count: when every `Subkeys { locales }` has one nested Locale per top
    locale, each nested Locale at any depth ends up with the count of its top locale *)
Theorem C11_counts : forall tops b, lens_ok (length tops) b -> counts_are tops (propagate tops b).
Proof. exact (fun tops => proj1 (propagate_counts tops)). Qed.

(** every nested block of the model's unit expects the length of that unit's own table *)
Theorem C11_nested_counts : forall g,
  counts_ok (N.of_nat (length (o_strings (index_locale g)))) (o_tree (index_locale g)) = true.
Proof. exact unit_nested_counts. Qed.

(** ... because every locale contributes exactly one nested Locale to every block (its own or an all-defaulted
    dummy), so the position-wise `propagate_string_count` pairs each nested Locale with its own top locale *)
Theorem C11_nested_blocks_aligned : forall b0 cs tops,
  lens_ok 1 b0 -> length tops = S (length cs) ->
  counts_are tops (propagate tops (fold_left (fun b c => push_locale c b) cs b0)).
Proof. exact nested_blocks_counts. Qed.

(** the exported file decodes (JSON grammar of RFC 8259, decoder of Runtime/Escape.v) to exactly
    the strings, for every list of strings over all code points *)
Theorem C11_json_roundtrip : forall ss, json_decode (format ss) = Some ss.
Proof. exact json_roundtrip. Qed.

Theorem C11_json_valid : forall ss, exists v, json_parse (format ss) = Some v.
Proof. exact json_valid. Qed.

(** the executable predicate the correspondence check evaluates on the implementation's output
    holds of the model for every input tree *)
Theorem C11_spec : forall g nloc plain,
  nloc_ok nloc g = true -> forallb (plain_in g) plain = true ->
  spec_C11 plain nloc (index_locale g) = true.
Proof. exact spec_C11_holds. Qed.

(** the writer before the fix (Rust Debug formatting) is refuted by U+0001, whatever the
    printability tables say, and by U+00A0 as soon as they say what core::unicode says *)
Theorem C11_old_refuted : forall np, spec_file [[1]] (format_old np [[1]]) = false.
Proof. exact format_old_refuted. Qed.
Theorem C11_old_refuted_nbsp : forall np, np 160 = true -> spec_file [[160]] (format_old np [[160]]) = false.
Proof. exact format_old_refuted_nbsp. Qed.

(** non-vacuity *)
Example C11_ex_roundtrip :
  format [[34; 92; 10; 1; 160; 8205; 128512]; []] =
    [91; 34; 92; 34; 92; 92; 92; 110; 92; 117; 48; 48; 48; 49; 160; 8205; 128512; 34; 44; 34; 34; 93]
  /\ json_decode [91; 34; 92; 117; 48; 48; 52; 49; 92; 117; 100; 56; 51; 100; 92; 117; 100; 101; 48; 48; 34; 32; 93]
     = Some [[65; 128512]].
Proof. vm_compute. split; reflexivity. Qed.
Example C11_ex_literal_kinds :
  let g := GCons [97] (EVal (PLit [111; 110] 18446744073709551615)) (GCons [98] (EVal (PLitOther TSigned)) GNil) in
  let ik := IKCons [97] (IEVal (ILit TBool)) (IKCons [98] (IEVal (ILit TSigned)) IKNil) in
  merge_group g ik ix_empty =
    Some (GCons [97] (EVal (PLit [111; 110] 0)) (GCons [98] (EVal (PLitOther TSigned)) GNil),
          IKCons [97] (IEVal IInterpol) (IKCons [98] (IEVal (ILit TSigned)) IKNil),
          mk_ix [([111; 110], 0)] [[111; 110]])
  /\ fst (fst (merge_value_skip (PLit [111; 110] 18446744073709551615) (ILit TBool) ix_empty))
     = PLit [111; 110] 18446744073709551615
  /\ lits_ok_pv [] 0 (PLit [111; 110] 18446744073709551615) = false.
Proof. exact literal_kinds_example. Qed.
Example C11_ex_tree :
  o_strings (index_locale ex_tree) = [[72; 105]; [160]; [49]]
  /\ spec_C11 [([[97]], [72; 105]); ([[98]; [99]], [72; 105])] 2 (index_locale ex_tree) = false
  /\ spec_C11 [([[97]], [72; 105])] 2 (index_locale ex_tree) = true.
Proof. exact ex_tree_ok. Qed.
