(** Property C05 — Plural forms are selected by the locale's CLDR plural rules.
    Only property theorems (closed by [exact] of lemmas of Parser/PluralsProofs.v).

    Model: Parser/Plurals.v — one level (one `BTreeMap<Key, ParsedValue>`) of one locale; [merge_level] mirrors
    Locale::merge_plurals (after the repair fixes/C05-mixed-rule-overwrite.diff; the pre-fix algorithm is
    [merge_level_old]).  [ks] is the key map of the level as written in the file, [NoDup (map fst ks)] = keys of a map.
    Oracles (universally quantified, never axioms): the CLDR category [cat : locale -> rule -> operand -> form],
    [categories : locale -> rule -> list form] (ICU4X data) and [is_key] (`Key::new(base).is_some()`).
    A base key that is not an identifier is an InvalidKey error ([EInvalid]), not a panic.
    Vocabulary (Plurals.v): [members ks b] = the keys `b[_ordinal]_<form>` of the level (value neither range table nor
    sub-object); [mergeable ks b] = at least two of them, one `_other`; [remaining ks] = keys not in a mergeable group;
    [mixed ks b] = cardinal and ordinal members; [collides ks b] = a remaining key is named b;
    [written ks b f] = ids of the values written for form f. *)
From Coq Require Import List NArith Bool Permutation.
Import ListNotations.
From LI Require Import Base.StrOps Parser.Plurals Parser.PluralsProofs.

(** keys that differ only by a plural suffix are merged into one key: after merging, the key set of the level is the
    remaining keys plus the base keys of the merged groups *)
Theorem C05_merge_keys : forall is_key cats path ks out ws, NoDup (map fst ks) ->
  merge_level is_key cats path ks = ROk out ws ->
  forall k, In k (map fst out) <-> In k (map fst (remaining ks)) \/ In k (merged_bases ks).
Proof. exact merge_keys_level. Qed.

(** for every CLDR oracle, locale and count: the merged key holds a plural node of the group's rule type, and the value
    selected for the category [cat l r n] (by the generated `match` = by the parse-time choice) is a value written for
    that form, and a value written for `_other` when no such form was written *)
Theorem C05_select :
  forall (locale operand : Type) (cat : locale -> rule -> operand -> form) is_key cats path ks out ws b,
    NoDup (map fst ks) -> merge_level is_key cats path ks = ROk out ws -> mergeable ks b = true ->
    exists r other forms,
      mget b out = Some (PluralV r other forms) /\
      (forall kv, In kv (members ks b) -> has_rule r kv = true) /\
      forall (l : locale) (n : operand),
        let c := cat l r n in
        select_cat other forms c = select_match other forms c /\
        match written ks b c with
        | [] => In (select_match other forms c) (written ks b Other)
        | ids => In (select_match other forms c) ids
        end.
Proof. exact select_level. Qed.

(** mixing cardinal and ordinal forms under one key, colliding with an existing key, or declaring a plural whose base
    key is not an identifier (`in_one` + `in_other`) is an error naming the key — nothing else is, and merging never
    panics (fixes/C09-plural-base-key-not-identifier.diff; the pre-fix behaviour is [merge_level_panic_old]) *)
Theorem C05_conflicts : forall is_key cats path ks, NoDup (map fst ks) ->
  ((exists b, mergeable ks b = true /\ (is_key b = false \/ mixed ks b = true \/ collides ks b = true)) <->
   (exists k p, merge_level is_key cats path ks = RErr k p)) /\
  (forall k p, merge_level is_key cats path ks = RErr k p ->
     exists b, mergeable ks b = true /\
               match k with
               | EConflict => p = path ++ [b] /\ mixed ks b = true
               | ECollide => p = path ++ [b] /\ collides ks b = true
               | EInvalid => p = [b] /\ is_key b = false
               end) /\
  merge_level is_key cats path ks <> RPanic.
Proof. exact conflicts_level. Qed.

(** UnusedForm(f) is reported iff f is written (other than `_other`) under a merged key and f is not a category of
    the locale for the key's rule type — for every oracle [categories] *)
Theorem C05_unused : forall (locale : Type) (categories : locale -> rule -> list form) (l : locale) is_key path ks out ws,
  NoDup (map fst ks) -> merge_level is_key (categories l) path ks = ROk out ws ->
  forall w, In w ws <-> In w (expected_warnings (categories l) path ks).
Proof. intros locale categories l is_key. exact (unused_level is_key (categories l)). Qed.

(** whole project (`merge_plurals_inner`): every locale's unused forms — judged with that locale's own categories — are
    reported, each exactly once, and the warnings do not depend on the order of the locales *)
Theorem C05_unused_project : forall is_key path (cl : list ((rule -> list form) * list (str * ival))),
  (forall c, In c cl -> NoDup (map fst (snd c)) /\ exists out ws, merge_level is_key (fst c) path (snd c) = ROk out ws) ->
  Forall2 (fun c ws => NoDup ws /\ forall w, In w ws <-> In w (expected_warnings (fst c) path (snd c)))
          cl (project_warnings is_key path cl)
  /\ forall cl', Permutation cl cl' -> Permutation (project_warnings is_key path cl) (project_warnings is_key path cl').
Proof. exact project_unused. Qed.

(** the executable predicate the correspondence check evaluates on the implementation's answers holds of the model
    for every key map and every oracle *)
Theorem C05_spec : forall is_key cats path ks, NoDup (map fst ks) ->
  spec_C05 is_key cats path ks (merge_level is_key cats path ks) = true.
Proof. exact spec_C05_holds. Qed.

(** cross-locale clause: after the whole-project merging (first pass per locale, then the lone-`_other` pass of
    fixes/C05-lone-other.diff) every locale that writes the `_other` form of a key which some locale merges has that
    key as a plural too — for every project, without exception *)
Theorem C05_cross : forall is_key cats levels outs,
  (forall ks, In ks levels -> NoDup (map fst ks)) ->
  merge_project is_key cats levels = POk outs -> spec_cross levels outs = true.
Proof. exact project_cross. Qed.

(** the same over whole trees: all locales, namespaces and sub-key depths of a project, each level with its full key path;
    a lone `<key>_other` inside sub-keys is the plural `<key>` as soon as some locale merges `<key>` at that path *)
Theorem C05_cross_tree : forall is_key cats levels outs,
  (forall pl, In pl levels -> NoDup (map fst (snd pl))) ->
  merge_project_tree is_key cats levels = Some outs -> spec_cross_tree levels outs = true.
Proof. exact project_cross_tree. Qed.

(** the first pass alone satisfies the clause only outside the class [lone_other] (the pre-fix behaviour) *)
Theorem C05_cross_pass1 : forall is_key cats levels, lone_other levels = false ->
  (forall ks, In ks levels -> NoDup (map fst ks) /\ exists out ws, merge_level is_key cats [] ks = ROk out ws) ->
  spec_cross levels (map (fun ks => match merge_level is_key cats [] ks with ROk out _ => out | _ => [] end) levels) = true.
Proof. exact cross_level. Qed.

(** the selection function itself, for an arbitrary map of written forms *)
Theorem C05_select_forms :
  forall (locale operand : Type) (cat : locale -> rule -> operand -> form) (l : locale) (r : rule) (n : operand)
         (others : list member) (other : N),
    (forall m, In m others -> is_other m = false) ->
    let forms := build_forms others [] in
    let c := cat l r n in
    select_cat other forms c = select_match other forms c /\
    ((exists m, In m others /\ m_form m = c /\ select_match other forms c = m_id m)
     \/ ((forall m, In m others -> m_form m <> c) /\ select_match other forms c = other)).
Proof. exact select_correct. Qed.

(** parse-time selection: `$t(key, {"count": n})` resolved in locale [top] selects, for every CLDR oracle, rule type and
    operand, exactly the form the generated `match` selects at run time for [top] (not for the default locale) *)
Theorem C05_static_select :
  forall (locale operand : Type) (cat : locale -> rule -> operand -> form) (top dflt : locale) (r : rule) (n : operand)
         (others : list member) (other : N),
    (forall m, In m others -> is_other m = false) ->
    resolve_count_ref locale operand cat top dflt r other (build_forms others []) (CountLit n)
    = SForm (select_match other (build_forms others []) (cat top r n)).
Proof. exact static_select_correct. Qed.

(** the same for the plural node merge_level produces for a merged key *)
Theorem C05_static_select_level :
  forall (locale operand : Type) (cat : locale -> rule -> operand -> form) is_key cats path ks out ws b,
    NoDup (map fst ks) -> merge_level is_key cats path ks = ROk out ws -> mergeable ks b = true ->
    exists r other forms,
      mget b out = Some (PluralV r other forms) /\
      forall (top dflt : locale) (n : operand),
        resolve_count_ref locale operand cat top dflt r other forms (CountLit n)
        = SForm (select_match other forms (cat top r n)).
Proof. exact static_select_level. Qed.

Theorem C05_static_other_args : forall (locale operand : Type) cat (top dflt : locale) r other forms k,
  resolve_count_ref locale operand cat top dflt r other forms (CountVar k) = SRename k /\
  resolve_count_ref locale operand cat top dflt r other forms CountInvalid = SInvalid top.
Proof. exact static_select_other_args. Qed.

(** non-vacuity: the repaired algorithm reports the conflict on the witness *)
Example C05_witness : merge_level (fun _ => true) w_cats [] w_keys = RErr EConflict [w_x].
Proof. exact new_model_witness. Qed.

(** colliding with an existing key is an error whatever the value of that key is — the empty string included *)
Theorem C05_collision_any_value : forall cats (v : ival),
  merge_level (fun _ => true) cats [] [(w_x, v); (w_x_one, Leaf 1); (w_x_other, Leaf 2)] = RErr ECollide [w_x].
Proof. exact collision_any_value. Qed.

(** the algorithm before the repair (inner map keyed by the form only) merges the ordinal forms and silently drops
    the cardinal `x_one`; spec_C05 is false on its output *)
Theorem C05_old_refuted :
  merge_level_old (fun _ => true) w_cats [] w_keys = ROk [(w_x, PluralV Ordinal 3 [(One, 2)])] [] /\
  spec_C05 (fun _ => true) w_cats [] w_keys (merge_level_old (fun _ => true) w_cats [] w_keys) = false.
Proof. exact old_model_refuted. Qed.

(** before the base-key repair `in_one` + `in_other` panicked (spec_C05 is false on a panic); now InvalidKey("in") *)
Theorem C05_panic_old_refuted :
  merge_level_panic_old w_is_key w_cats [] w_in_keys = RPanic /\
  spec_C05 w_is_key w_cats [] w_in_keys (merge_level_panic_old w_is_key w_cats [] w_in_keys) = false /\
  merge_level w_is_key w_cats [] w_in_keys = RErr EInvalid [w_in].
Proof. exact panic_old_refuted. Qed.

(** the algorithm before the lone-`_other` repair (first pass only): the cross-locale clause fails when a locale
    writes only `x_other` for a key another locale merges; the repaired algorithm merges it *)
Theorem C05_lone_other_refuted :
  lone_other [w_en; w_ja] = true /\ spec_cross [w_en; w_ja] (outs_of [w_en; w_ja]) = false.
Proof. exact lone_other_refuted. Qed.

Example C05_lone_other_witness :
  merge_project (fun _ => true) w_cats [w_en; w_ja]
  = POk [[(w_x, PluralV Cardinal 2 [(One, 1)])]; [(w_x, PluralV Cardinal 3 [])]].
Proof. vm_compute. reflexivity. Qed.


(** ** The reactive plural macros follow the context (machines of Runtime/Context.v, accessor flavours of Runtime/ContextAcc.v)
    `t_plural!(e, count = n, f1 => v1, .., _ => d)` and `t_plural_ordinal!` return a closure that reads the locale of the
    context each time it is called; the `tu_` forms are evaluated in place.  [cat] is the CLDR oracle over the locales of
    the `Locale` enum (by index), [arms] what the macro's `match` yields for a category, [n] the count. *)
From LI Require Import Runtime.Context.
From LI Require Import Runtime.ContextAcc.
From LI Require Import Runtime.ContextAccProofs.

(** for every history of set_locale / set_locale_untracked / scopes / sub-contexts / flushes, every kind of context
    expression and every tracked or untracked plural macro [fa]: the accessor created on handle [h] after [pre] renders,
    after any continuation [post], the arm of the category CLDR assigns to the count for the locale its context shows at
    that moment — not for the locale the context held when the macro expression was evaluated *)
Theorem C05_accessor_current_locale :
  forall (operand T : Type) (cat : N -> rule -> operand -> form) (arms : form -> T) (r : rule) (n : operand)
         l0 con pre h fa fb post,
  let a0 := a_run (a_init l0 con) (map erase pre) in
  (h < a_nh a0)%nat -> fl_frozen fa = false ->
  let xops := pre ++ XAcc h fa fb :: post in
  let s := fst (xc_run (c_init l0 con, []) xops) in
  let a := a_run (a_init l0 con) (map erase xops) in
  let k := a_nacc a0 in
  (k < c_nacc s)%nat /\ render_with (fun l => arms (cat l r n)) s k = arms (cat (a_loc a (a_hctx a0 h)) r n).
Proof. exact (fun operand T cat arms r n => @accessor_renders_current_text T (fun l => arms (cat l r n))). Qed.
