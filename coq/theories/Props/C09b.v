(** Property C09 — the build step never loops forever: TERMINATION of foreign-key resolution.
    [resolve] (Parser/Foreign.v) is a fuelled model of a recursion that, in the implementation, is
    stopped only by the RefCell borrow check (the in-progress stack).  Here the fuel is shown adequate,
    by the argument of the implementation: the in-progress stack holds pairwise distinct
    (locale, key path) entries that name existing values, so it is never longer than the number N of
    values; between two pushes the recursion descends structurally in a value of depth at most D.
    This file holds only property theorems (closed by [exact]) and examples. *)
From Coq Require Import List NArith Bool Arith.
Import ListNotations.
From LI Require Import Base.StrOps Parser.Parse Parser.Json Parser.Reduce Parser.ParseCheck
  Parser.Foreign Parser.ForeignCheck Parser.ForeignSound Parser.ForeignSound2 Parser.ForeignBridge1 Parser.ForeignTerm
  Props.C06c.

(** The bound of a project: [resolve_bound vals] = D + N * (D + 1), with N = [value_count vals] the
    number of leaves holding a value and D = [value_depth vals] the largest nesting depth of one.
    For every fuel at least the bound, no value of the project (nor any value at most as deep) runs
    out of fuel, from the empty stack ... *)
Theorem C09_resolve_terminates : forall vals dflt inherits fuel L v,
  (pv_depth v <= value_depth vals)%nat -> (resolve_bound vals <= fuel)%nat ->
  resolve vals dflt inherits fuel [] L v <> OutOfFuel.
Proof. exact resolve_terminates. Qed.

(** ... as the driver runs it, with the value's own entry in progress ... *)
Theorem C09_resolve_terminates_own : forall vals dflt inherits fuel ns L path v,
  In (ns, L, path, NVal v) (all_leaves vals) -> (resolve_bound vals <= fuel)%nat ->
  resolve vals dflt inherits fuel [(L, (ns, path))] L v <> OutOfFuel.
Proof. exact resolve_terminates_own. Qed.

(** ... and in general under every reachable stack: pairwise distinct entries taken from a finite list
    [keys] that holds every (locale, key path) naming a value, [D] bounding the depth of those values;
    the fuel needed for a value of depth at most d is  d + (length keys - length stack) * (D + 1) *)
Theorem C09_resolve_terminates_stack : forall vals dflt inherits (keys : list (str * keypath)) (D : nat),
  (forall L t T, get_value_at vals L t = Some (NVal T) -> In (L, t) keys) ->
  (forall L t T, get_value_at vals L t = Some (NVal T) -> (pv_depth T <= D)%nat) ->
  forall fuel stack L v d,
  NoDup stack /\ incl stack keys -> (pv_depth v <= d)%nat ->
  (d + (length keys - length stack) * (D + 1) <= fuel)%nat ->
  resolve vals dflt inherits fuel stack L v <> OutOfFuel.
Proof. exact resolve_no_oof. Qed.
(** the project's own leaf table is such a list *)
Theorem C09_project_keys : forall vals L t T, get_value_at vals L t = Some (NVal T) ->
  In (L, t) (map leaf_key (value_leaves vals)) /\ (pv_depth T <= value_depth vals)%nat.
Proof. exact project_keys_depth. Qed.

(** [final_value] resolves with the constant fuel 200: adequate for every project whose bound is at most 200 *)
Theorem C09_final_value_terminates : forall vals dflt inherits ns L path n,
  In (ns, L, path, n) (all_leaves vals) -> (resolve_bound vals <= 200)%nat ->
  final_value vals dflt inherits ns L path n <> OutOfFuel.
Proof. exact final_value_terminates. Qed.

(** the inherits walk never exhausts the fuel [S (length inherits)] it is given: [walk_opt] is [walk]
    with the exhaustion made visible (the locales left behind are pairwise distinct keys of [inherits]) *)
Theorem C09_walk_fuel_adequate : forall vals dflt inherits L target,
  exists x, walk_opt vals dflt inherits (S (length inherits)) [L] L target = Some x
            /\ walk vals dflt inherits (S (length inherits)) [L] L target = x.
Proof. exact walk_fuel_adequate. Qed.
(** the walk stops at the default locale or at a locale whose value is NOT an explicit default ... *)
Theorem C09_walk_stops : forall vals dflt inherits target fuel visited cur,
  walk vals dflt inherits fuel visited cur target = dflt \/
  exists nd, get_value_at vals (walk vals dflt inherits fuel visited cur target) target = Some nd /\ nd <> NDefault.
Proof. exact walk_spec. Qed.
(** ... so [look] restarts at most once: the two rounds [resolve] gives it are never exhausted *)
Theorem C09_look_one_restart : forall vals dflt inherits (rec : list (str * keypath) -> str -> pv -> res pv) stack target args A L,
  (forall st l v, rec st l v <> OutOfFuel) ->
  look vals dflt inherits rec 2 stack target args A L <> OutOfFuel.
Proof. exact look_no_oof. Qed.

(** non-vacuity: the project of Props/C06c.v (5 values and a null, a chain with arguments, a component) *)
Example C09_ex_bound :
  match build_values w_files with
  | Ok vals => value_count vals = 5%nat /\ value_depth vals = 4%nat /\ resolve_bound vals = 29%nat
               /\ (resolve_bound vals <=? 200)%nat = true
  | _ => False
  end.
Proof. vm_compute. repeat split. Qed.
