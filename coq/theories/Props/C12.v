(** Property C12 — Locale negotiation honours the user's order of preference.
    This file holds only the property theorems (each closed by [exact] of a lemma
    proved in Runtime/LangidProofs.v), statement pins and assumption audits. *)
From Coq Require Import List NArith Bool.
Import ListNotations.
From LI Require Import Runtime.Langid Runtime.LangidProofs.

(** the chosen locale is always a supported one, or the default *)
Theorem C12_supported : forall reqs avail dflt,
  In (find_match reqs avail dflt) avail \/ find_match reqs avail dflt = dflt.
Proof. exact find_match_supported. Qed.

(** a supported locale matching an earlier-listed language is never passed over
    for one that matches only a later-listed language; and an exact match beats
    a less specific one *)
Theorem C12_preference : forall pre r post avail dflt,
  (forall q, In q pre -> servable avail q = false) -> servable avail r = true ->
  let res := find_match (pre ++ r :: post) avail dflt in
  In res avail /\ serves (lid res) r = true
  /\ (existsb (fun s => exact (lid s) r) avail = true -> exact (lid res) r = true).
Proof. exact find_match_first_servable. Qed.

(** with no match the default is returned *)
Theorem C12_default : forall reqs avail dflt,
  (forall q, In q reqs -> servable avail q = false) -> find_match reqs avail dflt = dflt.
Proof. exact find_match_default. Qed.

(** unparseable entries are ignored *)
Theorem C12_lossy : forall pre post all dflt,
  find_locale (pre ++ None :: post) all dflt = find_locale (pre ++ post) all dflt.
Proof. exact find_locale_lossy. Qed.

(** the executable predicate the correspondence check evaluates on the
    implementation's answers holds of the model for every input *)
Theorem C12_spec : forall reqs avail dflt,
  spec_C12 reqs avail dflt (find_match reqs avail dflt) = true.
Proof. exact spec_C12_holds. Qed.

Theorem C12_candidates_nodup : forall reqs avail, NoDup avail -> NoDup (filter_matches reqs avail).
Proof. exact filter_matches_NoDup. Qed.

(** the algorithm before the fix (global sort) is refuted by a concrete input *)
Theorem C12_old_refuted :
  spec_C12 [w_fr; w_deDE] w_avail (0%N, w_fr) (find_match_old [w_fr; w_deDE] w_avail (0%N, w_fr)) = false.
Proof. exact old_model_refuted. Qed.
