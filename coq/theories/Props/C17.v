(** Property C17 — Server-embedded translations survive embedding into the page.
    Only property theorems (closed by [exact] of lemmas of Runtime/EscapeProofs.v) and examples.
    A unit is (locale name, namespace name or None, strings); strings are lists of code points and
    every statement is for ALL of them. *)
From Coq Require Import List NArith Bool Permutation.
Import ListNotations.
From LI Require Import Base.StrOps Runtime.Escape Runtime.EscapeProofs.
Open Scope N_scope.

(** reading the script back (statement `window.__LEPTOS_I18N_TRANSLATIONS = <JSON>;`, JSON grammar
    of RFC 8259) gives exactly the units that were written, in order, whatever the strings are *)
(** [us] ranges over ALL lists of units: no unit, units whose table is empty ([commas true [] = []], the array is
    printed as `[]`), one string, many — see the example [C17_ex_empty_tables] below *)
Theorem C17_decode : forall us, decode_script (to_array us) = Some us.
Proof. exact decode_to_array. Qed.

(** the script body contains no `</script` in any ASCII case and no `<!--` *)
Theorem C17_html_safe : forall us, html_safe (to_array us) = true.
Proof. exact to_array_html_safe. Qed.

(** stronger: it contains no `<` at all *)
Theorem C17_no_lt : forall us, no_lt (to_array us) = true.
Proof. exact to_array_no_lt. Qed.

(** the register holds exactly the units whose accessor ran during the request, each once,
    each with its own table *)
Theorem C17_used_only : forall tbl touched,
  NoDup (map fst (run_request tbl touched))
  /\ (forall k v, In (k, v) (run_request tbl touched) <-> In k touched /\ v = tbl k).
Proof. exact register_used_only. Qed.

(** access times: for every sequence of accesses, the registry the script is written from holds exactly the units
    accessed at any time between the creation of the provider's registry and the end of rendering (eagerly while the
    children are built, lazily while the HTML is rendered, in any interleaving), each once with its own table;
    accesses made before the registry exists are not recorded *)
Theorem C17_access_times : forall tbl before after,
  exists m, run_events tbl (map EvAccess before ++ EvProvide :: map EvAccess after) None = Some m
  /\ NoDup (map fst m)
  /\ (forall k v, In (k, v) m <-> In k after /\ v = tbl k).
Proof. exact registry_is_accessed_after_provide. Qed.

(** the provider component (registry, then children, then rendering): eager and lazy accesses both count *)
Theorem C17_page_registry : forall tbl before eager lazy,
  exists m, run_events tbl (page_events before eager lazy) None = Some m
  /\ NoDup (map fst m)
  /\ (forall k v, In (k, v) m <-> (In k eager \/ In k lazy) /\ v = tbl k).
Proof. exact page_registry. Qed.

(** non-vacuity: a registry created after the children loses a unit that is only accessed eagerly *)
Example C17_ex_late_registry :
  let k : ukey := ([101; 110], Some [109]) in
  run_events (fun _ => [[120]]) (page_events_late [] [k] []) None = Some []
  /\ run_events (fun _ => [[120]]) (page_events [] [k] []) None = Some [(k, [[120]])].
Proof. exact page_events_late_refuted. Qed.

(** the executable predicate evaluated on the implementation's script holds of the model, for
    every iteration order of the HashMap *)
Theorem C17_spec : forall used order, Permutation used order -> spec_C17 used (to_array order) = true.
Proof. exact spec_C17_holds. Qed.

(** the writer before the fix pushed strings raw: a quote breaks the script, `</script>` ends it *)
Theorem C17_old_refuted :
  spec_C17 [([101; 110], None, [[34]])] (to_array_old [([101; 110], None, [[34]])]) = false.
Proof. exact to_array_old_refuted_quote. Qed.
Theorem C17_old_refuted_script :
  html_safe (to_array_old [([101; 110], None, [[60; 47; 115; 99; 114; 105; 112; 116; 62]])]) = false.
Proof. exact to_array_old_refuted_script. Qed.

(** non-vacuity: two units, adversarial strings *)
Example C17_ex :
  let us := [([101; 110], Some [110; 115], [[60; 47; 115; 99; 114; 105; 112; 116; 62]; [34; 92; 10]; [8232; 128512]]);
             ([102; 114], None, [])] in
  decode_script (to_array us) = Some us
  /\ spec_C17 (rev us) (to_array us) = true
  /\ spec_C17 [hd ([], None, []) us] (to_array us) = false.
Proof. vm_compute. repeat split. Qed.

(** units with an empty table, alone, first, in the middle and last: printed as `"values":[]` and decoded back;
    the text a writer that drops the "trailing separator" unconditionally would produce for an empty table
    (`"values":]}`) is not a script the client can read, and neither is anything that follows it *)
Example C17_ex_empty_tables :
  let e1 : unit_ := ([101; 110], Some [101; 48], []) in
  let e2 : unit_ := ([102; 114], None, []) in
  let u : unit_ := ([100; 101], Some [110; 115], [[34]; []]) in
  to_array [e2] = S_prefix ++ S_locale ++ esc_str fu_html [102; 114] ++ S_id_null ++ S_unit_end ++ S_end
  /\ decode_script (to_array [e1]) = Some [e1]
  /\ decode_script (to_array [e1; u; e2; u; e1]) = Some [e1; u; e2; u; e1]
  /\ spec_C17 [u; e2] (to_array [e2; u]) = true
  /\ decode_script (S_prefix ++ fmt_unit u ++ [44] ++ S_locale ++ esc_str fu_html [102; 114]
                     ++ removelast S_id_null ++ S_unit_end ++ S_end) = None.
Proof. vm_compute. repeat split. Qed.
