(** Property C09 (pipeline part) — the walk over the `inherits` / defaulting table that code generation performs for every key
    (`DefaultedLocales::default_of_inner`, `default_of`, `compute`) terminates.  Only property theorems, closed by [exact].
    Model: Parser/Defaults.v (the while loop with fuel).  Tied to the code by checks/C09.py (h_order `defaults` mode: the real
    `default_of` / `compute` on generated tables, every call under a watchdog, compared with the model in coqc). *)
From Coq Require Import List NArith Bool.
Import ListNotations.
From LI Require Import Base.StrOps.
From LI Require Import Parser.Defaults.
From LI Require Import Parser.DefaultsProofs.

(** for every table and every starting locale the loop ends within [length table + 1] iterations (fuel adequacy: the model never
    returns OutOfFuel), and the answer is the default locale or a locale reached from the start that has no entry *)
Theorem C09_default_of_terminates : forall m dflt start,
  default_of m dflt start <> OutOfFuel /\
  exists l, default_of m dflt start = Found l /\ (l = dflt \/ (reach m start l /\ assoc l m = None)).
Proof. exact default_of_terminates. Qed.

(** the invariant behind it: the visited locales are pairwise distinct keys of the table *)
Theorem C09_default_of_inner_terminates : forall m dflt start fuel visited cur,
  inv m visited cur -> (S (length m) <= fuel + length visited)%nat -> reach m start cur ->
  exists l, default_of_inner fuel m dflt visited cur = Found l /\
            (l = dflt \/ (reach m start l /\ assoc l m = None)).
Proof. exact inner_terminates. Qed.

(** compute() terminates for every key of the table *)
Theorem C09_compute_terminates : forall m dflt, Forall (fun p => snd p <> OutOfFuel) (compute m dflt).
Proof. exact compute_terminates. Qed.

(** the visited set must grow: recording only the starting locale runs out of any fuel on a tail leading into a loop *)
Theorem C09_default_of_start_only_refuted :
  default_of_inner_start_only (S (length rho)) rho l_en l_aa l_aa = OutOfFuel /\
  default_of_inner_start_only 1000 rho l_en l_aa l_aa = OutOfFuel /\
  default_of rho l_en l_aa = Found l_en /\ default_of rho l_en l_bb = Found l_en.
Proof. exact start_only_refuted. Qed.
