(** Property C01, code-generation half: the generated Rust renders exactly the pieces of the (reduced)
    value, whatever the tuple nesting and the EitherOf wrapping.  Only property theorems (closed by [exact]).
    Together with Props/C01.v (source -> reduced value with the source's pieces) this gives: the generated
    accessor renders what the translation source says. *)
From Coq Require Import List NArith Bool Arith.
Import ListNotations.
From LI Require Import Base.StrOps Parser.Parse Parser.Reduce Codegen.Target Codegen.TargetProofs.

(** view back-end ([flatten] / [to_token_stream]): for every value and every environment of arguments the
    generated view denotes the rendering of the value's pieces - text verbatim and in order, variables replaced
    by the supplied values, components applied to their rendered children *)
Theorem C01_codegen_view : forall e v, eval_view e (gen_view v) = render e (pieces v).
Proof. exact gen_view_renders. Qed.

(** string / display back-end ([flatten_string] / [as_string_impl]) *)
Theorem C01_codegen_string : forall e v, eval_string e (gen_string v) = render e (pieces v).
Proof. exact gen_string_renders. Qed.

(** [fit_in_leptos_tuple] keeps every token exactly once and in order, for every number of tokens *)
Theorem C01_tuple_order : forall vs,
  forallb (fun v => negb (is_tuple v)) vs = true -> tleaves (fit_in_leptos_tuple vs) = vs.
Proof. exact fit_order. Qed.

Theorem C01_tuple_order_eval : forall e vs, eval_view e (fit_in_leptos_tuple vs) = concat (map (eval_view e) vs).
Proof. exact eval_fit. Qed.

(** the tokens the generator puts into tuples are never tuples themselves *)
Theorem C01_flatten_atoms : forall v, forallb (fun t => negb (is_tuple t)) (flatten v) = true.
Proof. exact flatten_atoms. Qed.

(** [EitherOfWrapper]: for every locale count >= 1 a wrapper exists, every variant written for a locale index
    below the count is a variant of its enum, and different locales get different variant paths *)
Theorem C01_either_exists : forall size, (1 <= size)%nat -> exists w, ew_new size = Some w.
Proof. exact ew_new_some. Qed.

Theorem C01_either_in_range : forall size w i,
  ew_new size = Some w -> (i < size)%nat -> Forall (fun av => (snd av < fst av)%nat) (ew_wrap w i).
Proof. intros size. exact (ew_wrap_in_range size size). Qed.

Theorem C01_either_injective : forall size w i j,
  ew_new size = Some w -> (i < size)%nat -> (j < size)%nat -> ew_wrap w i = ew_wrap w j -> i = j.
Proof. intros size. exact (ew_wrap_injective size size). Qed.

(** non-vacuity: 60 tokens are nested as 20 chunks of 3 and come back in order; 18 locales nest EitherOf16 *)
Example C01b_example :
  let vs := map (fun n => TStr [N.of_nat n]) (seq 0 60) in
  (match fit_in_leptos_tuple vs with TTuple l => length l | _ => 0%nat end) = 20%nat
  /\ tleaves (fit_in_leptos_tuple vs) = vs
  /\ option_map (fun w => ew_wrap w 17) (ew_new 18) = Some [(16, 15); (3, 2)]%nat.
Proof. vm_compute. repeat split; reflexivity. Qed.

(** every tuple the generator writes has at most 26 elements (the largest tuple leptos implements its view
    traits for), for every value - whatever the number of tokens *)
Theorem C01_tuple_width : forall v, widths_ok (gen_view v).
Proof. exact gen_view_widths. Qed.
