(** Property C18 — Formatters apply the declared options for the locale being rendered.
    Only property theorems (each closed by [exact] of a lemma proved in
    Parser/FormatterProofs.v or Runtime/FormatCacheProofs.v) and non-vacuity examples.

    Reading guide.  [from_name_and_args], [parse_formatter_args], [parse_formatter] mirror the
    Rust functions of the same names.  [documented]/[expected_sel]/[expected_pres] is the table of
    docs/book/src/declare/08_formatters.md (option name, accepted values, default), written
    independently of the code: the first argument carrying the option's name and an accepted value
    wins, otherwise the default.  A [ftext] is the source description of a formatter text
    (tokens with the white space around each); [render] writes it out, [unpad] removes the white space.
    ICU4X itself ([make], [icu]) is abstract: it is an oracle, never modelled. *)
From Coq Require Import List NArith Bool.
Import ListNotations.
From Coq Require Strings.String.
Import Strings.String.StringSyntax.
From LI Require Import Base.StrOps Parser.Formatter Parser.FormatterProofs Runtime.FormatCache Runtime.FormatKeys Runtime.FormatProvider
  Runtime.FormatCacheProofs.

(** for every name and argument list — as `{{ v, name(args) }}` delivers them after splitting, and as
    the t*_format! macros deliver their identifiers — the selected formatter and options are the
    documented ones, whatever the set of enabled cargo features [en] (a disabled formatter is
    reported with the same options) *)
Theorem C18_options : forall en name args,
  from_name_and_args en name args = expected_sel en name args.
Proof. exact selection_is_documented. Qed.

(** unknown names are errors *)
Theorem C18_unknown_names_error : forall en name args,
  from_name_and_args en name args <> SelUnknown <->
  In name [lit "number"; lit "currency"; lit "date"; lit "time"; lit "datetime"; lit "list"].
Proof. exact known_names_select. Qed.

(** a formatter text written with any white space around any token, with elements that are not
    `name: value` pairs, unknown option names, unknown values, duplicates and a tail after the
    closing parenthesis, parses to the documented formatter with the documented options *)
Theorem C18_parse : forall en t, wf_ftext t = true ->
  parse_formatter en (render t) = expected_pres en t.
Proof. exact parse_formatter_render. Qed.

(** one level up, the text between "{{" and "}}": white space around the variable name and at both
    ends, the first comma separates the variable from the formatter text (any text [s]) *)
Theorem C18_variable : forall en var s,
  wf_tok var = true -> tok var <> [] -> lacks c_comma (tok var) = true ->
  parse_variable en (rtok var ++ c_comma :: s) =
  match parse_formatter en s with
  | POk f => VVar (var_prefix ++ tok var) f
  | PUnknown n => VUnknown n
  | PDisabled f => VDisabled f
  end.
Proof. exact parse_variable_split. Qed.

(** forall padding, parse (pad s) = parse s *)
Theorem C18_ws_insensitive : forall en t, wf_ftext t = true ->
  parse_formatter en (render t) = parse_formatter en (render (unpad t)).
Proof. exact ws_insensitive. Qed.

(** white space around the whole text is irrelevant for every text, malformed ones included *)
Theorem C18_outer_ws : forall en l s r, all_ws l = true -> all_ws r = true ->
  parse_formatter en (l ++ s ++ r) = parse_formatter en s.
Proof. exact outer_ws_irrelevant. Qed.

(** the cache: for every set of thread programs and every schedule of atomic get-or-insert steps,
    every call returns the ICU formatting of its value with make(locale, options) — it does not
    depend on which formatters ran before, in what order, or from how many threads.  [make] may
    fail ([None]: ICU4X refuses the options); then that call, and only that call, panics:
    [icu_fmt k = match make l o with Some f => Out (icu f v) | None => Panicked end] *)
Theorem C18_cache_transparent :
  forall (locale opts fmt value out : Type)
         (loc_eqb : locale -> locale -> bool) (opt_eqb : opts -> opts -> bool),
    (forall a b, loc_eqb a b = true -> a = b) -> (forall a b, opt_eqb a b = true -> a = b) ->
  forall (make : locale -> opts -> option fmt) (icu : fmt -> value -> out)
         (progs : list (list (call locale opts value))) (sched : list nat) t k o,
    In (t, k, o) (st_log _ _ _ _ _ (run _ _ _ _ _ loc_eqb opt_eqb make icu sched (init _ _ _ _ _ progs))) ->
    o = icu_fmt _ _ _ _ _ make icu k.
Proof. exact cache_transparent. Qed.

(** the same with the keys the six maps really use ([FormatKeys.cache_key]: every option of the
    selected formatter except the currency code, which is an argument of the formatting call) *)
Theorem C18_cache_transparent_keys :
  forall (locale fmt value out : Type) (loc_eqb : locale -> locale -> bool),
    (forall a b, loc_eqb a b = true -> a = b) ->
  forall (make : locale -> cache_key -> option fmt) (icu : fmt -> value -> out)
         (progs : list (list (call locale cache_key value))) (sched : list nat) t k o,
    In (t, k, o) (st_log _ _ _ _ _ (run _ _ _ _ _ loc_eqb key_eqb make icu sched (init _ _ _ _ _ progs))) ->
    o = icu_fmt _ _ _ _ _ make icu k.
Proof. exact cache_transparent_keys. Qed.

(** the ICU data provider is part of the same process-wide state: once [set_icu_data_provider] has stored [p]
    (documented use: once, at start-up), every call of EVERY thread is served by formatters built from [p] -
    for every set of thread programs and every schedule *)
Theorem C18_provider_global :
  forall (provider locale opts fmt value out : Type)
         (loc_eqb : locale -> locale -> bool) (opt_eqb : opts -> opts -> bool),
    (forall a b, loc_eqb a b = true -> a = b) -> (forall a b, opt_eqb a b = true -> a = b) ->
  forall (build : provider -> locale -> opts -> option fmt) (icu : fmt -> value -> out) (p : provider)
         (progs : list (list (call locale opts value))) (sched : list nat) t k o,
    In (t, k, o) (st_log _ _ _ _ _ (run_global provider locale opts fmt value out loc_eqb opt_eqb build icu (Some p) sched progs)) ->
    o = icu_fmt_with provider locale opts fmt value out build icu p k.
Proof. exact provider_global. Qed.

(** a thread-local state (maps and provider per thread) is refuted by a 2-thread schedule: thread 0 installs
    provider 9 and formats, thread 1 formats the same call and panics ("No DataProvider provided.") *)
Theorem C18_provider_thread_local_refuted :
  tl_log _ _ _ _ _ (run_tl nat nat nat (nat * nat * nat) nat (nat * nat * nat * nat) Nat.eqb Nat.eqb w_build w_icu3 0 9 [0; 1] w_progs2)%nat
  = [(0, (1, 7, 5), Out _ ((9, 1, 7), 5)); (1, (1, 7, 5), Panicked _)]%nat
  /\ icu_fmt_with nat nat nat (nat * nat * nat) nat (nat * nat * nat * nat) w_build w_icu3 9%nat (1, 7, 5)%nat = Out _ ((9, 1, 7), 5)%nat
  /\ st_log _ _ _ _ _ (run_global nat nat nat (nat * nat * nat) nat (nat * nat * nat * nat) Nat.eqb Nat.eqb w_build w_icu3 (Some 9%nat) [0; 1]%nat w_progs2)
     = [(0, (1, 7, 5), Out _ ((9, 1, 7), 5)); (1, (1, 7, 5), Out _ ((9, 1, 7), 5))]%nat.
Proof. exact provider_thread_local_refuted. Qed.

(** two schedules that let every thread finish (e.g. one thread after the other, and 8 threads
    racing) give every thread the same sequence of results *)
Theorem C18_cache_schedule_independent :
  forall (locale opts fmt value out : Type)
         (loc_eqb : locale -> locale -> bool) (opt_eqb : opts -> opts -> bool),
    (forall a b, loc_eqb a b = true -> a = b) -> (forall a b, opt_eqb a b = true -> a = b) ->
  forall (make : locale -> opts -> option fmt) (icu : fmt -> value -> out)
         (progs : list (list (call locale opts value))) (sched1 sched2 : list nat) t,
    complete _ _ _ _ _ (run _ _ _ _ _ loc_eqb opt_eqb make icu sched1 (init _ _ _ _ _ progs)) ->
    complete _ _ _ _ _ (run _ _ _ _ _ loc_eqb opt_eqb make icu sched2 (init _ _ _ _ _ progs)) ->
    results_of _ _ _ _ t (st_log _ _ _ _ _ (run _ _ _ _ _ loc_eqb opt_eqb make icu sched1 (init _ _ _ _ _ progs)))
    = results_of _ _ _ _ t (st_log _ _ _ _ _ (run _ _ _ _ _ loc_eqb opt_eqb make icu sched2 (init _ _ _ _ _ progs))).
Proof. exact schedule_independent. Qed.

(** the code before the repair (a panic inside [with_mut] poisoned the lock for every later call)
    is refuted by a concrete run: one thread, `time(time_length: full)` then a number *)
Theorem C18_old_refuted :
  In (0, (1, 7, 5), Panicked _)%nat w_log_old /\
  icu_fmt nat nat (nat * nat) nat (nat * nat * nat) w_make w_icu (1, 7, 5)%nat = Out _ ((1, 7), 5)%nat.
Proof. exact old_cache_refuted. Qed.

(** bridge to the correspondence check: the executable predicate evaluated on the
    implementation's answers holds of the model for every input *)
Theorem C18_spec : forall en t, wf_ftext t = true ->
  spec_C18 en t (parse_formatter en (render t)) = true.
Proof. exact spec_C18_holds. Qed.

Theorem C18_spec_var : forall en var t,
  wf_tok var = true -> tok var <> [] -> lacks c_comma (tok var) = true -> wf_ftext t = true ->
  spec_C18_var en (tok var) t (parse_variable en (rtok var ++ c_comma :: render t)) = true.
Proof. exact spec_C18_var_holds. Qed.

(** * non-vacuity *)
Open Scope N_scope.
Definition sp : str := [32].
Definition ex_text : ftext :=
  mk_ftext ([12288], lit "datetime", sp)
    (Some ([Pair (sp, lit "time_length", [9]) ([10], lit "full", []);
            Junk (lit " what ");
            Pair ([], lit "date_length", []) ([], lit "tiny", []);
            Pair ([], lit "date_length", []) ([160], lit "short", [8195]);
            Pair ([], lit "date_length", []) ([], lit "long", [])], lit " tail")).

Example ex_text_wf : wf_ftext ex_text = true.
Proof. vm_compute. reflexivity. Qed.

Example ex_text_parses :
  parse_formatter all_features (render ex_text) = POk (FDateTime DShort TFull).
Proof. vm_compute. reflexivity. Qed.

Example ex_unknown :
  parse_formatter all_features (lit " dates (date_length: short)") = PUnknown (lit "dates").
Proof. vm_compute. reflexivity. Qed.

Example ex_disabled :
  parse_formatter (fun f => match f with FeatList => false | _ => true end) (lit "list(list_type: or)")
  = PDisabled (FList LOr SWide).
Proof. vm_compute. reflexivity. Qed.

(** two threads racing on the same key, a third on another one: a complete run, thread 1 served from the cache *)
Definition ex_progs : list (list (call nat nat nat)) := [[(1, 7, 100); (2, 7, 5)]; [(1, 7, 3)]; [(2, 7, 9)]]%nat.
Definition ex_run (sched : list nat) :=
  run nat nat (nat * nat) nat (nat * nat * nat) Nat.eqb Nat.eqb (fun l o => Some (l, o)) (fun f v => (f, v)) sched
      (init _ _ _ _ _ ex_progs).

Example ex_complete : complete _ _ _ _ _ (ex_run [1; 0; 2; 0]%nat).
Proof. vm_compute. repeat constructor. Qed.

Example ex_results :
  results_of _ _ _ _ 1%nat (st_log _ _ _ _ _ (ex_run [1; 0; 2; 0]%nat)) = [((1, 7, 3), Out _ ((1, 7), 3))]%nat
  /\ results_of _ _ _ _ 1%nat (st_log _ _ _ _ _ (ex_run [0; 0; 2; 1]%nat)) = [((1, 7, 3), Out _ ((1, 7), 3))]%nat.
Proof. vm_compute. split; reflexivity. Qed.

(** ** The t*_format! macros format for the locale being rendered (machines of Runtime/Context.v, accessor flavours of
    Runtime/ContextAcc.v).  `t_format!(e, value, formatter: ..)` / `tu_format!` return a view closure that reads the locale
    of the context each time it is rendered; the `_string` / `_display` forms are evaluated in place.  [icu] is the
    ICU4X oracle (locale index of the `Locale` enum, selected formatter with its options, value). *)
From LI Require Import Runtime.Context.
From LI Require Import Runtime.ContextAcc.
From LI Require Import Runtime.ContextAccProofs.

(** for every history of set_locale / set_locale_untracked / scopes / sub-contexts / flushes, every kind of context
    expression and every format macro [fa]: the accessor created on handle [h] after [pre] renders, after any continuation
    [post], the ICU4X text of the value for the locale its context shows at that moment — not for the locale the context
    held when the macro expression was evaluated *)
Theorem C18_accessor_current_locale :
  forall (fmt value text : Type) (icu : N -> fmt -> value -> text) (f : fmt) (v : value)
         l0 con pre h fa fb post,
  let a0 := a_run (a_init l0 con) (map erase pre) in
  (h < a_nh a0)%nat -> fl_frozen fa = false ->
  let xops := pre ++ XAcc h fa fb :: post in
  let s := fst (xc_run (c_init l0 con, []) xops) in
  let a := a_run (a_init l0 con) (map erase xops) in
  let k := a_nacc a0 in
  (k < c_nacc s)%nat /\ render_with (fun l => icu l f v) s k = icu (a_loc a (a_hctx a0 h)) f v.
Proof. exact (fun fmt value text icu f v => @accessor_renders_current_text text (fun l => icu l f v)). Qed.

(** * defaulted keys (the imports below shadow [lit]: keep this section last) *)
From LI Require Import Parser.Parse Parser.Merge Codegen.Target Codegen.LocaleMatch Codegen.FormatLocale
  Codegen.FormatLocaleProofs.

(** a DEFAULTED key (absent or null in the requested locale, possibly reached through an `inherits` chain):
    for every configuration, every presence pattern of the key and every configured requested locale, the
    generated match runs the code of the value of the EFFECTIVE locale (first locale of the inherits walk that
    defines the key, else the default) with `_locale` = the REQUESTED locale - so `{{ var, formatter(args) }}`
    is formatted for the locale being rendered, with the options of the template that is shown.
    [ev_view] / [ev_string]: running an arm body with `_locale` bound to a locale (ICU4X, an oracle) *)
Theorem C18_defaulted_uses_requested_locale :
  forall (out : Type) (ev_view : N -> tv -> out) (ev_string : N -> ts -> out)
         (dflt : N) (inherits : list (N * N)) (others : list N) (defs : list (N * pv)),
  NoDup (map fst defs) -> ~ In dflt others -> In dflt (map fst defs) ->
  (forall t, In t (map fst defs) -> t = dflt \/ In t others) ->
  (forall x y, map_get inherits x = Some y -> In x others /\ (y = dflt \/ In y others)) ->
  let defines := fun l => existsb (N.eqb l) (map fst defs) in
  let d := defaults_of dflt inherits others defines in
  forall requested, (requested = dflt \/ In requested others) ->
  exists v, assoc_get defs (first_defined (map_get inherits) defines dflt (S (length others)) requested) = Some v
            /\ exec_view out ev_view (compute d) defs requested = Some (ev_view requested (gen_view v))
            /\ exec_string out ev_string (compute d) defs requested = Some (ev_string requested (gen_string v)).
Proof. exact defaulted_uses_requested_locale. Qed.

(** re-binding `_locale` to the arm's own locale is refuted: default locale 0 defines `{{ v, f }}`, locale 1 does
    not; rendering for 1 would format with locale 0 *)
Theorem C18_rebind_refuted : forall (f : fmt),
  exec_view_rebind (N * tv) (fun loc code => (loc, code)) w_groups (w_defs f) 1%N = Some (0%N, gen_view (PVar [118%N] f))
  /\ exec_view (N * tv) (fun loc code => (loc, code)) w_groups (w_defs f) 1%N = Some (1%N, gen_view (PVar [118%N] f)).
Proof. exact rebind_refuted. Qed.

