(** Property C15 — Initial locale resolution follows the documented precedence.
    Only the property theorems (each closed by [exact] of a lemma of Runtime/ResolveProofs.v).
    Interpretation (DESIGN §10, C13): a cookie "holds a configured locale name" when its value equals a
    configured name modulo surrounding whitespace (the generated FromStr trims).  The Accept-Language
    header → language list step is leptos-use's and the entry → langid step is icu_locid's: both are
    inputs of the model ([list (option langid)]), "best match ... otherwise the default" is C12's predicate. *)
From Coq Require Import List NArith Bool.
Import ListNotations.
From LI Require Import Base.StrOps.
From LI Require Import Runtime.Langid.
From LI Require Import Runtime.Resolve.
From LI Require Import Runtime.ResolveProofs.
Open Scope N_scope.

(** main context: a valid cookie names the result; otherwise the result is the negotiated locale
    (best match for the accepted languages, else the default) *)
Theorem C15_main : forall feat a o,
  app_wf a = true ->
  let cv := valid_cookie a (cookie_value (feat && mo_enable_cookie o) (mo_cookie_name o) (mo_cookie_hdr o)) in
  (forall v, cv = Some v -> named_by a v (init_main feat a o) = true) /\
  (cv = None -> init_main feat a o = accepted_locale a (mo_accept o)
                /\ negotiated a (mo_accept o) (init_main feat a o) = true).
Proof. exact init_main_precedence. Qed.

(** `resolve_locale_with_options` gives what a fresh main context would show *)
Theorem C15_resolve : forall feat a o, resolve_locale feat a o = init_main feat a o.
Proof. exact resolve_locale_same. Qed.

(** sub-context: cookie, explicit initial locale, parent context's locale, then the main resolution *)
Theorem C15_sub : forall feat a o,
  app_wf a = true ->
  let cv := valid_cookie a (sub_cookie_value feat o) in
  (forall v, cv = Some v -> named_by a v (init_sub feat a o) = true) /\
  (cv = None ->
     (forall i, so_initial o = Some i -> init_sub feat a o = i) /\
     (so_initial o = None ->
        (forall p, so_parent o = Some p -> init_sub feat a o = p) /\
        (so_parent o = None -> init_sub feat a o = accepted_locale a (so_accept o)
                               /\ negotiated a (so_accept o) (init_sub feat a o) = true))).
Proof. exact init_sub_precedence. Qed.

(** an invalid cookie value is ignored: the result is the one obtained without any Cookie header *)
Theorem C15_invalid_cookie : forall feat a,
  (forall o, valid_cookie a (cookie_value (feat && mo_enable_cookie o) (mo_cookie_name o) (mo_cookie_hdr o)) = None ->
             init_main feat a o = init_main feat a (main_without_cookie o)) /\
  (forall o, valid_cookie a (sub_cookie_value feat o) = None ->
             init_sub feat a o = init_sub feat a (sub_without_cookie o)).
Proof. exact invalid_cookie_ignored. Qed.

(** the executable predicates evaluated by the correspondence check hold of the model for every input *)
Theorem C15_spec : forall feat a,
  app_wf a = true ->
  (forall o, spec_C15_main feat a o (init_main feat a o) = true) /\
  (forall o, spec_C15_main feat a o (resolve_locale feat a o) = true) /\
  (forall o, spec_C15_sub feat a o (init_sub feat a o) = true).
Proof. exact spec_C15_holds. Qed.

(** with a valid cookie the predicate admits exactly one answer *)
Theorem C15_cookie_unique : forall feat a o v res,
  app_wf a = true ->
  valid_cookie a (cookie_value (feat && mo_enable_cookie o) (mo_cookie_name o) (mo_cookie_hdr o)) = Some v ->
  spec_C15_main feat a o res = true -> res = init_main feat a o.
Proof. exact spec_C15_main_cookie_unique. Qed.
