(** Property C07 — Key sets are checked against the default locale, with exact diagnostics.
    Interpretation (DESIGN §10): only MissingKey / SurplusKey are "these diagnostics";
    UnusedForm belongs to C05.  Property theorems only. *)
From Coq Require Import List NArith Bool.
Import ListNotations.
From LI Require Import Parser.Merge Parser.MergeProofs Parser.MergeCheck Parser.MergeWf Parser.MergeSpec07Proofs.
From LI Require Parser.MergeWarnProofs.
Open Scope N_scope.

(** the accessible key paths (BuildersKeys) are exactly the default file's key paths, identically
    whatever the other locales hold *)
Theorem C07_keyset : forall ext suppress ns dflt df rest ks ws,
  check_locales_inner ext suppress ns ((dflt, df) :: rest) = Ok (ks, ws) ->
  bks_paths ks [] = forest_paths df [].
Proof. exact keyset_is_default. Qed.

(** an explicit null in the default locale is rejected, and ExplicitDefaultInDefault is raised
    for nothing else *)
Theorem C07_no_default_null : forall ext suppress ns dflt df rest,
  forest_has_null df = true ->
  exists p, check_locales_inner ext suppress ns ((dflt, df) :: rest) = Err (EExplicitDefaultInDefault ns p).
Proof. exact default_null_rejected. Qed.
Theorem C07_default_null_only : forall ext suppress ns dflt df rest ns' p,
  check_locales_inner ext suppress ns ((dflt, df) :: rest) = Err (EExplicitDefaultInDefault ns' p) ->
  forest_has_null df = true.
Proof. exact default_null_only. Qed.

(** with suppress_key_warnings: no Missing / Surplus diagnostics at all *)
Theorem C07_suppressed : forall ext ns locs ks ws,
  check_locales_inner ext true ns locs = Ok (ks, ws) -> ws = [].
Proof. exact suppressed_no_warnings. Qed.

(** a key that is a subkey group in one locale and a value in another is an error: whenever all
    locales merge successfully, no non-default locale holds a group where the default holds a
    value, or a value where the default holds a group, at any path reachable through groups of
    both files *)
Theorem C07_mismatch : forall ext suppress ns dflt df rest ks ws,
  check_locales_inner ext suppress ns ((dflt, df) :: rest) = Ok (ks, ws) ->
  forall l f q dtree t, In (l, f) rest -> forest_at df q = Some dtree -> forest_at f q = Some t ->
    match dtree, t with Leaf _, Group _ => False | Group _, Leaf _ => False | _, _ => True end.
Proof. exact ok_no_mismatch. Qed.

(** Exactness of the diagnostics: on every well-formed case the MissingKey / SurplusKey warnings
    the model produces are, as a multiset, exactly the ones the key sets call for
    ([expected_warnings], Parser/MergeCheck.v: Missing(l,p) iff l does not inherit, the build is
    not suppress_key_warnings, p is a default path whose parent group exists in l's file and p is
    absent there; Surplus(l,p) iff p is in l's file, its parent is a group of the default file and
    p is absent from the default) *)
Theorem C07_warnings_exact : forall c,
  wf_strict c = true ->
  match check_locales (c_ext c) (c_suppress c) (c_nss c) with
  | Ok (_, ws) => perm_eqb warning_eqb ws (expected_warnings c) = true
  | _ => True
  end.
Proof. exact MergeWarnProofs.warnings_exact. Qed.

(** the executable predicate the correspondence evaluates holds of the model on every
    well-formed case (warnings, key sets, error iff the input calls for one, named place genuine) *)
Theorem C07_spec : forall c, wf_strict c = true -> spec_C07 c (model_result c) = true.
Proof. exact spec_C07_holds. Qed.

(** non-vacuity: fr misses b (implicit), has surplus zz; it inherits, so only its surplus is reported *)
Example C07_example :
  let c := mk_case false [(3, 2)]
             [(None, [(1, FCons 1 (Leaf 1) (FCons 2 (Leaf 2) FNil));
                      (2, FCons 1 (Leaf 3) (FCons 9 (Leaf 4) FNil));
                      (3, FCons 8 (Leaf 5) FNil)])] IOther in
  wf_strict c = true
  /\ model_result c = IOk [WMissing 2 None [2]; WSurplus 2 None [9]; WSurplus 3 None [8]]
                          (model_entries c match check_locales (c_ext c) false (c_nss c) with Ok (o, _) => o | _ => [] end)
  /\ spec_C07 c (model_result c) = true.
Proof. vm_compute. repeat split. Qed.
