(** Property C14 — URL locale prefixes are matched by whole segment and rewritten reversibly.
    This file holds only the property theorems (each closed by [exact] of a lemma proved in
    Runtime/RouterProofs.v), non-vacuity examples and the refutation of the pre-repair algorithms.

    Reading guide.  Locales are indices into [names] (the order of [L::get_all()]), [dflt] is
    [L::default()].  [t] is the declared route table ([aseg]: a static segment carries one name per
    locale), [inst] one reading of a path (the static segments passed and the values captured),
    [url_path names dflt bsegs l inst] the PathBuilder-normalised URL of that reading in locale [l]:
    ["/" ++ join "/" (bsegs ++ prefix ++ segments)], where the prefix is absent for the default locale.

    [valid names dflt t a b inst] (Runtime/Router.v) is the hypothesis of DESIGN §5 C14:
    - locale names are single non-empty segments ([names_ok]);
    - the table is well formed: every static segment is, in all locales alike, empty or a single
      non-empty segment ([atab_ok]);
    - in the source locale [a] and in the target locale [b] the path is an instance of a route of the
      table and has no other reading ([reads_as]: it matches exactly one route, in exactly one way);
    - the URL really reads as that locale: a URL of the default locale (no prefix) does not start with
      a segment that is itself a locale name ([locale_readable]) — otherwise the router takes that
      segment for a locale prefix and "the URL of locale a" is not well defined.
    [base_ok base bsegs]: the base path argument is the '/'-join of [bsegs] with any number of
    slashes before and after (["foo"], ["/foo"], ["foo/"], ["/foo/"]). *)
From Coq Require Import List NArith Bool Arith.
Import ListNotations.
From LI Require Import Base.StrOps Runtime.Router Runtime.RouterProofs.
Open Scope N_scope.

(** a locale is read from a URL exactly when the first segment after the base path equals a locale
    name; the locale returned is the first one with that name *)
Theorem C14_whole_segment : forall names path base l,
  get_locale_from_path names path base = Some l <->
  (exists rest, path_segments path = path_segments base ++ name_of names l :: rest) /\
  (l < length names)%nat /\ (forall j, (j < l)%nat -> name_of names j <> name_of names l).
Proof. exact get_locale_whole_segment. Qed.

(** switching from locale [a] to locale [b] yields exactly the URL of the same reading in [b]: same
    base segments, prefix of [b] (none for the default locale), every static segment in [b]'s
    spelling, every captured value unchanged and in the same order, same query and fragment *)
Theorem C14_rewrite_frame : forall names dflt base bsegs t a b inst old search hash,
  valid names dflt t a b inst -> base_ok base bsegs -> old_ok_p dflt a old ->
  get_new_path names dflt base (tabs_of (length names) t) (url_path names dflt bsegs a inst) search hash b old
  = Ok (url_path names dflt bsegs b inst ++ url_suffix search hash).
Proof. exact switch_ok. Qed.

(** switching back restores the original URL (string equality: URLs of readings are in
    PathBuilder-normalised form) *)
Theorem C14_roundtrip : forall names dflt base bsegs t a b inst search hash,
  valid names dflt t a b inst -> base_ok base bsegs ->
  forall u, get_new_pathname names dflt base (tabs_of (length names) t) (url_path names dflt bsegs a inst) b (Some a) = Ok u ->
  get_new_path names dflt base (tabs_of (length names) t) u search hash a (Some b)
  = Ok (url_path names dflt bsegs a inst ++ url_suffix search hash).
Proof. exact roundtrip_ok. Qed.

(** any sequence of switches visits, step by step, the URL of the same reading in each locale; so a
    sequence ending in the original locale ends on the original URL.  [by_path = false]: the [locale]
    argument of every step is the context's previous locale (update_path_effect); [by_path = true]:
    it is read back from the current path with get_locale_from_path (correct_locale_prefix_effect),
    which needs the locale names to be pairwise distinct *)
Theorem C14_history : forall names dflt base bsegs t inst by_path ls a,
  valid_all names dflt t (a :: ls) inst -> base_ok base bsegs -> (by_path = true -> NoDup names) ->
  history names dflt base (tabs_of (length names) t) by_path (url_path names dflt bsegs a inst) (Some a) ls
  = Ok (map (fun l => url_path names dflt bsegs l inst) ls).
Proof. exact history_any_ok. Qed.

Theorem C14_history_returns : forall names dflt base bsegs t inst ls a,
  valid_all names dflt t (a :: ls ++ [a]) inst -> base_ok base bsegs ->
  exists us, history names dflt base (tabs_of (length names) t) false (url_path names dflt bsegs a inst) (Some a) (ls ++ [a])
             = Ok (us ++ [url_path names dflt bsegs a inst]).
Proof. exact history_returns. Qed.

(** the executable predicates the correspondence check evaluates on the implementation's answers
    hold of the model for every input *)
Theorem C14_spec : forall names dflt base bsegs t a b inst old search hash,
  valid names dflt t a b inst -> base_ok base bsegs -> old_ok_p dflt a old -> hash_decidable hash = true ->
  spec_C14 names dflt bsegs inst search hash b
    (get_new_path names dflt base (tabs_of (length names) t) (url_path names dflt bsegs a inst) search hash b old) = true.
Proof. exact spec_C14_holds. Qed.

Theorem C14_spec_locale : forall names path base,
  spec_locale names (path_segments base) (path_segments path) (get_locale_from_path names path base) = true.
Proof. exact spec_locale_holds. Qed.

(** what the check treats as inside the domain ([valid_b], computed) is [valid] *)
Theorem C14_valid_decidable : forall names dflt t a b inst,
  valid_b names dflt t a b inst = true -> valid names dflt t a b inst.
Proof. exact valid_b_sound. Qed.

(** * Non-vacuity and the pre-repair algorithms *)
Definition w_names : list str := [[101; 110]; [102; 114]; [100; 101]].
Definition w_root : aseg := AStatic [[]; []; []].
Definition w_about : list str := [[97; 98; 111; 117; 116]; [97; 45; 112; 114; 111; 112; 111; 115]; [117; 101; 98; 101; 114]].
Definition w_plain (s : str) : aseg := AStatic [s; s; s].
(** routes: "/", "/<about>", "/<about>/:id?", "/files/*rest", "/x/:a?/<about>" *)
Definition w_tab : list (list aseg) :=
  [[w_root]; [w_root; AStatic w_about]; [w_root; AStatic w_about; AOpt [105; 100]];
   [w_root; w_plain [102; 105; 108; 101; 115]; ASplat [114; 101; 115; 116]]; [w_root; w_plain [120]; AOpt [97]; AStatic w_about]].

Example C14_valid_nonvacuous :
  valid w_names 0 w_tab 1 2 [IStat w_about; IVal [52; 50]] /\
  valid w_names 0 w_tab 1 0 [IStat [[102; 105; 108; 101; 115]; [102; 105; 108; 101; 115]; [102; 105; 108; 101; 115]]; IVal [97]; IVal [120]] /\
  valid w_names 0 w_tab 0 2 [IStat [[120]; [120]; [120]]; IVal [52; 50]; IStat w_about] /\
  base_ok [47; 102; 111; 111; 47] [[102; 111; 111]] /\ base_ok [102; 111; 111] [[102; 111; 111]] /\ base_ok [slash] [].
Proof.
  Local Ltac vb := apply valid_b_sound; vm_compute; reflexivity.
  Local Ltac bo pre post := split; [reflexivity|exists pre, post; split; [reflexivity|split; reflexivity]].
  split; [vb|]. split; [vb|]. split; [vb|].
  split; [bo [slash] [slash]|]. split; [bo (@nil N) (@nil N)|bo [slash] (@nil N)].
Qed.

Example C14_frame_example :
  get_new_path w_names 0 [47; 102; 111; 111; 47] (tabs_of 3 w_tab) [47; 102; 111; 111; 47; 102; 114; 47; 120; 47; 52; 50; 47; 97; 45; 112; 114; 111; 112; 111; 115] [113; 61; 49] [116; 111; 112] 2 (Some 1%nat) = Ok [47; 102; 111; 111; 47; 100; 101; 47; 120; 47; 52; 50; 47; 117; 101; 98; 101; 114; 63; 113; 61; 49; 35; 116; 111; 112].
Proof. vm_compute. reflexivity. Qed.

(** * Overlapping routes: first-match semantics.
    When several routes match, the router's rule is "the first matching route wins" (and inside a route
    an optional parameter takes a segment whenever the rest of the path can still be read).
    [first_parse n a t segs] is that first reading, [expected_segs n t a b segs] the same segments with
    the static segments of the first reading in [b]'s spelling (a path no route matches is kept).
    [valid_url] no longer asks for a unique reading: locale names and table well formed, segments
    non-empty and slash-free, and a URL of the default locale does not start with a locale name.
    [path_denotes]: the path string may be spelled with repeated or trailing slashes. *)
Theorem C14_first_match_frame : forall names dflt base bsegs t a b segs old path search hash,
  valid_url names dflt t a b segs -> base_ok base bsegs -> old_ok_p dflt a old ->
  path_denotes names dflt bsegs a segs path ->
  get_new_path names dflt base (tabs_of (length names) t) path search hash b old
  = Ok (render_path (bsegs ++ prefix_of names dflt b ++ expected_segs (length names) t a b segs) ++ url_suffix search hash).
Proof. exact switch_first_match. Qed.

(** switching back restores the URL whenever the first reading of the image is the same reading *)
Theorem C14_first_match_roundtrip : forall names dflt base bsegs t a b segs inst path search hash,
  valid_url names dflt t a b segs -> valid_url names dflt t b a (render b inst) ->
  first_parse (length names) a t segs = Some inst ->
  first_parse (length names) b t (render b inst) = Some inst ->
  base_ok base bsegs -> path_denotes names dflt bsegs a segs path ->
  forall u, get_new_pathname names dflt base (tabs_of (length names) t) path b (Some a) = Ok u ->
  get_new_path names dflt base (tabs_of (length names) t) u search hash a (Some b)
  = Ok (render_path (bsegs ++ prefix_of names dflt a ++ segs) ++ url_suffix search hash).
Proof. exact roundtrip_first_match. Qed.

Theorem C14_first_match_history : forall names dflt base bsegs t by_path ls a segs path,
  hist_valid names dflt t a segs ls -> base_ok base bsegs -> (by_path = true -> NoDup names) ->
  path_denotes names dflt bsegs a segs path ->
  history names dflt base (tabs_of (length names) t) by_path path (Some a) ls
  = Ok (map (fun ls' => render_path (bsegs ++ prefix_of names dflt (fst ls') ++ snd ls'))
            (expected_history (length names) t a segs ls)).
Proof. exact history_first_match. Qed.

Theorem C14_first_match_spec : forall names dflt base bsegs t a b segs old path search hash,
  valid_url names dflt t a b segs -> base_ok base bsegs -> old_ok_p dflt a old ->
  path_denotes names dflt bsegs a segs path -> hash_decidable hash = true ->
  spec_first_match names dflt bsegs t a b segs search hash
    (get_new_path names dflt base (tabs_of (length names) t) path search hash b old) = true.
Proof. exact spec_first_match_holds. Qed.

(** a path with exactly one reading has it as first reading: the unique-reading theorems above are
    the special case of the first-match ones *)
Theorem C14_unique_is_first : forall n t a inst, reads_as n t a inst -> first_parse n a t (render a inst) = Some inst.
Proof. exact reads_as_first. Qed.

(** routes "/", "/<about>", then the catch-alls "/:page" and "/*any": "/fr/a-propos" matches three
    routes; the first one wins, so en gets "/about" (a last-match rule would give "/a-propos") *)
Definition w_overlap : list (list aseg) :=
  [[w_root]; [w_root; AStatic w_about]; [w_root; AParam [112; 97; 103; 101]]; [w_root; ASplat [97; 110; 121]]].
Example C14_first_match_example :
  valid_url w_names 0 w_overlap 1 0 [[97; 45; 112; 114; 111; 112; 111; 115]] /\
  length (flat_map (fun r => parses 3 1 r [[97; 45; 112; 114; 111; 112; 111; 115]]) w_overlap) = 3%nat /\
  get_new_path w_names 0 [slash] (tabs_of 3 w_overlap) [47; 47; 102; 114; 47; 97; 45; 112; 114; 111; 112; 111; 115; 47] [] [] 0 (Some 1%nat) = Ok [47; 97; 98; 111; 117; 116] /\
  get_new_path w_names 0 [slash] (tabs_of 3 w_overlap) [47; 97; 98; 111; 117; 116] [] [] 1 (Some 0%nat) = Ok [47; 102; 114; 47; 97; 45; 112; 114; 111; 112; 111; 115].
Proof.
  split; [apply valid_url_b_sound; vm_compute; reflexivity|]. repeat split; vm_compute; reflexivity.
Qed.

(** * URLs with an explicit prefix for the default locale ("/en/about" with default en).
    The router accepts and reads such a URL as locale en; leaving it must rewrite that prefix like any
    other one ("/fr/a-propos", not "/fr/en/about").  The statement holds for every locale [a] whose
    name is spelled in the URL; the result is in canonical form (no prefix for the default locale). *)
Theorem C14_explicit_prefix_frame : forall names dflt base bsegs t a b segs path search hash,
  valid_url_explicit names t a b segs -> base_ok base bsegs -> path_denotes_explicit names bsegs a segs path ->
  get_new_path names dflt base (tabs_of (length names) t) path search hash b (Some a)
  = Ok (render_path (bsegs ++ prefix_of names dflt b ++ expected_segs (length names) t a b segs) ++ url_suffix search hash).
Proof. exact switch_explicit. Qed.

Theorem C14_explicit_prefix_history : forall names dflt base bsegs t by_path l ls a segs path,
  valid_url_explicit names t a l segs ->
  hist_valid names dflt t l (expected_segs (length names) t a l segs) ls ->
  base_ok base bsegs -> (by_path = true -> NoDup names) -> path_denotes_explicit names bsegs a segs path ->
  history names dflt base (tabs_of (length names) t) by_path path (Some a) (l :: ls)
  = Ok (map (fun ls' => render_path (bsegs ++ prefix_of names dflt (fst ls') ++ snd ls'))
            (expected_history (length names) t a segs (l :: ls))).
Proof. exact history_explicit_start. Qed.

Theorem C14_explicit_prefix_spec : forall names dflt base bsegs t a b segs path search hash,
  valid_url_explicit names t a b segs -> base_ok base bsegs -> path_denotes_explicit names bsegs a segs path ->
  hash_decidable hash = true ->
  spec_first_match names dflt bsegs t a b segs search hash
    (get_new_path names dflt base (tabs_of (length names) t) path search hash b (Some a)) = true.
Proof. exact spec_explicit_holds. Qed.

(** "/en/about" (default en) switched to fr is "/fr/a-propos"; the locale read from it is en *)
Example C14_explicit_prefix_example :
  get_locale_from_path w_names [47; 101; 110; 47; 97; 98; 111; 117; 116] [slash] = Some 0%nat /\
  get_new_path w_names 0 [slash] (tabs_of 3 w_overlap) [47; 101; 110; 47; 97; 98; 111; 117; 116] [] [] 1 (Some 0%nat) = Ok [47; 102; 114; 47; 97; 45; 112; 114; 111; 112; 111; 115].
Proof. split; vm_compute; reflexivity. Qed.

(** * match_nested: the locale prefix is tried before the bare path, whatever the table starts with.
    leptos_router's matcher is not modelled: [ol] (inner table on the rest of the path, per locale) and
    [od] (inner table on the whole path) are oracle arguments, universally quantified — so the
    statements hold for every route table, in particular for tables whose first segment is a param,
    an optional param or a splat (which would happily swallow the locale segment). *)
Theorem C14_prefix_before_params : forall names f ol od l r,
  (l < length names)%nat -> name_of names l = f -> nth l ol None = Some r ->
  (forall j, (j < l)%nat -> name_of names j = f -> nth j ol None = None) ->
  match_nested_model names (Some f) ol od = Some (Some l, slash :: f, r).
Proof. exact match_nested_prefix_first. Qed.

(** a locale is reported only for a first segment that is exactly its name, with the rest matched *)
Theorem C14_match_locale_exact : forall names first ol od l m r,
  match_nested_model names first ol od = Some (Some l, m, r) ->
  exists f, first = Some f /\ (l < length names)%nat /\ name_of names l = f /\ nth l ol None = Some r /\ m = slash :: f.
Proof. exact match_nested_locale_exact. Qed.

(** otherwise (first segment not a locale name, or the rest not matched under it) no locale is
    reported and the whole path is matched by the inner table *)
Theorem C14_match_bare : forall names f ol od,
  (forall k, (k < length names)%nat -> name_of names k = f -> nth k ol None = None) ->
  match_nested_model names (Some f) ol od = match od with Some r => Some (None, [], r) | None => None end.
Proof. exact match_nested_bare. Qed.

Theorem C14_match_spec : forall names first ol od,
  spec_match names first ol od (match_nested_model names first ol od) = true.
Proof. exact spec_match_model. Qed.

(** trying the bare path first is refuted: table [/, /:slug], path "/fr" — the inner table matches
    the rest "" under fr and also the whole path as slug=fr *)
Theorem C14_swapped_refuted :
  spec_match w_names (Some [102; 114]) [None; Some ([], []); None] (Some ([], [([115; 108; 117; 103], [102; 114])]))
    (match_nested_swapped w_names (Some [102; 114]) [None; Some ([], []); None] (Some ([], [([115; 108; 117; 103], [102; 114])]))) = false
  /\ match_nested_model w_names (Some [102; 114]) [None; Some ([], []); None] (Some ([], [([115; 108; 117; 103], [102; 114])]))
     = Some (Some 1%nat, [47; 102; 114], ([], [])).
Proof. split; vm_compute; reflexivity. Qed.

(** * The fragment.
    [Location.hash] is [window.location.hash] on the client (leptos_router 0.7.8 stores it unmodified,
    "#top"), empty on the server, bare ("top") only with a test double.  [fragment_of] drops ONE leading
    '#'; [spec_suffix] is what the property demands: the same query, and "#" ++ the same fragment when
    it is non-empty.  All the frame theorems above are stated with [url_suffix] (what the code
    appends); this theorem says it is the demanded suffix for both forms.  Excluded, because the
    property cannot decide it: [hash = "#"] alone (never reported by a browser; the code emits "…#",
    an explicit empty fragment). *)
Theorem C14_fragment_preserved : forall search hash,
  hash_decidable hash = true -> url_suffix search hash = spec_suffix search hash.
Proof. exact suffix_preserved. Qed.

(** no growth: on the client, after any number of switches (each followed by the browser reporting
    the new URL's hash) the fragment is the one of the start URL *)
Theorem C14_fragment_history : forall n h, fragment_of (hash_after hash_part true n h) = fragment_of h.
Proof. exact fragment_no_growth. Qed.

Theorem C14_fragment_history_bare : forall n h, starts_with_hash (fragment_of h) = false ->
  fragment_of (hash_after hash_part false n h) = fragment_of h.
Proof. exact fragment_no_growth_bare. Qed.

Example C14_fragment_examples :
  url_suffix [] [35; 116; 111; 112] = [35; 116; 111; 112] /\ url_suffix [] [116; 111; 112] = [35; 116; 111; 112] /\ url_suffix [] [35; 35; 120] = [35; 35; 120] /\ url_suffix [113] [] = [63; 113] /\
  spec_suffix [] [35; 116; 111; 112] = [35; 116; 111; 112] /\ spec_suffix [] [116; 111; 112] = [35; 116; 111; 112] /\ spec_suffix [] [35; 35; 120] = [35; 35; 120] /\
  url_suffix [] [hashc] = [hashc] /\ spec_suffix [] [hashc] = [] /\ hash_decidable [hashc] = false.
Proof. repeat split; vm_compute; reflexivity. Qed.

(** the unconditional push of '#' (before 2cc600f) doubles the '#' of a browser-form hash:
    "/about" with hash "#top" switched en->fr gives "/fr/a-propos##top", and the fragment grows with
    every further switch *)
Theorem C14_double_hash_old_refuted :
  valid_url w_names 0 w_overlap 0 1 [[97; 98; 111; 117; 116]] /\
  spec_first_match w_names 0 [] w_overlap 0 1 [[97; 98; 111; 117; 116]] [] [35; 116; 111; 112]
    (get_new_path_double_hash w_names 0 [slash] (tabs_of 3 w_overlap) [47; 97; 98; 111; 117; 116] [] [35; 116; 111; 112] 1 (Some 0%nat)) = false /\
  get_new_path_double_hash w_names 0 [slash] (tabs_of 3 w_overlap) [47; 97; 98; 111; 117; 116] [] [35; 116; 111; 112] 1 (Some 0%nat) = Ok [47; 102; 114; 47; 97; 45; 112; 114; 111; 112; 111; 115; 35; 35; 116; 111; 112] /\
  get_new_path w_names 0 [slash] (tabs_of 3 w_overlap) [47; 97; 98; 111; 117; 116] [] [35; 116; 111; 112] 1 (Some 0%nat) = Ok [47; 102; 114; 47; 97; 45; 112; 114; 111; 112; 111; 115; 35; 116; 111; 112] /\
  hash_after hash_part_old true 2 [35; 116; 111; 112] = [35; 35; 35; 116; 111; 112].
Proof.
  split; [apply valid_url_b_sound; vm_compute; reflexivity|]. repeat split; vm_compute; reflexivity.
Qed.

(** the algorithms before the repairs (kept as [..._old]) violate the specification on valid inputs:
    "/french/x" read as fr; base path "/foo" not stripped ("/foo/fr/about" -> "/foo/de/fr/about");
    "/english" under the default locale en rewritten to "/fr/glish"; an optional parameter that is
    present ("/fr/a-propos/42") or an empty splat ("/fr/files") keep the route from being recognised,
    so the localized segment is not translated *)
Theorem C14_old_refuted :
  spec_locale w_names (path_segments [slash]) (path_segments [47; 102; 114; 101; 110; 99; 104; 47; 120]) (get_locale_from_path_old w_names [47; 102; 114; 101; 110; 99; 104; 47; 120] [slash]) = false
  /\ (valid w_names 0 [[w_root; w_plain [97; 98; 111; 117; 116]]] 1 2 [IStat [[97; 98; 111; 117; 116]; [97; 98; 111; 117; 116]; [97; 98; 111; 117; 116]]] /\ base_ok [47; 102; 111; 111] [[102; 111; 111]] /\
      spec_C14 w_names 0 [[102; 111; 111]] [IStat [[97; 98; 111; 117; 116]; [97; 98; 111; 117; 116]; [97; 98; 111; 117; 116]]] [] [] 2
        (get_new_path_old w_names 0 [47; 102; 111; 111] (tabs_of 3 [[w_root; w_plain [97; 98; 111; 117; 116]]])
           (url_path w_names 0 [[102; 111; 111]] 1 [IStat [[97; 98; 111; 117; 116]; [97; 98; 111; 117; 116]; [97; 98; 111; 117; 116]]]) [] [] 2 (Some 1%nat)) = false)
  /\ (valid w_names 0 [[w_root; AParam [105; 100]]] 0 1 [IVal [101; 110; 103; 108; 105; 115; 104]] /\ base_ok [slash] [] /\
      spec_C14 w_names 0 [] [IVal [101; 110; 103; 108; 105; 115; 104]] [] [] 1
        (get_new_path_old w_names 0 [slash] (tabs_of 3 [[w_root; AParam [105; 100]]])
           (url_path w_names 0 [] 0 [IVal [101; 110; 103; 108; 105; 115; 104]]) [] [] 1 (Some 0%nat)) = false)
  /\ (valid w_names 0 w_tab 1 2 [IStat w_about; IVal [52; 50]] /\
      spec_C14 w_names 0 [] [IStat w_about; IVal [52; 50]] [] [] 2
        (get_new_path_old w_names 0 [slash] (tabs_of 3 w_tab)
           (url_path w_names 0 [] 1 [IStat w_about; IVal [52; 50]]) [] [] 2 (Some 1%nat)) = false).
Proof.
  split; [vm_compute; reflexivity|].
  split; [split; [vb|split; [bo [slash] (@nil N)|vm_compute; reflexivity]]|].
  split; [split; [vb|split; [bo [slash] (@nil N)|vm_compute; reflexivity]]|].
  split; [vb|vm_compute; reflexivity].
Qed.
