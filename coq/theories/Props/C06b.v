(** Property C06 — foreign keys are pure substitution: SOUNDNESS theorems.
    Stage 1: round trip of sources containing references, with and without arguments.
    Stage 2: a successful resolution denotes the inlining semantics [inline]; the cycle stack is
    unobservable; the driver's result does not depend on the visiting order; on the parses of printed
    sources [inline] is the source-level semantics [xdenote] (the words of the property).
    This file holds only property theorems (closed by [exact]), statements and examples. *)
From Coq Require Import List NArith Bool Permutation String Ascii.
Import ListNotations.
From LI Require Import Base.StrOps Base.StrLemmas Parser.Parse Parser.Json Parser.Reduce Parser.ReduceProofs Parser.ParseCheck
  Parser.Foreign Parser.ForeignProofs Parser.ForeignCheck
  Parser.RoundTripRef1 Parser.RoundTripRef2 Parser.RoundTripRef3 Parser.RoundTripRef4
  Parser.ForeignSound Parser.ForeignStack Parser.ForeignSound2 Parser.ForeignFull Parser.ForeignSound4 Parser.ForeignSound5
  Parser.ForeignSound3 Parser.ForeignSound6 Parser.ForeignSound7.

(** * Stage 1 — round trip for sources with references
    Sources ([ritem], RoundTripRef1.v): text (no '<', '{', '$'), {{ var[, formatter] }}, components
    nested to any depth, references `$t( ns : a . b )` (every identifier padded with any whitespace) and
    references with arguments `$t(ns:a.b, {"k": "string", "n": 3, "b": true, ...})` (canonical spacing in the
    object; distinct identifier keys; a string holds text / variables / components / argument-less
    references, with no quote, backslash, control character, and no '}' in its text; literals are booleans
    and the integers of the u64 / negative i64 ranges), at any depth.
    For every identifier oracle: ParsedValue::new on the printed source succeeds, its pieces are the
    source's pieces (a reference is the piece [PcForeign ns path args], args in the parser's key-sorted
    map), and the value holds a foreign key exactly when the source holds a reference.  In particular
    `<b>$t(k)</b>` is a component around a reference, `$t(k)<b>x</b>` a reference then a component.
    The JSON oracle is arbitrary when no reference carries arguments; otherwise it must read a printed
    argument object as the sorted map of its strings ([json_ok]) ... *)
Theorem C06b_roundtrip_ref : forall (idc : str -> idres) (json_args : str -> res (list (str * jarg))) (items : list ritem),
  (has_refa_list items = false \/ json_ok idc json_args) ->
  ritems_wfb idc items = true ->
  exists v, parse_top idc json_args true (rprint_list items) = Ok v
            /\ pieces v = rdenote_list items /\ no_foreign v = negb (has_ref_list items).
Proof. exact roundtrip_ref_pieces. Qed.
(** ... which the JSON reader model of Parser/Json.v does, *)
Theorem C06b_json_model_ok : forall idc, json_ok idc json_args_model.
Proof. exact json_model_ok. Qed.
(** ... so that with the model no hypothesis is left. *)
Theorem C06b_roundtrip_ref_model : forall (idc : str -> idres) (items : list ritem),
  ritems_wfb idc items = true ->
  exists v, parse_top idc json_args_model true (rprint_list items) = Ok v
            /\ pieces v = rdenote_list items /\ no_foreign v = negb (has_ref_list items).
Proof. exact roundtrip_ref_model_pieces. Qed.

(** the exact shape of the value (right-nested three-element blocs, sorted argument maps) *)
Theorem C06b_roundtrip_ref_shape : forall (idc : str -> idres) (json_args : str -> res (list (str * jarg))) (items : list ritem),
  (has_refa_list items = false \/ json_ok idc json_args) ->
  ritems_wfb idc items = true ->
  exists v, parse_top idc json_args true (rprint_list items) = Ok v /\ Rep v items.
Proof. exact roundtrip_ref_top. Qed.

(** * Stage 2 (i) — a successful resolution denotes the inlining semantics
    every project, locale, stack, fuel and value (any arguments): the pieces of the resolved value are
    [inline] of the value, which knows no stack. *)
Theorem C06b_resolve_inline : forall vals dflt inherits fuel stack L v r,
  resolve vals dflt inherits fuel stack L v = Ok r ->
  exists d, inline vals dflt inherits fuel L v = Some d /\ pc_norm d = pieces r.
Proof. exact resolve_inline. Qed.

(** the cycle stack is unobservable: two successful resolutions under any two stacks agree ... *)
Theorem C06b_stack_irrelevant : forall vals dflt inherits fuel s1 s2 L v r1 r2,
  resolve vals dflt inherits fuel s1 L v = Ok r1 -> resolve vals dflt inherits fuel s2 L v = Ok r2 -> r1 = r2.
Proof. exact resolve_stack_irrelevant. Qed.
(** ... and enlarging the stack can only turn a result into the cycle error *)
Theorem C06b_stack_only_cycles : forall vals dflt inherits fuel s L v r,
  resolve vals dflt inherits fuel [] L v = Ok r ->
  resolve vals dflt inherits fuel s L v = Ok r \/ resolve vals dflt inherits fuel s L v = Err E_RecursiveForeignKey.
Proof. exact resolve_stack_unobservable. Qed.

(** every final value (resolved with its own entry on the stack, then reduced) denotes [inline] *)
Theorem C06b_final_value_inline : forall vals dflt inherits ns L path v r',
  final_value vals dflt inherits ns L path (NVal v) = Ok (Some r') ->
  exists d, inline vals dflt inherits 200 L v = Some d /\ pieces r' = pc_norm d.
Proof. exact final_value_inline. Qed.

(** * Stage 2 (iii) — order independence of the driver
    model_project is [drive] on the sorted registered leaves ... *)
Theorem C06b_model_project_is_drive : forall c,
  model_project c =
  bind (build_values (f_files c)) (fun vals =>
    drive (run_of vals (f_default c) (f_inherits c))
          (sort_reg (filter (fun '(_, _, _, n) => node_has_foreign n) (all_leaves vals))) (all_leaves vals)).
Proof. exact model_project_drive. Qed.
(** ... whose successful result is the same for every permutation of the registered list, sorted or not *)
Theorem C06b_order_independent : forall run l l' lv ents,
  Permutation l l' -> drive run (sort_reg l) lv = Ok ents ->
  drive run (sort_reg l') lv = Ok ents /\ drive run l' lv = Ok ents.
Proof. exact drive_sorted_perm. Qed.
(** ... and any two visiting orders (any two lists) that both succeed agree *)
Theorem C06b_result_unique : forall run reg reg' lv ents ents',
  drive run reg lv = Ok ents -> drive run reg' lv = Ok ents' -> ents = ents'.
Proof. exact drive_result_unique. Qed.

(** * Stage 2 (iv) — [inline] is the source-level semantics
    [XRep v items] (ForeignSound4.v): the shape of the value the parser builds for a source of the full
    AST [xitem] of Foreign.v (arguments in a key-sorted map, every string argument parsed again).  On
    every project whose values have the shape of their sources, [inline] is [xdenote]: argument maps in
    BTreeMap order against arguments in source order, arguments inlined in the locale the
    reference is written in (the target in the locale the inherits walk designates), substitution through chains of references. *)
Theorem C06b_inline_xdenote_args : forall vals dflt inherits src,
  xproj_rel vals src ->
  forall f L v items d,
  XRep v items -> inline vals dflt inherits f L v = Some d ->
  exists d', xdenote src dflt inherits f L items = Some d' /\ pc_norm d' = pc_norm d.
Proof. exact inline_xdenote_args. Qed.

Theorem C06b_final_value_xdenote_args : forall vals dflt inherits src,
  xproj_rel vals src ->
  forall ns L path items v r',
  src L (ns, path) = Some (Some items) -> get_value_at vals L (ns, path) = Some (NVal v) ->
  final_value vals dflt inherits ns L path (NVal v) = Ok (Some r') ->
  (exists d, xdenote src dflt inherits 200 L items = Some d /\ pieces r' = pc_norm d) /\
  (forall fuel d, xdenote src dflt inherits fuel L items = Some d -> pieces r' = pc_norm d).
Proof. exact final_value_xdenote_args. Qed.

(** the parser's value for a printed source ([Rep], stage 1) has that shape: sources of stage 1 whose
    variables carry no formatter (the AST [xitem] has none) *)
Theorem C06b_Rep_XRep : forall idc v items, Rep v items ->
  ritems_wfb idc items = true -> forallb plain items = true -> XRep v (map to_x items).
Proof. exact Rep_XRep. Qed.

(** hence, on projects whose values are the parses of their printed sources ([proj_rel]) *)
Theorem C06b_inline_xdenote : forall idc json_args vals dflt inherits src_of,
  proj_rel idc json_args vals src_of -> json_or_noargs idc json_args src_of ->
  forall f L v items d,
  Rep v items -> ritems_wfb idc items = true -> forallb plain items = true -> inline vals dflt inherits f L v = Some d ->
  exists d', xdenote (xsrc src_of) dflt inherits f L (map to_x items) = Some d' /\ pc_norm d' = pc_norm d.
Proof. exact inline_xdenote. Qed.

(** * end to end
    for every project compiled from a tree of sources (every leaf = the parse of its printed source):
    the final value of a key denotes the source-level inlining semantics of its source, at every fuel
    at which that semantics is defined (the clause [spec_C06] evaluates per key with fuel 40).
    Restriction w.r.t. [C06b_sound_statement]: the sources are those of stage 1 without formatters;
    any JSON oracle satisfying [json_ok], or any oracle at all when no reference of the project carries
    arguments. *)
Theorem C06b_sound_partial : forall idc json_args sv vals dflt inherits ns L path items,
  json_or_noargs idc json_args (src_of_tree sv) ->
  compile idc json_args sv = Some vals -> sget_value_at sv L (ns, path) = Some (SVal items) ->
  exists v, parse_top idc json_args true (rprint_list items) = Ok v /\ get_value_at vals L (ns, path) = Some (NVal v) /\
    forall r', final_value vals dflt inherits ns L path (NVal v) = Ok (Some r') ->
      (exists d, xdenote (xsrc (src_of_tree sv)) dflt inherits 200 L (map to_x items) = Some d /\ pieces r' = pc_norm d) /\
      (forall fuel d, xdenote (xsrc (src_of_tree sv)) dflt inherits fuel L (map to_x items) = Some d -> pieces r' = pc_norm d).
Proof. exact compiled_final_value_sound. Qed.
(** with the JSON reader model *)
Theorem C06b_sound_partial_model : forall idc sv vals dflt inherits ns L path items,
  compile idc json_args_model sv = Some vals -> sget_value_at sv L (ns, path) = Some (SVal items) ->
  exists v, parse_top idc json_args_model true (rprint_list items) = Ok v /\ get_value_at vals L (ns, path) = Some (NVal v) /\
    forall r', final_value vals dflt inherits ns L path (NVal v) = Ok (Some r') ->
      (exists d, xdenote (xsrc (src_of_tree sv)) dflt inherits 200 L (map to_x items) = Some d /\ pieces r' = pc_norm d) /\
      (forall fuel d, xdenote (xsrc (src_of_tree sv)) dflt inherits fuel L (map to_x items) = Some d -> pieces r' = pc_norm d).
Proof. exact compiled_final_value_sound_model. Qed.

(** * the full statement, on the source AST of Foreign.v with its canonical printer
    [xprint] / [xitems_wf] (ForeignFull.v): text, {{var}}, <comp>…</comp>, `$t(ns:a.b)` and
    `$t(ns:a.b, {"k": "string", "n": 3, "b": true})` printed without padding; identifiers accepted by the
    identifier oracle; distinct argument keys; argument strings hold text / variables / components /
    argument-less references and no quote, backslash, control character or '}' in their text (a nested
    argument object would need escaped quotes); literal arguments are booleans and u64 / negative i64
    integers (a JSON string is a string argument; floats are outside the modelled JSON reader).
    The source AST has no formatter: variables with formatters are covered by stage 1 and
    [C06b_resolve_inline], not by the comparison with [xdenote].

    the two printers agree on unpadded stage-1 sources ... *)
Theorem C06b_xprint_canonical : forall items, forallb canonical items = true -> xprint_list (map to_x items) = rprint_list items.
Proof. exact xprint_canonical. Qed.

(** ... so ParsedValue::new (with the JSON reader model) builds the shape [XRep] of every well-formed
    printed source of the full AST ... *)
Definition C06b_parse_args_statement : Prop :=
  forall idc items v, xitems_wf idc items = true ->
  parse_top idc json_args_model true (xprint_list items) = Ok v -> XRep v items.
Theorem C06b_parse_args : C06b_parse_args_statement.
Proof. exact parse_args_holds. Qed.

(** ... and the FULL soundness statement holds: every final value of a project whose values are the
    parses of printed well-formed sources denotes the source-level inlining semantics of its source,
    at every fuel at which that semantics is defined.  (This is what [C06_sound_statement] of
    Props/C06.v meant, with the missing hypothesis that the source ASTs describe the files.) *)
Definition C06b_sound_statement : Prop :=
  forall idc vals dflt inherits (src : str -> keypath -> option (option (list xitem))),
  (forall L p, match src L p with
               | Some (Some items) =>
                   xitems_wf idc items = true /\
                   exists v, parse_top idc json_args_model true (xprint_list items) = Ok v /\ get_value_at vals L p = Some (NVal v)
               | Some None => get_value_at vals L p = Some NDefault
               | None => get_value_at vals L p = None \/ exists sub, get_value_at vals L p = Some (NSub sub)
               end) ->
  forall ns L path items v r', src L (ns, path) = Some (Some items) -> get_value_at vals L (ns, path) = Some (NVal v) ->
  final_value vals dflt inherits ns L path (NVal v) = Ok (Some r') ->
  forall fuel d, xdenote src dflt inherits fuel L items = Some d -> pieces r' = pc_norm d.
Theorem C06b_sound : C06b_sound_statement.
Proof. exact sound_holds. Qed.

(** * non-vacuity: a concrete project (ASCII identifier oracle, the JSON reader model)
    en (default):  a = "Hello {{x}}"   b = "<b>$t( a )</b>!"   c = "$t(b) / $t(g.h)"   g.h = "deep"
                   d = "$t(a, {"x": "{{y}} & $t(g.h)"})."
    fr:            a = "Bonjour"       g.h = null
    fr-CA (inherits fr):  a = null     c = "$t(a)?" *)
Definition t (x : string) : str := map (fun a => N.of_nat (nat_of_ascii a)) (list_ascii_of_string x).
Definition ex_d : list ritem :=
  [RRefA None [([], t "a", [])]
     [(t "x", RAStr [AVar [] (t "y") [] None; AText (t " & "); ARef None [([], t "g", []); ([], t "h", [])]])];
   RText (t ".")].
(** e = "$t(f, {"n": 3, "ok": true, "x": "<i>$t(g.h)</i>"})"   f = "{{n}}/{{ok}}/{{x}}" *)
Definition ex_e : list ritem :=
  [RRefA None [([], t "f", [])]
     [(t "n", RALit (LUnsigned 3)); (t "ok", RALit (LBool true));
      (t "x", RAStr [AComp [] (t "i") [] [ARef None [([], t "g", []); ([], t "h", [])]] [] [] []])]].
Definition ex_f : list ritem :=
  [RVar [] (t "n") [] None; RText (t "/"); RVar [] (t "ok") [] None; RText (t "/"); RVar [] (t "x") [] None].
Definition ex_tree : svalues := SVLocales
  [ (t "en", [ (t "a", SVal [RText (t "Hello "); RVar [] (t "x") [] None]);
               (t "b", SVal [RComp [] (t "b") [] [RRef None [([32%N], t "a", [32%N])]] [] [] []; RText (t "!")]);
               (t "c", SVal [RRef None [([], t "b", [])]; RText (t " / "); RRef None [([], t "g", []); ([], t "h", [])]]);
               (t "d", SVal ex_d); (t "e", SVal ex_e); (t "f", SVal ex_f);
               (t "g", SSub [(t "h", SVal [RText (t "deep")])]) ]);
    (t "fr", [ (t "a", SVal [RText (t "Bonjour")]); (t "g", SSub [(t "h", SNull)]) ]);
    (t "fr-CA", [ (t "a", SNull); (t "c", SVal [RRef None [([], t "a", [])]; RText (t "?")]) ]) ].
Definition ex_inherits : list (str * str) := [(t "fr-CA", t "fr")].
Definition ex_vals : values :=
  match compile ident_check json_args_model ex_tree with Some v => v | None => VLocales [] end.
Definition ex_final (L : str) (path : list str) : res (option pv) :=
  match get_value_at ex_vals L (None, path) with
  | Some n => final_value ex_vals (t "en") ex_inherits None L path n
  | None => Err 0%N
  end.
Definition ex_pieces (L : str) (path : list str) : option (list piece) :=
  match ex_final L path with Ok (Some r) => Some (pieces r) | _ => None end.
Definition ex_xdenote (L : str) (path : list str) : option (list piece) :=
  match src_of_tree ex_tree L (None, path) with
  | Some (Some items) =>
      option_map (@pc_norm) (xdenote (xsrc (src_of_tree ex_tree)) (t "en") ex_inherits 40 L (map to_x items))
  | _ => None
  end.

Example C06b_ex_compiles : compile ident_check json_args_model ex_tree = Some ex_vals.
Proof. vm_compute. reflexivity. Qed.
(** the printed form of en.b, en.c and en.d *)
Example C06b_ex_printed :
  rprint_list [RComp [] (t "b") [] [RRef None [([32%N], t "a", [32%N])]] [] [] []; RText (t "!")] = t "<b>$t( a )</b>!"
  /\ rprint_list [RRef None [([], t "b", [])]; RText (t " / "); RRef None [([], t "g", []); ([], t "h", [])]] = t "$t(b) / $t(g.h)"
  /\ rprint_list ex_d = t "$t(a, {""x"": ""{{y}} & $t(g.h)""})."
  /\ rprint_list ex_e = t "$t(f, {""n"": 3, ""ok"": true, ""x"": ""<i>$t(g.h)</i>""})".
Proof. repeat split; vm_compute; reflexivity. Qed.
(** a chain through a component and a sub-key: en.c = <b>Hello {{x}}</b>! / deep *)
Example C06b_ex_chain :
  ex_pieces (t "en") [t "c"]
  = Some [PcComp (t "comp_b") [PcText (t "Hello "); PcVar (t "var_x") FNone]; PcText (t "! / deep")]
  /\ ex_xdenote (t "en") [t "c"] = ex_pieces (t "en") [t "c"].
Proof. split; vm_compute; reflexivity. Qed.
(** an argument holding a variable and a reference: en.d = Hello {{y}} & deep. *)
Example C06b_ex_args :
  ex_pieces (t "en") [t "d"] = Some [PcText (t "Hello "); PcVar (t "var_y") FNone; PcText (t " & deep.")]
  /\ ex_xdenote (t "en") [t "d"] = ex_pieces (t "en") [t "d"].
Proof. split; vm_compute; reflexivity. Qed.
(** literal arguments and a component inside a string argument: en.e = 3/true/<i>deep</i> *)
Example C06b_ex_lits :
  ex_pieces (t "en") [t "e"] = Some [PcText (t "3/true/"); PcComp (t "comp_i") [PcText (t "deep")]]
  /\ ex_xdenote (t "en") [t "e"] = ex_pieces (t "en") [t "e"]
  /\ ritems_wfb ident_check ex_e = true /\ forallb canonical ex_e = true.
Proof. repeat split; vm_compute; reflexivity. Qed.
(** an inherits walk: fr-CA.a is null, fr-CA inherits fr, so fr-CA.c = Bonjour? *)
Example C06b_ex_walk :
  ex_pieces (t "fr-CA") [t "c"] = Some [PcText (t "Bonjour?")]
  /\ ex_xdenote (t "fr-CA") [t "c"] = ex_pieces (t "fr-CA") [t "c"].
Proof. split; vm_compute; reflexivity. Qed.
(** the driver on this project: same result whichever order the registered keys are visited in *)
Example C06b_ex_drive :
  let run := run_of ex_vals (t "en") ex_inherits in
  let lv := all_leaves ex_vals in
  let reg := filter (fun '(_, _, _, n) => node_has_foreign n) lv in
  List.length reg = 5%nat
  /\ match drive run (sort_reg reg) lv with Ok ents => List.length ents = 11%nat | _ => False end
  /\ drive run (sort_reg reg) lv = drive run (rev reg) lv.
Proof. vm_compute. repeat split. Qed.
(** the hypotheses of the stage-1 theorem hold of the sources above *)
Example C06b_ex_wf :
  ritems_wfb ident_check [RComp [] (t "b") [] [RRef None [([32%N], t "a", [32%N])]] [] [] []; RText (t "!")] = true
  /\ has_ref_list [RComp [] (t "b") [] [RRef None [([32%N], t "a", [32%N])]] [] [] []; RText (t "!")] = true
  /\ ritems_wfb ident_check [RRef (Some ([], t "ns", [32%N])) [([32%N], t "k-1", []); ([], t "sub", [9%N])]] = true
  /\ ritems_wfb ident_check ex_d = true /\ has_refa_list ex_d = true /\ forallb plain ex_d = true
  /\ forallb canonical ex_d = true /\ xprint_list (map to_x ex_d) = rprint_list ex_d.
Proof. repeat split; vm_compute; reflexivity. Qed.

(** * non-vacuity of the [XRep] theorems beyond stage 1: k1 = $t(k2, {"x": "A"})   k2 = $t(k3)   k3 = [{{x}}]
    (the chain through which the pre-fix code lost the argument, see C06_old_refuted) *)
Definition ax_k1 : list xitem := [XRef None [t "k2"] [(t "x", XAStr [XText (t "A")])]].
Definition ax_k2 : list xitem := [XRef None [t "k3"] []].
Definition ax_k3 : list xitem := [XText (t "["); XVar (t "x"); XText (t "]")].
Definition ax_parse (l : list xitem) : pv := match model_parse (xprint_list l) with Ok v => v | _ => PLit (LStr []) end.
Definition ax_vals : values :=
  VLocales [(t "en", [(t "k1", NVal (ax_parse ax_k1)); (t "k2", NVal (ax_parse ax_k2)); (t "k3", NVal (ax_parse ax_k3))])].
Definition ax_src (L : str) (p : keypath) : option (option (list xitem)) :=
  if str_eqb L (t "en") then
    match p with
    | (None, [k]) => if str_eqb k (t "k1") then Some (Some ax_k1) else if str_eqb k (t "k2") then Some (Some ax_k2)
                     else if str_eqb k (t "k3") then Some (Some ax_k3) else None
    | _ => None
    end
  else None.
Example C06b_ex_args_printed : xprint_list ax_k1 = t "$t(k2, {""x"": ""A""})" /\ xitems_wf ident_check ax_k1 = true.
Proof. split; vm_compute; reflexivity. Qed.
(** the parser statement holds of this source: the parse has the shape [XRep] *)
Example C06b_ex_args_shape : exists v, model_parse (xprint_list ax_k1) = Ok v /\ XRep v ax_k1.
Proof.
  eexists. split; [vm_compute; reflexivity|].
  refine (XRep_ref _ _ [] None _ _ [(t "x", XAStr [XText (t "A")])] _ [] _ _ _ _ _).
  - exact (XRep_text [] eq_refl).
  - exact (XRep_text [] eq_refl).
  - refine (AR_str (t "x") _ [XText (t "A")] [] [] _ AR_nil). exact (XRep_text [XText (t "A")] eq_refl).
  - apply Permutation_refl.
  - repeat constructor. intros [].
Qed.
(** and the final value of k1 is the source-level semantics: [A] *)
Example C06b_ex_args_final :
  match final_value ax_vals (t "en") [] None (t "en") [t "k1"] (NVal (ax_parse ax_k1)) with
  | Ok (Some r) => Some (pieces r)
  | _ => None
  end = Some [PcText (t "[A]")]
  /\ option_map (@pc_norm) (xdenote ax_src (t "en") [] 40 (t "en") ax_k1) = Some [PcText (t "[A]")].
Proof. split; vm_compute; reflexivity. Qed.

(** * the arguments of a reference belong to the locale the reference is written in
    (defect C06-args-locale, repaired: fixes/C06-args-locale.diff).
    fr-CA (inherits fr):  c = null   b = "B-ca"   d = "$t(c, {"x": "$t(b)"})"
    fr:                   c = "[{{x}}]"   b absent (first project) / b = "B-fr" (second project)
    en (default):         c = "C-en"   b = "B-en"
    fr-CA.d must render [B-ca]: the value of c is inherited from fr, the argument is fr-CA's.
    The code before the repair resolved the argument in fr: it rejected the first project with
    MissingForeignKey and rendered [B-fr] in the second. *)
Definition al_tree (fr_b : list (str * snode)) : svalues := SVLocales
  [ (t "en", [ (t "b", SVal [RText (t "B-en")]); (t "c", SVal [RText (t "C-en")]) ]);
    (t "fr", fr_b ++ [ (t "c", SVal [RText (t "["); RVar [] (t "x") [] None; RText (t "]")]) ]);
    (t "fr-CA", [ (t "b", SVal [RText (t "B-ca")]); (t "c", SNull);
                  (t "d", SVal [RRefA None [([], t "c", [])] [(t "x", RAStr [ARef None [([], t "b", [])]])]]) ]) ].
Definition al_vals (fr_b : list (str * snode)) : values :=
  match compile ident_check json_args_model (al_tree fr_b) with Some v => v | None => VLocales [] end.
Definition al_run (fv : values -> str -> list (str * str) -> option str -> str -> list str -> node -> res (option pv))
           (fr_b : list (str * snode)) : res (option (list piece)) :=
  match get_value_at (al_vals fr_b) (t "fr-CA") (None, [t "d"]) with
  | Some n => match fv (al_vals fr_b) (t "en") ex_inherits None (t "fr-CA") [t "d"] n with
              | Ok (Some r) => Ok (Some (pieces r))
              | Ok None => Ok None
              | Err k => Err k | Panic k => Panic k | OutOfFuel => OutOfFuel | Unmodelled => Unmodelled
              end
  | None => Unmodelled
  end.
Definition al_spec (fr_b : list (str * snode)) : option (list piece) :=
  match src_of_tree (al_tree fr_b) (t "fr-CA") (None, [t "d"]) with
  | Some (Some items) =>
      option_map (@pc_norm) (xdenote (xsrc (src_of_tree (al_tree fr_b))) (t "en") ex_inherits 40 (t "fr-CA") (map to_x items))
  | _ => None
  end.
Definition al_fr_b : list (str * snode) := [(t "b", SVal [RText (t "B-fr")])].
Theorem C06_args_locale_old_refuted :
  (* the source-level semantics: the referencing locale's b *)
  al_spec [] = Some [PcText (t "[B-ca]")] /\ al_spec al_fr_b = Some [PcText (t "[B-ca]")]
  (* the repaired resolver agrees *)
  /\ al_run final_value [] = Ok (Some [PcText (t "[B-ca]")]) /\ al_run final_value al_fr_b = Ok (Some [PcText (t "[B-ca]")])
  (* the resolver before the repair rejects the valid project, or renders the other locale's text *)
  /\ al_run final_value_old [] = Err E_MissingForeignKey
  /\ al_run final_value_old al_fr_b = Ok (Some [PcText (t "[B-fr]")]).
Proof. repeat split; vm_compute; reflexivity. Qed.
