(** Property C06 — foreign keys are pure substitution: SOUNDNESS theorems.
    Stage 1: round trip of sources containing (argument-less) references.
    Stage 2: a successful resolution denotes the inlining semantics [inline]; the cycle stack is
    unobservable; the driver's result does not depend on the visiting order; on the parses of printed
    sources [inline] is the source-level semantics [xdenote].
    This file holds only property theorems (closed by [exact]), statements and examples. *)
From Coq Require Import List NArith Bool Permutation String Ascii.
Import ListNotations.
From LI Require Import Base.StrOps Base.StrLemmas Parser.Parse Parser.Json Parser.Reduce Parser.ReduceProofs Parser.ParseCheck
  Parser.Foreign Parser.ForeignProofs Parser.ForeignCheck
  Parser.RoundTripRef1 Parser.RoundTripRef2 Parser.RoundTripRef3
  Parser.ForeignSound Parser.ForeignStack Parser.ForeignSound2 Parser.ForeignSound3 Parser.ForeignFull.

(** * Stage 1 — round trip for sources with references
    For every identifier oracle and JSON oracle and every well-formed source made of text (no '<', '{',
    '$'), {{ var[, formatter] }}, components nested to any depth, and references `$t( ns : a . b )`
    (every identifier padded with any whitespace) at any depth: ParsedValue::new on the printed source
    succeeds, its pieces are the source's pieces (a reference is the piece [PcForeign ns path []]), and
    the value holds a foreign key exactly when the source holds a reference.  In particular
    `<b>$t(k)</b>` is a component around a reference, `$t(k)<b>x</b>` is a reference then a component. *)
Theorem C06b_roundtrip_ref : forall (idc : str -> idres) (json_args : str -> res (list (str * jarg))) (items : list ritem),
  ritems_wfb idc items = true ->
  exists v, parse_top idc json_args true (rprint_list items) = Ok v
            /\ pieces v = rdenote_list items /\ no_foreign v = negb (has_ref_list items).
Proof. exact roundtrip_ref_pieces. Qed.

(** ... with the exact shape of the value (right-nested three-element blocs) *)
Theorem C06b_roundtrip_ref_shape : forall (idc : str -> idres) (json_args : str -> res (list (str * jarg))) (items : list ritem),
  ritems_wfb idc items = true ->
  exists v, parse_top idc json_args true (rprint_list items) = Ok v /\ Rep v items.
Proof. exact roundtrip_ref_top. Qed.

(** * Stage 2 (i) — a successful resolution denotes the inlining semantics
    every project, locale, stack, fuel and value (references WITH arguments included): the pieces of
    the resolved value are [inline] of the value, which knows no stack. *)
Theorem C06b_resolve_inline : forall vals dflt inherits fuel stack L v r,
  resolve vals dflt inherits fuel stack L v = Ok r ->
  exists d, inline vals dflt inherits fuel L v = Some d /\ pc_norm d = pieces r.
Proof. exact resolve_inline. Qed.

(** the cycle stack is unobservable: two successful resolutions under any two stacks agree ... *)
Theorem C06b_stack_irrelevant : forall vals dflt inherits fuel s1 s2 L v r1 r2,
  resolve vals dflt inherits fuel s1 L v = Ok r1 -> resolve vals dflt inherits fuel s2 L v = Ok r2 -> r1 = r2.
Proof. exact resolve_stack_irrelevant. Qed.
(** ... and enlarging the stack can only turn a result into the cycle error *)
Theorem C06b_stack_only_cycles : forall vals dflt inherits fuel s L v r,
  resolve vals dflt inherits fuel [] L v = Ok r ->
  resolve vals dflt inherits fuel s L v = Ok r \/ resolve vals dflt inherits fuel s L v = Err E_RecursiveForeignKey.
Proof. exact resolve_stack_unobservable. Qed.

(** every final value (resolved with its own entry on the stack, then reduced) denotes [inline] *)
Theorem C06b_final_value_inline : forall vals dflt inherits ns L path v r',
  final_value vals dflt inherits ns L path (NVal v) = Ok (Some r') ->
  exists d, inline vals dflt inherits 200 L v = Some d /\ pieces r' = pc_norm d.
Proof. exact final_value_inline. Qed.

(** * Stage 2 (iii) — order independence of the driver
    model_project is [drive] on the sorted registered leaves ... *)
Theorem C06b_model_project_is_drive : forall c,
  model_project c =
  bind (build_values (f_files c)) (fun vals =>
    drive (run_of vals (f_default c) (f_inherits c))
          (sort_reg (filter (fun '(_, _, _, n) => node_has_foreign n) (all_leaves vals))) (all_leaves vals)).
Proof. exact model_project_drive. Qed.
(** ... whose successful result is the same for every permutation of the registered list, sorted or not *)
Theorem C06b_order_independent : forall run l l' lv ents,
  Permutation l l' -> drive run (sort_reg l) lv = Ok ents ->
  drive run (sort_reg l') lv = Ok ents /\ drive run l' lv = Ok ents.
Proof. exact drive_sorted_perm. Qed.
(** ... and any two visiting orders (any two lists) that both succeed agree *)
Theorem C06b_result_unique : forall run reg reg' lv ents ents',
  drive run reg lv = Ok ents -> drive run reg' lv = Ok ents' -> ents = ents'.
Proof. exact drive_result_unique. Qed.

(** * Stage 2 (iv) — [inline] on parsed printed sources is the source-level semantics
    Scope: argument-less references, variables without formatter.  [proj_rel]: every value of the
    project is the parse of its printed source, nulls are explicit defaults, groups / absent keys have
    no source. *)
Theorem C06b_inline_xdenote : forall idc json_args vals dflt inherits src_of,
  proj_rel idc json_args vals src_of ->
  forall f L v items d,
  Rep v items -> forallb plain items = true -> inline vals dflt inherits f L v = Some d ->
  exists d', xdenote (xsrc src_of) dflt inherits f L (map to_x items) = Some d' /\ pc_norm d' = pc_norm d.
Proof. exact inline_xdenote. Qed.

(** end to end, for every project compiled from a tree of sources: the final value of a key denotes
    the source-level inlining semantics of its source, at every fuel at which that semantics is defined
    (this is the clause [spec_C06] evaluates per key with fuel 40) *)
Theorem C06b_sound_partial : forall idc json_args sv vals dflt inherits ns L path items,
  compile idc json_args sv = Some vals -> sget_value_at sv L (ns, path) = Some (SVal items) ->
  exists v, parse_top idc json_args true (rprint_list items) = Ok v /\ get_value_at vals L (ns, path) = Some (NVal v) /\
    forall r', final_value vals dflt inherits ns L path (NVal v) = Ok (Some r') ->
      (exists d, xdenote (xsrc (src_of_tree sv)) dflt inherits 200 L (map to_x items) = Some d /\ pieces r' = pc_norm d) /\
      (forall fuel d, xdenote (xsrc (src_of_tree sv)) dflt inherits fuel L (map to_x items) = Some d -> pieces r' = pc_norm d).
Proof. exact compiled_final_value_sound. Qed.

(** the FULL statement (references with arguments, canonical printer [xprint] of ForeignFull.v) is
    not proved: [C06b_sound_partial] is its restriction to argument-less references (with arbitrary
    whitespace padding, which the full statement's canonical printer does not even exercise). *)
Definition C06b_sound_statement : Prop :=
  forall idc vals dflt inherits (src : str -> keypath -> option (option (list xitem))),
  (forall L p, match src L p with
               | Some (Some items) =>
                   xitems_wf idc items = true /\
                   exists v, parse_top idc json_args_model true (xprint_list items) = Ok v /\ get_value_at vals L p = Some (NVal v)
               | Some None => get_value_at vals L p = Some NDefault
               | None => get_value_at vals L p = None \/ exists sub, get_value_at vals L p = Some (NSub sub)
               end) ->
  forall ns L path items v r', src L (ns, path) = Some (Some items) -> get_value_at vals L (ns, path) = Some (NVal v) ->
  final_value vals dflt inherits ns L path (NVal v) = Ok (Some r') ->
  forall fuel d, xdenote src dflt inherits fuel L items = Some d -> pieces r' = pc_norm d.

(** * non-vacuity: a concrete project (ASCII identifier oracle, the JSON reader model)
    en (default):  a = "Hello {{x}}"   b = "<b>$t( a )</b>!"   c = "$t(b) / $t(g.h)"   g.h = "deep"
    fr:            a = "Bonjour"       g.h = null
    fr-CA (inherits fr):  a = null     c = "$t(a)?" *)
Definition t (x : string) : str := map (fun a => N.of_nat (nat_of_ascii a)) (list_ascii_of_string x).
Definition ex_tree : svalues := SVLocales
  [ (t "en", [ (t "a", SVal [RText (t "Hello "); RVar [] (t "x") [] None]);
               (t "b", SVal [RComp [] (t "b") [] [RRef None [([32%N], t "a", [32%N])]] [] [] []; RText (t "!")]);
               (t "c", SVal [RRef None [([], t "b", [])]; RText (t " / "); RRef None [([], t "g", []); ([], t "h", [])]]);
               (t "g", SSub [(t "h", SVal [RText (t "deep")])]) ]);
    (t "fr", [ (t "a", SVal [RText (t "Bonjour")]); (t "g", SSub [(t "h", SNull)]) ]);
    (t "fr-CA", [ (t "a", SNull); (t "c", SVal [RRef None [([], t "a", [])]; RText (t "?")]) ]) ].
Definition ex_inherits : list (str * str) := [(t "fr-CA", t "fr")].
Definition ex_vals : values :=
  match compile ident_check json_args_model ex_tree with Some v => v | None => VLocales [] end.
Definition ex_final (L : str) (path : list str) : res (option pv) :=
  match get_value_at ex_vals L (None, path) with
  | Some n => final_value ex_vals (t "en") ex_inherits None L path n
  | None => Err 0%N
  end.
Definition ex_pieces (L : str) (path : list str) : option (list piece) :=
  match ex_final L path with Ok (Some r) => Some (pieces r) | _ => None end.
Definition ex_xdenote (L : str) (path : list str) : option (list piece) :=
  match src_of_tree ex_tree L (None, path) with
  | Some (Some items) =>
      option_map (@pc_norm) (xdenote (xsrc (src_of_tree ex_tree)) (t "en") ex_inherits 40 L (map to_x items))
  | _ => None
  end.

Example C06b_ex_compiles : compile ident_check json_args_model ex_tree = Some ex_vals.
Proof. vm_compute. reflexivity. Qed.
(** the printed form of en.b and of en.c *)
Example C06b_ex_printed :
  rprint_list [RComp [] (t "b") [] [RRef None [([32%N], t "a", [32%N])]] [] [] []; RText (t "!")] = t "<b>$t( a )</b>!"
  /\ rprint_list [RRef None [([], t "b", [])]; RText (t " / "); RRef None [([], t "g", []); ([], t "h", [])]] = t "$t(b) / $t(g.h)".
Proof. split; vm_compute; reflexivity. Qed.
(** a chain through a component and a sub-key: en.c = <b>Hello {{x}}</b>! / deep *)
Example C06b_ex_chain :
  ex_pieces (t "en") [t "c"]
  = Some [PcComp (t "comp_b") [PcText (t "Hello "); PcVar (t "var_x") FNone]; PcText (t "! / deep")]
  /\ ex_xdenote (t "en") [t "c"] = ex_pieces (t "en") [t "c"].
Proof. split; vm_compute; reflexivity. Qed.
(** an inherits walk: fr-CA.a is null, fr-CA inherits fr, so fr-CA.c = Bonjour? *)
Example C06b_ex_walk :
  ex_pieces (t "fr-CA") [t "c"] = Some [PcText (t "Bonjour?")]
  /\ ex_xdenote (t "fr-CA") [t "c"] = ex_pieces (t "fr-CA") [t "c"].
Proof. split; vm_compute; reflexivity. Qed.
(** the driver on this project: same result whichever order the registered keys are visited in *)
Example C06b_ex_drive :
  let run := run_of ex_vals (t "en") ex_inherits in
  let lv := all_leaves ex_vals in
  let reg := filter (fun '(_, _, _, n) => node_has_foreign n) lv in
  List.length reg = 3%nat
  /\ match drive run (sort_reg reg) lv with Ok ents => List.length ents = 8%nat | _ => False end
  /\ drive run (sort_reg reg) lv = drive run (rev reg) lv.
Proof. vm_compute. repeat split. Qed.
(** the hypotheses of the stage-1 theorem hold of the sources above *)
Example C06b_ex_wf :
  ritems_wfb ident_check [RComp [] (t "b") [] [RRef None [([32%N], t "a", [32%N])]] [] [] []; RText (t "!")] = true
  /\ has_ref_list [RComp [] (t "b") [] [RRef None [([32%N], t "a", [32%N])]] [] [] []; RText (t "!")] = true
  /\ ritems_wfb ident_check [RRef (Some ([], t "ns", [32%N])) [([32%N], t "k-1", []); ([], t "sub", [9%N])]] = true.
Proof. repeat split; vm_compute; reflexivity. Qed.
