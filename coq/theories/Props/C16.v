(** Property C16 — A context always shows the last locale set; sub-contexts are isolated.
    Only the property theorems (each closed by [exact] of a lemma of Runtime/ContextProofs.v).
    Machines: Runtime/Context.v — [c_step] is the model of context.rs over a shared signal arena (handles, scoped
    views and accessors are copies of a signal id; effects run at [OFlush]); [a_step] is the specification's view,
    a map context -> locale.  Interpretation (DESIGN §5 C16): "observe" = when evaluated after the call; a mounted
    effect is not re-run by `set_locale_untracked`; a context whose wired initial-locale signal has been written by
    the caller follows that signal (the property's "unless"). *)
From Coq Require Import List NArith Bool Arith.
Import ListNotations.
From LI Require Import Runtime.Resolve.
From LI Require Import Runtime.Context.
From LI Require Import Runtime.ContextProofs.
From LI Require Import Runtime.ContextAcc.
From LI Require Import Runtime.ContextAccProofs.
From LI Require Import Runtime.Provider.
From LI Require Import Runtime.ProviderProofs.
Open Scope N_scope.

(** forward simulation: for every initial locale, every operation list and every placement of flushes, the arena
    machine produces exactly the observations of the abstract map, and the final states are related by [R]
    (a context's locale is the content of its own signal; signals of distinct contexts and caller signals are
    pairwise distinct; every handle / accessor / mounted effect holds the signal of its context) *)
Theorem C16_refines : forall l0 con ops,
  model_trace l0 con ops = spec_trace l0 con ops
  /\ R (c_run (c_init l0 con) ops) (a_run (a_init l0 con) ops).
Proof. exact refines. Qed.

(** at any time, what is read through any handle (any scoped view) or accessor is the abstract locale of its context *)
Theorem C16_views_agree : forall l0 con ops,
  let s := c_run (c_init l0 con) ops in
  let a := a_run (a_init l0 con) ops in
  c_nh s = a_nh a /\ c_nacc s = a_nacc a /\
  (forall h, (h < c_nh s)%nat -> c_ar s (c_hsig s h) = a_loc a (a_hctx a h)) /\
  (forall k, (k < c_nacc s)%nat -> c_ar s (c_acc s k) = a_loc a (a_acc a k)).
Proof. exact views_agree. Qed.

(** last set wins: after `set_locale` / `set_locale_untracked` through any handle of a context (no caller-signal
    write pending on it), every handle and every accessor of that context — created before or after — reads the value
    set, whatever else happens ([quiet]: no later set through a handle of that context, no write of a caller signal
    wired into it; flushes, sets on other contexts, new sub-contexts, scopes ... are all allowed) *)
Theorem C16_last_set : forall l0 con ops h l (tracked : bool) ops',
  let a0 := a_run (a_init l0 con) ops in
  let c := a_hctx a0 h in
  let o := if tracked then OSet h l else OSetU h l in
  (h < a_nh a0)%nat ->
  m_dirty (a_meta a0 c) = false ->
  quiet c (a_step a0 o) ops' = true ->
  let s := c_run (c_init l0 con) (ops ++ o :: ops') in
  let a := a_run (a_init l0 con) (ops ++ o :: ops') in
  (forall h', (h' < c_nh s)%nat -> a_hctx a h' = c -> c_ar s (c_hsig s h') = l) /\
  (forall k, (k < c_nacc s)%nat -> a_acc a k = c -> c_ar s (c_acc s k) = l).
Proof. exact last_set. Qed.

(** isolation: an operation that is neither a set through a handle of context c nor a write of a caller signal wired
    into c leaves what is read through c's handles unchanged (c has no caller-signal write pending) *)
Theorem C16_isolation : forall l0 con ops o,
  let s := c_run (c_init l0 con) ops in
  let a := a_run (a_init l0 con) ops in
  forall h, (h < c_nh s)%nat ->
  let c := a_hctx a h in
  m_dirty (a_meta a c) = false -> touches c a o = false ->
  (h < c_nh (c_step s o))%nat /\ c_ar (c_step s o) (c_hsig (c_step s o) h) = c_ar s (c_hsig s h).
Proof. exact isolation. Qed.

(** without a wired initial-locale signal there is no side condition at all: parent, children and siblings never
    change the context, only sets through its own handles do *)
Theorem C16_isolation_unwired : forall l0 con ops o,
  let s := c_run (c_init l0 con) ops in
  let a := a_run (a_init l0 con) ops in
  forall h, (h < c_nh s)%nat ->
  let c := a_hctx a h in
  a_wire a c = None ->
  (forall h' l, (o = OSet h' l \/ o = OSetU h' l) -> (h' < a_nh a)%nat -> a_hctx a h' <> c) ->
  c_ar (c_step s o) (c_hsig (c_step s o) h) = c_ar s (c_hsig s h).
Proof. exact isolation_unwired. Qed.

(** the executable predicate evaluated by the correspondence check holds of the model's trace, for every history *)
Theorem C16_spec : forall l0 con ops, spec_C16 l0 con ops (model_trace l0 con ops) = true.
Proof. exact spec_C16_model. Qed.

(** ** Accessor flavours (Runtime/ContextAcc.v): nine macros x ten kinds of first-argument expression x with/without
    interpolation arguments.  Extended histories ([xop]) add "create two accessors of flavours fa, fb on handle h" and
    "mount an effect showing an accessor of flavour f of handle h"; [erase] maps them to the machines above, and
    observers that can never change (a `td!` over a `Locale` value bound at creation; an effect that reads only
    untracked) are kept apart as frozen observers. *)

(** forward simulation for every extended history, frozen observers included *)
Theorem C16_accessor_refines : forall l0 con xops, xmodel_trace l0 con xops = xspec_trace l0 con xops.
Proof. exact x_refines. Qed.

(** every accessor of every non-frozen flavour (tracked or untracked macro, any kind of context expression, with or
    without arguments), created on a handle [h] after any history [pre], is rendered at the end of any continuation
    [post] — sets, untracked sets, flushes, new sub-contexts, ... — as the current locale of [h]'s context *)
Theorem C16_accessor_reads_current : forall l0 con pre h fa fb post,
  let a0 := a_run (a_init l0 con) (map erase pre) in
  (h < a_nh a0)%nat -> fl_frozen fa = false ->
  let xops := pre ++ XAcc h fa fb :: post in
  let s := fst (xc_run (c_init l0 con, []) xops) in
  let a := a_run (a_init l0 con) (map erase xops) in
  let k := a_nacc a0 in
  (k < c_nacc s)%nat /\ a_acc a k = a_hctx a0 h /\ c_ar s (c_acc s k) = a_loc a (a_hctx a0 h).
Proof. exact accessor_reads_current. Qed.

(** after a flush every mounted effect of a tracked flavour shows the content of its context's signal, unless the
    last change of that context was a `set_locale_untracked` (which by design re-runs nothing) *)
Theorem C16_mounted_current : forall l0 con xops,
  let ops := map erase xops ++ [OFlush] in
  let k := k_run (k_init l0 con) ops in
  let s := c_run (c_init l0 con) ops in
  forall w, (w < c_nw s)%nat -> k_silent k (a_wctx (k_a k) w) = false ->
  fst (c_wm s w) = c_ar s (c_wsig s w).
Proof. exact mounted_current. Qed.

(** a frozen observer created on handle [h] shows for ever what [h] read when it was created *)
Theorem C16_frozen_observer : forall l0 con pre x h post,
  freezes x = Some h ->
  let xs0 := xc_run (c_init l0 con, []) pre in
  (h < c_nh (fst xs0))%nat ->
  nth_error (snd (xc_run (c_init l0 con, []) (pre ++ x :: post))) (length (snd xs0))
  = Some (c_ar (fst xs0) (c_hsig (fst xs0) h)).
Proof. exact frozen_observer. Qed.

(** the predicate evaluated by the correspondence check holds of the extended model's trace, for every history *)
Theorem C16_accessor_spec : forall l0 con xops, xspec_C16 l0 con xops (xmodel_trace l0 con xops) = true.
Proof. exact xspec_model. Qed.

(** an accessor whose output is any function [txt] of the locale it reads (the arm `t_plural!` selects, the text
    `t_format!` produces) renders, after any continuation, [txt] of the current locale of its context *)
Theorem C16_accessor_renders_current_text : forall (T : Type) (txt : N -> T) l0 con pre h fa fb post,
  let a0 := a_run (a_init l0 con) (map erase pre) in
  (h < a_nh a0)%nat -> fl_frozen fa = false ->
  let xops := pre ++ XAcc h fa fb :: post in
  let s := fst (xc_run (c_init l0 con, []) xops) in
  let a := a_run (a_init l0 con) (map erase xops) in
  let k := a_nacc a0 in
  (k < c_nacc s)%nat /\ render_with txt s k = txt (a_loc a (a_hctx a0 h)).
Proof. exact @accessor_renders_current_text. Qed.

(** the correspondence check reads a class of texts back as a locale: with the expected locale as first candidate the
    result is that locale exactly when the observed text is that locale's *)
Theorem C16_decode_sound : forall t c cs r,
  (N.to_nat c < length t)%nat -> (length t <= 99)%nat ->
  decode (Some t) (c :: cs) r = c <-> tbl_get t c = r.
Proof. exact decode_iff. Qed.

(** ** Component-level providers (Runtime/Provider.v): a forest of lookups (`use_i18n()` in a component) and
    `<I18nSubContextProvider>`s rendered under an owner.  [rc_forest false] is the owner-arena model of
    `run_as_children` (child owner, sub-context provided at the child); [rl_forest] is lexical scoping. *)

(** for every forest — any nesting, any number of sibling providers, lookups before, inside and after them — rendered
    under any owner [o] whose lookup gives [cur]: every lookup denotes the context of the innermost enclosing provider,
    else [cur]; every owner that existed before (the one the siblings after a provider run under, everything outside)
    still looks up what it did; and a lookup repeated later under a probe's owner (an accessor evaluating `use_i18n()`
    when rendered) gives what the probe got *)
Theorem C16_provider_scoping : forall f o st cur,
  OInv st -> (o < os_n st)%nat -> os_lookup st o = Some cur ->
  let res := rc_forest false f o st in
  map lex_of (snd res) = map Some (snd (rl_forest f cur (os_nctx st))) /\
  (forall ow, (ow < os_n st)%nat -> os_lookup (fst res) ow = os_lookup st ow) /\
  (forall ow r, In (CProbe ow r) (snd res) -> os_lookup (fst res) ow = r).
Proof. exact provider_scoping. Qed.

(** the operations a forest is checked as ([compile_forest]: provider = [ONewSub] below the current context, lookup =
    a new handle on the current context) create one handle per lookup position, on the lexically denoted context, and
    leave the existing handles alone — so C16_last_set / C16_isolation speak about the handles components obtain *)
Theorem C16_provider_handles : forall f a curh,
  forest_wf (a_nus a) f = true -> (curh < a_nh a)%nat -> (a_hctx a curh < a_nctx a)%nat ->
  let cur := a_hctx a curh in
  let a' := a_run a (snd (compile_forest f curh cur (a_nh a) (a_nctx a))) in
  let ps := probes (snd (rl_forest f cur (a_nctx a))) in
  a_nh a' = (a_nh a + length ps)%nat /\
  (forall k, (k < length ps)%nat -> a_hctx a' (a_nh a + k) = nth k ps O) /\
  (forall h, (h < a_nh a)%nat -> a_hctx a' h = a_hctx a h).
Proof. exact compile_denotes. Qed.
