(** Property C16 — A context always shows the last locale set; sub-contexts are isolated.
    Only the property theorems (each closed by [exact] of a lemma of Runtime/ContextProofs.v).
    Machines: Runtime/Context.v — [c_step] is the model of context.rs over a shared signal arena (handles, scoped
    views and accessors are copies of a signal id; effects run at [OFlush]); [a_step] is the specification's view,
    a map context -> locale.  Interpretation (DESIGN §5 C16): "observe" = when evaluated after the call; a mounted
    effect is not re-run by `set_locale_untracked`; a context whose wired initial-locale signal has been written by
    the caller follows that signal (the property's "unless"). *)
From Coq Require Import List NArith Bool Arith.
Import ListNotations.
From LI Require Import Runtime.Resolve.
From LI Require Import Runtime.Context.
From LI Require Import Runtime.ContextProofs.
Open Scope N_scope.

(** forward simulation: for every initial locale, every operation list and every placement of flushes, the arena
    machine produces exactly the observations of the abstract map, and the final states are related by [R]
    (a context's locale is the content of its own signal; signals of distinct contexts and caller signals are
    pairwise distinct; every handle / accessor / mounted effect holds the signal of its context) *)
Theorem C16_refines : forall l0 con ops,
  model_trace l0 con ops = spec_trace l0 con ops
  /\ R (c_run (c_init l0 con) ops) (a_run (a_init l0 con) ops).
Proof. exact refines. Qed.

(** at any time, what is read through any handle (any scoped view) or accessor is the abstract locale of its context *)
Theorem C16_views_agree : forall l0 con ops,
  let s := c_run (c_init l0 con) ops in
  let a := a_run (a_init l0 con) ops in
  c_nh s = a_nh a /\ c_nacc s = a_nacc a /\
  (forall h, (h < c_nh s)%nat -> c_ar s (c_hsig s h) = a_loc a (a_hctx a h)) /\
  (forall k, (k < c_nacc s)%nat -> c_ar s (c_acc s k) = a_loc a (a_acc a k)).
Proof. exact views_agree. Qed.

(** last set wins: after `set_locale` / `set_locale_untracked` through any handle of a context (no caller-signal
    write pending on it), every handle and every accessor of that context — created before or after — reads the value
    set, whatever else happens ([quiet]: no later set through a handle of that context, no write of a caller signal
    wired into it; flushes, sets on other contexts, new sub-contexts, scopes ... are all allowed) *)
Theorem C16_last_set : forall l0 con ops h l (tracked : bool) ops',
  let a0 := a_run (a_init l0 con) ops in
  let c := a_hctx a0 h in
  let o := if tracked then OSet h l else OSetU h l in
  (h < a_nh a0)%nat ->
  m_dirty (a_meta a0 c) = false ->
  quiet c (a_step a0 o) ops' = true ->
  let s := c_run (c_init l0 con) (ops ++ o :: ops') in
  let a := a_run (a_init l0 con) (ops ++ o :: ops') in
  (forall h', (h' < c_nh s)%nat -> a_hctx a h' = c -> c_ar s (c_hsig s h') = l) /\
  (forall k, (k < c_nacc s)%nat -> a_acc a k = c -> c_ar s (c_acc s k) = l).
Proof. exact last_set. Qed.

(** isolation: an operation that is neither a set through a handle of context c nor a write of a caller signal wired
    into c leaves what is read through c's handles unchanged (c has no caller-signal write pending) *)
Theorem C16_isolation : forall l0 con ops o,
  let s := c_run (c_init l0 con) ops in
  let a := a_run (a_init l0 con) ops in
  forall h, (h < c_nh s)%nat ->
  let c := a_hctx a h in
  m_dirty (a_meta a c) = false -> touches c a o = false ->
  (h < c_nh (c_step s o))%nat /\ c_ar (c_step s o) (c_hsig (c_step s o) h) = c_ar s (c_hsig s h).
Proof. exact isolation. Qed.

(** without a wired initial-locale signal there is no side condition at all: parent, children and siblings never
    change the context, only sets through its own handles do *)
Theorem C16_isolation_unwired : forall l0 con ops o,
  let s := c_run (c_init l0 con) ops in
  let a := a_run (a_init l0 con) ops in
  forall h, (h < c_nh s)%nat ->
  let c := a_hctx a h in
  a_wire a c = None ->
  (forall h' l, (o = OSet h' l \/ o = OSetU h' l) -> (h' < a_nh a)%nat -> a_hctx a h' <> c) ->
  c_ar (c_step s o) (c_hsig (c_step s o) h) = c_ar s (c_hsig s h).
Proof. exact isolation_unwired. Qed.

(** the executable predicate evaluated by the correspondence check holds of the model's trace, for every history *)
Theorem C16_spec : forall l0 con ops, spec_C16 l0 con ops (model_trace l0 con ops) = true.
Proof. exact spec_C16_model. Qed.
