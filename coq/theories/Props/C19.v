(** Property C19 — Configuration is validated and normalised as documented.
    Property theorems only (each closed by [exact] of a lemma of Parser/CfgProofs.v).
    The model is the code after fixes/C19-inherits-default.diff; [C19_old_refuted] shows that the
    code before it rejects a documented configuration. *)
From Coq Require Import List NArith Bool Permutation.
Import ListNotations.
From LI Require Import Base.StrOps Parser.Cfg Parser.CfgCheck Parser.CfgProofs Parser.CfgSpecProofs.
Open Scope N_scope.

(** an accepted configuration: the default locale is first, there is no duplicate, every listed
    locale is kept (the list is a permutation of the listed locales, plus the default when it was
    not listed); namespaces are distinct; the other fields are as written *)
Theorem C19_normal_form : forall r c,
  config_new r = COk c ->
  exists c0, visit_map r = COk c0
    /\ cf_default c = cf_default c0
    /\ hd_error (cf_locales c) = Some (cf_default c)
    /\ NoDup (cf_locales c)
    /\ Permutation (cf_locales c)
         (if smem (cf_default c0) (cf_locales c0) then cf_locales c0 else cf_default c0 :: cf_locales c0)
    /\ match cf_namespaces c with Some n => NoDup n | None => True end
    /\ cf_namespaces c = cf_namespaces c0 /\ cf_locales_dir c = cf_locales_dir c0
    /\ cf_translations_uri c = cf_translations_uri c0 /\ cf_extensions c = cf_extensions c0.
Proof. exact (config_new_normal_form visit_map). Qed.

(** ... where the fields handed over by the visitor are the trimmed strings as written *)
Theorem C19_fields : forall r c,
  visit_map r = COk c ->
  exists d0 ls0, r_default r = Some d0 /\ r_locales r = Some ls0
    /\ cf_default c = key_new d0 /\ cf_locales c = map key_new ls0
    /\ cf_namespaces c = option_map (map key_new) (r_namespaces r)
    /\ cf_locales_dir c = match r_locales_dir r with Some s => s | None => locales_default end
    /\ cf_translations_uri c = r_translations_uri r.
Proof. exact (visit_map_fields _). Qed.

(** a configuration is rejected iff a required field is missing, a locale or a namespace is
    duplicated, `inherits` names an unknown locale — the default counts as known — or makes the
    default inherit ([should_reject], Parser/CfgCheck.v); for `inherits` tables whose keys are
    distinct after trimming *)
Theorem C19_reject_iff : forall r,
  nodup_s (map fst (inherits_of r)) = true ->
  ((exists e, config_new r = CErr e) <-> should_reject r = true).
Proof. exact config_new_reject_iff. Qed.

(** the files read: one per (namespace, locale) stem in configuration order, each the first
    existing `stem.ext` over the extensions of the file format *)
Theorem C19_paths : forall fmt existing stems tracked,
  read_files fmt existing stems = COk tracked ->
  Forall2 (fun s t => exists pre post e,
             file_exts fmt = pre ++ e :: post /\ t = with_ext s e /\ In t existing
             /\ forall e', In e' pre -> ~ In (with_ext s e') existing) stems tracked.
Proof. exact read_files_spec. Qed.

Theorem C19_not_found : forall fmt existing stems tried,
  read_files fmt existing stems = CErr (ENotFound tried) ->
  exists s, In s stems /\ tried = map (with_ext s) (file_exts fmt) /\ forall t, In t tried -> ~ In t existing.
Proof. exact read_files_not_found. Qed.

(** Bridge to the executable predicate of the correspondence: inside the modelled domain, for a
    well-typed table, the model's answer (normalised configuration and tracked files, or the error)
    satisfies [spec_C19] *)
Theorem C19_spec : forall c,
  in_domain c = true -> k_malformed c = false -> spec_C19 c (model_impl c) = true.
Proof. exact spec_C19_holds. Qed.

(** The section is cut out of the manifest text at the first occurrence of the header string that
    starts its line (only white space, after leading byte-order marks, precedes it on the line).
    When no occurrence inside the prefix [p] starts its line — the prefix may mention the header in
    a comment or a string — and the header after [p] does, the text handed to the TOML deserializer
    is the prefix's line feeds followed by the section body: nothing else of the prefix matters, not
    its line-ending style (CRLF, lone carriage returns), a byte-order mark, its comments or tables. *)
Theorem C19_section_text : forall p body,
  no_header_line_in [] p (header ++ body) -> line_start_ok (cur_line [] p) = true ->
  section_text (p ++ header ++ body) = Some (only_line_feeds p ++ body).
Proof. exact section_text_prefix. Qed.

Theorem C19_prefix_irrelevant : forall p p' body,
  no_header_line_in [] p (header ++ body) -> line_start_ok (cur_line [] p) = true ->
  no_header_line_in [] p' (header ++ body) -> line_start_ok (cur_line [] p') = true ->
  only_line_feeds p = only_line_feeds p' ->
  section_text (p ++ header ++ body) = section_text (p' ++ header ++ body).
Proof. exact section_text_prefix_irrelevant. Qed.

(** in particular rewriting every LF of the prefix as CRLF changes nothing *)
Theorem C19_crlf_prefix : forall s,
  only_line_feeds (flat_map (fun c => if c =? line_feed then [13; line_feed] else [c]) s) = only_line_feeds s.
Proof. exact only_line_feeds_crlf. Qed.

(** the code before f0237de ([section_text_old], `split_once`) cut the manifest at a mention of the
    header in a comment; the current code takes the header line *)
Theorem C19_mention_old_refuted :
  section_text w_mention = Some [10; 10; 120]
  /\ section_text_old w_mention = Some ([32; 98; 101; 108; 111; 119; 10] ++ header ++ [10; 120]).
Proof. exact mention_old_refuted. Qed.

(** non-vacuity: CRLF prefix; BOM + indentation before the header; a mention inside a string *)
Example C19_example_text :
  section_text ([97; 13; 10; 35; 32; 98; 10] ++ header ++ [10; 120]) = Some [10; 10; 10; 120]
  /\ section_text ([bom; 32; 32] ++ header ++ [10; 120]) = Some [10; 120]
  /\ section_text ([100; 61; 34] ++ header ++ [34; 13; 10; 9] ++ header ++ [10; 120]) = Some [10; 10; 120].
Proof. vm_compute. repeat split. Qed.

(** the code before the repair: `default = "en"`, `locales = ["it"]`, `inherits = { it = "en" }`
    is a configuration the documentation accepts; it was rejected as `unknown locale "en"` *)
Theorem C19_old_refuted :
  should_reject w_raw = false
  /\ config_new_old w_raw = CErr (EUnknownLocale w_en)
  /\ config_new w_raw = COk (mk_config w_en [w_en; w_it] None locales_default None [(w_it, w_en)]).
Proof. exact old_refuted. Qed.

(** non-vacuity *)
Example C19_example_swap :
  config_new (mk_raw (Some w_en) (Some [w_it; [102; 114]; w_en; [100; 101]]) None None None None)
  = COk (mk_config w_en [w_en; [102; 114]; w_it; [100; 101]] None locales_default None []).
Proof. vm_compute. reflexivity. Qed.
Example C19_example_dup :
  config_new (mk_raw (Some w_en) (Some [w_en; w_it; [32; 105; 116]]) None None None None) = CErr (EDupLocales [w_it]).
Proof. vm_compute. reflexivity. Qed.
Example C19_example_spec :
  let c := mk_case 1 [47; 112] [[47; 112; 47; 108; 111; 99; 97; 108; 101; 115; 47; 101; 110; 46; 121; 109; 108]]
                   (mk_raw (Some w_en) (Some []) None None None None) false POther in
  in_domain c = true /\ spec_C19 c (model_impl c) = true
  /\ model_impl c = POk (mk_config w_en [w_en] None locales_default None [])
                        [[47; 112; 47; 108; 111; 99; 97; 108; 101; 115; 47; 101; 110; 46; 121; 109; 108]].
Proof. vm_compute. repeat split. Qed.
