(** Property C13 — Locale identifiers round-trip through every representation.
    Only the property theorems (each closed by [exact] of a lemma of Runtime/LocaleIdProofs.v).

    Reading fixed in DESIGN §5 C13 / §10: configured names are stored trimmed ([Key::new]) and the generated
    [FromStr] trims its input, so "is a configured name" is read modulo surrounding White_Space:
    [trim s] is one of the names.  A locale value is the index of its enum variant; [names] is the
    configured list, default first. *)
From Coq Require Import List NArith Bool Arith Permutation.
Import ListNotations.
From LI Require Import Base.StrOps Runtime.LocaleId Runtime.LocaleIdProofs.

(** the string form of every locale is its configured name, through every printer (as_str, Display,
    AsRef<str>, serde, cookie codec, ScopedLocale) *)
Theorem C13_string_form : forall names v n,
  nth_error names v = Some n ->
  as_str names v = n /\ display names v = n /\ as_ref_str names v = n /\ serialize names v = n
  /\ cookie_encode names v = n /\ scoped_as_str names (mk_scoped v) = n /\ scoped_display names (mk_scoped v) = n.
Proof. exact string_forms. Qed.

(** every locale parses back to itself through FromStr, Display+FromStr, serde and the cookie codec, for
    every duplicate-free configuration (names as stored by Key::new) *)
Theorem C13_roundtrip : forall raws v,
  let names := configured raws in
  NoDup names -> (v < length names)%nat ->
  from_str names (as_str names v) = Some v
  /\ from_str names (display names v) = Some v
  /\ deserialize names (serialize names v) = v
  /\ cookie_decode names (cookie_encode names v) = Some v
  /\ scoped_from_str names (scoped_as_str names (mk_scoped v)) = Some (mk_scoped v)
  /\ scoped_deserialize names (scoped_serialize names (mk_scoped v)) = mk_scoped v.
Proof. exact roundtrip_configured. Qed.

(** a string parses to locale v exactly when, trimmed, it is v's configured name: no case folding, no
    prefix or suffix matching, no inner whitespace *)
Theorem C13_exact : forall names s v,
  NoDup names -> (from_str names s = Some v <-> nth_error names v = Some (trim s)).
Proof. exact from_str_exact. Qed.

(** a string that is not a configured name is rejected by FromStr and the cookie codec and deserialises
    to the default - never to another locale *)
Theorem C13_unknown_default : forall names s,
  ~ In (trim s) names ->
  from_str names s = None /\ deserialize names s = default_variant /\ cookie_decode names s = None
  /\ scoped_from_str names s = None /\ scoped_deserialize names s = scoped_default.
Proof. exact unknown_default. Qed.

Theorem C13_serde_total : forall names s,
  (exists v, nth_error names v = Some (trim s) /\ deserialize names s = v) \/
  (~ In (trim s) names /\ deserialize names s = default_variant).
Proof. exact deserialize_cases. Qed.

(** get_all lists every locale exactly once, in configuration order, the default first *)
Theorem C13_get_all : forall names,
  NoDup (get_all names)
  /\ length (get_all names) = length names
  /\ (forall v, In v (get_all names) <-> (v < length names)%nat)
  /\ map (as_str names) (get_all names) = names
  /\ (names <> [] -> hd_error (get_all names) = Some default_variant)
  /\ scoped_get_all names = get_all names.
Proof. exact get_all_props. Qed.

(** the config loader puts the configured default first without losing or duplicating a locale *)
Theorem C13_default_first : forall default locales,
  hd_error (cfg_normalise default locales) = Some default
  /\ Permutation (if existsb (str_eqb default) locales then locales else locales ++ [default])
                 (cfg_normalise default locales).
Proof. exact cfg_normalise_props. Qed.

(** the embedded ICU locale and direction are what the ICU oracle answers for the configured name *)
Theorem C13_icu : forall (icu : Type) (parse : str -> option icu) (dir : icu -> option bool) names v n,
  nth_error names v = Some n ->
  as_icu_locale icu parse names v = parse n
  /\ direction_of icu parse dir names v =
     match parse n with
     | Some l => Some match dir l with Some false => LeftToRight | Some true => RightToLeft | None => Auto end
     | None => None
     end.
Proof. exact icu_of_name. Qed.

(** the executable predicates the correspondence check evaluates on the implementation's answers hold of
    the model for every input *)
Theorem C13_spec : forall names s,
  names <> [] -> spec_C13 names s (model_parse names s) default_variant (get_all names) = true.
Proof. exact spec_C13_holds. Qed.

Theorem C13_spec_row : forall (parse : str -> option icu_repr) names v n,
  NoDup names -> all_trimmed names -> nth_error names v = Some n -> parse n <> None ->
  spec_row names v (oracle_of (parse n)) (model_row parse names v) = true.
Proof. exact spec_row_holds. Qed.

(** non-vacuity: a configuration with near-duplicates, a padded raw name and a padded input *)
Example C13_example :
  let names := configured [[101; 110]; [32; 101; 110; 45; 85; 83; 32]; [101; 110; 45; 71; 66]] in
  from_str names [9; 101; 110; 45; 85; 83; 160] = Some 1%nat
  /\ from_str names [101; 110; 45; 117; 115] = None
  /\ from_str names [101; 110; 45] = None
  /\ deserialize names [69; 78] = 0%nat
  /\ as_str names 1%nat = [101; 110; 45; 85; 83].
Proof. vm_compute. repeat split; reflexivity. Qed.
