(** Property C06 — foreign keys are pure substitution.
    This file holds only property theorems (closed by [exact]), examples and refutations. *)
From Coq Require Import List NArith Bool.
Import ListNotations.
From LI Require Import Base.StrOps Parser.Parse Parser.Json Parser.Reduce Parser.ReduceProofs Parser.Foreign Parser.ForeignProofs Parser.ForeignCheck.

(** Supplying arguments is substitution on the denotation: every variable of that name is replaced by
    the argument's pieces, wherever it occurs (inside components, at any depth), nothing else changes. *)
Theorem C06_subst : forall args v, pieces (populate args v) = subst_pieces (arg_pieces args) (pieces v).
Proof. exact populate_subst. Qed.

(** After resolution no foreign key is left, for every project, locale, stack and value: the reducer
    (which panics on an unresolved foreign key) never meets one, and keeps the denotation. *)
Theorem C06_resolved_closed : forall vals dflt inherits fuel stack L v r,
  resolve vals dflt inherits fuel stack L v = Ok r -> no_foreign r = true.
Proof. exact resolve_no_foreign. Qed.
Theorem C06_resolve_then_reduce : forall vals dflt inherits fuel stack L v r,
  resolve vals dflt inherits fuel stack L v = Ok r -> exists r', reduce r = Ok r' /\ pieces r' = pieces r.
Proof. exact resolve_then_reduce. Qed.

(** Rejections name their cause: a missing target, a subkey group, a value that is already being
    resolved (any cycle re-enters a value on the stack). *)
Theorem C06_missing : forall vals dflt inherits f stack L ns p args,
  get_value_at vals L (ns, p) = None ->
  resolve vals dflt inherits (S f) stack L (PForeign ns p args) = Err E_MissingForeignKey.
Proof. exact resolve_missing. Qed.
Theorem C06_cycle : forall vals dflt inherits f stack L ns p args T,
  get_value_at vals L (ns, p) = Some (NVal T) -> on_stack L (ns, p) stack = true ->
  resolve vals dflt inherits (S f) stack L (PForeign ns p args) = Err E_RecursiveForeignKey.
Proof. exact resolve_cycle. Qed.
Theorem C06_group : forall vals dflt inherits f stack L ns p sub,
  get_value_at vals L (ns, p) = Some (NSub sub) ->
  resolve vals dflt inherits (S f) stack L (PForeign ns p []) = Err E_InvalidForeignKey.
Proof. exact resolve_group. Qed.

(** The full soundness theorem (every final value denotes the source-level inlining semantics, for every
    project whose values are parses of printed well-formed sources, independently of the order in which
    registered paths are visited) is proved in Props/C06b.v: C06b_sound, C06b_order_independent. *)

(** the two defects repaired in /repo, as the outputs observed before the repair: the spec rejects them.
    k1 = $t(k2, {"x": "A"}), k2 = $t(k3), k3 = [{{ x }}]  rendered  [{{ x }}]  *)
Definition s (l : list N) : str := l.
Definition chain_case (k1_final : pv) : fcase :=
  mk_fcase (s [101;110]) []
    [(None, s [101;110], [(s [107;49], JStr (s [36;116;40;107;50;44;32;123;34;120;34;58;32;34;65;34;125;41]));
                          (s [107;50], JStr (s [36;116;40;107;51;41]));
                          (s [107;51], JStr (s [91;123;123;32;120;32;125;125;93]))])]
    [(None, s [101;110], [s [107;49]], Some [XRef None [s [107;50]] [(s [120], XAStr [XText (s [65])])]]);
     (None, s [101;110], [s [107;50]], Some [XRef None [s [107;51]] []]);
     (None, s [101;110], [s [107;51]], Some [XText (s [91]); XVar (s [120]); XText (s [93])])]
    None
    (Ok [(None, s [101;110], [s [107;49]], Some k1_final);
         (None, s [101;110], [s [107;50]], Some (PBloc [PLit (LStr (s [91])); PVar (s [118;97;114;95;120]) FNone; PLit (LStr (s [93]))]));
         (None, s [101;110], [s [107;51]], Some (PBloc [PLit (LStr (s [91])); PVar (s [118;97;114;95;120]) FNone; PLit (LStr (s [93]))]))]).
Theorem C06_old_refuted :
  spec_C06 (chain_case (PBloc [PLit (LStr (s [91])); PVar (s [118;97;114;95;120]) FNone; PLit (LStr (s [93]))])) = false
  /\ spec_C06 (chain_case (PLit (LStr (s [91;65;93])))) = true
  /\ check_C06 (chain_case (PLit (LStr (s [91;65;93])))) = 0%N.
Proof. repeat split; vm_compute; reflexivity. Qed.
