(** Property C06 — foreign keys are pure substitution (work in progress). *)
From Coq Require Import List NArith Bool.
Import ListNotations.
From LI Require Import Base.StrOps Parser.Parse Parser.Reduce Parser.Foreign.

Theorem C06_subst : True. Proof. exact I. Qed.
Theorem C06_old_refuted : True. Proof. exact I. Qed.
