(** Property C04 — Ranges render the first branch that contains the count.
    Only property theorems (closed by [exact] of lemmas proved in Parser/RangesProofs.v and
    Parser/RangesParseProofs.v), non-vacuity examples and assumption audits.

    Reading guide.  [print_spec atoms] is the text of a count specification written with an arbitrary
    whitespace layout; [rsem atoms x] is its Rust meaning (x == a, (a..b).contains(x), ...);
    [range_new] models Range::new, [do_match] Range::do_match (parse-time selection),
    [pat_match]/[gen_cond] the meaning of the emitted patterns / float conditions,
    [find_index], [gen_match], [gen_if_chain] the three selection loops. A [num] is [Some z] (an integer
    of the type, or the order key of a non-NaN float) or [None] (NaN). *)
From Coq Require Import List NArith ZArith Bool.
Import ListNotations.
From LI Require Import Base.StrOps Parser.Ranges Parser.RangesProofs Parser.RangesParseProofs Parser.RangesCheck.
Open Scope Z_scope.

(** Every well-formed specification (any layout, any of the ten types; float numerals through the
    oracle table) whose alternatives are satisfiable in the type is accepted by Range::new, and the
    parsed structure contains exactly the counts the source contains in Rust - as a generated
    pattern/condition for every count, and for do_match on non-NaN data. *)
Theorem C04_parse_sem : forall t tbl atoms,
  atoms <> [] -> forallb (atom_wf t tbl) atoms = true -> forallb (atom_ok t) atoms = true ->
  exists r, range_new t tbl (print_spec atoms) = Ok r
            /\ (forall x, pat_match r x = rsem atoms x)
            /\ (forallb atom_nonan atoms = true -> forall x, x <> None -> do_match r x = rsem atoms x).
Proof. exact parse_sem_ok. Qed.

(** ... and it is rejected with an error exactly when a numeral is outside the type or an alternative
    is empty by construction (a..b with b <= a, a..=b with b < a, ..MIN) *)
Theorem C04_parse_sem_err : forall t tbl atoms,
  atoms <> [] -> forallb (atom_wf t tbl) atoms = true -> forallb (atom_ok t) atoms = false ->
  exists e, range_new t tbl (print_spec atoms) = Err e.
Proof. exact parse_sem_err. Qed.

Theorem C04_degenerate_empty : forall t tbl a,
  atom_wf t tbl a = true -> forallb (numeral_in_ty t) (atom_numerals a) = true -> atom_degenerate t a = true ->
  forall x, (ty_is_float t = false -> exists z, x = Some z /\ in_ty t z = true) -> rsem_atom a x = false.
Proof. exact degenerate_empty. Qed.

(** find_value, the generated `match` and the generated if-chain all select the FIRST branch whose
    range matches (first_index is characterised by C04_first_index) *)
Theorem C04_first_match : forall bs x,
  find_index bs x = first_index (fun b => do_match (fst b) x) bs
  /\ gen_match bs x = first_index (fun b => pat_match (fst b) x) bs
  /\ gen_if_chain bs x = first_index (fun b => match gen_cond (fst b) x with Some c => c | None => true end) bs.
Proof. intros bs x. repeat split; [apply find_index_first|apply gen_match_first|apply gen_if_chain_first]. Qed.

Theorem C04_first_index : forall (A : Type) (p : A -> bool) l i,
  first_index p l = Some i <->
  (exists a, nth_error l i = Some a /\ p a = true) /\ (forall j b, (j < i)%nat -> nth_error l j = Some b -> p b = false).
Proof. exact @first_index_spec. Qed.

Theorem C04_find_value : forall bs x disp,
  find_value bs x disp =
  match find_index bs x with
  | Some i => match nth_error bs i with Some b => Ok (populate disp (snd b)) | None => Err CountArgNoMatch end
  | None => Err CountArgNoMatch
  end.
Proof. exact find_value_index. Qed.

(** the branch selected for a literal count (after the TryFrom guard produced the count [x]) is the
    branch the generated code selects at run time with the same count *)
Theorem C04_static_dynamic : forall t bs x,
  check_deserialization t bs = Ok tt -> branches_no_nan bs = true -> x <> None ->
  find_index bs x = gen_select t bs x.
Proof. exact static_dynamic. Qed.

Theorem C04_static_dynamic_int : forall t bs x,
  ty_is_float t = false -> branches_no_nan bs = true -> x <> None -> find_index bs x = gen_select t bs x.
Proof. exact static_dynamic_int. Qed.

(** check_deserialization accepts iff no branch before the last contains a fallback (at any depth)
    and, for float types, the last branch is the pure fallback; MultipleFallbacks is unreachable *)
Theorem C04_validation : forall t bs, check_deserialization t bs = Ok tt <-> valid_shape t bs.
Proof. exact check_deserialization_ok. Qed.
Theorem C04_validation_never_multiple : forall t bs, check_deserialization t bs <> Err MultipleFallbacks.
Proof. exact check_deserialization_never_multiple. Qed.

(** bridge: the executable predicate the correspondence check evaluates on the implementation's
    answers (RangesCheck.spec_C04_parse) holds of the model for every input *)
Theorem C04_spec : forall t tbl atoms counts,
  atoms <> [] -> forallb (atom_wf t tbl) atoms = true ->
  let m := range_new t tbl (print_spec atoms) in
  spec_C04_parse t atoms counts m
    (match m with Ok r => map (pat_match r) counts | _ => [] end)
    (match m with Ok r => map (do_match r) counts | _ => [] end) = true.
Proof. exact spec_parse_holds. Qed.

(** NOT PROVED (kept as a statement, see the report): the declaration-level predicate
    RangesCheck.spec_C04 holds of the model's outputs for every source declaration.  It follows from
    C04_parse_sem + C04_first_match + C04_static_dynamic through an induction over [csrc]
    (parse_count of csrc_json vs csem) that is not done. *)
Definition C04_spec_decl_statement : Prop :=
  forall (d : sdecl) (tbl : ftable) (counts : list count_arg) t bs,
    sdecl_wf tbl d = true ->
    parse_decl tbl (sdecl_json d) = Ok (t, bs) -> codegen t bs = Ok tt ->
    spec_C04 d counts (Ok (t, ibranches_of bs))
      (map (fun a => match populate_with_count_arg t bs a with
                     | Ok (SValue v) => Ok (render v) | Ok (SRanges _ _) => Unmodelled
                     | Err e => Err e | Panic s => Panic s | Unmodelled => Unmodelled end) counts)
      (map (fun a => match lit_value t (ca_lit a) with Some x => Some (gen_match bs x) | None => None end) counts)
      (map (fun _ => None) counts) = true.

(** the validation before the repair (one level deep) is refuted: a float declaration hiding a
    fallback two levels deep is accepted, and static and dynamic selection differ on it *)
Theorem C04_old_refuted :
  check_deserialization_old F64 w_old_bs = Ok tt
  /\ find_index w_old_bs (Some 50) = Some 0%nat
  /\ gen_select F64 w_old_bs (Some 50) = Some 1%nat
  /\ check_deserialization F64 w_old_bs = Err InvalidFallback.
Proof. exact old_validation_refuted. Qed.

(** C09 sighting: find_value as written reaches unreachable!(); the repaired one never panics *)
Theorem C09_find_value_old_panics :
  find_value_old [(Exact (Some 0), [PLit [122%N]]); (Exact (Some 1), [PLit [111%N]])] (Some 5) [53%N]
  = Panic SiteFindValue.
Proof. exact find_value_old_panics. Qed.
Theorem C09_find_value_never_panics : forall bs x disp s, find_value bs x disp <> Panic s.
Proof. exact find_value_never_panics. Qed.

(* ---------------------------------------------------------------- non-vacuity *)

(** "\t-128 ..= -1 | 0..5|_ " style inputs satisfy the hypotheses of C04_parse_sem *)
Definition ex_atoms : list atom :=
  [ ARangeIncl [9%N] (NInt 2 0 128) [32%N] [] [32%N] (NInt 2 0 1) [32%N];
    ARange [32%N] (NInt 0 2 0) [] [] (NInt 1 0 5) [];
    AExact [12288%N] (NInt 0 0 127) [160%N] ].
Example ex_hyps : ex_atoms <> [] /\ forallb (atom_wf I8 []) ex_atoms = true /\ forallb (atom_ok I8) ex_atoms = true.
Proof. repeat split; [discriminate|vm_compute; reflexivity..]. Qed.
Example ex_parse :
  range_new I8 [] (print_spec ex_atoms)
  = Ok (Multiple [Bounds (Some (Some (-128))) (Included (Some (-1)));
                  Bounds (Some (Some 0)) (Included (Some 4)); Exact (Some 127)]).
Proof. vm_compute. reflexivity. Qed.
(** the error side is inhabited too: "5..5" and "..-128" on i8 *)
Example ex_err : forallb (atom_ok I8) [ARange [] (NInt 0 0 5) [] [] (NInt 0 0 5) []] = false
              /\ forallb (atom_ok I8) [ATo [] [] (NInt 2 0 128) []] = false.
Proof. split; vm_compute; reflexivity. Qed.
(** a float declaration accepted by the validation, on which static = dynamic applies *)
Example ex_valid :
  check_deserialization F64 [(Bounds None (Excluded (Some 5)), []); (Exact (Some 7), []); (Fallback, [])] = Ok tt.
Proof. vm_compute. reflexivity. Qed.

Print Assumptions C04_parse_sem.
Print Assumptions C04_static_dynamic.
Print Assumptions C04_spec.
