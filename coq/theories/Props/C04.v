(** Property C04 — Ranges render the first branch that contains the count.
    Only property theorems (closed by [exact] of lemmas proved in Parser/RangesProofs.v and
    Parser/RangesParseProofs.v), non-vacuity examples and assumption audits.

    Reading guide.  [print_spec atoms] is the text of a count specification written with an arbitrary
    whitespace layout; [rsem atoms x] is its Rust meaning (x == a, (a..b).contains(x), ...);
    [range_new] models Range::new, [do_match] Range::do_match (parse-time selection),
    [pat_match]/[gen_cond] the meaning of the emitted patterns / float conditions,
    [find_index], [gen_match], [gen_if_chain] the three selection loops. A [num] is [Some z] (an integer
    of the type, or the order key of a non-NaN float) or [None] (NaN). *)
From Coq Require Import List NArith ZArith Bool.
Import ListNotations.
From LI Require Import Base.StrOps Parser.Ranges Parser.RangesProofs Parser.RangesParseProofs Parser.RangesCheck
  Parser.RangesDeclProofs.
Open Scope Z_scope.

(** Every well-formed specification (any layout, any of the ten types; float numerals through the
    oracle table) whose alternatives are satisfiable in the type is accepted by Range::new, and the
    parsed structure contains exactly the counts the source contains in Rust - as a generated
    pattern/condition for every count, and for do_match on non-NaN data. *)
Theorem C04_parse_sem : forall t tbl atoms,
  atoms <> [] -> forallb (atom_wf t tbl) atoms = true -> forallb (atom_ok t) atoms = true ->
  exists r, range_new t tbl (print_spec atoms) = Ok r
            /\ (forall x, pat_match r x = rsem atoms x)
            /\ (forallb atom_nonan atoms = true -> forall x, x <> None -> do_match r x = rsem atoms x).
Proof. exact parse_sem_ok. Qed.

(** ... and it is rejected with an error exactly when a numeral is outside the type or an alternative
    is empty by construction (a..b with b <= a, a..=b with b < a, ..MIN) *)
Theorem C04_parse_sem_err : forall t tbl atoms,
  atoms <> [] -> forallb (atom_wf t tbl) atoms = true -> forallb (atom_ok t) atoms = false ->
  exists e, range_new t tbl (print_spec atoms) = Err e.
Proof. exact parse_sem_err. Qed.

Theorem C04_degenerate_empty : forall t tbl a,
  atom_wf t tbl a = true -> forallb (numeral_in_ty t) (atom_numerals a) = true -> atom_degenerate t a = true ->
  forall x, (ty_is_float t = false -> exists z, x = Some z /\ in_ty t z = true) -> rsem_atom a x = false.
Proof. exact degenerate_empty. Qed.

(** find_value, the generated `match` and the generated if-chain all select the FIRST branch whose
    range matches (first_index is characterised by C04_first_index) *)
Theorem C04_first_match : forall bs x,
  find_index bs x = first_index (fun b => do_match (fst b) x) bs
  /\ gen_match bs x = first_index (fun b => pat_match (fst b) x) bs
  /\ gen_if_chain bs x = first_index (fun b => match gen_cond (fst b) x with Some c => c | None => true end) bs.
Proof. intros bs x. repeat split; [apply find_index_first|apply gen_match_first|apply gen_if_chain_first]. Qed.

Theorem C04_first_index : forall (A : Type) (p : A -> bool) l i,
  first_index p l = Some i <->
  (exists a, nth_error l i = Some a /\ p a = true) /\ (forall j b, (j < i)%nat -> nth_error l j = Some b -> p b = false).
Proof. exact @first_index_spec. Qed.

Theorem C04_find_value : forall bs x disp,
  find_value bs x disp =
  match find_index bs x with
  | Some i => match nth_error bs i with Some b => Ok (populate disp (snd b)) | None => Err CountArgNoMatch end
  | None => Err CountArgNoMatch
  end.
Proof. exact find_value_index. Qed.

(** the branch selected for a literal count (after the TryFrom guard produced the count [x]) is the
    branch the generated code selects at run time with the same count *)
Theorem C04_static_dynamic : forall t bs x,
  check_deserialization t bs = Ok tt -> branches_no_nan bs = true -> x <> None ->
  find_index bs x = gen_select t bs x.
Proof. exact static_dynamic. Qed.

Theorem C04_static_dynamic_int : forall t bs x,
  ty_is_float t = false -> branches_no_nan bs = true -> x <> None -> find_index bs x = gen_select t bs x.
Proof. exact static_dynamic_int. Qed.

(** check_deserialization accepts iff no branch before the last contains a fallback (at any depth)
    and, for float types, the last branch is the pure fallback; MultipleFallbacks is unreachable *)
Theorem C04_validation : forall t bs, check_deserialization t bs = Ok tt <-> valid_shape t bs.
Proof. exact check_deserialization_ok. Qed.
Theorem C04_validation_never_multiple : forall t bs, check_deserialization t bs <> Err MultipleFallbacks.
Proof. exact check_deserialization_never_multiple. Qed.

(** bridge: the executable predicate the correspondence check evaluates on the implementation's
    answers (RangesCheck.spec_C04_parse) holds of the model for every input *)
Theorem C04_spec : forall t tbl atoms counts,
  atoms <> [] -> forallb (atom_wf t tbl) atoms = true ->
  let m := range_new t tbl (print_spec atoms) in
  spec_C04_parse t atoms counts m
    (match m with Ok r => map (pat_match r) counts | _ => [] end)
    (match m with Ok r => map (do_match r) counts | _ => [] end) = true.
Proof. exact spec_parse_holds. Qed.

(** bridge, declaration level: for every source declaration (type name with any padding or none, branches
    in the four syntaxes, string / number / nested-list counts) that the parser accepts, the predicate the
    check evaluates (RangesCheck.spec_C04: the rendered branch is the first declared branch whose count
    specification contains the count, statically and natively; none matches => no branch is rendered;
    {{ count }} shows the count) holds of the model's own outputs, for every list of literal counts whose
    integer literals are displayed in decimal *)
Theorem C04_spec_decl : forall d tbl counts t bs,
  sdecl_wf tbl d = true -> forallb disp_ok counts = true ->
  parse_decl tbl (sdecl_json d) = Ok (t, bs) ->
  spec_C04 d counts (Ok (t, ibranches_of bs))
    (map (static_obs t bs) counts) (map (native_obs t bs) counts) (map (fun _ => None) counts) = true.
Proof. exact spec_decl_holds. Qed.

(** the parsed branches of an accepted declaration mean what the source branches mean *)
Theorem C04_decl_sem : forall tbl d t bs, sdecl_wf tbl d = true -> parse_decl tbl (sdecl_json d) = Ok (t, bs) ->
  t = sdecl_type d /\ Forall2 (branch_rel t) (sd_branches d) bs.
Proof. exact parse_decl_rel. Qed.

(** C09 (non-finite float bounds): every declaration the repaired parser accepts has finite bounds, so
    the code generator's float literals cannot panic; before the repair "inf" and 1e39-on-f32 were accepted *)
Theorem C09_codegen_never_panics : forall tbl d t bs, parse_decl tbl d = Ok (t, bs) -> codegen t bs = Ok tt.
Proof. exact codegen_never_panics. Qed.
Theorem C09_nonfinite_old_panics :
  range_new_nonfinite_old F64 w_inf_tbl [105; 110; 102]%N = Ok (Exact (Some 9218868437227405312))
  /\ range_new F64 w_inf_tbl [105; 110; 102]%N = Err (RangeParse [105; 110; 102]%N)
  /\ (let d := mk_jdecl (FirstType [102; 51; 50]%N)
                 [BSeq (VText [PLit [97%N]]) [CNum (JF (Some 2139095040))]; BSeq (VText [PLit [98%N]]) []] in
      (exists bs, parse_decl_nonfinite_old [] d = Ok (F32, bs) /\ codegen F32 bs = Panic SiteCodegenFloat)
      /\ parse_decl [] d = Err RangeNumberType).
Proof. exact nonfinite_old_panics. Qed.

(** the validation before the repair (one level deep) is refuted: a float declaration hiding a
    fallback two levels deep is accepted, and static and dynamic selection differ on it *)
Theorem C04_old_refuted :
  check_deserialization_old F64 w_old_bs = Ok tt
  /\ find_index w_old_bs (Some 50) = Some 0%nat
  /\ gen_select F64 w_old_bs (Some 50) = Some 1%nat
  /\ check_deserialization F64 w_old_bs = Err InvalidFallback.
Proof. exact old_validation_refuted. Qed.

(** C09 sighting: find_value as written reaches unreachable!(); the repaired one never panics *)
Theorem C09_find_value_old_panics :
  find_value_old [(Exact (Some 0), [PLit [122%N]]); (Exact (Some 1), [PLit [111%N]])] (Some 5) [53%N]
  = Panic SiteFindValue.
Proof. exact find_value_old_panics. Qed.
Theorem C09_find_value_never_panics : forall bs x disp s, find_value bs x disp <> Panic s.
Proof. exact find_value_never_panics. Qed.

(* ---------------------------------------------------------------- non-vacuity *)

(** "\t-128 ..= -1 | 0..5|_ " style inputs satisfy the hypotheses of C04_parse_sem *)
Definition ex_atoms : list atom :=
  [ ARangeIncl [9%N] (NInt 2 0 128) [32%N] [] [32%N] (NInt 2 0 1) [32%N];
    ARange [32%N] (NInt 0 2 0) [] [] (NInt 1 0 5) [];
    AExact [12288%N] (NInt 0 0 127) [160%N] ].
Example ex_hyps : ex_atoms <> [] /\ forallb (atom_wf I8 []) ex_atoms = true /\ forallb (atom_ok I8) ex_atoms = true.
Proof. repeat split; [discriminate|vm_compute; reflexivity..]. Qed.
Example ex_parse :
  range_new I8 [] (print_spec ex_atoms)
  = Ok (Multiple [Bounds (Some (Some (-128))) (Included (Some (-1)));
                  Bounds (Some (Some 0)) (Included (Some 4)); Exact (Some 127)]).
Proof. vm_compute. reflexivity. Qed.
(** the error side is inhabited too: "5..5" and "..-128" on i8 *)
Example ex_err : forallb (atom_ok I8) [ARange [] (NInt 0 0 5) [] [] (NInt 0 0 5) []] = false
              /\ forallb (atom_ok I8) [ATo [] [] (NInt 2 0 128) []] = false.
Proof. split; vm_compute; reflexivity. Qed.
(** a float declaration accepted by the validation, on which static = dynamic applies *)
Example ex_valid :
  check_deserialization F64 [(Bounds None (Excluded (Some 5)), []); (Exact (Some 7), []); (Fallback, [])] = Ok tt.
Proof. vm_compute. reflexivity. Qed.

(** a source declaration satisfying the hypotheses of C04_spec_decl: ["u8", {"count":"0..3","value":..},
    ["b1", [4, "7..=9"]], ["fb"]] *)
Definition ex_decl : sdecl :=
  mk_sdecl (Some ([32%N], U8, []))
    [ mk_sbranch (Some (SStr [ARange [] (NInt 0 0 0) [] [] (NInt 0 0 3) []])) [PLit [97%N]; PVar s_count] SynMapCV;
      mk_sbranch (Some (SArr [SNum (JU 4 None); SStr [ARangeIncl [] (NInt 0 0 7) [] [] [] (NInt 0 0 9) []]])) [PLit [98%N]] SynSeqNested;
      mk_sbranch None [PLit [99%N]] SynSeq ].
Example ex_decl_hyps :
  sdecl_wf [] ex_decl = true /\ exists bs, parse_decl [] (sdecl_json ex_decl) = Ok (U8, bs) /\ length bs = 3%nat.
Proof. split; [vm_compute; reflexivity|]. eexists. split; vm_compute; reflexivity. Qed.

Print Assumptions C04_parse_sem.
Print Assumptions C04_static_dynamic.
Print Assumptions C04_spec.
Print Assumptions C04_spec_decl.
Print Assumptions C09_codegen_never_panics.
