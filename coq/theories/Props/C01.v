(** Property C01 — rendered text is exactly what the translation source says (work in progress). *)
From Coq Require Import List NArith Bool.
Import ListNotations.
From LI Require Import Base.StrOps Parser.Parse Parser.Json Parser.Reduce Parser.Source Parser.ParseCheck.

(** the pre-fix parser leaves a stray '>' after `</b >`: source  a <b>x</b > c *)
Definition w_src : list item :=
  [SText [97;32]%N; SComp [] [98]%N [] [SText [120]%N] [] [] [32]%N; SText [32;99]%N].
Theorem C01_old_refuted :
  match model_parse_old (print_list w_src) with
  | Ok v => match reduce v with Ok r => pieces_eqb (pieces r) (denote_list w_src) | _ => true end
  | _ => true
  end = false.
Proof. vm_compute; reflexivity. Qed.
Theorem C01_closing_tag_found :
  match model_parse (print_list w_src) with
  | Ok v => match reduce v with Ok r => pieces_eqb (pieces r) (denote_list w_src) | _ => false end
  | _ => false
  end = true.
Proof. vm_compute; reflexivity. Qed.
