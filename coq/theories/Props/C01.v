(** Property C01 — rendered text is exactly what the translation source says.
    Parser level: from the translation string to the reduced value the code generator consumes.
    This file holds only property theorems (closed by [exact]), examples and assumption audits. *)
From Coq Require Import List NArith Bool.
Import ListNotations.
From LI Require Import Base.StrOps Base.StrLemmas Parser.Parse Parser.Json Parser.Reduce Parser.Source Parser.ParseCheck
  Parser.Scan Parser.RoundTrip1 Parser.RoundTrip2 Parser.RoundTrip3 Parser.RoundTrip4 Parser.RoundTrip5 Parser.ReduceProofs.

(** Round trip, for every well-formed source of the documented grammar — text (any Unicode except
    '<', '{', '$'), {{ var }} and {{ var, formatter(args) }} with any whitespace padding, components
    nested to arbitrary depth including same-name nesting, with any whitespace inside the tags —
    every identifier oracle and every JSON oracle: ParsedValue::new on the printed source succeeds,
    reduce succeeds, and the reduced value denotes exactly the source's pieces: literal text verbatim
    and in order, each variable with its documented formatter, each component around its children.
    Nothing dropped, duplicated or reordered. *)
Theorem C01_roundtrip : forall (idc : str -> idres) (json_args : str -> res (list (str * jarg))) (items : list Source.item),
  items_wfb idc items = true ->
  exists v r, parse_top idc json_args true (print_list items) = Ok v /\ reduce v = Ok r
              /\ pieces r = denote_list items.
Proof. exact roundtrip_reduced. Qed.

(** reduce preserves the denotation of every value without unresolved foreign keys *)
Theorem C01_reduce_sound : forall v, no_foreign v = true -> exists r, reduce v = Ok r /\ pieces r = pieces v.
Proof. exact reduce_pieces. Qed.

(** the closing tag of a component is found exactly, whatever balanced children and siblings surround it *)
Theorem C01_closing_tag_found : forall key kids rest w0 w1 w2,
  Scan.items_wf kids -> Scan.items_wf rest -> all_ws w0 -> all_ws w1 -> all_ws w2 -> name_ok key ->
  let inner := flats (toks_list kids) in
  let close := flat (TClose w0 w1 w2 key) in
  scan_gen true key (inner ++ close ++ flats (toks_list rest)) 0 0 None
  = Some (blen inner, (blen inner + blen close)%nat).
Proof. exact closing_tag_found. Qed.

(** non-vacuity: a nested, same-name, padded source satisfies the hypothesis (ASCII identifier oracle)
    source:  a <b >x<b>{{ n , number }}</b></ b > c *)
Definition w_src2 : list Source.item :=
  [SText [97;32]%N;
   SComp [] [98]%N [32]%N
     [SText [120]%N; SComp [] [98]%N [] [SVar [32]%N [110]%N [32]%N (Some ([32;110;117;109;98;101;114]%N, [32]%N, FNumber 0%N))] [] [] []]
     [] [32]%N [32]%N;
   SText [32;99]%N].
Example C01_wf_witness : items_wfb ident_check w_src2 = true.
Proof. vm_compute. reflexivity. Qed.

(** the pre-fix parser leaves a stray '>' after `</b >`: source  a <b>x</b > c *)
Definition w_src : list Source.item :=
  [SText [97;32]%N; SComp [] [98]%N [] [SText [120]%N] [] [] [32]%N; SText [32;99]%N].
Theorem C01_old_refuted :
  items_wfb ident_check w_src = true /\
  match model_parse_old (print_list w_src) with
  | Ok v => match reduce v with Ok r => pieces_eqb (pieces r) (denote_list w_src) | _ => true end
  | _ => true
  end = false.
Proof. split; vm_compute; reflexivity. Qed.
