(** Property C08 — A key's required arguments are the union over all locales.
    Only property theorems (closed by [exact] of lemmas of Parser/KeysProofs.v).
    Values are the per-locale values of one key after foreign-key substitution and reduce ([pv]); [all_events vs] lists
    every variable, component and count occurrence of every locale's value.
    Not covered by a theorem (observed by compile probes only): "supplying exactly that set compiles; omitting a member
    or naming an unknown key does not" — that is rustc + typed-builder behaviour. *)
From Coq Require Import List NArith Bool Permutation.
Import ListNotations.
From LI Require Import Parser.Keys Parser.KeysProofs.

(** get_keys_inner performs exactly the pushes listed by [events], in that order *)
Theorem C08_gki_events : forall v s, gki v s false = run (events v) s.
Proof. exact gki_events. Qed.

(** the accumulated signature is the union over all locales: components, variables (interpolated or count), the
    formatters of every variable, and the count type (range numeric type or plural) *)
Theorem C08_union : forall d others s,
  key_signature d others = KOk s ->
  let evs := all_events (d :: others) in
  (forall c, In c (sig_comps s) <-> In c (ev_comps evs)) /\
  (forall x, In x (map fst (sig_vars s)) <-> In x (map fst (ev_vars evs)) \/ In x (map fst (ev_counts evs))) /\
  (forall x f, In f (fm (ikm s) x) <-> In (x, f) (ev_vars evs)) /\
  (forall x t, ct (ikm s) x = Some t <-> In (x, t) (ev_counts evs)).
Proof. exact signature_union. Qed.

(** ... and does not depend on the order in which the non-default locales are merged *)
Theorem C08_order : forall d o1 o2, Permutation o1 o2 -> ~ In PSubkeys o1 ->
  match key_signature d o1, key_signature d o2 with
  | KOk s1, KOk s2 => sig_equiv s1 s2
  | KErr _, KErr _ => True
  | _, _ => False
  end.
Proof. exact signature_order. Qed.

(** a count variable used with two different types (two range types, or range and plural) is an error, and nothing
    else is (locales may mix value kinds freely) *)
Theorem C08_conflict : forall d others, ~ In PSubkeys others ->
  ((exists e, key_signature d others = KErr e) <-> consistent (ev_counts (all_events (d :: others))) = false).
Proof. exact signature_conflict. Qed.

(** the executable predicate evaluated on the implementation's answers holds of the model for every input *)
Theorem C08_spec : forall d others, spec_C08 (d :: others) (key_signature d others) = true.
Proof. exact spec_C08_holds. Qed.

(** reference chains: populating a plural / range without a `count` argument keeps its count key (whatever other
    arguments are passed), with a single variable that variable becomes the count key, with a literal number the selected
    branch remains and the count is gone ([cid] = `var_count`; which branch a literal selects is an oracle) *)
Theorem C08_chain_count_key : forall cid args,
  (alookup cid args = None ->
     (forall ck fs o, populate cid args (PPlural ck fs o) = PPlural ck (map (populate cid args) fs) (populate cid args o)) /\
     (forall ty ck bs, populate cid args (PRanges ty ck bs) = PRanges ty ck (map (populate cid args) bs))) /\
  (forall k f, alookup cid args = Some (PaVal (PVar k f)) ->
     (forall ck fs o, populate cid args (PPlural ck fs o) = PPlural k (map (populate cid args) fs) (populate cid args o)) /\
     (forall ty ck bs, populate cid args (PRanges ty ck bs) = PRanges ty k (map (populate cid args) bs))) /\
  (forall n t, alookup cid args = Some (PaCountLit n t) ->
     (forall ck fs o, populate cid args (PPlural ck fs o) = nth n (map (populate cid args) fs ++ [populate cid args o]) (PLit LString)) /\
     (forall ty ck bs, populate cid args (PRanges ty ck bs) = nth n (map (populate cid args) bs) (PLit LString))).
Proof. exact chain_count_key. Qed.

(** `things = $t(items, {"count": "{{ n }}"})` reached again through any number of references that pass no `count`
    (`alias = $t(things)`, `$t(things, {"unrelated": ..})`): still a plural counting on `n`, and on nothing else first *)
Theorem C08_chain_rename_then_plain : forall cid k f ck fs o (hops : list (list (key * parg))),
  (forall a, In a hops -> alookup cid a = None) ->
  exists fs' o',
    fold_left (fun v a => populate cid a v) hops (populate cid [(cid, PaVal (PVar k f))] (PPlural ck fs o)) = PPlural k fs' o'
    /\ hd_error (count_keys (PPlural k fs' o')) = Some (k, RPlural).
Proof. exact chain_rename_then_plain. Qed.

(** code generation: the keys the `move ||` closure of a range / plural clones before capturing them ([branch_keys]:
    `get_keys_inner(.., is_top = false)` folded over the branches) are the union of the branches' variables, components
    and counts, whatever the order of the branches and wherever the literal-only branches stand *)
Theorem C08_range_closure_keys_union : forall bs s,
  branch_keys bs = KOk s ->
  sig_is s (flat_map events bs) /\
  (forall bs' s', Permutation bs bs' -> branch_keys bs' = KOk s' -> sig_equiv s s').
Proof. exact range_closure_keys_union. Qed.

(** ... and (fixes/C08-count-moved-into-range-closure.diff) the count key itself *)
Theorem C08_closure_owns_count : forall ck bs s, closure_keys ck bs = KOk s -> In ck (map fst (sig_vars s)).
Proof. exact closure_keys_count. Qed.

(** the `is_top = true` variant of the fold loses `{{ who }}` of a branch that precedes a literal-only branch *)
Example C08_branch_keys_top_loses :
  branch_keys [PVar 1 0; PLit LString] = KOk (IInterpol (mk_ik [] [(1, mk_vi [0] None)])) /\
  branch_keys_top [PVar 1 0; PLit LString] = KOk (ILit LString).
Proof. exact branch_keys_top_loses. Qed.

(** one builder field per variable and per component *)
Theorem C08_fields : forall ik x, In x (make_fields ik) <-> In x (map fst (ik_vars ik)) \/ In x (ik_comps ik).
Proof. exact make_fields_In. Qed.

(** non-vacuity: string in the default locale, a variable in the second, a range in the third *)
Example C08_witness :
  key_signature (PLit LString) [PVar 1 0; PRanges 2 7 [PLit LString; PComp 3 (PVar 1 4)]]
  = KOk (IInterpol (mk_ik [3] [(1, mk_vi [0; 4] None); (7, mk_vi [] (Some (RRange 2)))])).
Proof. vm_compute. reflexivity. Qed.
Example C08_witness_conflict :
  key_signature (PRanges 2 7 [PLit LString]) [PPlural 7 [PLit LString] (PLit LString)] = KErr EMix.
Proof. vm_compute. reflexivity. Qed.

(* items = plural on var_count (7); things = $t(items, {count: {{ n }}}) (n = 9); alias = <b>$t(things)</b> *)
Example C08_chain_witness :
  key_signature (resolve 7 (SComp 3 (SRef (SRef (SVal (PPlural 7 [PLit LString] (PVar 7 0))) [(7, SaVal (SVal (PVar 9 0)))]) [])))
                []
  = KOk (IInterpol (mk_ik [3] [(9, mk_vi [0] (Some RPlural))])).
Proof. vm_compute. reflexivity. Qed.

