(** Property C02 — every accessor flavour of a key denotes the same text.
    Only property theorems (closed by [exact]).  The flavours differ in (a) the back-end that renders the
    value (view: t!/tu!/td!; string: *_string!; display: *_display!; [LitWrapper] for keys that are literals
    in every locale, incl. the const [inner] chain), (b) how the locale arrives (context, untracked, explicit)
    and (c) scoping.  (a) is the agreement of the code generators, (c) is path-prefix transparency; that all
    macros expand to the same builder calls is observed on generated crates (checks/C02.py), not proved. *)
From Coq Require Import List NArith Bool Arith.
Import ListNotations.
From LI Require Import Base.StrOps Parser.Parse Parser.Reduce Parser.Merge Codegen.Target Codegen.TargetProofs
  Codegen.LocaleMatch Codegen.LocaleMatchProofs.

(** the text of the view back-end = the string back-end = the display back-end, for every value and every
    environment of arguments *)
Theorem C02_backends_agree : forall e v,
  eval_view e (gen_view v) = eval_string e (gen_string v)
  /\ eval_display e (gen_display v) = eval_string e (gen_string v).
Proof. exact backends_agree. Qed.

(** leptos' server-side serialisation of the view is that text whenever no text node is empty (an empty text
    node is written as one space by tachys) *)
Theorem C02_ssr_text : forall e t, no_empty_node e t = true -> eval_view_ssr e t = eval_view e t.
Proof. exact ssr_is_text. Qed.

(** a key that is a literal everywhere: into_view, build_string, build_display and the const [inner] agree *)
Theorem C02_lit_wrapper : forall e l,
  eval_view e (lit_into_view l) = lit_display l /\ lit_build_string l = lit_display l
  /\ lit_build_display l = lit_display l /\ lit_inner l = lit_display l
  /\ eval_view e (gen_view (PLit l)) = lit_display l.
Proof. exact lit_wrapper_agree. Qed.

(** literal keys, for EVERY printing function [show_lit] (canonically Rust's `{}` of the parsed bool / u64 / i64 /
    f64): the view, string, display and const flavours of a LitWrapper key, and the view / string / display
    back-ends of a zero-field builder (mixed literal types), all print the literal with that one function *)
Theorem C02_literals_agree : forall (show_lit : lit -> str) e l,
  eval_view e (lw_into_view show_lit l) = show_lit l
  /\ lw_build_string show_lit l = show_lit l
  /\ lw_build_display show_lit l = show_lit l
  /\ lw_inner show_lit l = show_lit l
  /\ eval_view e (lit_token_view show_lit l) = show_lit l
  /\ eval_string e (lit_token_string show_lit l) = show_lit l
  /\ eval_display e (lit_token_string show_lit l) = show_lit l.
Proof. exact literals_agree. Qed.

(** the generators modelled above are the instance show_lit := lit_display *)
Theorem C02_literals_instance : forall l,
  gen_view (PLit l) = lit_token_view lit_display l /\ gen_string (PLit l) = lit_token_string lit_display l
  /\ lit_into_view l = lw_into_view lit_display l.
Proof. exact literal_tokens_instance. Qed.

(** components carrying attributes (values are opaque strings): for every printing function of attribute values used
    by BOTH back-ends, view, string and display render the same `<tag name="value" ..>children</tag>` *)
Theorem C02_attrs_agree : forall (show_attr : str -> str) vars comps v,
  let e := env_with_attrs show_attr vars comps in
  eval_view e (gen_view v) = render e (pieces v)
  /\ eval_string e (gen_string v) = render e (pieces v)
  /\ eval_display e (gen_display v) = render e (pieces v)
  /\ (forall k, e_open e k = open_tag show_attr (fst (comps k)) (snd (comps k))).
Proof. exact attrs_agree. Qed.

(** scoping changes neither the locale read nor the value reached: keys (scope ctx p) . q = keys ctx . (p ++ q) *)
Theorem C02_scope_transparent : forall (L A : Type) (trees : L -> ktree A) (c : scoped L) (p q : list str),
  sc_locale (scope c p) = sc_locale c
  /\ keys_at trees (scope c p) q = keys_at trees c (p ++ q).
Proof. exact @scope_transparent. Qed.

(** ... chained to any depth *)
Theorem C02_scope_chain : forall (L A : Type) (trees : L -> ktree A) (ps : list (list str)) (c : scoped L) (q : list str),
  sc_locale (fold_left scope ps c) = sc_locale c
  /\ keys_at trees (fold_left scope ps c) q = keys_at trees c (concat ps ++ q).
Proof. exact @scope_chain. Qed.

(** both back-ends take the arm of the same locale: the view arm of locale i is the generated view of locale
    i's value (inside a well-formed EitherOf path), the display arm its generated string code *)
Theorem C02_arm_select : forall values i v,
  nth_error values i = Some v ->
  exists path, into_view_arm values i = Some (path, gen_view v)
               /\ Forall (fun av => (snd av < fst av)%nat) path
               /\ display_arm values i = Some (gen_string v).
Proof. exact into_view_arm_value. Qed.

(** defaulted locales: the view back-end and the string / display back-end each emit their own per-locale `match`
    with or-patterns taken from DefaultedLocales::compute.  For every mapping [d] built while merging (a locale is
    in it exactly when it does not define the key) and every locale [l] of the configuration, both select the
    generated code of the value of ONE locale, [effective d .. l]: [l] itself when it defines the key, else the
    locale compute groups it under ([default_of d l]) - whatever the order of the arms *)
Theorem C02_defaulted_agree : forall (d : dl) (defs : list (N * pv)),
  NoDup (map fst defs) -> map_get (dl_map d) (dl_default d) = None ->
  (forall t, In t (map fst defs) -> map_get (dl_map d) t = None) ->
  forall l v,
  (In l (map fst defs) \/ In l (map fst (dl_map d))) ->
  assoc_get defs (effective d (fun l => existsb (N.eqb l) (map fst defs)) l) = Some v ->
  view_locale_match (compute d) defs l = Some (gen_view v)
  /\ string_locale_match (compute d) defs l = Some (gen_string v).
Proof. exact defaulted_agree. Qed.

(** ... and so does the `match` of a literal key's accessor (the const path), whose arms are in forward order *)
Theorem C02_defaulted_literal : forall (d : dl) (defs : list (N * lit)),
  NoDup (map fst defs) -> map_get (dl_map d) (dl_default d) = None ->
  (forall t, In t (map fst defs) -> map_get (dl_map d) t = None) ->
  forall l v,
  (In l (map fst defs) \/ In l (map fst (dl_map d))) ->
  assoc_get defs (effective d (fun l => existsb (N.eqb l) (map fst defs)) l) = Some v ->
  literal_locale_match (compute d) defs l = Some v.
Proof. exact defaulted_literal. Qed.

(** that one locale is the first locale of the `inherits` walk that defines the key, else the default *)
Theorem C02_effective_is_walk : forall d (inh : loc -> option loc) (present : loc -> bool) (others : list loc) F l,
  (forall x, In x others ->
     map_get (dl_map d) x = if present x then @None loc else Some (match inh x with Some y => y | None => dl_default d end)) ->
  (forall x, ~ In x others -> map_get (dl_map d) x = None) ->
  ~ In (dl_default d) others -> present (dl_default d) = true ->
  (forall x y, inh x = Some y -> In x others /\ (y = dl_default d \/ In y others)) ->
  (S (length (dl_map d)) <= F)%nat -> (l = dl_default d \/ In l others) ->
  effective d present l = first_defined inh present (dl_default d) F l.
Proof. exact effective_is_walk. Qed.

(** the three statements above composed on a configuration: default locale, the other locales, the `inherits`
    table (any shape: chains, forks, cycles, self loops) and the values of the locales that define a key.  With the
    mapping the merge builds ([defaults_of]: every non-defining locale is pushed with its `inherits` entry, else the
    default) both generated matches give EVERY configured locale the code of the value written by the first locale
    of its inherits walk that defines the key, else by the default *)
Theorem C02_defaulted_config : forall (dflt : N) (inherits : list (N * N)) (others : list N) (defs : list (N * pv)),
  NoDup (map fst defs) -> ~ In dflt others -> In dflt (map fst defs) ->
  (forall t, In t (map fst defs) -> t = dflt \/ In t others) ->
  (forall x y, map_get inherits x = Some y -> In x others /\ (y = dflt \/ In y others)) ->
  let defines := fun l => existsb (N.eqb l) (map fst defs) in
  let d := defaults_of dflt inherits others defines in
  forall l, (l = dflt \/ In l others) ->
  exists v, assoc_get defs (first_defined (map_get inherits) defines dflt (S (length others)) l) = Some v
            /\ view_locale_match (compute d) defs l = Some (gen_view v)
            /\ string_locale_match (compute d) defs l = Some (gen_string v).
Proof. exact defaulted_config. Qed.

(** non-vacuity: en (0) and fr (1) define the key, fr-CA (2) inherits fr, fr-BE (3) inherits fr-CA, es-AR (4) and
    es-MX (5) inherit each other: 2 and 3 get fr's code, 4 and 5 the default's, from both matches *)
Example C02_defaulted_example :
  let defs := [(0, PLit (LStr [101; 110])); (1, PLit (LStr [102; 114]))]%N in
  let d := defaults_of 0 [(2, 1); (3, 2); (4, 5); (5, 4)]%N [1; 2; 3; 4; 5]%N (fun l => existsb (N.eqb l) (map fst defs)) in
  map (view_locale_match (compute d) defs) [0; 1; 2; 3; 4; 5]%N
  = map (fun v => Some (gen_view v)) [PLit (LStr [101; 110]); PLit (LStr [102; 114]); PLit (LStr [102; 114]);
                                      PLit (LStr [102; 114]); PLit (LStr [101; 110]); PLit (LStr [101; 110])]%N
  /\ map (string_locale_match (compute d) defs) [2; 4]%N
     = [Some (gen_string (PLit (LStr [102; 114]%N))); Some (gen_string (PLit (LStr [101; 110]%N)))].
Proof. vm_compute. split; reflexivity. Qed.

(** ranges: the integer `match` of the view back-end, the integer `match` of the string back-end and the two
    float if-chains take the same arm - the first one an alternative of which accepts the count, or the fallback -
    and render it alike, whatever the acceptance test [holds] is (C04 defines it) *)
Theorem C02_ranges_agree : forall (C : Type) (holds : C -> bool) e (arms : list (list C * pv)),
  let chosen := match_select C holds arms in
  option_map (eval_view e) (match_select C holds (arms_view arms)) = option_map (fun v => render e (pieces v)) chosen
  /\ option_map (eval_string e) (match_select C holds (arms_string arms)) = option_map (fun v => render e (pieces v)) chosen
  /\ option_map (eval_view e) (ifchain_select C holds (arms_view arms)) = option_map (fun v => render e (pieces v)) chosen
  /\ option_map (eval_string e) (ifchain_select C holds (arms_string arms)) = option_map (fun v => render e (pieces v)) chosen.
Proof. exact @ranges_agree. Qed.

(** plurals: the view back-end and the string / display back-end both select with the key's own rule type
    (cardinal or ordinal): for every category function (ICU's), rule type, set of written forms and `other`,
    they take the same form - the one written for the category, else `other` - and render it alike *)
Theorem C02_plurals_agree : forall (F R : Type) (form_eqb : F -> F -> bool) (category : R -> F) e (rule : R)
  (forms : list (F * pv)) (other : pv),
  let chosen := plural_select F R form_eqb category rule forms other in
  eval_view e (plural_select F R form_eqb category rule (forms_view forms) (gen_view other)) = render e (pieces chosen)
  /\ eval_string e (plural_select F R form_eqb category rule (forms_string forms) (gen_string other)) = render e (pieces chosen)
  /\ eval_display e (plural_select F R form_eqb category rule (forms_string forms) (gen_display other)) = render e (pieces chosen).
Proof. exact @plurals_agree. Qed.

(** the executable predicate holds of the model for every value and environment *)
Theorem C02_spec : forall e v,
  spec_C02 e (pieces v) [eval_string e (gen_string v); eval_display e (gen_display v)] [eval_view e (gen_view v)] = true.
Proof. exact spec_C02_holds. Qed.

(** non-vacuity: "a {{x}} <b>in</b>" with x = "V", b = <em> *)
Example C02_example :
  let v := PBloc [PLit (LStr [97; 32]%N); PVar [120]%N FNone; PLit (LStr [32]%N); PComp [98]%N (PLit (LStr [105; 110]%N))] in
  let e := mk_env (fun _ => [86]%N) (fun _ => [60; 101; 109; 62]%N) (fun _ => [60; 47; 101; 109; 62]%N) in
  eval_string e (gen_string v) = [97; 32; 86; 32; 60; 101; 109; 62; 105; 110; 60; 47; 101; 109; 62]%N
  /\ eval_view e (gen_view v) = eval_string e (gen_string v).
Proof. vm_compute. split; reflexivity. Qed.
