(** Property C20 — The build helper requests exactly the ICU data the translations use.
    Only the property theorems (each closed by [exact] of a lemma of Build/IcuKeysProofs.v).

    Reading: a key of the project is a key of the default locale's tree (a surplus key of another locale is
    dropped with a warning and never reaches the generated code); "uses" is read after foreign-key
    substitution.  The per-option data-key lists ([Options::into_data_keys]) are ICU knowledge and enter
    as a function argument. *)
From Coq Require Import List NArith Bool Arith.
Import ListNotations.
From LI Require Import Build.IcuKeys Build.IcuKeysProofs.

(** on the tree [find_used_datakey] walks: an option is derived iff some variable of some leaf, at any
    depth, has a plural count (Plurals) resp. carries a formatter of that family *)
Theorem C20_iff : forall o keys,
  mem o (find_used_datakey keys empty_opts) = true <->
  exists vi, In vi (all_vars (Subkeys keys)) /\
    ((o = Plurals /\ vi_count vi = Some Plural) \/
     (exists f, In f (vi_formatters vi) /\ option_of_formatter f = Some o)).
Proof. exact used_iff. Qed.

(** every namespace is walked *)
Theorem C20_iff_namespaces : forall o bk,
  mem o (get_icu_keys_inner bk) = true <->
  exists keys, In keys (match bk with BNamespaces _ ks => map snd ks | BLocales _ k => [k] end) /\
    mem o (find_used_datakey keys empty_opts) = true.
Proof. exact used_iff_all. Qed.

(** across locales: for every accepted project the derived options are exactly those used by the default
    locale's values or by any other locale's values at the default's keys, in any namespace *)
Theorem C20_iff_project : forall o p os ls nss,
  model_C20 p = Some (os, ls, nss) -> mem o os = project_uses o p.
Proof. exact model_options. Qed.

(** the formatters of a variable are a set: a formatter attached to ANY occurrence of a variable in a key (in the
    default locale or in a locale merged later, first or last in the string) makes the key use its family, whatever
    other formatters - of the same family, of the same input type, or none - the same variable carries *)
Theorem C20_var_formatters_union : forall o ps v v' k f,
  get_keys_inner ps v = Some v' -> In (PushVar k f) ps -> option_of_formatter f = Some o ->
  iol_uses o v' = true.
Proof. exact var_formatters_union. Qed.

(** the locales (and namespaces) reported are the configured ones *)
Theorem C20_locales : forall p os ls nss,
  model_C20 p = Some (os, ls, nss) ->
  ls = project_locales p
  /\ nss = match p with PNamespaces l => Some (map fst l) | PLocales _ => None end.
Proof. exact model_locales. Qed.

(** the requested data keys are exactly the keys of the derived options *)
Theorem C20_keys : forall (datakey : Type) (into : option_ -> list datakey) bk k,
  In k (get_icu_keys into bk) <-> exists o, mem o (get_icu_keys_inner bk) = true /\ In k (into o).
Proof. exact @get_icu_keys_in. Qed.

(** the executable predicates evaluated on the implementation's answers hold of the model *)
Theorem C20_spec : forall p os ls nss,
  model_C20 p = Some (os, ls, nss) -> spec_C20 p (os, ls) = true.
Proof. exact spec_C20_holds. Qed.

Theorem C20_spec_keys : forall into p ks ls nss,
  model_keys into p = Some (ks, ls, nss) -> spec_C20_keys into p ks ls = true.
Proof. exact spec_C20_keys_holds. Qed.

(** non-vacuity: default locale 1 has a plain key 7 and a sub-key 8.9; locale 2 makes 7 a plural and puts a
    date formatter under 8.9: both options are derived, the others are not *)
Example C20_example :
  let p := PLocales [(1, [(7, ULit 0); (8, USub [(9, UInterp [PushVar 3 FmtNone])])]);
                     (2, [(7, UInterp [PushCount 5 Plural]); (8, USub [(9, UInterp [PushVar 3 FmtDate])])])] in
  option_map (fun r => fst (fst r)) (model_C20 p) = Some (mk_opts true true false false false).
Proof. vm_compute. reflexivity. Qed.
