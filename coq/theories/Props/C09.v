(** Property C09 — loading translations never panics or hangs, whatever the files contain.
    String level (ParsedValue::new).  This file holds only property theorems. *)
From Coq Require Import List NArith Bool.
Import ListNotations.
From LI Require Import Base.StrOps Parser.Parse Parser.Json Parser.ParseCheck Parser.ParseTotal.

(** For EVERY string (well-formed or not), every identifier oracle and every JSON oracle that itself
    neither panics nor returns strings longer than its input, ParsedValue::new returns a value, a
    descriptive error or (only when an oracle says so) Unmodelled: never a panic - in particular no slice
    inside a character - and the recursion needs at most [length s + 2] nested calls (fuel adequacy), so
    it terminates with a depth linear in the input. *)
Theorem C09_parse_total : forall (idc : str -> idres) (json_args : str -> res (list (str * jarg))),
  (forall s, safe (json_args s)) ->
  (forall s l k a, json_args s = Ok l -> In (k, JString a) l -> (length a < length s)%nat) ->
  forall value, safe (parse idc json_args true (S (S (length value))) value).
Proof. exact parse_top_safe. Qed.

(** every offset recorded by the closing-tag scan is a character boundary *)
Theorem C09_scan_boundaries : forall key s pre depth best,
  best_ok (pre ++ s) best -> best_ok (pre ++ s) (scan_gen true key s (blen pre) depth best).
Proof. exact scan_bnd. Qed.

(** the pre-fix parser panics on concrete inputs (splits past the end / inside a character) *)
Theorem C09_parse_old_refuted :
  model_parse_old [36;116;40;97;44]%N = Panic P_split_at /\
  model_parse_old [60;98;62;120;60;47;98;12288;62]%N = Panic P_slice.
Proof. split; vm_compute; reflexivity. Qed.

(** non-vacuity: the same inputs with the current parser *)
Example C09_parse_fixed_witness :
  model_parse [36;116;40;97;44]%N = Err E_UnexpectedToken /\
  exists v, model_parse [60;98;62;120;60;47;98;12288;62]%N = Ok v.
Proof. split; [vm_compute; reflexivity | eexists; vm_compute; reflexivity]. Qed.
