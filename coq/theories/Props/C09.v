(** Property C09 — loading translations never panics or hangs, whatever the files contain.
    This file holds only property theorems.

    WHAT IS PROVED.  String level: [C09_parse_total] (ParsedValue::new, every string, no panic, fuel adequacy) and
    [C09_scan_boundaries].  Range counts: [C09_range_count_total] (Range::new / from_u64,i64,f64 / RangeSeed::visit_seq, every
    input, no panic).  Proved in other property files over their own models: `find_value` never panics on a literal count
    (Props/C04.v, C09_find_value_never_panics) and plural merging of one level never panics (Props/C05.v, C05_conflicts).

    WHAT IS NOT PROVED.  There is no Coq model composing the whole loader (configuration, file front-ends, merge of locales,
    foreign-key resolution across plural merging, build-script API, code generation): the statement
    "forall cfg files, run cfg files is Ok or Err" of DESIGN §5 C09 is NOT established as a theorem.  For those stages the check
    (checks/C09.py, section "pipeline") gives correspondence + fault enumeration only: the enumerated malformed-project classes
    and a random malformed stream are run through parse_locales, leptos_i18n_build and the macro crate's code generator under
    catch_unwind, with stack-depth probes in child processes; the evidence records counts per stage and class. *)
From Coq Require Import List NArith Bool.
Import ListNotations.
From LI Require Import Base.StrOps Parser.Parse Parser.Json Parser.ParseCheck Parser.ParseTotal Parser.JsonProofs.
From LI Require Parser.Ranges.
From LI Require Parser.RangesTotal.

(** For EVERY string (well-formed or not), every identifier oracle and every JSON oracle that itself
    neither panics nor returns strings longer than its input, ParsedValue::new returns a value, a
    descriptive error or (only when an oracle says so) Unmodelled: never a panic - in particular no slice
    inside a character - and the recursion needs at most [length s + 2] nested calls (fuel adequacy), so
    it terminates with a depth linear in the input. *)
Theorem C09_parse_total : forall (idc : str -> idres) (json_args : str -> res (list (str * jarg))),
  (forall s, safe (json_args s)) ->
  (forall s l k a, json_args s = Ok l -> In (k, JString a) l -> (length a < length s)%nat) ->
  forall value, safe (parse idc json_args true (S (S (length value))) value).
Proof. exact parse_top_safe. Qed.

(** every offset recorded by the closing-tag scan is a character boundary *)
Theorem C09_scan_boundaries : forall key s pre depth best,
  best_ok (pre ++ s) best -> best_ok (pre ++ s) (scan_gen true key s (blen pre) depth best).
Proof. exact scan_bnd. Qed.

(** the pre-fix parser panics on concrete inputs (splits past the end / inside a character) *)
Theorem C09_parse_old_refuted :
  model_parse_old [36;116;40;97;44]%N = Panic P_split_at /\
  model_parse_old [60;98;62;120;60;47;98;12288;62]%N = Panic P_slice.
Proof. split; vm_compute; reflexivity. Qed.

(** non-vacuity: the same inputs with the current parser *)
Example C09_parse_fixed_witness :
  model_parse [36;116;40;97;44]%N = Err E_UnexpectedToken /\
  exists v, model_parse [60;98;62;120;60;47;98;12288;62]%N = Ok v.
Proof. split; [vm_compute; reflexivity | eexists; vm_compute; reflexivity]. Qed.

(** Pipeline, range declarations: a count given as a string (`"1..5 | 7"`, `"..=0.5"`, `"NaN"`, ...), as a JSON number of any
    size, or as arbitrarily nested lists of those, is turned into a range, a descriptive error, or Unmodelled (a float numeral
    the oracle table does not cover) — never a panic — for every declared type, before ([strict = false]) and after the
    non-finite repair. *)
Theorem C09_range_count_total : forall strict t tbl c site,
  Ranges.parse_count_g strict t tbl c <> Ranges.Panic site.
Proof. exact RangesTotal.parse_count_nopanic. Qed.

(** The instance the correspondence actually runs (ASCII-exact identifier check, the JSON argument
    reader of Parser/Json.v, current code) is closed: no hypothesis on oracles is left. *)
Theorem C09_model_parse_total : forall s, safe (model_parse s).
Proof. exact model_parse_safe. Qed.
