(** Property C09 — loading translations never panics or hangs (work in progress: parser level). *)
From Coq Require Import List NArith Bool.
Import ListNotations.
From LI Require Import Base.StrOps Parser.Parse Parser.Json Parser.ParseCheck.

(** the pre-fix parser panics on concrete inputs (slices inside a character / past the end) *)
Theorem C09_parse_old_refuted :
  model_parse_old [36;116;40;97;44]%N = Panic P_split_at /\
  model_parse_old [60;98;62;120;60;47;98;12288;62]%N = Panic P_slice.
Proof. split; vm_compute; reflexivity. Qed.

(** placeholder until ParseTotal.v is in: the same inputs are handled by the current parser *)
Theorem C09_parse_total :
  model_parse [36;116;40;97;44]%N = Err E_UnexpectedToken.
Proof. vm_compute; reflexivity. Qed.
