(** Property C03 — Missing keys fall back along the inheritance chain, then to the default.
    Only property theorems (each closed by [exact] of a lemma of Parser/MergeProofs.v),
    non-vacuity examples and the statement of the bridge that is proved only in part. *)
From Coq Require Import List NArith Bool.
Import ListNotations.
From LI Require Import Parser.Merge Parser.MergeProofs Parser.MergeCheck Parser.MergeWf Parser.MergeSpecProofs Parser.MergeResolves.
Open Scope N_scope.

(** DefaultedLocales::default_of is the `inherits` walk: for ANY finite inherits map (chains,
    forks, rho-shapes, self loops, cycles, inheritance from the default), if the mapping holds
    exactly the non-default locales that do not define the key (sent to the locale they inherit
    from, else to the default), then every locale resolves to the first locale of its walk that
    defines the key, and to the default when the walk ends or revisits a locale. *)
Theorem C03_default_of_spec : forall d (inh : loc -> option loc) (present : loc -> bool) (others : list loc) F l,
  (forall x, In x others ->
     map_get (dl_map d) x = if present x then @None loc else Some (match inh x with Some y => y | None => dl_default d end)) ->
  (forall x, ~ In x others -> map_get (dl_map d) x = None) ->
  ~ In (dl_default d) others -> present (dl_default d) = true ->
  (forall x y, inh x = Some y -> In x others /\ (y = dl_default d \/ In y others)) ->
  (S (length (dl_map d)) <= F)%nat -> (l = dl_default d \/ In l others) ->
  default_of d l = first_defined inh present (dl_default d) F l.
Proof. exact default_of_first_defined. Qed.

(** the same, end to end on the model of check_locales_inner: after all locales are merged,
    for every value path [q] of the builder keys the payload is the default locale's, the
    mapping holds exactly the non-defining non-default locales, and default_of is the walk
    over the configuration's `inherits` table (fuel = number of locales) *)
Theorem C03_resolution : forall ext suppress ns dflt df rest ks ws,
  check_locales_inner ext suppress ns ((dflt, df) :: rest) = Ok (ks, ws) ->
  NoDup (dflt :: map fst rest) ->
  (forall x y, map_get ext x = Some y -> In x (map fst rest) /\ (y = dflt \/ In y (map fst rest))) ->
  forall q pay d, bks_leaf ks q = Some (pay, d) ->
    payload_at df q = Some pay /\ dl_default d = dflt
    /\ (forall x, map_get (dl_map d) x =
          if mem x (map fst rest) && negb (defines (files_get ((dflt, df) :: rest) x) q)
          then Some (match map_get ext x with Some y => y | None => dflt end) else None)
    /\ forall l, l = dflt \/ In l (map fst rest) ->
         default_of d l =
         first_defined (map_get ext) (fun x => defines (files_get ((dflt, df) :: rest) x) q) dflt
                       (length ((dflt, df) :: rest)) l.
Proof. exact check_locales_inner_resolution. Qed.

(** the visited-set loop never runs out of its fuel (no silent OutOfFuel) *)
Theorem C03_default_of_total : forall d l, exists r, default_of_opt d l = Some r.
Proof. intros d l. destruct (default_of_inner_fuel d l) as [r [H _]]. eauto. Qed.

(** compute(): a defaulted locale sits in the set of exactly its resolved target; no target
    is itself a defaulted locale *)
Theorem C03_compute_partition : forall d,
  map_get (dl_map d) (dl_default d) = None ->
  (forall t x, gmem (compute d) t x <-> In x (map fst (dl_map d)) /\ default_of d x = t)
  /\ (forall t, In t (map fst (compute d)) -> map_get (dl_map d) t = None).
Proof. exact compute_partition. Qed.

(** ... and on the model of check_locales_inner every target is a configured locale whose file
    defines the key: with the defining locales' own arms the generated match is exhaustive *)
Theorem C03_compute_targets : forall ext suppress ns dflt df rest ks ws,
  check_locales_inner ext suppress ns ((dflt, df) :: rest) = Ok (ks, ws) ->
  NoDup (dflt :: map fst rest) ->
  (forall x y, map_get ext x = Some y -> In x (map fst rest) /\ (y = dflt \/ In y (map fst rest))) ->
  forall q pay d, bks_leaf ks q = Some (pay, d) ->
  forall t, In t (map fst (compute d)) ->
    (t = dflt \/ In t (map fst rest)) /\ defines (files_get ((dflt, df) :: rest) t) q = true.
Proof. exact check_locales_inner_targets. Qed.

(** the rule is applied uniformly below an absent or null subkey group: every value path under
    the group receives the same entry (locale -> its default_to) *)
Theorem C03_uniform : forall suppress top dt ns ks f path ks' ws,
  merge_locale suppress top dt ns ks f path = Ok (ks', ws) ->
  forall g, g <> [] -> (forest_at f g = None \/ forest_at f g = Some Null) ->
  forall q' pay d, bks_leaf ks (g ++ q') = Some (pay, d) ->
    bks_leaf ks' (g ++ q') = Some (pay, dl_push d top (dt_key dt)).
Proof. exact merge_uniform. Qed.

(** the default locale (never in the mapping) resolves to itself *)
Theorem C03_default_never_inherits : forall d l, map_get (dl_map d) l = None -> default_of d l = l.
Proof. exact default_of_unmapped. Qed.

(** Bridge between the theorems and the executable predicate the correspondence evaluates:
    on every well-formed case ([wf_strict]: every namespace lists the default first, locale names
    distinct, `inherits` only names listed locales and never the default as key, namespaces
    distinct, no object of a file holds a key twice) the model's answer satisfies [spec_C03]. *)
Theorem C03_spec : forall c, wf_strict c = true -> spec_C03 c (model_result c) = true.
Proof. exact spec_C03_holds. Qed.

(** the fallback rule as an inductive relation ([Resolves], Parser/MergeResolves.v: stop at the
    first defining locale; the default when the walk ends or would revisit a locale) coincides
    with the function [first_defined] of the specification as soon as the fuel covers the number
    of locales *)
Theorem C03_resolves_iff : forall (inh : loc -> option loc) (present : loc -> bool) (dflt : loc) (U : list loc),
  (forall x y, inh x = Some y -> In y U) ->
  forall F l r, In l U -> (length U <= F)%nat ->
    (Resolves inh present dflt [] l r <-> r = first_defined inh present dflt F l).
Proof. exact resolves_iff. Qed.

(** a value whose text is empty (payload [empty_text]: "" or only `$t` references to "") is still
    defined: its locale resolves to itself, merging it never registers the locale in the
    DefaultedLocales, and in the default locale it is an ordinary value (not ExplicitDefaultInDefault) *)
Theorem C03_empty_is_defined :
  (forall f p, payload_at f p = Some empty_text -> defines f p = true)
  /\ (forall suppress top dt ns pay d path,
        merge_value suppress top dt ns (BValue pay d) (Leaf empty_text) path = Ok (BValue pay d, []))
  /\ (forall dflt ns path, mk_value dflt ns path (Leaf empty_text) = Ok (BValue empty_text (dl_new dflt))).
Proof. exact empty_is_defined. Qed.

(** non-vacuity: a 2-cycle de <-> fr below the default en; key 1 defined by fr only, key 2 by nobody *)
Definition ex_files : list (loc * forest) :=
  [(2, FCons 1 (Leaf 10) (FCons 2 (Leaf 11) FNil)); (1, FNil); (3, FCons 1 (Leaf 12) FNil)].
Definition ex_case : case := mk_case false [(1, 3); (3, 1)] [(None, ex_files)] IOther.
Example C03_example_wf : wf_strict ex_case = true.
Proof. vm_compute. reflexivity. Qed.
Example C03_example_spec : spec_C03 ex_case (model_result ex_case) = true.
Proof. vm_compute. reflexivity. Qed.
Example C03_example_resolution :
  match check_locales_inner [(1, 3); (3, 1)] false None ex_files with
  | Ok (ks, _) =>
      match bks_leaf ks [1], bks_leaf ks [2] with
      | Some (_, d1), Some (_, d2) =>
          (default_of d1 1, default_of d1 3, default_of d2 1, default_of d2 3, compute d2) = (3, 3, 2, 2, [(2, [1; 3])])
      | _, _ => False
      end
  | _ => False
  end.
Proof. vm_compute. reflexivity. Qed.
