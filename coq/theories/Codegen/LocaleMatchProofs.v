(** Both back-ends select, for every locale, the value of the locale [DefaultedLocales::compute] assigns (C02). *)
From Coq Require Import List NArith Bool Arith Lia.
Import ListNotations.
From LI Require Import Base.StrOps Parser.Parse Parser.Merge Parser.MergeProofs Codegen.Target Codegen.LocaleMatch.
Open Scope N_scope.

Lemma existsb_eqb_In : forall l s, existsb (N.eqb l) s = true <-> In l s.
Proof.
  intros l s. rewrite existsb_exists. split.
  - intros [x [Hx E]]. apply N.eqb_eq in E. subst. exact Hx.
  - intros H. exists l. split; [exact H|apply N.eqb_refl].
Qed.

Lemma group_get_gmem : forall g t x, In x (group_get g t) <-> gmem g t x.
Proof.
  intros g t x. unfold group_get, gmem. rewrite in_flat_map. split.
  - intros [[t' s] [Hin Hx]]. cbn [fst snd] in Hx. destruct (t' =? t) eqn:E; [|destruct Hx].
    apply N.eqb_eq in E. subst. exists s. split; assumption.
  - intros [s [Hin Hx]]. exists (t, s). split; [exact Hin|]. cbn [fst snd]. rewrite N.eqb_refl. exact Hx.
Qed.

Lemma pat_covers_iff : forall g l t, pat_covers l (t, group_get g t) = true <-> l = t \/ gmem g t l.
Proof.
  intros g l t. unfold pat_covers. cbn [fst snd]. rewrite orb_true_iff, N.eqb_eq, existsb_eqb_In, group_get_gmem. reflexivity.
Qed.

(** a `match` whose arms do not overlap on [l] takes the one arm that covers it, whatever the order of the arms *)
Lemma locale_match_unique : forall {V} (arms : list (arm_pat * V)) l a,
  In a arms -> pat_covers l (fst a) = true ->
  (forall b, In b arms -> pat_covers l (fst b) = true -> snd b = snd a) ->
  locale_match arms l = Some (snd a).
Proof.
  intros V. induction arms as [|[p v] r IH]; intros l a Hin Hc Hu; [destruct Hin|].
  cbn [locale_match]. destruct (pat_covers l p) eqn:E.
  - f_equal. apply (Hu (p, v)); [left; reflexivity|exact E].
  - destruct Hin as [Heq|Hin]; [subst a; cbn [fst] in Hc; congruence|].
    apply IH; [exact Hin|exact Hc|]. intros b Hb. apply Hu. right. exact Hb.
Qed.

Lemma assoc_get_In : forall {V} (l : list (N * V)) k v, assoc_get l k = Some v -> In (k, v) l.
Proof.
  intros V. induction l as [|[k' v'] r IH]; intros k v H; [discriminate|]. cbn [assoc_get] in H.
  destruct (k =? k') eqn:E; [apply N.eqb_eq in E; inversion H; subst; left; reflexivity|right; apply IH; exact H].
Qed.

Lemma NoDup_fst_unique : forall {V} (l : list (N * V)) k v w, NoDup (map fst l) -> In (k, v) l -> In (k, w) l -> v = w.
Proof.
  intros V. induction l as [|[k' v'] r IH]; intros k v w Hnd Hv Hw; [destruct Hv|].
  cbn [map fst] in Hnd. inversion Hnd as [|? ? Hnot Hnd']; subst.
  destruct Hv as [Ev|Hv]; destruct Hw as [Ew|Hw].
  - inversion Ev; inversion Ew; subst. reflexivity.
  - inversion Ev; subst. exfalso. apply Hnot. apply (in_map fst) in Hw. exact Hw.
  - inversion Ew; subst. exfalso. apply Hnot. apply (in_map fst) in Hv. exact Hv.
  - apply (IH k v w Hnd' Hv Hw).
Qed.

Section Defaulted.
  Variable d : dl.
  Variable V : Type.
  Variable defs : list (N * V).               (* the locales that define the key, with their values *)
  Hypothesis defs_nodup : NoDup (map fst defs).
  Hypothesis default_unmapped : map_get (dl_map d) (dl_default d) = None.
  (** a locale is in the mapping exactly when it does not define the key ... *)
  Hypothesis defs_unmapped : forall t, In t (map fst defs) -> map_get (dl_map d) t = None.

  Let defines (l : N) : bool := existsb (N.eqb l) (map fst defs).

  Lemma covers_effective : forall l t,
    In t (map fst defs) -> (In l (map fst defs) \/ In l (map fst (dl_map d))) ->
    (pat_covers l (t, group_get (compute d) t) = true <-> effective d defines l = t).
  Proof.
    intros l t Ht Hl. rewrite pat_covers_iff. destruct (compute_partition d default_unmapped) as [Hg _].
    rewrite Hg. unfold effective, defines. destruct (existsb (N.eqb l) (map fst defs)) eqn:E.
    - apply existsb_eqb_In in E. split.
      + intros [H|[Hm _]]; [exact H|]. exfalso. apply defs_unmapped in E.
        apply In_map_get_Some in Hm. destruct Hm as [v Hv]. congruence.
      + intros H. left. exact H.
    - assert (Hn : ~ In l (map fst defs)).
      { intros Hin. apply existsb_eqb_In in Hin. congruence. }
      split.
      + intros [H|[_ H]]; [subst; contradiction|exact H].
      + intros H. right. split; [|exact H]. destruct Hl as [Hl|Hl]; [contradiction|exact Hl].
  Qed.

  (** any ordering of the arms (forward for the literal accessors, reversed for the view and the string
      implementation) and any transformation of the values (gen_view, gen_string, the literal itself) *)
  Lemma match_selects_effective : forall (W : Type) (g : V -> W) (arms : list (N * W)) l v,
    (forall t w, In (t, w) arms <-> exists v', In (t, v') defs /\ w = g v') ->
    (In l (map fst defs) \/ In l (map fst (dl_map d))) ->
    assoc_get defs (effective d defines l) = Some v ->
    locale_match (build_arms (compute d) arms) l = Some (g v).
  Proof.
    intros W g arms l v Harms Hl Hv. apply assoc_get_In in Hv.
    assert (Ht : In (effective d defines l) (map fst defs)) by (apply (in_map fst) in Hv; exact Hv).
    assert (Ha : In ((effective d defines l, group_get (compute d) (effective d defines l)), g v) (build_arms (compute d) arms)).
    { unfold build_arms. apply in_map_iff. exists (effective d defines l, g v). split; [reflexivity|].
      apply Harms. exists v. split; [exact Hv|reflexivity]. }
    apply (locale_match_unique _ l _ Ha).
    - cbn [fst]. apply covers_effective; [exact Ht|exact Hl|reflexivity].
    - intros [[t s] w] Hb Hc. cbn [fst snd] in *. unfold build_arms in Hb. apply in_map_iff in Hb.
      destruct Hb as [[t' w'] [E Hb]]. cbn [fst snd] in E. inversion E; subst t' w' s.
      apply Harms in Hb. destruct Hb as [v' [Hv' Ew]]. subst w.
      assert (Ht' : In t (map fst defs)) by (apply (in_map fst) in Hv'; exact Hv').
      apply covers_effective in Hc; [|exact Ht'|exact Hl]. subst t.
      f_equal. apply (NoDup_fst_unique defs _ _ _ defs_nodup Hv' Hv).
  Qed.
End Defaulted.

Lemma in_rev_map_iff : forall {V W} (g : V -> W) (defs : list (N * V)) t w,
  In (t, w) (rev (map (fun x => (fst x, g (snd x))) defs)) <-> exists v', In (t, v') defs /\ w = g v'.
Proof.
  intros V W g defs t w. rewrite <- in_rev, in_map_iff. split.
  - intros [[t' v'] [E Hin]]. cbn [fst snd] in E. inversion E; subst. exists v'. split; [exact Hin|reflexivity].
  - intros [v' [Hin E]]. subst. exists (t, v'). split; [reflexivity|exact Hin].
Qed.

(** C02_defaulted_agree *)
Theorem defaulted_agree : forall (d : dl) (defs : list (N * pv)),
  NoDup (map fst defs) -> map_get (dl_map d) (dl_default d) = None ->
  (forall t, In t (map fst defs) -> map_get (dl_map d) t = None) ->
  forall l v,
  (In l (map fst defs) \/ In l (map fst (dl_map d))) ->
  assoc_get defs (effective d (fun l => existsb (N.eqb l) (map fst defs)) l) = Some v ->
  view_locale_match (compute d) defs l = Some (gen_view v)
  /\ string_locale_match (compute d) defs l = Some (gen_string v).
Proof.
  intros d defs Hnd Hdef Hun l v Hl Hv. unfold view_locale_match, string_locale_match. split.
  - apply (match_selects_effective d pv defs Hnd Hdef Hun tv gen_view); [apply in_rev_map_iff|exact Hl|exact Hv].
  - apply (match_selects_effective d pv defs Hnd Hdef Hun ts gen_string); [apply in_rev_map_iff|exact Hl|exact Hv].
Qed.

Theorem defaulted_literal : forall (d : dl) (defs : list (N * lit)),
  NoDup (map fst defs) -> map_get (dl_map d) (dl_default d) = None ->
  (forall t, In t (map fst defs) -> map_get (dl_map d) t = None) ->
  forall l v,
  (In l (map fst defs) \/ In l (map fst (dl_map d))) ->
  assoc_get defs (effective d (fun l => existsb (N.eqb l) (map fst defs)) l) = Some v ->
  literal_locale_match (compute d) defs l = Some v.
Proof.
  intros d defs Hnd Hdef Hun l v Hl Hv. unfold literal_locale_match.
  apply (match_selects_effective d lit defs Hnd Hdef Hun lit (fun x => x)); [|exact Hl|exact Hv].
  intros t w. split.
  - intros H. exists w. split; [exact H|reflexivity].
  - intros [v' [H E]]. subst. exact H.
Qed.

(** the locale a locale shows is the first locale of its `inherits` walk that defines the key, else the default
    (by C03's theorem on DefaultedLocales::default_of) *)
Theorem effective_is_walk : forall d (inh : loc -> option loc) (present : loc -> bool) (others : list loc) F l,
  (forall x, In x others ->
     map_get (dl_map d) x = if present x then @None loc else Some (match inh x with Some y => y | None => dl_default d end)) ->
  (forall x, ~ In x others -> map_get (dl_map d) x = None) ->
  ~ In (dl_default d) others -> present (dl_default d) = true ->
  (forall x y, inh x = Some y -> In x others /\ (y = dl_default d \/ In y others)) ->
  (S (length (dl_map d)) <= F)%nat -> (l = dl_default d \/ In l others) ->
  effective d present l = first_defined inh present (dl_default d) F l.
Proof.
  intros d inh present others F l H1 H2 H3 H4 H5 HF Hl. unfold effective. destruct (present l) eqn:E.
  - symmetry. apply first_defined_present. exact E.
  - apply (default_of_first_defined d inh present others F l); assumption.
Qed.

(** ** the mapping built while merging, on a configuration *)

Definition target_of (dflt : N) (inherits : list (N * N)) (x : N) : N :=
  match map_get inherits x with Some y => y | None => dflt end.
Definition push_step (dflt : N) (inherits : list (N * N)) (defines : N -> bool) (d : dl) (x : N) : dl :=
  if defines x then d else dl_push d x (target_of dflt inherits x).

Lemma defaults_of_fold : forall dflt inherits others defines,
  defaults_of dflt inherits others defines = fold_left (push_step dflt inherits defines) others (dl_new dflt).
Proof. reflexivity. Qed.

Lemma defaults_fold_get : forall dflt inherits defines others d0 x,
  map_get (dl_map (fold_left (push_step dflt inherits defines) others d0)) x
  = if mem x others && negb (defines x) then Some (target_of dflt inherits x) else map_get (dl_map d0) x.
Proof.
  intros dflt inherits defines. induction others as [|y r IH]; intros d0 x; [reflexivity|].
  cbn [fold_left]. rewrite IH. unfold mem. cbn [existsb]. fold (mem x r).
  destruct (mem x r && negb (defines x)) eqn:E.
  - apply andb_true_iff in E. destruct E as [E1 E2]. rewrite E1, E2, orb_true_r. reflexivity.
  - unfold push_step. destruct (defines y) eqn:Dy.
    + destruct (x =? y) eqn:Exy.
      * apply N.eqb_eq in Exy. subst. rewrite Dy. cbn [negb]. rewrite andb_false_r. reflexivity.
      * cbn [orb]. rewrite E. reflexivity.
    + destruct (x =? y) eqn:Exy.
      * apply N.eqb_eq in Exy. subst. rewrite Dy. cbn [orb negb andb]. unfold dl_push. cbn [dl_map]. apply map_get_insert_same.
      * cbn [orb]. rewrite E. unfold dl_push. cbn [dl_map]. apply map_get_insert_other. apply N.eqb_neq. exact Exy.
Qed.

Lemma defaults_fold_default : forall dflt inherits defines others d0,
  dl_default (fold_left (push_step dflt inherits defines) others d0) = dl_default d0.
Proof.
  intros dflt inherits defines. induction others as [|y r IH]; intros d0; [reflexivity|].
  cbn [fold_left]. rewrite IH. unfold push_step. destruct (defines y); reflexivity.
Qed.

Lemma defaults_fold_length : forall dflt inherits defines others d0,
  (length (dl_map (fold_left (push_step dflt inherits defines) others d0)) <= length (dl_map d0) + length others)%nat.
Proof.
  intros dflt inherits defines. induction others as [|y r IH]; intros d0; [cbn [fold_left length]; lia|].
  cbn [fold_left length]. eapply Nat.le_trans; [apply IH|]. unfold push_step. destruct (defines y); [lia|].
  unfold dl_push. cbn [dl_map]. pose proof (map_insert_length (dl_map d0) y (target_of dflt inherits y)). lia.
Qed.

Lemma assoc_get_some : forall {V} (l : list (N * V)) k, In k (map fst l) -> exists v, assoc_get l k = Some v.
Proof.
  intros V. induction l as [|[k' v'] r IH]; intros k H; [destruct H|]. cbn [assoc_get].
  destruct (k =? k') eqn:E; [eexists; reflexivity|]. apply IH. destruct H as [H|H]; [|exact H].
  cbn [fst] in H. subst. rewrite N.eqb_refl in E. discriminate.
Qed.

(** C02_defaulted_config: on a configuration (default locale, the other locales, the `inherits` table) and the
    values of the locales that define a key, both generated matches give every configured locale the code of
    the value of the first locale of its inherits walk that defines the key, else the default's *)
Theorem defaulted_config : forall (dflt : N) (inherits : list (N * N)) (others : list N) (defs : list (N * pv)),
  NoDup (map fst defs) -> ~ In dflt others -> In dflt (map fst defs) ->
  (forall t, In t (map fst defs) -> t = dflt \/ In t others) ->
  (forall x y, map_get inherits x = Some y -> In x others /\ (y = dflt \/ In y others)) ->
  let defines := fun l => existsb (N.eqb l) (map fst defs) in
  let d := defaults_of dflt inherits others defines in
  forall l, (l = dflt \/ In l others) ->
  exists v, assoc_get defs (first_defined (map_get inherits) defines dflt (S (length others)) l) = Some v
            /\ view_locale_match (compute d) defs l = Some (gen_view v)
            /\ string_locale_match (compute d) defs l = Some (gen_string v).
Proof.
  intros dflt inherits others defs Hnd Hdo Hdd Hdefs Hinh defines d l Hl.
  assert (Hdef_iff : forall t, defines t = true <-> In t (map fst defs)) by (intros t; apply existsb_eqb_In).
  assert (Hget : forall x, map_get (dl_map d) x = if mem x others && negb (defines x) then Some (target_of dflt inherits x) else None).
  { intros x. subst d. rewrite defaults_of_fold, defaults_fold_get. reflexivity. }
  assert (Hdflt : dl_default d = dflt) by (subst d; rewrite defaults_of_fold; apply defaults_fold_default).
  assert (Hlen : (length (dl_map d) <= length others)%nat).
  { subst d. rewrite defaults_of_fold. pose proof (defaults_fold_length dflt inherits defines others (dl_new dflt)) as H. cbn [dl_new dl_map length] in H. exact H. }
  assert (Hmem_others : forall x, mem x others = true <-> In x others) by (intros x; apply mem_In).
  assert (Heff : effective d defines l = first_defined (map_get inherits) defines dflt (S (length others)) l).
  { rewrite <- Hdflt. apply (effective_is_walk d (map_get inherits) defines others).
    - intros x Hx. rewrite Hget. apply Hmem_others in Hx. rewrite Hx. cbn [andb]. rewrite Hdflt.
      destruct (defines x); reflexivity.
    - intros x Hx. rewrite Hget. destruct (mem x others) eqn:E; [apply Hmem_others in E; contradiction|reflexivity].
    - rewrite Hdflt. exact Hdo.
    - rewrite Hdflt. apply Hdef_iff. exact Hdd.
    - rewrite Hdflt. exact Hinh.
    - lia.
    - rewrite Hdflt. exact Hl. }
  assert (Hin : In (first_defined (map_get inherits) defines dflt (S (length others)) l) (map fst defs)).
  { pose proof (first_defined_cases (map_get inherits) defines dflt (S (length others)) l) as Hc. cbn zeta in Hc.
    destruct Hc as [Hc|Hc]; [apply Hdef_iff; exact Hc|rewrite Hc; exact Hdd]. }
  destruct (assoc_get_some defs _ Hin) as [v Hv]. exists v. split; [exact Hv|].
  apply (defaulted_agree d defs Hnd).
  - rewrite Hdflt, Hget. destruct (mem dflt others) eqn:E; [apply Hmem_others in E; contradiction|reflexivity].
  - intros t Ht. rewrite Hget. apply Hdef_iff in Ht. rewrite Ht. cbn [negb]. rewrite andb_false_r. reflexivity.
  - destruct (defines l) eqn:Dl; [left; apply Hdef_iff; exact Dl|]. right.
    assert (Hlo : In l others).
    { destruct Hl as [Hl|Hl]; [|exact Hl]. subst l. apply Hdef_iff in Hdd. congruence. }
    apply (map_get_Some_In _ _ (target_of dflt inherits l)). rewrite Hget.
    apply Hmem_others in Hlo. rewrite Hlo, Dl. reflexivity.
  - fold defines. rewrite Heff. exact Hv.
Qed.
