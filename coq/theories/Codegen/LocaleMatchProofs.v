(** Both back-ends select, for every locale, the value of the locale [DefaultedLocales::compute] assigns (C02). *)
From Coq Require Import List NArith Bool Arith Lia.
Import ListNotations.
From LI Require Import Base.StrOps Parser.Parse Parser.Merge Parser.MergeProofs Codegen.Target Codegen.LocaleMatch.
Open Scope N_scope.

Lemma existsb_eqb_In : forall l s, existsb (N.eqb l) s = true <-> In l s.
Proof.
  intros l s. rewrite existsb_exists. split.
  - intros [x [Hx E]]. apply N.eqb_eq in E. subst. exact Hx.
  - intros H. exists l. split; [exact H|apply N.eqb_refl].
Qed.

Lemma group_get_gmem : forall g t x, In x (group_get g t) <-> gmem g t x.
Proof.
  intros g t x. unfold group_get, gmem. rewrite in_flat_map. split.
  - intros [[t' s] [Hin Hx]]. cbn [fst snd] in Hx. destruct (t' =? t) eqn:E; [|destruct Hx].
    apply N.eqb_eq in E. subst. exists s. split; assumption.
  - intros [s [Hin Hx]]. exists (t, s). split; [exact Hin|]. cbn [fst snd]. rewrite N.eqb_refl. exact Hx.
Qed.

Lemma pat_covers_iff : forall g l t, pat_covers l (t, group_get g t) = true <-> l = t \/ gmem g t l.
Proof.
  intros g l t. unfold pat_covers. cbn [fst snd]. rewrite orb_true_iff, N.eqb_eq, existsb_eqb_In, group_get_gmem. reflexivity.
Qed.

(** a `match` whose arms do not overlap on [l] takes the one arm that covers it, whatever the order of the arms *)
Lemma locale_match_unique : forall {V} (arms : list (arm_pat * V)) l a,
  In a arms -> pat_covers l (fst a) = true ->
  (forall b, In b arms -> pat_covers l (fst b) = true -> snd b = snd a) ->
  locale_match arms l = Some (snd a).
Proof.
  intros V. induction arms as [|[p v] r IH]; intros l a Hin Hc Hu; [destruct Hin|].
  cbn [locale_match]. destruct (pat_covers l p) eqn:E.
  - f_equal. apply (Hu (p, v)); [left; reflexivity|exact E].
  - destruct Hin as [Heq|Hin]; [subst a; cbn [fst] in Hc; congruence|].
    apply IH; [exact Hin|exact Hc|]. intros b Hb. apply Hu. right. exact Hb.
Qed.

Lemma assoc_get_In : forall {V} (l : list (N * V)) k v, assoc_get l k = Some v -> In (k, v) l.
Proof.
  intros V. induction l as [|[k' v'] r IH]; intros k v H; [discriminate|]. cbn [assoc_get] in H.
  destruct (k =? k') eqn:E; [apply N.eqb_eq in E; inversion H; subst; left; reflexivity|right; apply IH; exact H].
Qed.

Lemma NoDup_fst_unique : forall {V} (l : list (N * V)) k v w, NoDup (map fst l) -> In (k, v) l -> In (k, w) l -> v = w.
Proof.
  intros V. induction l as [|[k' v'] r IH]; intros k v w Hnd Hv Hw; [destruct Hv|].
  cbn [map fst] in Hnd. inversion Hnd as [|? ? Hnot Hnd']; subst.
  destruct Hv as [Ev|Hv]; destruct Hw as [Ew|Hw].
  - inversion Ev; inversion Ew; subst. reflexivity.
  - inversion Ev; subst. exfalso. apply Hnot. apply (in_map fst) in Hw. exact Hw.
  - inversion Ew; subst. exfalso. apply Hnot. apply (in_map fst) in Hv. exact Hv.
  - apply (IH k v w Hnd' Hv Hw).
Qed.

Section Defaulted.
  Variable d : dl.
  Variable V : Type.
  Variable defs : list (N * V).               (* the locales that define the key, with their values *)
  Hypothesis defs_nodup : NoDup (map fst defs).
  Hypothesis default_unmapped : map_get (dl_map d) (dl_default d) = None.
  (** a locale is in the mapping exactly when it does not define the key ... *)
  Hypothesis defs_unmapped : forall t, In t (map fst defs) -> map_get (dl_map d) t = None.

  Let defines (l : N) : bool := existsb (N.eqb l) (map fst defs).

  Lemma covers_effective : forall l t,
    In t (map fst defs) -> (In l (map fst defs) \/ In l (map fst (dl_map d))) ->
    (pat_covers l (t, group_get (compute d) t) = true <-> effective d defines l = t).
  Proof.
    intros l t Ht Hl. rewrite pat_covers_iff. destruct (compute_partition d default_unmapped) as [Hg _].
    rewrite Hg. unfold effective, defines. destruct (existsb (N.eqb l) (map fst defs)) eqn:E.
    - apply existsb_eqb_In in E. split.
      + intros [H|[Hm _]]; [exact H|]. exfalso. apply defs_unmapped in E.
        apply In_map_get_Some in Hm. destruct Hm as [v Hv]. congruence.
      + intros H. left. exact H.
    - assert (Hn : ~ In l (map fst defs)).
      { intros Hin. apply existsb_eqb_In in Hin. congruence. }
      split.
      + intros [H|[_ H]]; [subst; contradiction|exact H].
      + intros H. right. split; [|exact H]. destruct Hl as [Hl|Hl]; [contradiction|exact Hl].
  Qed.

  (** any ordering of the arms (forward for the literal accessors, reversed for the view and the string
      implementation) and any transformation of the values (gen_view, gen_string, the literal itself) *)
  Lemma match_selects_effective : forall (W : Type) (g : V -> W) (arms : list (N * W)) l v,
    (forall t w, In (t, w) arms <-> exists v', In (t, v') defs /\ w = g v') ->
    (In l (map fst defs) \/ In l (map fst (dl_map d))) ->
    assoc_get defs (effective d defines l) = Some v ->
    locale_match (build_arms (compute d) arms) l = Some (g v).
  Proof.
    intros W g arms l v Harms Hl Hv. apply assoc_get_In in Hv.
    assert (Ht : In (effective d defines l) (map fst defs)) by (apply (in_map fst) in Hv; exact Hv).
    assert (Ha : In ((effective d defines l, group_get (compute d) (effective d defines l)), g v) (build_arms (compute d) arms)).
    { unfold build_arms. apply in_map_iff. exists (effective d defines l, g v). split; [reflexivity|].
      apply Harms. exists v. split; [exact Hv|reflexivity]. }
    apply (locale_match_unique _ l _ Ha).
    - cbn [fst]. apply covers_effective; [exact Ht|exact Hl|reflexivity].
    - intros [[t s] w] Hb Hc. cbn [fst snd] in *. unfold build_arms in Hb. apply in_map_iff in Hb.
      destruct Hb as [[t' w'] [E Hb]]. cbn [fst snd] in E. inversion E; subst t' w' s.
      apply Harms in Hb. destruct Hb as [v' [Hv' Ew]]. subst w.
      assert (Ht' : In t (map fst defs)) by (apply (in_map fst) in Hv'; exact Hv').
      apply covers_effective in Hc; [|exact Ht'|exact Hl]. subst t.
      f_equal. apply (NoDup_fst_unique defs _ _ _ defs_nodup Hv' Hv).
  Qed.
End Defaulted.

Lemma in_rev_map_iff : forall {V W} (g : V -> W) (defs : list (N * V)) t w,
  In (t, w) (rev (map (fun x => (fst x, g (snd x))) defs)) <-> exists v', In (t, v') defs /\ w = g v'.
Proof.
  intros V W g defs t w. rewrite <- in_rev, in_map_iff. split.
  - intros [[t' v'] [E Hin]]. cbn [fst snd] in E. inversion E; subst. exists v'. split; [exact Hin|reflexivity].
  - intros [v' [Hin E]]. subst. exists (t, v'). split; [reflexivity|exact Hin].
Qed.

(** C02_defaulted_agree *)
Theorem defaulted_agree : forall (d : dl) (defs : list (N * pv)),
  NoDup (map fst defs) -> map_get (dl_map d) (dl_default d) = None ->
  (forall t, In t (map fst defs) -> map_get (dl_map d) t = None) ->
  forall l v,
  (In l (map fst defs) \/ In l (map fst (dl_map d))) ->
  assoc_get defs (effective d (fun l => existsb (N.eqb l) (map fst defs)) l) = Some v ->
  view_locale_match (compute d) defs l = Some (gen_view v)
  /\ string_locale_match (compute d) defs l = Some (gen_string v).
Proof.
  intros d defs Hnd Hdef Hun l v Hl Hv. unfold view_locale_match, string_locale_match. split.
  - apply (match_selects_effective d pv defs Hnd Hdef Hun tv gen_view); [apply in_rev_map_iff|exact Hl|exact Hv].
  - apply (match_selects_effective d pv defs Hnd Hdef Hun ts gen_string); [apply in_rev_map_iff|exact Hl|exact Hv].
Qed.

Theorem defaulted_literal : forall (d : dl) (defs : list (N * lit)),
  NoDup (map fst defs) -> map_get (dl_map d) (dl_default d) = None ->
  (forall t, In t (map fst defs) -> map_get (dl_map d) t = None) ->
  forall l v,
  (In l (map fst defs) \/ In l (map fst (dl_map d))) ->
  assoc_get defs (effective d (fun l => existsb (N.eqb l) (map fst defs)) l) = Some v ->
  literal_locale_match (compute d) defs l = Some v.
Proof.
  intros d defs Hnd Hdef Hun l v Hl Hv. unfold literal_locale_match.
  apply (match_selects_effective d lit defs Hnd Hdef Hun lit (fun x => x)); [|exact Hl|exact Hv].
  intros t w. split.
  - intros H. exists w. split; [exact H|reflexivity].
  - intros [v' [H E]]. subst. exact H.
Qed.

(** the locale a locale shows is the first locale of its `inherits` walk that defines the key, else the default
    (by C03's theorem on DefaultedLocales::default_of) *)
Theorem effective_is_walk : forall d (inh : loc -> option loc) (present : loc -> bool) (others : list loc) F l,
  (forall x, In x others ->
     map_get (dl_map d) x = if present x then @None loc else Some (match inh x with Some y => y | None => dl_default d end)) ->
  (forall x, ~ In x others -> map_get (dl_map d) x = None) ->
  ~ In (dl_default d) others -> present (dl_default d) = true ->
  (forall x y, inh x = Some y -> In x others /\ (y = dl_default d \/ In y others)) ->
  (S (length (dl_map d)) <= F)%nat -> (l = dl_default d \/ In l others) ->
  effective d present l = first_defined inh present (dl_default d) F l.
Proof.
  intros d inh present others F l H1 H2 H3 H4 H5 HF Hl. unfold effective. destruct (present l) eqn:E.
  - symmetry. apply first_defined_present. exact E.
  - apply (default_of_first_defined d inh present others F l); assumption.
Qed.
