(** Which locale the formatters of a DEFAULTED key use — property C18.
    The builder of an interpolated key stores the requested locale in its field `_locale`; the generated
    `match _locale { L::t | L::d1 | .. => <code of t's value> }` (model: Codegen/Target.v [locale_match],
    [view_locale_match], [string_locale_match]; groups from [DefaultedLocales::compute]) selects the code of the
    locale the value is taken from, and the formatter calls inside that code
    (`format_number_to_view(_locale, ..)`, `format_date_to_formatter(__formatter, *_locale, ..)`,
    leptos_i18n_macro/src/utils/formatter.rs) read `_locale` - the locale being rendered, not the arm's.
    [ev loc code] is the result of running an arm body with `_locale` bound to [loc] (ICU4X: an oracle).
    [exec_*_rebind] is the variant in which every arm re-binds `_locale` to its own locale (kept to be refuted).
    No proofs in this file. *)
From Coq Require Import List NArith Bool.
Import ListNotations.
From LI Require Import Base.StrOps Parser.Parse Parser.Merge Codegen.Target.
Open Scope N_scope.

Section Exec.
  Variable out : Type.
  Variable ev_view : N -> tv -> out.
  Variable ev_string : N -> ts -> out.

  Definition exec_view (groups : list (N * list N)) (defs : list (N * pv)) (requested : N) : option out :=
    match view_locale_match groups defs requested with
    | Some code => Some (ev_view requested code)
    | None => None
    end.
  Definition exec_string (groups : list (N * list N)) (defs : list (N * pv)) (requested : N) : option out :=
    match string_locale_match groups defs requested with
    | Some code => Some (ev_string requested code)
    | None => None
    end.

  (** the first arm that accepts the scrutinee, with the locale the arm was generated for *)
  Fixpoint locale_match_arm {V} (arms : list (arm_pat * V)) (l : N) : option (N * V) :=
    match arms with
    | [] => None
    | (p, v) :: r => if pat_covers l p then Some (fst p, v) else locale_match_arm r l
    end.
  Definition exec_view_rebind (groups : list (N * list N)) (defs : list (N * pv)) (requested : N) : option out :=
    match locale_match_arm (build_arms groups (rev (map (fun d => (fst d, gen_view (snd d))) defs))) requested with
    | Some (arm_locale, code) => Some (ev_view arm_locale code)
    | None => None
    end.
End Exec.

(** a concrete reading of an arm body: literals as they are, a variable through the formatter of [loc] *)
Fixpoint view_text (icu : N -> fmt -> str -> str) (loc : N) (t : tv) {struct t} : str :=
  match t with
  | TStr s => s
  | TVar k f => icu loc f k
  | TComp k c => view_text icu loc c
  | TTuple l => (fix go (l : list tv) : str := match l with [] => [] | x :: r => view_text icu loc x ++ go r end) l
  end.
