(** Lemmas about the code-generator model (properties C01 code generation half, C02). *)
From Coq Require Import List NArith ZArith Bool Arith Lia.
Import ListNotations.
From LI Require Import Base.StrOps Parser.Parse Parser.Reduce Parser.RoundTrip1 Parser.ReduceProofs Codegen.Target.
Open Scope N_scope.

(** ** rendering piece sequences *)

Lemma render_piece_comp : forall e k inner,
  render_piece e (PcComp k inner) = e_open e k ++ render e inner ++ e_close e k.
Proof.
  intros e k inner. cbn [render_piece]. unfold render. do 2 f_equal.
  induction inner as [|x r IH]; cbn [map concat]; [reflexivity|]. rewrite IH. reflexivity.
Qed.

Lemma render_cons : forall e p l, render e (p :: l) = render_piece e p ++ render e l.
Proof. reflexivity. Qed.

Lemma render_app : forall e a b, render e (a ++ b) = render e a ++ render e b.
Proof. intros e a b. unfold render. rewrite map_app, concat_app. reflexivity. Qed.

Lemma render_pc_cons : forall e p l, render e (pc_cons p l) = render_piece e p ++ render e l.
Proof.
  intros e p l. destruct p as [s|k f|k inner|ns path args]; try reflexivity.
  destruct s as [|c s]; [reflexivity|]. cbn [pc_cons].
  destruct l as [|[t|k f|k inner|ns path args] r]; try reflexivity.
  rewrite !render_cons. cbn [render_piece]. rewrite app_assoc. reflexivity.
Qed.

(** merging adjacent text and dropping empty text does not change what is rendered *)
Lemma render_pc_norm : forall e l, render e (pc_norm l) = render e l.
Proof.
  intros e. induction l as [|p r IH]; [reflexivity|].
  unfold pc_norm. cbn [fold_right]. fold (pc_norm r). rewrite render_pc_cons, IH. reflexivity.
Qed.

(** ** tuples *)

Definition eval_list (e : env) (l : list tv) : str := concat (map (eval_view e) l).

Lemma eval_view_tuple : forall e l, eval_view e (TTuple l) = eval_list e l.
Proof.
  intros e l. cbn [eval_view]. unfold eval_list. induction l as [|x r IH]; cbn [map concat]; [reflexivity|].
  rewrite IH. reflexivity.
Qed.

Lemma chunks_aux_concat : forall {A} fuel n (l : list A),
  (1 <= n)%nat -> (length l <= fuel)%nat -> concat (chunks_aux fuel n l) = l.
Proof.
  intros A. induction fuel as [|f IH]; intros n l Hn Hl.
  - destruct l; [reflexivity|cbn [length] in Hl; lia].
  - cbn [chunks_aux]. destruct l as [|x r]; [reflexivity|].
    cbn [concat]. rewrite IH; [apply firstn_skipn|exact Hn|].
    rewrite skipn_length. cbn [length] in *. lia.
Qed.

Lemma chunks_concat : forall {A} n (l : list A), (1 <= n)%nat -> concat (chunks n l) = l.
Proof. intros A n l Hn. unfold chunks. apply chunks_aux_concat; [exact Hn|lia]. Qed.

Lemma div_ceil_pos : forall a b, (1 <= b)%nat -> (b < a)%nat -> (1 <= div_ceil a b)%nat.
Proof.
  intros a b Hb Hab. unfold div_ceil.
  assert (H : (b * 1 <= a + b - 1)%nat) by lia.
  apply (Nat.div_le_lower_bound (a + b - 1) b 1); lia.
Qed.

(** a function that is a monoid morphism over tuple contents sees [fit_in_leptos_tuple vs] as [vs]:
    instantiated with the evaluators and with the leaf sequence *)
Section Fit.
  Variable R : Type.
  Variable f : tv -> list R.
  Hypothesis f_tuple : forall l, f (TTuple l) = concat (map f l).

  Lemma fit_aux_hom : forall fuel vs, f (fit_aux fuel vs) = concat (map f vs).
  Proof.
    induction fuel as [|n IH]; intros vs; cbn [fit_aux].
    - destruct (length vs <=? TUPLE_MAX_SIZE)%nat; apply f_tuple.
    - destruct (length vs <=? TUPLE_MAX_SIZE)%nat eqn:E; [apply f_tuple|].
      apply Nat.leb_gt in E. rewrite f_tuple, map_map.
      rewrite (map_ext _ (fun c => concat (map f c))) by (intros c; apply IH).
      assert (Hc : concat (chunks (div_ceil (length vs) TUPLE_MAX_SIZE) vs) = vs)
        by (apply chunks_concat, div_ceil_pos; [unfold TUPLE_MAX_SIZE; lia|exact E]).
      remember (chunks (div_ceil (length vs) TUPLE_MAX_SIZE) vs) as cs eqn:Ecs. clear Ecs.
      rewrite <- Hc. clear Hc.
      induction cs as [|c r IHc]; cbn [map concat]; [reflexivity|].
      rewrite map_app, concat_app, IHc. reflexivity.
  Qed.

  Lemma fit_hom : forall vs, f (fit_in_leptos_tuple vs) = concat (map f vs).
  Proof. intros vs. apply fit_aux_hom. Qed.
End Fit.

Lemma eval_view_tuple_concat : forall e l, eval_view e (TTuple l) = concat (map (eval_view e) l).
Proof. exact eval_view_tuple. Qed.

Lemma eval_view_ssr_tuple : forall e l, eval_view_ssr e (TTuple l) = concat (map (eval_view_ssr e) l).
Proof.
  intros e l. cbn [eval_view_ssr]. induction l as [|x r IH]; cbn [map concat]; [reflexivity|]. rewrite IH. reflexivity.
Qed.

Lemma eval_fit : forall e vs, eval_view e (fit_in_leptos_tuple vs) = eval_list e vs.
Proof. intros e vs. apply (fit_hom N (eval_view e) (eval_view_tuple_concat e)). Qed.

(** the leaves of a tuple nest in order *)
Fixpoint tleaves (t : tv) {struct t} : list tv :=
  match t with
  | TTuple l => (fix go (l : list tv) : list tv := match l with [] => [] | x :: r => tleaves x ++ go r end) l
  | _ => [t]
  end.
Lemma tleaves_tuple : forall l, tleaves (TTuple l) = concat (map tleaves l).
Proof. intros l. cbn [tleaves]. induction l as [|x r IH]; cbn [map concat]; [reflexivity|]. rewrite IH. reflexivity. Qed.

Definition is_tuple (t : tv) : bool := match t with TTuple _ => true | _ => false end.

Lemma tleaves_atoms : forall vs, forallb (fun v => negb (is_tuple v)) vs = true -> concat (map tleaves vs) = vs.
Proof.
  induction vs as [|v r IH]; intros H; [reflexivity|]. cbn [forallb] in H. apply andb_true_iff in H. destruct H as [Hv Hr].
  cbn [map concat]. rewrite (IH Hr). destruct v; try reflexivity. discriminate.
Qed.

Lemma fit_order : forall vs,
  forallb (fun v => negb (is_tuple v)) vs = true -> tleaves (fit_in_leptos_tuple vs) = vs.
Proof. intros vs H. rewrite (fit_hom tv tleaves tleaves_tuple). apply tleaves_atoms. exact H. Qed.

(** [flatten] never yields a tuple as a token *)
Lemma flatten_atoms : forall v, forallb (fun t => negb (is_tuple t)) (flatten v) = true.
Proof.
  intros v. induction v as [l|k f|k i IH|l IH|ns p args] using pv_ind2; try reflexivity.
  cbn [flatten]. induction IH as [|x r Hx _ IHr]; [reflexivity|]. rewrite forallb_app, Hx, IHr. reflexivity.
Qed.

(** ** the view back-end renders the value's pieces *)

Lemma wrap_view_eval : forall e toks, eval_view e (wrap_view toks) = eval_list e toks.
Proof.
  intros e [|v [|w r]].
  - reflexivity.
  - unfold eval_list. cbn [wrap_view map concat]. rewrite app_nil_r. reflexivity.
  - cbn [wrap_view]. apply eval_fit.
Qed.

Lemma eval_list_app : forall e a b, eval_list e (a ++ b) = eval_list e a ++ eval_list e b.
Proof. intros e a b. unfold eval_list. rewrite map_app, concat_app. reflexivity. Qed.

Lemma flatten_bloc : forall l, flatten (PBloc l) = concat (map flatten l).
Proof. intros l. cbn [flatten]. induction l as [|x r IH]; cbn [map concat]; [reflexivity|]. rewrite IH. reflexivity. Qed.

Lemma pieces_raw_bloc : forall l, pieces_raw (PBloc l) = concat (map pieces_raw l).
Proof. intros l. cbn [pieces_raw]. apply flat_map_concat_map. Qed.

Lemma flatten_renders : forall e v, eval_list e (flatten v) = render e (pieces_raw v).
Proof.
  intros e v. induction v as [l|k f|k i IH|l IH|ns p args] using pv_ind2.
  - unfold eval_list, render. reflexivity.
  - unfold eval_list, render. reflexivity.
  - cbn [flatten pieces_raw]. unfold eval_list. cbn [map concat eval_view]. rewrite wrap_view_eval, IH.
    rewrite render_cons, render_piece_comp, render_pc_norm. unfold render at 3. cbn [map concat]. reflexivity.
  - rewrite flatten_bloc, pieces_raw_bloc. induction IH as [|x r Hx _ IHr]; [reflexivity|].
    cbn [map concat]. rewrite eval_list_app, render_app, Hx, IHr. reflexivity.
  - reflexivity.
Qed.

Lemma gen_view_renders : forall e v, eval_view e (gen_view v) = render e (pieces v).
Proof. intros e v. unfold gen_view, pieces. rewrite wrap_view_eval, render_pc_norm. apply flatten_renders. Qed.

(** ** the string back-end renders the value's pieces *)

Definition eval_slist (e : env) (l : list ts) : str := concat (map (eval_string e) l).

Lemma eval_string_seq : forall e l, eval_string e (ZSeq l) = eval_slist e l.
Proof.
  intros e l. cbn [eval_string]. unfold eval_slist. induction l as [|x r IH]; cbn [map concat]; [reflexivity|].
  rewrite IH. reflexivity.
Qed.

Lemma wrap_string_eval : forall e toks, eval_string e (wrap_string toks) = eval_slist e toks.
Proof.
  intros e [|v [|w r]].
  - reflexivity.
  - unfold eval_slist. cbn [wrap_string map concat]. rewrite app_nil_r. reflexivity.
  - cbn [wrap_string]. apply eval_string_seq.
Qed.

Lemma eval_slist_app : forall e a b, eval_slist e (a ++ b) = eval_slist e a ++ eval_slist e b.
Proof. intros e a b. unfold eval_slist. rewrite map_app, concat_app. reflexivity. Qed.

Lemma flatten_string_bloc : forall l, flatten_string (PBloc l) = concat (map flatten_string l).
Proof. intros l. cbn [flatten_string]. induction l as [|x r IH]; cbn [map concat]; [reflexivity|]. rewrite IH. reflexivity. Qed.

Lemma flatten_string_renders : forall e v, eval_slist e (flatten_string v) = render e (pieces_raw v).
Proof.
  intros e v. induction v as [l|k f|k i IH|l IH|ns p args] using pv_ind2.
  - unfold eval_slist, render. reflexivity.
  - unfold eval_slist, render. reflexivity.
  - cbn [flatten_string pieces_raw]. unfold eval_slist. cbn [map concat eval_string]. rewrite wrap_string_eval, IH.
    rewrite render_cons, render_piece_comp, render_pc_norm. unfold render at 3. cbn [map concat]. reflexivity.
  - rewrite flatten_string_bloc, pieces_raw_bloc. induction IH as [|x r Hx _ IHr]; [reflexivity|].
    cbn [map concat]. rewrite eval_slist_app, render_app, Hx, IHr. reflexivity.
  - reflexivity.
Qed.

Lemma gen_string_renders : forall e v, eval_string e (gen_string v) = render e (pieces v).
Proof. intros e v. unfold gen_string, pieces. rewrite wrap_string_eval, render_pc_norm. apply flatten_string_renders. Qed.

Lemma backends_agree : forall e v,
  eval_view e (gen_view v) = eval_string e (gen_string v)
  /\ eval_display e (gen_display v) = eval_string e (gen_string v).
Proof. intros e v. split; [rewrite gen_view_renders, gen_string_renders; reflexivity|reflexivity]. Qed.

Lemma lit_wrapper_agree : forall e l,
  eval_view e (lit_into_view l) = lit_display l /\ lit_build_string l = lit_display l
  /\ lit_build_display l = lit_display l /\ lit_inner l = lit_display l
  /\ eval_view e (gen_view (PLit l)) = lit_display l.
Proof. intros e l. repeat split; try reflexivity. Qed.

(** ** server-side serialisation: without an empty text node it is the text itself *)

Fixpoint no_empty_node (e : env) (t : tv) {struct t} : bool :=
  match t with
  | TStr s => match s with [] => false | _ => true end
  | TVar k _ => match e_var e k with [] => false | _ => true end
  | TComp _ c => no_empty_node e c
  | TTuple l => (fix go (l : list tv) : bool := match l with [] => true | x :: r => no_empty_node e x && go r end) l
  end.

Lemma text_node_nonempty : forall s, s <> [] -> text_node s = s.
Proof. intros [|c s] H; [congruence|reflexivity]. Qed.

Section TvInd.
  Variable P : tv -> Prop.
  Hypothesis HS : forall s, P (TStr s).
  Hypothesis HV : forall k f, P (TVar k f).
  Hypothesis HC : forall k c, P c -> P (TComp k c).
  Hypothesis HT : forall l, Forall P l -> P (TTuple l).
  Fixpoint tv_ind2 (t : tv) : P t :=
    match t with
    | TStr s => HS s
    | TVar k f => HV k f
    | TComp k c => HC k c (tv_ind2 c)
    | TTuple l => HT l ((fix go (l : list tv) : Forall P l :=
                           match l with [] => Forall_nil P | x :: r => Forall_cons x (tv_ind2 x) (go r) end) l)
    end.
End TvInd.

Lemma ssr_is_text : forall e t, no_empty_node e t = true -> eval_view_ssr e t = eval_view e t.
Proof.
  intros e t. induction t as [s|k f|k c IH|l IH] using tv_ind2; intros H.
  - cbn [no_empty_node] in H. cbn [eval_view_ssr eval_view]. apply text_node_nonempty. destruct s; [discriminate|discriminate].
  - cbn [no_empty_node] in H. cbn [eval_view_ssr eval_view]. apply text_node_nonempty. destruct (e_var e k); [discriminate|discriminate].
  - cbn [no_empty_node] in H. cbn [eval_view_ssr eval_view]. rewrite (IH H). reflexivity.
  - rewrite eval_view_ssr_tuple, eval_view_tuple. unfold eval_list. cbn [no_empty_node] in H.
    induction IH as [|x r Hx _ IHr]; [reflexivity|]. apply andb_true_iff in H. destruct H as [H1 H2].
    cbn [map concat]. rewrite (Hx H1), (IHr H2). reflexivity.
Qed.

(** ** EitherOf wrapping of the per-locale arms *)

Lemma ew_new_aux_some : forall fuel size, (1 <= size)%nat -> (size <= fuel + 16)%nat -> exists w, ew_new_aux fuel size = Some w.
Proof.
  induction fuel as [|f IH]; intros size H1 H2.
  - destruct size as [|[|[|s]]]; try lia; try (eexists; reflexivity).
    cbn [ew_new_aux]. destruct (S (S (S s)) <=? 16)%nat eqn:E; [eexists; reflexivity|]. apply Nat.leb_gt in E. lia.
  - destruct size as [|[|[|s]]]; try lia; try (eexists; reflexivity).
    cbn [ew_new_aux]. destruct (S (S (S s)) <=? 16)%nat eqn:E; [eexists; reflexivity|]. apply Nat.leb_gt in E.
    destruct (IH (S (S (S s)) - 15)%nat) as [w Hw]; [lia|lia|]. rewrite Hw. eexists. reflexivity.
Qed.

Lemma ew_new_some : forall size, (1 <= size)%nat -> exists w, ew_new size = Some w.
Proof. intros size H. apply ew_new_aux_some; [exact H|lia]. Qed.

(** every variant written is a variant of its enum, for every locale index below the locale count *)
Lemma ew_wrap_in_range : forall fuel size w i,
  ew_new_aux fuel size = Some w -> (i < size)%nat -> Forall (fun av => (snd av < fst av)%nat) (ew_wrap w i).
Proof.
  induction fuel as [|f IH]; intros size w i Hw Hi.
  - destruct size as [|[|[|s]]]; cbn [ew_new_aux] in Hw; try discriminate.
    + inversion Hw; subst. constructor.
    + inversion Hw; subst. cbn [ew_wrap]. constructor; [|constructor]. cbn [fst snd]. destruct (Nat.eqb i 0); lia.
    + destruct (S (S (S s)) <=? 16)%nat eqn:E; [|discriminate]. inversion Hw; subst. cbn [ew_wrap].
      constructor; [|constructor]. cbn [fst snd]. exact Hi.
  - destruct size as [|[|[|s]]]; cbn [ew_new_aux] in Hw; try discriminate.
    + inversion Hw; subst. constructor.
    + inversion Hw; subst. cbn [ew_wrap]. constructor; [|constructor]. cbn [fst snd]. destruct (Nat.eqb i 0); lia.
    + destruct (S (S (S s)) <=? 16)%nat eqn:E.
      * inversion Hw; subst. cbn [ew_wrap]. constructor; [|constructor]. cbn [fst snd]. exact Hi.
      * apply Nat.leb_gt in E.
        destruct (ew_new_aux f (S (S (S s)) - 15)) as [w'|] eqn:Ew; cbn [option_map] in Hw; [|discriminate].
        inversion Hw; subst w. cbn [ew_wrap]. destruct (i <=? 14)%nat eqn:Ei.
        -- apply Nat.leb_le in Ei. constructor; [|constructor]. cbn [fst snd]. lia.
        -- apply Nat.leb_gt in Ei. constructor; [cbn [fst snd]; lia|]. apply (IH _ _ _ Ew). lia.
Qed.

(** two different locales never get the same variant path *)
Lemma ew_wrap_injective : forall fuel size w i j,
  ew_new_aux fuel size = Some w -> (i < size)%nat -> (j < size)%nat -> ew_wrap w i = ew_wrap w j -> i = j.
Proof.
  induction fuel as [|f IH]; intros size w i j Hw Hi Hj Heq.
  - destruct size as [|[|[|s]]]; cbn [ew_new_aux] in Hw; try discriminate.
    + lia.
    + inversion Hw; subst. cbn [ew_wrap] in Heq.
      destruct (Nat.eqb_spec i 0); destruct (Nat.eqb_spec j 0); try congruence; lia.
    + destruct (S (S (S s)) <=? 16)%nat eqn:E; [|discriminate]. inversion Hw; subst. cbn [ew_wrap] in Heq. inversion Heq. reflexivity.
  - destruct size as [|[|[|s]]]; cbn [ew_new_aux] in Hw; try discriminate.
    + lia.
    + inversion Hw; subst. cbn [ew_wrap] in Heq.
      destruct (Nat.eqb_spec i 0); destruct (Nat.eqb_spec j 0); try congruence; lia.
    + destruct (S (S (S s)) <=? 16)%nat eqn:E.
      * inversion Hw; subst. cbn [ew_wrap] in Heq. inversion Heq. reflexivity.
      * apply Nat.leb_gt in E.
        destruct (ew_new_aux f (S (S (S s)) - 15)) as [w'|] eqn:Ew; cbn [option_map] in Hw; [|discriminate].
        inversion Hw; subst w. cbn [ew_wrap] in Heq.
        destruct (i <=? 14)%nat eqn:Ei; destruct (j <=? 14)%nat eqn:Ej;
          try apply Nat.leb_le in Ei; try apply Nat.leb_le in Ej; try apply Nat.leb_gt in Ei; try apply Nat.leb_gt in Ej.
        -- inversion Heq. reflexivity.
        -- inversion Heq. lia.
        -- inversion Heq. lia.
        -- inversion Heq as [Hp]. assert (Hij : (i - 15 = j - 15)%nat) by (apply (IH _ _ _ _ Ew); [lia|lia|exact Hp]). lia.
Qed.

(** the arm of locale i is the generated view of locale i's value *)
Lemma into_view_arm_value : forall values i v,
  nth_error values i = Some v ->
  exists path, into_view_arm values i = Some (path, gen_view v)
               /\ Forall (fun av => (snd av < fst av)%nat) path
               /\ display_arm values i = Some (gen_string v).
Proof.
  intros values i v Hn. unfold into_view_arm, display_arm. rewrite Hn.
  assert (Hlen : (i < length values)%nat) by (apply nth_error_Some; congruence).
  destruct (ew_new_some (length values)) as [w Hw]; [lia|]. rewrite Hw.
  exists (ew_wrap w i). repeat split. unfold ew_new in Hw. apply (ew_wrap_in_range _ _ _ _ Hw Hlen).
Qed.

(** ** scoping *)

Lemma kget_app : forall {A} (p q : list str) (t : ktree A),
  kget t (p ++ q) = match kget t p with Some sub => kget sub q | None => None end.
Proof.
  intros A. induction p as [|k r IH]; intros q t; [reflexivity|].
  cbn [app kget]. destruct t as [a|ch]; [reflexivity|]. destruct (kfind k ch) as [c|]; [apply IH|reflexivity].
Qed.

Lemma scope_transparent : forall {L A} (trees : L -> ktree A) (c : scoped L) (p q : list str),
  sc_locale (scope c p) = sc_locale c
  /\ keys_at trees (scope c p) q = keys_at trees c (p ++ q).
Proof.
  intros L A trees c p q. split; [reflexivity|]. unfold keys_at, scope. cbn [sc_locale sc_prefix].
  rewrite (kget_app (sc_prefix c) p). destruct (kget (trees (sc_locale c)) (sc_prefix c)) as [sub|]; [|reflexivity].
  rewrite kget_app. reflexivity.
Qed.

(** chained scoping, one path after the other, to any depth *)
Lemma scope_chain : forall {L A} (trees : L -> ktree A) (ps : list (list str)) (c : scoped L) (q : list str),
  sc_locale (fold_left scope ps c) = sc_locale c
  /\ keys_at trees (fold_left scope ps c) q = keys_at trees c (concat ps ++ q).
Proof.
  intros L A trees. induction ps as [|p r IH]; intros c q; [split; reflexivity|].
  cbn [fold_left concat]. destruct (IH (scope c p) q) as [H1 H2]. split; [exact H1|].
  rewrite H2. destruct (scope_transparent trees c p (concat r ++ q)) as [_ H3]. rewrite H3, app_assoc. reflexivity.
Qed.

(** ** the executable spec holds of the model *)
Lemma spec_C02_holds : forall e v,
  spec_C02 e (pieces v) [eval_string e (gen_string v); eval_display e (gen_display v)] [eval_view e (gen_view v)] = true.
Proof.
  intros e v. unfold spec_C02, eval_display, gen_display. cbn [forallb].
  rewrite gen_string_renders, gen_view_renders, !Base.StrLemmas.str_eqb_refl. reflexivity.
Qed.

(** ** every generated tuple fits leptos' tuple implementations (at most 26 elements), for every token count *)

Inductive widths_ok : tv -> Prop :=
| wok_str : forall s, widths_ok (TStr s)
| wok_var : forall k f, widths_ok (TVar k f)
| wok_comp : forall k c, widths_ok c -> widths_ok (TComp k c)
| wok_tuple : forall l, (length l <= TUPLE_MAX_SIZE)%nat -> Forall widths_ok l -> widths_ok (TTuple l).

Lemma Forall_firstn : forall {A} (P : A -> Prop) n l, Forall P l -> Forall P (firstn n l).
Proof.
  intros A P. induction n as [|n IH]; intros l H; [constructor|]. destruct l as [|x r]; [constructor|].
  inversion H; subst. cbn [firstn]. constructor; [assumption|apply IH; assumption].
Qed.
Lemma Forall_skipn : forall {A} (P : A -> Prop) n l, Forall P l -> Forall P (skipn n l).
Proof.
  intros A P. induction n as [|n IH]; intros l H; [exact H|]. destruct l as [|x r]; [constructor|].
  inversion H; subst. cbn [skipn]. apply IH. assumption.
Qed.

Lemma chunks_aux_elems : forall {A} (P : A -> Prop) fuel n (l : list A),
  Forall P l -> Forall (fun ch => (length ch <= n)%nat /\ Forall P ch) (chunks_aux fuel n l).
Proof.
  intros A P. induction fuel as [|f IH]; intros n l H; [constructor|]. cbn [chunks_aux].
  destruct l as [|x r]; [constructor|]. constructor.
  - split; [apply firstn_le_length|apply Forall_firstn; exact H].
  - apply IH. apply Forall_skipn. exact H.
Qed.

Lemma chunks_aux_count : forall {A} fuel k n (l : list A),
  (1 <= n)%nat -> (length l <= k * n)%nat -> (length (chunks_aux fuel n l) <= k)%nat.
Proof.
  intros A. induction fuel as [|f IH]; intros k n l Hn Hl; [cbn [chunks_aux length]; lia|].
  cbn [chunks_aux]. destruct l as [|x r]; [cbn [length]; lia|].
  destruct k as [|k]; [cbn [length] in Hl; lia|].
  cbn [length]. apply le_n_S. apply IH; [exact Hn|]. rewrite skipn_length. cbn [length] in *. lia.
Qed.

Lemma div_ceil_facts : forall n, (TUPLE_MAX_SIZE < n)%nat ->
  let c := div_ceil n TUPLE_MAX_SIZE in (1 <= c)%nat /\ (c < n)%nat /\ (n <= TUPLE_MAX_SIZE * c)%nat.
Proof.
  intros n H. unfold div_ceil, TUPLE_MAX_SIZE in *. cbn zeta.
  pose proof (Nat.div_mod (n + 26 - 1) 26 ltac:(lia)) as Hdm.
  pose proof (Nat.mod_upper_bound (n + 26 - 1) 26 ltac:(lia)) as Hm.
  remember ((n + 26 - 1) / 26)%nat as q. remember ((n + 26 - 1) mod 26)%nat as r. lia.
Qed.

Lemma fit_aux_widths : forall fuel vs,
  (length vs <= fuel)%nat -> Forall widths_ok vs -> widths_ok (fit_aux fuel vs).
Proof.
  induction fuel as [|f IH]; intros vs Hl Hv; cbn [fit_aux].
  - destruct vs; [|cbn [length] in Hl; lia]. cbn [length Nat.leb]. constructor; [cbn [length]; unfold TUPLE_MAX_SIZE; lia|constructor].
  - destruct (length vs <=? TUPLE_MAX_SIZE)%nat eqn:E.
    + apply Nat.leb_le in E. constructor; assumption.
    + apply Nat.leb_gt in E. destruct (div_ceil_facts _ E) as [C1 [C2 C3]].
      constructor.
      * rewrite map_length. unfold chunks. apply chunks_aux_count; [exact C1|]. rewrite Nat.mul_comm. lia.
      * apply Forall_forall. intros t Ht. apply in_map_iff in Ht. destruct Ht as [ch [Et Hch]]. subst t.
        pose proof (chunks_aux_elems widths_ok (length vs) (div_ceil (length vs) TUPLE_MAX_SIZE) vs Hv) as Hall.
        rewrite Forall_forall in Hall. destruct (Hall ch Hch) as [Hlen Hok].
        apply IH; [lia|exact Hok].
Qed.

Lemma wrap_view_widths : forall toks, Forall widths_ok toks -> widths_ok (wrap_view toks).
Proof.
  intros [|v [|w r]] H.
  - constructor.
  - inversion H; assumption.
  - cbn [wrap_view]. unfold fit_in_leptos_tuple. apply fit_aux_widths; [lia|exact H].
Qed.

Lemma flatten_widths : forall v, Forall widths_ok (flatten v).
Proof.
  intros v. induction v as [l|k f|k i IH|l IH|ns p args] using pv_ind2.
  - repeat constructor.
  - repeat constructor.
  - cbn [flatten]. constructor; [|constructor]. constructor. apply wrap_view_widths. exact IH.
  - rewrite flatten_bloc. induction IH as [|x r Hx _ IHr]; [constructor|]. cbn [map concat]. apply Forall_app. split; assumption.
  - constructor.
Qed.

Lemma gen_view_widths : forall v, widths_ok (gen_view v).
Proof. intros v. apply wrap_view_widths. apply flatten_widths. Qed.

(** ** ranges: the four generated selections take the same arm and render it alike *)
Lemma ifchain_is_match : forall {C V} (holds : C -> bool) (arms : list (list C * V)),
  ifchain_select C holds arms = match_select C holds arms.
Proof.
  intros C V holds. induction arms as [|[ps v] r IH]; [reflexivity|]. cbn [ifchain_select match_select].
  destruct ps as [|p ps']; [reflexivity|]. rewrite IH. reflexivity.
Qed.

Lemma match_select_map : forall {C V W} (holds : C -> bool) (g : V -> W) (arms : list (list C * V)),
  match_select C holds (map (fun a => (fst a, g (snd a))) arms) = option_map g (match_select C holds arms).
Proof.
  intros C V W holds g. induction arms as [|[ps v] r IH]; [reflexivity|]. cbn [map match_select fst snd].
  destruct (match ps with [] => true | _ => existsb holds ps end); [reflexivity|exact IH].
Qed.

Lemma ranges_agree : forall {C} (holds : C -> bool) e (arms : list (list C * pv)),
  let chosen := match_select C holds arms in
  option_map (eval_view e) (match_select C holds (arms_view arms)) = option_map (fun v => render e (pieces v)) chosen
  /\ option_map (eval_string e) (match_select C holds (arms_string arms)) = option_map (fun v => render e (pieces v)) chosen
  /\ option_map (eval_view e) (ifchain_select C holds (arms_view arms)) = option_map (fun v => render e (pieces v)) chosen
  /\ option_map (eval_string e) (ifchain_select C holds (arms_string arms)) = option_map (fun v => render e (pieces v)) chosen.
Proof.
  intros C holds e arms chosen. unfold arms_view, arms_string. rewrite !ifchain_is_match, !match_select_map.
  subst chosen. destruct (match_select C holds arms) as [v|]; cbn [option_map]; [|repeat split; reflexivity].
  rewrite gen_view_renders, gen_string_renders. repeat split; reflexivity.
Qed.

(** ** plurals: both back-ends select with the key's own rule type, hence the same form, rendered alike *)
Lemma plural_select_map : forall {F R V W} (form_eqb : F -> F -> bool) (category : R -> F) (g : V -> W) rule
  (forms : list (F * V)) (other : V),
  plural_select F R form_eqb category rule (map (fun a => (fst a, g (snd a))) forms) (g other)
  = g (plural_select F R form_eqb category rule forms other).
Proof.
  intros F R V W form_eqb category g rule forms other. unfold plural_select.
  induction forms as [|[f v] r IH]; [reflexivity|]. cbn [map find fst snd].
  destruct (form_eqb f (category rule)); [reflexivity|exact IH].
Qed.

Lemma plurals_agree : forall {F R} (form_eqb : F -> F -> bool) (category : R -> F) e (rule : R) (forms : list (F * pv)) (other : pv),
  let chosen := plural_select F R form_eqb category rule forms other in
  eval_view e (plural_select F R form_eqb category rule (forms_view forms) (gen_view other)) = render e (pieces chosen)
  /\ eval_string e (plural_select F R form_eqb category rule (forms_string forms) (gen_string other)) = render e (pieces chosen)
  /\ eval_display e (plural_select F R form_eqb category rule (forms_string forms) (gen_display other)) = render e (pieces chosen).
Proof.
  intros F R form_eqb category e rule forms other chosen. unfold forms_view, forms_string, gen_display, eval_display.
  rewrite (plural_select_map form_eqb category gen_view), (plural_select_map form_eqb category gen_string).
  rewrite gen_view_renders, gen_string_renders. repeat split; reflexivity.
Qed.

(** a back-end that selected with another rule type shows another form exactly when the categories differ *)
Lemma plural_select_rule : forall {F R V} (form_eqb : F -> F -> bool) (category : R -> F) (r1 r2 : R) (forms : list (F * V)) other,
  category r1 = category r2 ->
  plural_select F R form_eqb category r1 forms other = plural_select F R form_eqb category r2 forms other.
Proof. intros F R V form_eqb category r1 r2 forms other H. unfold plural_select. rewrite H. reflexivity. Qed.

(** ** literal keys: every flavour applies the same printing function *)
Lemma literals_agree : forall (show_lit : lit -> str) e l,
  eval_view e (lw_into_view show_lit l) = show_lit l
  /\ lw_build_string show_lit l = show_lit l
  /\ lw_build_display show_lit l = show_lit l
  /\ lw_inner show_lit l = show_lit l
  /\ eval_view e (lit_token_view show_lit l) = show_lit l
  /\ eval_string e (lit_token_string show_lit l) = show_lit l
  /\ eval_display e (lit_token_string show_lit l) = show_lit l.
Proof. intros show_lit e l. repeat split; reflexivity. Qed.

(** the generators of this model are the instance [show_lit := lit_display] *)
Lemma literal_tokens_instance : forall l,
  gen_view (PLit l) = lit_token_view lit_display l /\ gen_string (PLit l) = lit_token_string lit_display l
  /\ lit_into_view l = lw_into_view lit_display l.
Proof. intros l. repeat split; reflexivity. Qed.

(** ** components with attributes: when both back-ends print attribute values with one function they agree *)
Lemma attrs_agree : forall (show_attr : str -> str) vars comps v,
  let e := env_with_attrs show_attr vars comps in
  eval_view e (gen_view v) = render e (pieces v)
  /\ eval_string e (gen_string v) = render e (pieces v)
  /\ eval_display e (gen_display v) = render e (pieces v)
  /\ (forall k, e_open e k = open_tag show_attr (fst (comps k)) (snd (comps k))).
Proof.
  intros show_attr vars comps v e. unfold eval_display, gen_display.
  rewrite gen_view_renders, gen_string_renders. repeat split; reflexivity.
Qed.
