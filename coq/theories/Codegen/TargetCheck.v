(** Executable correspondence predicate for C02 (and the end-to-end observation of C01): evaluated on the
    outputs of generated probe crates.  A case is one (locale, key, argument assignment): the source AST of
    the translation written for that key in that locale (the independent description), the arguments the
    probe passed, and what every accessor flavour printed (string-like flavours verbatim; view flavours after
    the HTML canonicalisation of checks/probe_common.py). *)
From Coq Require Import List NArith ZArith Bool Arith.
Import ListNotations.
From LI Require Import Base.StrOps Parser.Parse Parser.Json Parser.Reduce Parser.Source Parser.ParseCheck Codegen.Target.
Open Scope N_scope.

(** one alternative of a range arm; numbers are doubled (so that x.5 bounds and counts of float ranges stay integers) *)
Inductive rcond := RExact (n : Z) | RBounds (lo : option Z) (hi : option (Z * bool)).   (* bool: upper bound inclusive *)
Definition rcond_holds (c : Z) (r : rcond) : bool :=
  match r with
  | RExact n => (c =? n)%Z
  | RBounds lo hi =>
      match lo with Some l => (l <=? c)%Z | None => true end
      && match hi with Some (h, true) => (c <=? h)%Z | Some (h, false) => (c <? h)%Z | None => true end
  end.

Inductive src_value :=
| SrcStr (items : list item) (file : str)   (* a JSON string: its source AST and the text written in the file *)
| SrcLit (l : lit)                          (* a JSON number / boolean *)
| SrcRange (float : bool) (arms : list (list rcond * (list item * str))) (count : Z).
    (* a range table (arms in file order, no alternative = the fallback `_`) and the count passed *)

(** the arm the documentation promises: the first one that contains the count *)
Definition src_arm (arms : list (list rcond * (list item * str))) (count : Z) : option (list item * str) :=
  match find (fun a => match fst a with [] => true | cs => existsb (rcond_holds count) cs end) arms with
  | Some a => Some (snd a)
  | None => None
  end.

Record case := mk_case {
  c_src : src_value;
  c_vars : list (str * str);        (* variable key ("var_x") -> the value passed *)
  c_comps : list (str * str);       (* component key ("comp_b") -> the html tag the passed component wraps children in *)
  c_string_outputs : list str;      (* td_string, td_display, t_string, ..., const chain, scoped variants *)
  c_view_outputs : list str }.      (* td, t, tu, scoped variants *)

Fixpoint assoc (k : str) (l : list (str * str)) : str :=
  match l with [] => [] | (k', v) :: r => if str_eqb k' k then v else assoc k r end.
Definition env_of (c : case) : env :=
  mk_env (fun k => assoc k (c_vars c))
         (fun k => c_lt :: assoc k (c_comps c) ++ [c_gt])
         (fun k => c_lt :: c_slash :: assoc k (c_comps c) ++ [c_gt]).

(** what the source says: the pieces of the translation *)
Definition src_pieces (s : src_value) : list piece :=
  match s with
  | SrcStr items _ => denote_list items
  | SrcLit l => pc_norm [PcText (lit_display l)]
  | SrcRange _ arms count => match src_arm arms count with Some (items, _) => denote_list items | None => [] end
  end.

(** the model pipeline: parser, reduce, both code generators, evaluated *)
Definition model_value (s : src_value) : res pv :=
  match s with
  | SrcStr _ file => bind (model_parse file) reduce
  | SrcLit l => Ok (PLit l)
  | SrcRange float arms count =>
      let parsed := map (fun a => (fst a, bind (model_parse (snd (snd a))) reduce)) arms in
      match (if float then ifchain_select rcond (rcond_holds count) parsed else match_select rcond (rcond_holds count) parsed) with
      | Some r => r
      | None => Err 0
      end
  end.

(** 0 = agree and spec holds; 1 = outside the modelled domain; 2 = implementation differs from the model
    (spec holds) or the case file is inconsistent; 3 = some flavour does not render what the source says *)
Definition check (c : case) : N :=
  let e := env_of c in
  let ps := src_pieces (c_src c) in
  let want_s := render e ps in
  let want_v := render_ssr e ps in
  if negb (forallb (str_eqb want_s) (c_string_outputs c) && forallb (str_eqb want_v) (c_view_outputs c)) then 3
  else
    N.max
    match c_src c with
    | SrcStr items file => if str_eqb (print_list items) file then 0 else 2
    | SrcLit _ => 0
    | SrcRange _ arms _ => if forallb (fun a => str_eqb (print_list (fst (snd a))) (snd (snd a))) arms then 0 else 2
    end
    match model_value (c_src c) with
      | Unmodelled => 1
      | Ok r =>
          if forallb (str_eqb (eval_string e (gen_string r))) (c_string_outputs c)
             && forallb (str_eqb (eval_view_ssr e (gen_view r))) (c_view_outputs c)
             && str_eqb (eval_view e (gen_view r)) (eval_display e (gen_display r))
          then 0 else 2
      | _ => 2
      end.
