(** Executable correspondence predicate for C02 (and the end-to-end observation of C01): evaluated on the
    outputs of generated probe crates.  A case is one (locale, key, argument assignment): the source ASTs of
    the translations written for that key in the locales that define it, the `inherits` table of the
    configuration (the independent description), the arguments the probe passed, and what every accessor flavour printed (string-like flavours verbatim; view flavours after
    the HTML canonicalisation of checks/probe_common.py). *)
From Coq Require Import List NArith ZArith Bool Arith.
Import ListNotations.
From LI Require Import Base.StrOps Parser.Parse Parser.Json Parser.Reduce Parser.Source Parser.ParseCheck Parser.Merge
  Parser.Plurals Runtime.CldrRules Codegen.Target Codegen.LocaleMatch.
Open Scope N_scope.

(** one alternative of a range arm; numbers are doubled (so that x.5 bounds and counts of float ranges stay integers) *)
Inductive rcond := RExact (n : Z) | RBounds (lo : option Z) (hi : option (Z * bool)).   (* bool: upper bound inclusive *)
Definition rcond_holds (c : Z) (r : rcond) : bool :=
  match r with
  | RExact n => (c =? n)%Z
  | RBounds lo hi =>
      match lo with Some l => (l <=? c)%Z | None => true end
      && match hi with Some (h, true) => (c <=? h)%Z | Some (h, false) => (c <? h)%Z | None => true end
  end.

Inductive src_value :=
| SrcStr (items : list item) (file : str)   (* a JSON string: its source AST and the text written in the file *)
| SrcLit (l : lit)                          (* a JSON number / boolean *)
| SrcRange (float : bool) (arms : list (list rcond * (list item * str)))
    (* a range table (arms in file order, no alternative = the fallback `_`) *)
| SrcPlural (r : Plurals.rule) (forms : list (Plurals.form * (list item * str))) (other : list item * str).
    (* `key_one`, `key_few`, ... / `key_ordinal_one`, ... and `key_other` *)

(** the arm the documentation promises: the first one that contains the count *)
Definition src_arm (arms : list (list rcond * (list item * str))) (count : Z) : option (list item * str) :=
  match find (fun a => match fst a with [] => true | cs => existsb (rcond_holds count) cs end) arms with
  | Some a => Some (snd a)
  | None => None
  end.

Record case := mk_case {
  c_table : list (N * src_value);   (* the locales (numbered in configuration order, default = 0) whose file defines
                                       the key with a non-null value, and what is written there *)
  c_inherits : list (N * N);        (* the `inherits` table: locale -> the locale it inherits from *)
  c_nlocales : N;                   (* number of configured locales *)
  c_locale : N;                     (* the locale asked for *)
  c_count : Z;                      (* the count passed (doubled), for range and plural keys *)
  c_lang : N;                       (* language of the locale asked for: 0 en, 1 fr, 2 ru, 3 ar, 4 pl, 5 ja, 6 cy, 7 he, 8 pt, 9 pt-PT *)
  c_icu_cat : N;                    (* plural keys: the category icu_plurals gives for (locale asked for, rule type, count),
                                       as printed by the probe: 0 zero .. 5 other; 6 = not a plural key *)
  c_vars : list (str * str);        (* variable key ("var_x") -> the value passed *)
  c_comps : list (str * (str * list (str * str)));
                                    (* component key ("comp_b") -> the html tag the passed component wraps children in and
                                       the attributes (name, value) it carries *)
  c_string_outputs : list str;      (* td_string, td_display, t_string, ..., const chain, scoped variants *)
  c_view_outputs : list str }.      (* td, t, tu, scoped variants *)

Fixpoint assoc (k : str) (l : list (str * str)) : str :=
  match l with [] => [] | (k', v) :: r => if str_eqb k' k then v else assoc k r end.
Fixpoint assoc_comp (k : str) (l : list (str * (str * list (str * str)))) : str * list (str * str) :=
  match l with [] => ([], []) | (k', v) :: r => if str_eqb k' k then v else assoc_comp k r end.
(** attribute values are printed verbatim between double quotes: what DisplayComp writes, and what leptos writes
    after the canonicaliser has decoded its entity escaping of ampersand, angle brackets and the double quote *)
Definition env_of (c : case) : env :=
  env_with_attrs (fun v => v) (fun k => assoc k (c_vars c)) (fun k => assoc_comp k (c_comps c)).

(** the locale whose translation must be shown (C03's rule, stated on the configuration): the first locale of
    the walk l, inherits l, inherits (inherits l) ... that defines the key, the default (locale 0) when the walk
    ends or comes back on itself *)
Definition defines_key (c : case) (l : N) : bool := existsb (fun d => fst d =? l) (c_table c).
Definition effective_locale (c : case) : N :=
  first_defined (map_get (c_inherits c)) (defines_key c) 0 (N.to_nat (c_nlocales c)) (c_locale c).

Definition lang_of (n : N) : CldrRules.locale :=
  match n with 0 => L_en | 1 => L_fr | 2 => L_ru | 3 => L_ar | 4 => L_pl | 5 => L_ja | 6 => L_cy | 7 => L_he | 8 => L_pt | _ => L_pt_PT end.
(** the plural category of the count for the locale asked for, from the CLDR rules written out in Runtime/CldrRules.v
    (not from the implementation, not from ICU) *)
Definition cldr_category (lang : N) (count : Z) (r : Plurals.rule) : Plurals.form :=
  cldr_cat (lang_of lang) r (op_int (Z.to_N (count / 2))).
Definition form_code (f : Plurals.form) : N :=
  match f with Zero => 0 | One => 1 | Two => 2 | Few => 3 | Many => 4 | Other => 5 end.

(** what the source says: the pieces of the translation *)
Definition src_pieces (s : src_value) (count : Z) (lang : N) : list piece :=
  match s with
  | SrcPlural r forms other =>
      denote_list (fst (plural_select _ _ form_eqb (cldr_category lang count) r forms other))
  | SrcStr items _ => denote_list items
  | SrcLit l => pc_norm [PcText (lit_display l)]
  | SrcRange _ arms => match src_arm arms count with Some (items, _) => denote_list items | None => [] end
  end.

(** the model pipeline: parser, reduce, range selection *)
Definition model_value (s : src_value) (count : Z) (lang : N) : Parse.res pv :=
  match s with
  | SrcPlural r forms other =>
      plural_select _ _ form_eqb (cldr_category lang count) r
        (map (fun a => (fst a, Parse.bind (model_parse (snd (snd a))) reduce)) forms)
        (Parse.bind (model_parse (snd other)) reduce)
  | SrcStr _ file => Parse.bind (model_parse file) reduce
  | SrcLit l => Parse.Ok (PLit l)
  | SrcRange float arms =>
      let parsed := map (fun a => (fst a, Parse.bind (model_parse (snd (snd a))) reduce)) arms in
      match (if float then ifchain_select rcond (rcond_holds count) parsed else match_select rcond (rcond_holds count) parsed) with
      | Some r => r
      | None => Parse.Err 0
      end
  end.

Definition src_file_ok (s : src_value) : bool :=
  match s with
  | SrcStr items file => str_eqb (print_list items) file
  | SrcLit _ => true
  | SrcRange _ arms => forallb (fun a => str_eqb (print_list (fst (snd a))) (snd (snd a))) arms
  | SrcPlural _ forms other =>
      forallb (fun a => str_eqb (print_list (fst (snd a))) (snd (snd a))) forms && str_eqb (print_list (fst other)) (snd other)
  end.

(** every defining locale's value through the model, [None] when one of them is outside the model *)
Fixpoint model_defs (t : list (N * src_value)) (count : Z) (lang : N) : option (list (N * pv)) :=
  match t with
  | [] => Some []
  | (l, s) :: r => match model_value s count lang, model_defs r count lang with
                   | Parse.Ok v, Some r' => Some ((l, v) :: r')
                   | _, _ => None
                   end
  end.
Fixpoint lit_defs (t : list (N * src_value)) : option (list (N * lit)) :=
  match t with
  | [] => Some []
  | (l, SrcLit x) :: r => option_map (cons (l, x)) (lit_defs r)
  | _ => None
  end.

(** 0 = agree and spec holds; 1 = outside the modelled domain; 2 = implementation differs from the model
    (spec holds) or the case file is inconsistent; 3 = some flavour does not render what the source of the
    effective locale says *)
Definition check (c : case) : N :=
  let e := env_of c in
  match assoc_get (c_table c) (effective_locale c) with
  | None => 2                      (* the generator wrote a key the default locale does not define *)
  | Some src =>
      let ps := src_pieces src (c_count c) (c_lang c) in
      let want_s := render e ps in
      let want_v := render_ssr e ps in
      if negb (forallb (str_eqb want_s) (c_string_outputs c) && forallb (str_eqb want_v) (c_view_outputs c)) then 3
      else if negb (forallb (fun d => src_file_ok (snd d)) (c_table c)) then 2
      (* the two oracles disagree: ICU's category (printed by the probe) is not the one of the CLDR rules in Coq *)
      else if match src with
              | SrcPlural r _ _ => negb (form_code (cldr_category (c_lang c) (c_count c) r) =? c_icu_cat c)
              | _ => false
              end then 2
      else
        (* the model: the mapping pushed while merging, compute's groups, the three generated matches *)
        let others := map N.of_nat (seq 1 (N.to_nat (c_nlocales c) - 1)) in
        let d := defaults_of 0 (c_inherits c) others (defines_key c) in
        let groups := compute d in
        match model_defs (c_table c) (c_count c) (c_lang c) with
        | None => 1
        | Some defs =>
            match view_locale_match groups defs (c_locale c), string_locale_match groups defs (c_locale c) with
            | Some tv_, Some ts_ =>
                if forallb (str_eqb (eval_string e ts_)) (c_string_outputs c)
                   && forallb (str_eqb (eval_view_ssr e tv_)) (c_view_outputs c)
                   && str_eqb (eval_view e tv_) (eval_display e ts_)
                   && match lit_defs (c_table c) with
                      | Some ld => match literal_locale_match groups ld (c_locale c) with
                                   | Some x => forallb (str_eqb (lit_inner x)) (c_string_outputs c)
                                   | None => false
                                   end
                      | None => true
                      end
                then 0 else 2
            | _, _ => 2
            end
        end
  end.
