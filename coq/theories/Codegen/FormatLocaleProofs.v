(** Proofs for Codegen/FormatLocale.v (property C18, defaulted keys). *)
From Coq Require Import List NArith Bool Arith Lia.
Import ListNotations.
From LI Require Import Base.StrOps Parser.Parse Parser.Merge Codegen.Target Codegen.LocaleMatch Codegen.LocaleMatchProofs
  Codegen.FormatLocale.
Open Scope N_scope.

(** for every configuration (default locale, other locales, `inherits` table), every presence pattern of a key
    ([defs]: the locales that define it, with their values) and every configured requested locale: the template is
    the one of the effective locale (first locale of the inherits walk that defines the key, else the default) and
    the formatters run with the REQUESTED locale - in the view and in the string/display implementation *)
Theorem defaulted_uses_requested_locale :
  forall (out : Type) (ev_view : N -> tv -> out) (ev_string : N -> ts -> out)
         (dflt : N) (inherits : list (N * N)) (others : list N) (defs : list (N * pv)),
  NoDup (map fst defs) -> ~ In dflt others -> In dflt (map fst defs) ->
  (forall t, In t (map fst defs) -> t = dflt \/ In t others) ->
  (forall x y, map_get inherits x = Some y -> In x others /\ (y = dflt \/ In y others)) ->
  let defines := fun l => existsb (N.eqb l) (map fst defs) in
  let d := defaults_of dflt inherits others defines in
  forall requested, (requested = dflt \/ In requested others) ->
  exists v, assoc_get defs (first_defined (map_get inherits) defines dflt (S (length others)) requested) = Some v
            /\ exec_view out ev_view (compute d) defs requested = Some (ev_view requested (gen_view v))
            /\ exec_string out ev_string (compute d) defs requested = Some (ev_string requested (gen_string v)).
Proof.
  intros out ev_view ev_string dflt inherits others defs H1 H2 H3 H4 H5 defines d requested Hr.
  destruct (defaulted_config dflt inherits others defs H1 H2 H3 H4 H5 requested Hr) as [v [Hv [Hview Hstring]]].
  exists v. split; [exact Hv|]. unfold exec_view, exec_string.
  fold defines in Hview, Hstring. fold d in Hview, Hstring. rewrite Hview, Hstring. split; reflexivity.
Qed.

(** the variant that re-binds `_locale` in every arm formats a defaulted key for the locale the template came
    from: locales 0 (default, defines the key `{{ v, <formatter 7> }}`) and 1 (does not); requested 1 *)
Definition w_defs (f : fmt) : list (N * pv) := [(0, PVar [118] f)].
Definition w_groups : list (N * list N) := compute (defaults_of 0 [] [1] (fun l => l =? 0)).

Lemma rebind_refuted : forall (f : fmt),
  exec_view_rebind (N * tv) (fun loc code => (loc, code)) w_groups (w_defs f) 1 = Some (0, gen_view (PVar [118] f))
  /\ exec_view (N * tv) (fun loc code => (loc, code)) w_groups (w_defs f) 1 = Some (1, gen_view (PVar [118] f)).
Proof. intro f. split; vm_compute; reflexivity. Qed.
