(** The defaulted-locale sets of the per-locale `match` come from [DefaultedLocales::compute] (model:
    Parser/Merge.v, property C03).  This file connects that model with the match model of Codegen/Target.v:
    which locales are pushed into the mapping while the locales are merged, and which value each back-end
    therefore selects for a locale (property C02).  No proofs in this file. *)
From Coq Require Import List NArith Bool Arith.
Import ListNotations.
From LI Require Import Base.StrOps Parser.Parse Parser.Merge Codegen.Target.
Open Scope N_scope.

(** [Locale::merge] / [ParsedValue::merge] on a `Default` (absent or null) value:
    `defaults.push(top_locale, default_to.get_key())` with default_to = the `inherits` entry of the locale, else
    the default locale ([check_locales_inner]); locales are visited in configuration order *)
Definition defaults_of (dflt : N) (inherits : list (N * N)) (others : list N) (defines : N -> bool) : dl :=
  fold_left (fun d x => if defines x then d
                        else dl_push d x (match map_get inherits x with Some y => y | None => dflt end))
            others (dl_new dflt).

(** the locale whose value a locale shows according to the mapping: itself when it defines the key *)
Definition effective (d : dl) (defines : N -> bool) (l : N) : N := if defines l then l else default_of d l.

Fixpoint assoc_get {V} (l : list (N * V)) (k : N) : option V :=
  match l with [] => None | (k', v) :: r => if k =? k' then Some v else assoc_get r k end.
