(** Model of the code generators that turn a (reduced) translation value into Rust (properties C01, C02).

    Mirrors leptos_i18n_macro/src:
    - load_locales/parsed_value.rs: [flatten] / [to_token_stream] (the view back-end) and [flatten_string] /
      [as_string_impl] (the string / display back-end);
    - utils/mod.rs: [fit_in_leptos_tuple] (tuples of at most 26 elements, nested by chunks) and
      [EitherOfWrapper::{new, wrap}] (one `EitherOf` variant per locale arm of [into_view]);
    - load_locales/interpolate.rs: the per-locale [match] of [into_view_impl] / [display_impl];
    - utils/scoped.rs and leptos_i18n/src/{scopes.rs, macro_helpers/scope.rs}: scoping as a key-path prefix.

    The generated Rust is represented by a tiny target language with one evaluator per back-end.  The
    caller's arguments are an environment: a variable is a text ([Display] value / text node), a component
    wraps its rendered children between an opening and a closing text (what `|children| view!{<tag>{children}</tag>}`
    and the [DisplayComponent] impl of `&str` both do).  Formatters other than [FNone] are C18's subject and
    render here as the plain value.  No proofs in this file. *)
From Coq Require Import List NArith ZArith Bool Arith.
Import ListNotations.
From LI Require Import Base.StrOps Parser.Parse Parser.Reduce.
Open Scope N_scope.

(** ** environments *)
Record env := mk_env {
  e_var : str -> str;             (* value supplied for a variable key ("var_x") *)
  e_open : str -> str;            (* what the component supplied for a component key writes before its children *)
  e_close : str -> str }.         (* ... and after *)

(** ** rendering a piece sequence (the meaning a value has by C01's denotation) *)
Fixpoint render_piece (e : env) (p : piece) {struct p} : str :=
  match p with
  | PcText s => s
  | PcVar k _ => e_var e k
  | PcComp k inner =>
      e_open e k ++ (fix go (l : list piece) : str := match l with [] => [] | x :: r => render_piece e x ++ go r end) inner
      ++ e_close e k
  | PcForeign _ _ _ => []
  end.
Definition render (e : env) (l : list piece) : str := concat (map (render_piece e) l).

(** leptos (tachys, `RenderHtml for &str`) serialises an *empty* text node as one space so that hydration
    finds a node; markers and escaping are removed by the canonicaliser.  [render_ssr] is [render] with that
    rule: an empty variable value and an empty child list / empty value are each one empty text node. *)
Definition text_node (s : str) : str := match s with [] => [32] | _ => s end.
Fixpoint render_ssr_piece (e : env) (p : piece) {struct p} : str :=
  match p with
  | PcText s => text_node s
  | PcVar k _ => text_node (e_var e k)
  | PcComp k inner =>
      e_open e k ++
      match inner with
      | [] => [32]
      | _ => (fix go (l : list piece) : str := match l with [] => [] | x :: r => render_ssr_piece e x ++ go r end) inner
      end ++ e_close e k
  | PcForeign _ _ _ => []
  end.
Definition render_ssr (e : env) (l : list piece) : str :=
  match l with [] => [32] | _ => concat (map (render_ssr_piece e) l) end.

(** ** the view back-end *)

Inductive tv :=
| TStr (s : str)                  (* a string constant of the locale's table, or a number / bool literal *)
| TVar (k : str) (f : fmt)        (* `{ let k = Clone::clone(&k); <formatter view of k> }` *)
| TComp (k : str) (child : tv)    (* `move || k(children_fn)` with children_fn = `move || child` *)
| TTuple (l : list tv).           (* a Rust tuple *)

Definition TUPLE_MAX_SIZE : nat := 26.

(** [slice::chunks(n)] *)
Fixpoint chunks_aux {A} (fuel n : nat) (l : list A) : list (list A) :=
  match fuel with
  | O => []
  | S f => match l with
           | [] => []
           | _ => firstn n l :: chunks_aux f n (skipn n l)
           end
  end.
Definition chunks {A} (n : nat) (l : list A) : list (list A) := chunks_aux (length l) n l.

Definition div_ceil (a b : nat) : nat := (a + b - 1) / b.

(** [fit_in_leptos_tuple]; fuel = length of the list suffices (every chunk is strictly shorter) *)
Fixpoint fit_aux (fuel : nat) (vs : list tv) : tv :=
  if (length vs <=? TUPLE_MAX_SIZE)%nat then TTuple vs
  else match fuel with
       | O => TTuple vs
       | S f => TTuple (map (fit_aux f) (chunks (div_ceil (length vs) TUPLE_MAX_SIZE) vs))
       end.
Definition fit_in_leptos_tuple (vs : list tv) : tv := fit_aux (length vs) vs.

(** [match &mut tokens[..] { [] => "", [value] => value, values => fit_in_leptos_tuple(values) }] *)
Definition wrap_view (tokens : list tv) : tv :=
  match tokens with
  | [] => TStr []
  | [v] => v
  | vs => fit_in_leptos_tuple vs
  end.

(** [flatten]: the token list of a value *)
Fixpoint flatten (v : pv) : list tv :=
  match v with
  | PLit l => [TStr (lit_display l)]
  | PVar k f => [TVar k f]
  | PComp k i => [TComp k (wrap_view (flatten i))]
  | PBloc l => (fix go (l : list pv) : list tv := match l with [] => [] | x :: r => flatten x ++ go r end) l
  | PForeign _ _ _ => []            (* resolved before code generation; not a value the generator sees *)
  end.
(** [to_token_stream] *)
Definition gen_view (v : pv) : tv := wrap_view (flatten v).

(** the denotation of a view: its text nodes and component applications, in document order *)
Fixpoint eval_view (e : env) (t : tv) {struct t} : str :=
  match t with
  | TStr s => s
  | TVar k _ => e_var e k
  | TComp k c => e_open e k ++ eval_view e c ++ e_close e k
  | TTuple l => (fix go (l : list tv) : str := match l with [] => [] | x :: r => eval_view e x ++ go r end) l
  end.
(** its server-side serialisation after canonicalisation (empty text node = one space) *)
Fixpoint eval_view_ssr (e : env) (t : tv) {struct t} : str :=
  match t with
  | TStr s => text_node s
  | TVar k _ => text_node (e_var e k)
  | TComp k c => e_open e k ++ eval_view_ssr e c ++ e_close e k
  | TTuple l => (fix go (l : list tv) : str := match l with [] => [] | x :: r => eval_view_ssr e x ++ go r end) l
  end.

(** the leaves of a tuple nest, in order (what the tuple's [Render] impl visits) *)
Fixpoint tuple_leaves (fuel : nat) (t : tv) : list tv :=
  match fuel with
  | O => [t]
  | S f => match t with
           | TTuple l => flat_map (tuple_leaves f) l
           | _ => [t]
           end
  end.

(** ** the string / display back-end *)

Inductive ts :=
| ZLit (s : str)                  (* `Display::fmt(&<literal>, __formatter)` *)
| ZVar (k : str) (f : fmt)        (* `<formatter>::fmt(k, __formatter)` *)
| ZComp (k : str) (child : ts)    (* `DisplayComponent::fmt(k, __formatter, |__formatter| child)` *)
| ZSeq (l : list ts)              (* `{ a?; b?; ... Ok(()) }` *)
| ZOk.                            (* `Ok(())` *)

Definition wrap_string (tokens : list ts) : ts :=
  match tokens with
  | [] => ZOk
  | [v] => v
  | vs => ZSeq vs
  end.

(** [flatten_string] *)
Fixpoint flatten_string (v : pv) : list ts :=
  match v with
  | PLit l => [ZLit (lit_display l)]
  | PVar k f => [ZVar k f]
  | PComp k i => [ZComp k (wrap_string (flatten_string i))]
  | PBloc l => (fix go (l : list pv) : list ts := match l with [] => [] | x :: r => flatten_string x ++ go r end) l
  | PForeign _ _ _ => []
  end.
(** [as_string_impl]: the body of [Display::fmt]; [build_string] is [to_string] of the same [Display] value *)
Definition gen_string (v : pv) : ts := wrap_string (flatten_string v).
Definition gen_display (v : pv) : ts := gen_string v.

Fixpoint eval_string (e : env) (t : ts) {struct t} : str :=
  match t with
  | ZLit s => s
  | ZVar k _ => e_var e k
  | ZComp k c => e_open e k ++ eval_string e c ++ e_close e k
  | ZSeq l => (fix go (l : list ts) : str := match l with [] => [] | x :: r => eval_string e x ++ go r end) l
  | ZOk => []
  end.
Definition eval_display := eval_string.

(** [LitWrapper]: a key that is a literal in every locale; [into_view], [build_string], [build_display] and the
    const [inner] all hand out the literal itself *)
Definition lit_into_view (l : lit) : tv := TStr (lit_display l).
Definition lit_build_string (l : lit) : str := lit_display l.
Definition lit_build_display (l : lit) : str := lit_display l.
Definition lit_inner (l : lit) : str := lit_display l.

(** ** per-locale arms: [EitherOfWrapper] *)

Inductive either_wrapper := EwSingle | EwDuo | EwMultiple (size : nat) | EwNested (last : either_wrapper).

(** [EitherOfWrapper::new]; [None] = `unreachable!` for 0 locales *)
Fixpoint ew_new_aux (fuel size : nat) : option either_wrapper :=
  match size with
  | 0%nat => None
  | 1%nat => Some EwSingle
  | 2%nat => Some EwDuo
  | _ => if (size <=? 16)%nat then Some (EwMultiple size)
         else match fuel with
              | O => None
              | S f => option_map EwNested (ew_new_aux f (size - 15))
              end
  end.
Definition ew_new (size : nat) : option either_wrapper := ew_new_aux size size.

(** [wrap(i, ts)] as the path of variants written around [ts], outermost first: (arity of the enum, variant index) *)
Fixpoint ew_wrap (w : either_wrapper) (i : nat) : list (nat * nat) :=
  match w with
  | EwSingle => []
  | EwDuo => [(2, if Nat.eqb i 0 then 0 else 1)%nat]
  | EwMultiple size => [(size, i)]
  | EwNested last => if (i <=? 14)%nat then [(16, i)%nat] else (16, 15)%nat :: ew_wrap last (i - 15)
  end.

(** [into_view]: `match locale { L_i => wrap(i, to_token_stream(value_i)) }`; the arm taken is the one of the
    locale, the wrapper only injects into the sum type *)
Definition into_view_arm (values : list pv) (i : nat) : option (list (nat * nat) * tv) :=
  match ew_new (length values), nth_error values i with
  | Some w, Some v => Some (ew_wrap w i, gen_view v)
  | _, _ => None
  end.
Definition display_arm (values : list pv) (i : nat) : option ts := option_map gen_string (nth_error values i).

(** ** scoping: a context / locale scoped by a key path reads the sub-tree at that path *)

Inductive ktree (A : Type) := KLeaf (a : A) | KNode (children : list (str * ktree A)).
Arguments KLeaf {A} a. Arguments KNode {A} children.

Fixpoint kfind {A} (k : str) (l : list (str * ktree A)) : option (ktree A) :=
  match l with [] => None | (k', t) :: r => if str_eqb k' k then Some t else kfind k r end.
(** `keys.a().b()...`: follow a path of accessor calls *)
Fixpoint kget {A} (t : ktree A) (path : list str) : option (ktree A) :=
  match path with
  | [] => Some t
  | k :: r => match t with
              | KNode ch => match kfind k ch with Some c => kget c r | None => None end
              | KLeaf _ => None
              end
  end.

(** a (possibly scoped) context or locale: the locale read and the key path its scope type stands for *)
Record scoped (L : Type) := mk_scoped { sc_locale : L; sc_prefix : list str }.
Arguments mk_scoped {L}. Arguments sc_locale {L}. Arguments sc_prefix {L}.
(** [scope_ctx_util] / [scope_locale_util]: `|k| k.p1().p2()...` only changes the scope type *)
Definition scope {L} (c : scoped L) (p : list str) : scoped L := mk_scoped (sc_locale c) (sc_prefix c ++ p).
(** `get_keys(ctx).q1().q2()...` over the per-locale key trees *)
Definition keys_at {L A} (trees : L -> ktree A) (c : scoped L) (q : list str) : option (ktree A) :=
  match kget (trees (sc_locale c)) (sc_prefix c) with
  | Some sub => kget sub q
  | None => None
  end.

(** ** executable specification of C02: every flavour's text is the rendering of the value's pieces *)
Definition spec_C02 (e : env) (ps : list piece) (string_like view_text : list str) : bool :=
  forallb (str_eqb (render e ps)) string_like && forallb (str_eqb (render e ps)) view_text.

(** ** ranges (and plurals) abstractly: a list of arms, each guarded by alternatives; [holds] says whether an
    alternative accepts the current count (C04 / C05 define it).  An arm without alternative is the fallback `_`. *)
Section Arms.
  Variable C : Type.
  Variable holds : C -> bool.
  (** integer counts, both back-ends ([to_tokens_integers], [to_tokens_integers_string]):
      `match count { p1 | p2 => a, ..., _ => z }` takes the first arm one of whose patterns matches *)
  Fixpoint match_select {V} (arms : list (list C * V)) : option V :=
    match arms with
    | [] => None
    | (ps, v) :: r => if match ps with [] => true | _ => existsb holds ps end then Some v else match_select r
    end.
  (** float counts ([to_tokens_floats], [to_tokens_floats_string]):
      `if c1 || c2 { a } else if ... else { z }`; the fallback arm is a bare block *)
  Fixpoint ifchain_select {V} (arms : list (list C * V)) : option V :=
    match arms with
    | [] => None
    | (ps, v) :: r => match ps with
                      | [] => Some v
                      | _ => if existsb holds ps then Some v else ifchain_select r
                      end
    end.
End Arms.
Definition arms_view {C} (arms : list (list C * pv)) : list (list C * tv) := map (fun a => (fst a, gen_view (snd a))) arms.
Definition arms_string {C} (arms : list (list C * pv)) : list (list C * ts) := map (fun a => (fst a, gen_string (snd a))) arms.

(** ** the per-locale `match` with or-patterns for defaulted locales

    [Interpolation::create_locale_impl] (view), [create_locale_string_impl] (string / display) and the
    literal accessors of [create_locale_type_inner] each emit their own `match locale { .. }`: one arm per locale
    that DEFINES the key, written `L::t | L::d1 | L::d2 => <value of t>` where d1, d2 are the locales
    [DefaultedLocales::compute] groups under t.  Locales are numbers; [groups] is compute's map. *)
Definition arm_pat := (N * list N)%type.
Definition pat_covers (l : N) (p : arm_pat) : bool := (l =? fst p) || existsb (N.eqb l) (snd p).
(** Rust's `match`: the first arm whose pattern accepts the scrutinee *)
Fixpoint locale_match {V} (arms : list (arm_pat * V)) (l : N) : option V :=
  match arms with
  | [] => None
  | (p, v) :: r => if pat_covers l p then Some v else locale_match r l
  end.
(** `computed_defaults.get(&locale)`: the set grouped under t (the keys of a BTreeMap are unique, so the union
    over entries with key t is that one set) *)
Definition group_get (groups : list (N * list N)) (t : N) : list N :=
  flat_map (fun ts => if fst ts =? t then snd ts else []) groups.
Definition build_arms {V} (groups : list (N * list N)) (defs : list (N * V)) : list (arm_pat * V) :=
  map (fun d => ((fst d, group_get groups (fst d)), snd d)) defs.
(** [defs]: the locales that define the key, in configuration order, with their values.  The view and the string
    implementation iterate them in reverse (`locales.iter().rev()`), the literal accessor forward. *)
Definition view_locale_match (groups : list (N * list N)) (defs : list (N * pv)) (l : N) : option tv :=
  locale_match (build_arms groups (rev (map (fun d => (fst d, gen_view (snd d))) defs))) l.
Definition string_locale_match (groups : list (N * list N)) (defs : list (N * pv)) (l : N) : option ts :=
  locale_match (build_arms groups (rev (map (fun d => (fst d, gen_string (snd d))) defs))) l.
Definition literal_locale_match (groups : list (N * list N)) (defs : list (N * lit)) (l : N) : option lit :=
  locale_match (build_arms groups defs) l.

(** ** plurals: [plurals::to_token_stream] (view) and [plurals::as_string_impl] (string / display) both emit
    `match get_plural_rules(locale, <rule type of the key>).category_for(count) { form_1 => v_1, ..., _ => other }`.
    [category rule] is the category of the current (locale, count) under a rule type (ICU / CLDR: a parameter);
    the written forms are keyed by category (a BTreeMap: at most one arm per category). *)
Section Plural.
  Variables F R : Type.
  Variable form_eqb : F -> F -> bool.
  Variable category : R -> F.
  Definition plural_select {V} (rule : R) (forms : list (F * V)) (other : V) : V :=
    match find (fun fv => form_eqb (fst fv) (category rule)) forms with
    | Some fv => snd fv
    | None => other
    end.
End Plural.
Definition forms_view {F} (forms : list (F * pv)) : list (F * tv) := map (fun a => (fst a, gen_view (snd a))) forms.
Definition forms_string {F} (forms : list (F * pv)) : list (F * ts) := map (fun a => (fst a, gen_string (snd a))) forms.

(** ** literal keys, for any printing function

    A key that holds a literal of ONE type in every locale is a [LitWrapper<T>] (macro_helpers/mod.rs): [into_view]
    hands the literal to leptos, [build_string] is [Literal::into_str], [build_display] and the const [inner] hand
    out the literal itself (printed by the caller).  A key whose literal type differs between locales is a builder
    without fields: the literal is a token of [flatten] / [flatten_string] (`Display::fmt(&lit, f)`).
    [show_lit] is THE printing of a literal - Rust's `{}` of the parsed value (bool, u64, i64, f64; for f64 the
    shortest round-trip digits without exponent) - an oracle: every path below applies that one function. *)
Section LitShow.
  Variable show_lit : lit -> str.
  Definition lw_into_view (l : lit) : tv := TStr (show_lit l).
  Definition lw_build_string (l : lit) : str := show_lit l.
  Definition lw_build_display (l : lit) : str := show_lit l.
  Definition lw_inner (l : lit) : str := show_lit l.
  Definition lit_token_view (l : lit) : tv := wrap_view [TStr (show_lit l)].
  Definition lit_token_string (l : lit) : ts := wrap_string [ZLit (show_lit l)].
End LitShow.

(** ** components with attributes: `DisplayComp::new(tag, &[(name, value)..])` for the string / display flavours, the
    element `<tag name="value" ..>` for the view flavours.  [show_attr] is the printing of an attribute value (for the
    compared characters: the value itself). *)
Section Attrs.
  Variable show_attr : str -> str.
  Definition attr_text (nv : str * str) : str := 32 :: fst nv ++ [61; 34] ++ show_attr (snd nv) ++ [34].
  Definition open_tag (tag : str) (attrs : list (str * str)) : str := 60 :: tag ++ concat (map attr_text attrs) ++ [62].
  Definition close_tag (tag : str) : str := 60 :: 47 :: tag ++ [62].
  Definition env_with_attrs (vars : str -> str) (comps : str -> str * list (str * str)) : env :=
    mk_env vars (fun k => open_tag (fst (comps k)) (snd (comps k))) (fun k => close_tag (fst (comps k))).
End Attrs.
