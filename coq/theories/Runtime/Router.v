(** Model of leptos_i18n_router/src/routing.rs (property C14): PathBuilder, strip_base_path,
    get_locale_from_path, match_path_segments, construct_path_segments, localize_path,
    get_new_path, the route tables of generate_routes, and the executable specification.

    URLs are strings ([list N] of code points).  Locales are indices into the list of
    locale names ([L::get_all()] order); [dflt] is the index of [L::default()].
    The definitions named [..._old] mirror the code before the C14 repairs and are kept
    for the refutation lemmas.  No proofs in this file. *)
From Coq Require Import List NArith Bool Arith.
Import ListNotations.
From LI Require Import Base.StrOps.
Open Scope N_scope.

Definition slash : N := 47.
Definition qmark : N := 63.
Definition hashc : N := 35.

Definition nonempty {A} (s : list A) : bool := match s with [] => false | _ => true end.

(** [str::trim_start_matches('/')], [trim_end_matches('/')], [trim_matches('/')] *)
Fixpoint trim_start_slash (s : str) : str :=
  match s with c :: r => if c =? slash then trim_start_slash r else s | [] => [] end.
Fixpoint trim_end_slash (s : str) : str :=
  match s with
  | [] => []
  | c :: r => match trim_end_slash r with
              | [] => if c =? slash then [] else [c]
              | r' => c :: r'
              end
  end.
Definition trim_slashes (s : str) : str := trim_end_slash (trim_start_slash s).

(** [path.split('/').filter(|s| !s.is_empty())] *)
Definition path_segments (s : str) : list str := filter nonempty (split_all slash s).

(** [[&str]::join("/")] *)
Fixpoint join_slash (l : list str) : str :=
  match l with
  | [] => []
  | x :: r => match r with [] => x | _ => x ++ slash :: join_slash r end
  end.

(** * PathBuilder (routing.rs:23-52) *)
Definition pbuilder := list str.
Definition pb_new : pbuilder := [[]].                     (* vec![""] *)
Definition pb_push (pb : pbuilder) (s : str) : pbuilder :=
  let s' := trim_slashes s in if nonempty s' then pb ++ [s'] else pb.
Definition pb_build (pb : pbuilder) : str :=
  let s := join_slash pb in if nonempty s then s else [slash].

(** * leptos_router::PathSegment *)
Inductive pseg :=
| PUnit | PStatic (s : str) | PParam (n : str) | POpt (n : str) | PSplat (n : str).
Definition route := list pseg.
Definition table := list route.              (* Vec<Vec<PathSegment>> of one locale *)
Definition tables := list (option table).    (* RouteSegmentsInner: locale index -> table, None = no entry *)

Inductive res (A : Type) := Ok (a : A) | Panic (site : nat).
Arguments Ok {A} a.
Arguments Panic {A} site.

Definition name_of (names : list str) (l : nat) : str := nth l names [].

Fixpoint find_index {A} (f : A -> bool) (l : list A) : option nat :=
  match l with
  | [] => None
  | x :: r => if f x then Some 0%nat else match find_index f r with Some i => Some (S i) | None => None end
  end.

(** * strip_base_path (repaired code): whole-segment comparison of the base path *)
Fixpoint strip_segs (bs segs : list str) : option (list str) :=
  match bs with
  | [] => Some segs
  | b :: bs' => match segs with
                | [] => None
                | s :: segs' => if str_eqb s b then strip_segs bs' segs' else None
                end
  end.
Definition strip_base_path (path base : str) : option (list str) :=
  strip_segs (path_segments base) (path_segments path).

(** * get_locale_from_path (repaired code) *)
Definition get_locale_from_path (names : list str) (path base : str) : option nat :=
  match strip_base_path path base with
  | None => None
  | Some segs => match segs with
                 | [] => None
                 | f :: _ => find_index (fun n => str_eqb n f) names
                 end
  end.

(** before the repair: [starts_with] on the stripped string (routing.rs:84-94 at 22ead7d) *)
Definition get_locale_from_path_old (names : list str) (path base : str) : option nat :=
  let base' := trim_start_slash base in
  match strip_prefix base' (trim_start_slash path) with
  | None => None
  | Some r => let stripped := trim_start_slash r in
              find_index (fun n => starts_with n stripped) names
  end.

(** * match_path_segments (repaired code): backtracking over optional params.
    Returns the indices of the optional params that take a segment. *)
Fixpoint match_segs (r : route) (idx : nat) (segs : list str) : option (list nat) :=
  match r with
  | [] => match segs with [] => Some [] | _ => None end
  | PUnit :: r' => match_segs r' (S idx) segs
  | PStatic m :: r' =>
      if nonempty m then
        match segs with
        | s :: segs' => if str_eqb m s then match_segs r' (S idx) segs' else None
        | [] => None
        end
      else match_segs r' (S idx) segs
  | PParam _ :: r' =>
      match segs with _ :: segs' => match_segs r' (S idx) segs' | [] => None end
  | POpt _ :: r' =>
      match (match segs with _ :: segs' => match_segs r' (S idx) segs' | [] => None end) with
      | Some o => Some (idx :: o)
      | None => match_segs r' (S idx) segs
      end
  | PSplat _ :: _ => Some []
  end.

(** before the repair: the two nested loops; an optional param is taken iff the segment
    equals the *name* of the param, and a path that ends before the route does never matches *)
Fixpoint match_segs_old (r : route) (idx : nat) (segs : list str) (opts : list nat) : option (list nat) :=
  match segs with
  | [] => match r with [] => Some opts | _ => None end
  | seg :: segs' =>
      match r with
      | [] => None
      | PUnit :: r' => match_segs_old r' (S idx) segs opts
      | PParam _ :: r' => match_segs_old r' (S idx) segs' opts
      | POpt n :: r' => if str_eqb n seg then match_segs_old r' (S idx) segs' (idx :: opts)
                        else match_segs_old r' (S idx) segs opts
      | PStatic m :: r' => if nonempty m then
                             (if str_eqb m seg then match_segs_old r' (S idx) segs' opts else None)
                           else match_segs_old r' (S idx) segs opts
      | PSplat _ :: _ => Some opts
      end
  end.

Definition mem_nat (i : nat) (l : list nat) : bool := existsb (Nat.eqb i) l.

(** * construct_path_segments (unchanged): both loops consume one route segment per iteration,
    so the recursion is on the route; [Panic 1] is the [unwrap] on an exhausted route iterator *)
Fixpoint construct (r : route) (idx : nat) (segs : list str) (opts : list nat) (pb : pbuilder) : res pbuilder :=
  match segs with
  | [] => Ok pb
  | seg :: segs' =>
      match r with
      | [] => Panic 1
      | PUnit :: r' => construct r' (S idx) segs opts pb
      | PParam _ :: r' => construct r' (S idx) segs' opts (pb_push pb seg)
      | POpt _ :: r' => if mem_nat idx opts then construct r' (S idx) segs' opts (pb_push pb seg)
                        else construct r' (S idx) segs opts pb
      | PStatic m :: r' => if nonempty m then construct r' (S idx) segs' opts (pb_push pb m)
                           else construct r' (S idx) segs opts pb
      | PSplat _ :: _ => Ok (fold_left pb_push segs pb)
      end
  end.

(** * localize_path: first route of the old table that matches, same position in the new table.
    [Panic 2] is the index out of bounds of [new_locale_segments[pos]]. *)
Fixpoint find_route (m : route -> option (list nat)) (t : table) (pos : nat) : option (nat * list nat) :=
  match t with
  | [] => None
  | r :: t' => match m r with Some o => Some (pos, o) | None => find_route m t' (S pos) end
  end.

Definition localize_path_with (m : route -> option (list nat)) (segs : list str) (old_t new_t : table)
  (pb : pbuilder) : res (option pbuilder) :=
  match find_route m old_t 0 with
  | None => Ok None
  | Some (pos, opts) =>
      match nth_error new_t pos with
      | None => Panic 2
      | Some r => match construct r 0 segs opts pb with
                  | Ok pb' => Ok (Some pb')
                  | Panic s => Panic s
                  end
      end
  end.
Definition localize_path (segs : list str) := localize_path_with (fun r => match_segs r 0 segs) segs.
Definition localize_path_old (path_rest : str) :=
  let segs := path_segments path_rest in
  localize_path_with (fun r => match_segs_old r 0 segs []) segs.

Definition tabs_get (t : tables) (l : nat) : option table :=
  match nth_error t l with Some (Some x) => Some x | _ => None end.

(** * get_new_path (repaired code).  [old] is the [locale: Option<L>] argument. *)
Definition strip_locale (names : list str) (old : option nat) (rest : list str) : list str :=
  match old with
  | None => rest
  | Some l => match rest with
              | f :: rest' => if str_eqb f (name_of names l) then rest' else rest
              | [] => rest
              end
  end.

Definition get_new_pathname (names : list str) (dflt : nat) (base : str) (tabs : tables)
  (path : str) (new : nat) (old : option nat) : res str :=
  let pb := pb_push pb_new base in
  let pb := if Nat.eqb new dflt then pb else pb_push pb (name_of names new) in
  let r :=
    match strip_base_path path base with
    | None => Ok pb
    | Some rest =>
        let rest := strip_locale names old rest in
        let fallback := Ok (fold_left pb_push rest pb) in
        match tabs_get tabs (match old with Some l => l | None => dflt end), tabs_get tabs new with
        | Some o, Some n =>
            match localize_path rest o n pb with
            | Panic s => Panic s
            | Ok (Some pb') => Ok pb'
            | Ok None => fallback
            end
        | _, _ => fallback
        end
    end in
  match r with Panic s => Panic s | Ok pb => Ok (pb_build pb) end.

(** query and fragment are appended as given by [Location]: [search] never has its '?', while
    [hash] is [window.location.hash] on the client (leptos_router 0.7.8 stores it unmodified:
    "#top"), the empty string on the server, and a bare "top" only in tests.  The repaired code
    pushes '#' only when [hash] does not already start with one. *)
Definition starts_with_hash (h : str) : bool := match h with c :: _ => c =? hashc | [] => false end.
Definition hash_part (hash : str) : str :=
  if nonempty hash then (if starts_with_hash hash then hash else hashc :: hash) else [].
(** before the repair (2cc600f): an unconditional '#' *)
Definition hash_part_old (hash : str) : str := if nonempty hash then hashc :: hash else [].
Definition search_part (search : str) : str := if nonempty search then qmark :: search else [].

Definition url_suffix (search hash : str) : str := search_part search ++ hash_part hash.
Definition url_suffix_old (search hash : str) : str := search_part search ++ hash_part_old hash.

Definition get_new_path (names : list str) (dflt : nat) (base : str) (tabs : tables)
  (path search hash : str) (new : nat) (old : option nat) : res str :=
  match get_new_pathname names dflt base tabs path new old with
  | Panic s => Panic s
  | Ok p => Ok (p ++ url_suffix search hash)
  end.

(** before the repair: [strip_prefix] on strings for the base path and for the locale name *)
Definition get_new_pathname_old (names : list str) (dflt : nat) (base : str) (tabs : tables)
  (path : str) (new : nat) (old : option nat) : res str :=
  let pb := pb_push pb_new base in
  let pb := if Nat.eqb new dflt then pb else pb_push pb (name_of names new) in
  let r :=
    match strip_prefix base path with
    | None => Ok pb
    | Some rest =>
        let rest := match old with
                    | None => rest
                    | Some l => match strip_prefix (name_of names l) rest with Some r' => r' | None => rest end
                    end in
        let fallback := Ok (pb_push pb rest) in
        match tabs_get tabs (match old with Some l => l | None => dflt end), tabs_get tabs new with
        | Some o, Some n =>
            match localize_path_old rest o n pb with
            | Panic s => Panic s
            | Ok (Some pb') => Ok pb'
            | Ok None => fallback
            end
        | _, _ => fallback
        end
    end in
  match r with Panic s => Panic s | Ok pb => Ok (pb_build pb) end.

Definition get_new_path_old (names : list str) (dflt : nat) (base : str) (tabs : tables)
  (path search hash : str) (new : nat) (old : option nat) : res str :=
  match get_new_pathname_old names dflt base tabs path new old with
  | Panic s => Panic s
  | Ok p => Ok (p ++ url_suffix_old search hash)
  end.

(** the current path algorithm with the pre-2cc600f fragment handling (for the refutation) *)
Definition get_new_path_double_hash (names : list str) (dflt : nat) (base : str) (tabs : tables)
  (path search hash : str) (new : nat) (old : option nat) : res str :=
  match get_new_pathname names dflt base tabs path new old with
  | Panic s => Panic s
  | Ok p => Ok (p ++ url_suffix_old search hash)
  end.

(** a history of locale switches: the [locale] argument is the context's previous locale
    (update_path_effect, [by_path = false]) or the locale read from the current path
    (correct_locale_prefix_effect, [by_path = true]); query and fragment are carried along *)
Fixpoint history (names : list str) (dflt : nat) (base : str) (tabs : tables) (by_path : bool)
  (path : str) (cur : option nat) (ls : list nat) : res (list str) :=
  match ls with
  | [] => Ok []
  | l :: ls' =>
      let old := if by_path then get_locale_from_path names path base else cur in
      match get_new_pathname names dflt base tabs path l old with
      | Panic s => Panic s
      | Ok p => match history names dflt base tabs by_path p (Some l) ls' with
                | Panic s => Panic s
                | Ok ps => Ok (p :: ps)
                end
      end
  end.

(** the route matcher of I18nNestedRoute::match_nested after the repair keeps a locale only when
    leptos_router's StaticSegment match stopped at a segment boundary *)
Definition at_boundary (remaining : str) : bool :=
  match remaining with [] => true | c :: _ => c =? slash end.

(** * Independent description of the input: what the application declares *)

(** a declared route segment; a static segment has one name per locale (all equal unless it
    was made with [i18n_path!]) *)
Inductive aseg :=
| AUnit | AStatic (ns : list str) | AParam (n : str) | AOpt (n : str) | ASplat (n : str).

Definition concr (l : nat) (a : aseg) : pseg :=
  match a with
  | AUnit => PUnit
  | AStatic ns => PStatic (nth l ns [])
  | AParam n => PParam n
  | AOpt n => POpt n
  | ASplat n => PSplat n
  end.
Definition table_of (l : nat) (t : list (list aseg)) : table := map (map (concr l)) t.
(** RouteSegments as filled by generate_routes_for_each_locale: one entry per locale *)
Definition tabs_of (n : nat) (t : list (list aseg)) : tables :=
  map (fun l => Some (table_of l t)) (seq 0 n).

(** generate_routes: the N+1 families — every route with its leading segment replaced by the
    locale name, for every locale, then the default locale's routes without that segment *)
Definition generated_routes (names : list str) (dflt : nat) (t : list (list aseg)) : list route :=
  flat_map (fun l => map (fun r => match map (concr l) r with
                                   | _ :: r' => PStatic (name_of names l) :: r'
                                   | [] => []
                                   end) t) (seq 0 (length names))
  ++ map (fun r => tl (map (concr dflt) r)) t.

(** one reading of a path: the static segments it went through and the values it captured *)
Inductive iseg := IStat (ns : list str) | IVal (v : str).

Definition render_seg (l : nat) (i : iseg) : str :=
  match i with IStat ns => nth l ns [] | IVal v => v end.
Definition render (l : nat) (inst : list iseg) : list str := map (render_seg l) inst.

Definition no_slash (s : str) : bool := forallb (fun c => negb (c =? slash)) s.
(** a single non-empty segment *)
Definition seg_ok (s : str) : bool := nonempty s && no_slash s.

Definition all_empty (n : nat) (ns : list str) : bool :=
  forallb (fun l => negb (nonempty (nth l ns []))) (seq 0 n).
Definition all_ok (n : nat) (ns : list str) : bool :=
  forallb (fun l => seg_ok (nth l ns [])) (seq 0 n).

(** [inst_of n r inst]: [inst] is an instance of the declared route [r] ([n] locales) *)
Inductive inst_of (n : nat) : list aseg -> list iseg -> Prop :=
| io_nil : inst_of n [] []
| io_unit : forall r i, inst_of n r i -> inst_of n (AUnit :: r) i
| io_skip : forall ns r i, all_empty n ns = true -> inst_of n r i -> inst_of n (AStatic ns :: r) i
| io_stat : forall ns r i, all_ok n ns = true -> inst_of n r i -> inst_of n (AStatic ns :: r) (IStat ns :: i)
| io_param : forall p v r i, seg_ok v = true -> inst_of n r i -> inst_of n (AParam p :: r) (IVal v :: i)
| io_opt_some : forall p v r i, seg_ok v = true -> inst_of n r i -> inst_of n (AOpt p :: r) (IVal v :: i)
| io_opt_none : forall p r i, inst_of n r i -> inst_of n (AOpt p :: r) i
| io_splat : forall p r vs, forallb seg_ok vs = true -> inst_of n (ASplat p :: r) (map IVal vs).

(** every static segment of the table is, in all locales alike, either empty or a single
    non-empty segment (otherwise the tables of two locales do not have the same shape) *)
Definition aseg_ok (n : nat) (a : aseg) : bool :=
  match a with AStatic ns => all_empty n ns || all_ok n ns | _ => true end.
Definition atab_ok (n : nat) (t : list (list aseg)) : bool := forallb (forallb (aseg_ok n)) t.

Definition prefix_of (names : list str) (dflt l : nat) : list str :=
  if Nat.eqb l dflt then [] else [name_of names l].

(** the URL of a reading in locale [l]: PathBuilder-normalised (single slashes, no trailing slash) *)
Definition render_path (segs : list str) : str :=
  match segs with [] => [slash] | _ => slash :: join_slash segs end.
Definition url_path (names : list str) (dflt : nat) (bsegs : list str) (l : nat) (inst : list iseg) : str :=
  render_path (bsegs ++ prefix_of names dflt l ++ render l inst).

(** all readings of a list of segments as an instance of a declared route (locale [l]) *)
Fixpoint parses (n l : nat) (r : list aseg) (segs : list str) : list (list iseg) :=
  match r with
  | [] => match segs with [] => [[]] | _ => [] end
  | AUnit :: r' => parses n l r' segs
  | AStatic ns :: r' =>
      (if all_empty n ns then parses n l r' segs else []) ++
      (if all_ok n ns then
         match segs with
         | s :: segs' => if str_eqb (nth l ns []) s then map (cons (IStat ns)) (parses n l r' segs') else []
         | [] => []
         end
       else [])
  | AParam _ :: r' =>
      match segs with
      | s :: segs' => if seg_ok s then map (cons (IVal s)) (parses n l r' segs') else []
      | [] => []
      end
  | AOpt _ :: r' =>
      (match segs with
       | s :: segs' => if seg_ok s then map (cons (IVal s)) (parses n l r' segs') else []
       | [] => []
       end) ++ parses n l r' segs
  | ASplat _ :: _ => if forallb seg_ok segs then [map IVal segs] else []
  end.

Fixpoint list_eqb {A} (e : A -> A -> bool) (a b : list A) : bool :=
  match a, b with
  | [], [] => true
  | x :: xs, y :: ys => e x y && list_eqb e xs ys
  | _, _ => false
  end.
Definition iseg_eqb (a b : iseg) : bool :=
  match a, b with
  | IStat x, IStat y => list_eqb str_eqb x y
  | IVal x, IVal y => str_eqb x y
  | _, _ => false
  end.

(** * valid (DESIGN §5 C14) *)

(** locale names are single non-empty segments *)
Definition names_ok (names : list str) : bool := forallb seg_ok names.

(** [reads_as n t l inst]: in locale [l] the path [render l inst] matches the table [t] in exactly
    one way, namely as [inst] (it is an instance of some route, and every instance of every route
    that renders to the same segments is [inst] itself) *)
Definition reads_as (n : nat) (t : list (list aseg)) (l : nat) (inst : list iseg) : Prop :=
  (exists r, In r t /\ inst_of n r inst) /\
  (forall r inst', In r t -> inst_of n r inst' -> render l inst' = render l inst -> inst' = inst).

(** the URL really is one of locale [l]: without a prefix (default locale) its first segment
    must not itself be a locale name, or the router reads it as that locale's prefix *)
Definition first_not_locale (names : list str) (segs : list str) : bool :=
  match segs with [] => true | f :: _ => negb (existsb (fun nm => str_eqb nm f) names) end.
Definition locale_readable (names : list str) (dflt l : nat) (inst : list iseg) : Prop :=
  l = dflt -> first_not_locale names (render l inst) = true.

Definition valid_at (names : list str) (dflt : nat) (t : list (list aseg)) (l : nat) (inst : list iseg) : Prop :=
  (l < length names)%nat /\ reads_as (length names) t l inst /\ locale_readable names dflt l inst.

(** [valid]: locale names are single non-empty segments; the table is well formed; the path
    matches exactly one route reading of the source locale's table and its image exactly one of
    the target's *)
Definition valid (names : list str) (dflt : nat) (t : list (list aseg)) (a b : nat) (inst : list iseg) : Prop :=
  names_ok names = true /\ atab_ok (length names) t = true /\
  valid_at names dflt t a inst /\ valid_at names dflt t b inst.

(** the base path argument is one of the documented spellings of its segments:
    ["foo"], ["/foo"], ["foo/"], ["/foo/"] (any number of surrounding slashes) *)
Definition all_slash (s : str) : bool := forallb (fun c => c =? slash) s.
Definition base_ok (base : str) (bsegs : list str) : Prop :=
  forallb seg_ok bsegs = true /\
  exists pre post, all_slash pre = true /\ all_slash post = true /\ base = pre ++ join_slash bsegs ++ post.

(** the [locale] argument of get_new_path: the locale of the URL ([Some a], passed by
    update_path_effect / correct_locale_prefix_effect) or [None] for a URL without prefix (maybe_redirect) *)
Definition old_ok_p (dflt a : nat) (old : option nat) : Prop :=
  match old with Some l => l = a | None => a = dflt end.

(** executable versions used by the correspondence check *)
Definition reads_as_b (n : nat) (t : list (list aseg)) (l : nat) (inst : list iseg) : bool :=
  let ps := flat_map (fun r => parses n l r (render l inst)) t in
  nonempty ps && forallb (fun i' => list_eqb iseg_eqb i' inst) ps.
Definition valid_at_b (names : list str) (dflt : nat) (t : list (list aseg)) (l : nat) (inst : list iseg) : bool :=
  Nat.ltb l (length names) && reads_as_b (length names) t l inst &&
  (negb (Nat.eqb l dflt) || first_not_locale names (render l inst)).
Definition valid_b names dflt t a b inst : bool :=
  names_ok names && atab_ok (length names) t && valid_at_b names dflt t a inst && valid_at_b names dflt t b inst.
Definition base_ok_b (base : str) (bsegs : list str) : bool :=
  forallb seg_ok bsegs && str_eqb (trim_slashes base) (join_slash bsegs)
  && list_eqb str_eqb (path_segments base) bsegs.

(** * First-match semantics (overlapping routes).
    When several routes of the table match a path the router's rule is "the first matching route
    wins", and inside a route an optional parameter takes a segment whenever the rest of the path can
    still be read.  [parses] enumerates the readings of one route in exactly that order of preference,
    so the first reading of a path is the head of the enumeration over the table in table order. *)
Definition first_parse (n l : nat) (t : list (list aseg)) (segs : list str) : option (list iseg) :=
  hd_error (flat_map (fun r => parses n l r segs) t).

(** the segments expected after switching from locale [a] to [b]: the static segments of the first
    reading in [b]'s spelling; a path that no route matches is kept as it is *)
Definition expected_segs (n : nat) (t : list (list aseg)) (a b : nat) (segs : list str) : list str :=
  match first_parse n a t segs with Some inst => render b inst | None => segs end.

(** [valid_url]: what a URL of locale [a] must satisfy for the statement to make sense, with
    overlapping tables allowed: locale names are single non-empty segments, the table is well formed,
    the segments after the base path and the prefix are non-empty and slash-free, and a URL of the
    default locale does not start with a locale name *)
Definition valid_url (names : list str) (dflt : nat) (t : list (list aseg)) (a b : nat) (segs : list str) : Prop :=
  names_ok names = true /\ atab_ok (length names) t = true /\ (a < length names)%nat /\ (b < length names)%nat /\
  forallb seg_ok segs = true /\ (a = dflt -> first_not_locale names segs = true).
Definition valid_url_b (names : list str) (dflt : nat) (t : list (list aseg)) (a b : nat) (segs : list str) : bool :=
  names_ok names && atab_ok (length names) t && Nat.ltb a (length names) && Nat.ltb b (length names)
  && forallb seg_ok segs && (negb (Nat.eqb a dflt) || first_not_locale names segs).

(** the path string handed to the router denotes the URL (base, locale [a], [segs]): any spelling
    with repeated or trailing slashes is allowed *)
Definition path_denotes (names : list str) (dflt : nat) (bsegs : list str) (a : nat) (segs : list str) (path : str) : Prop :=
  path_segments path = bsegs ++ prefix_of names dflt a ++ segs.

(** A URL may also carry an explicit prefix for the DEFAULT locale ("/en/about" with default en): the
    router accepts it (match_nested tries every locale name, get_locale_from_path reads en) and does not
    redirect.  [path_denotes_explicit]: the path spells base, the name of locale [a] (default or not),
    then [segs].  Leaving such a URL must rewrite that prefix like any other; the result is in
    canonical form (no prefix for the default locale).  No readability condition is needed: the
    prefix is there.  The [locale] argument is [Some a] (what get_locale_from_path reads). *)
Definition path_denotes_explicit (names : list str) (bsegs : list str) (a : nat) (segs : list str) (path : str) : Prop :=
  path_segments path = bsegs ++ name_of names a :: segs.
Definition valid_url_explicit (names : list str) (t : list (list aseg)) (a b : nat) (segs : list str) : Prop :=
  names_ok names = true /\ atab_ok (length names) t = true /\ (a < length names)%nat /\ (b < length names)%nat /\
  forallb seg_ok segs = true.
Definition valid_url_explicit_b (names : list str) (t : list (list aseg)) (a b : nat) (segs : list str) : bool :=
  names_ok names && atab_ok (length names) t && Nat.ltb a (length names) && Nat.ltb b (length names)
  && forallb seg_ok segs.

(** histories under first-match semantics: the segments expected after every switch, and the
    validity of every intermediate URL *)
Fixpoint expected_history (n : nat) (t : list (list aseg)) (a : nat) (segs : list str) (ls : list nat)
  : list (nat * list str) :=
  match ls with
  | [] => []
  | l :: ls' => let s' := expected_segs n t a l segs in (l, s') :: expected_history n t l s' ls'
  end.
Fixpoint hist_valid (names : list str) (dflt : nat) (t : list (list aseg)) (a : nat) (segs : list str) (ls : list nat) : Prop :=
  match ls with
  | [] => True
  | l :: ls' => valid_url names dflt t a l segs /\ hist_valid names dflt t l (expected_segs (length names) t a l segs) ls'
  end.
Fixpoint hist_valid_b (names : list str) (dflt : nat) (t : list (list aseg)) (a : nat) (segs : list str) (ls : list nat) : bool :=
  match ls with
  | [] => true
  | l :: ls' => valid_url_b names dflt t a l segs && hist_valid_b names dflt t l (expected_segs (length names) t a l segs) ls'
  end.

(** * The specification *)

(** The fragment of a URL as [Location.hash] denotes it: the text after ONE leading '#', or the whole
    text when there is none (bare form).  A [hash] that starts with '#' is read as the browser form;
    a bare fragment that itself starts with '#' cannot be told apart from it and is not a separate
    case.  The property demands that the new URL carries the same fragment: "#" ++ fragment when the
    fragment is non-empty, nothing otherwise.
    Undecidable input: [hash = "#"] alone (a browser never reports it; it is the browser form of the
    empty fragment or the bare form of the fragment "#").  The code emits "…#", an empty fragment
    spelled out; the spec would demand no '#'.  [hash_decidable] keeps it out of the judged population. *)
Definition fragment_of (hash : str) : str :=
  match hash with c :: r => if c =? hashc then r else hash | [] => [] end.
Definition spec_suffix (search hash : str) : str :=
  (if nonempty search then qmark :: search else []) ++
  (if nonempty (fragment_of hash) then hashc :: fragment_of hash else []).
Definition hash_decidable (hash : str) : bool := negb (str_eqb hash [hashc]).

(** [Location.hash] after navigating to a URL whose fragment part is [part] ("" or "#" ++ fragment):
    the browser reports "#" ++ fragment ("" for an empty fragment), a test double the bare fragment *)
Definition reparse_hash (browser : bool) (part : str) : str :=
  let f := fragment_of part in
  if browser then (if nonempty f then hashc :: f else []) else f.
Fixpoint hash_after (emit : str -> str) (browser : bool) (n : nat) (h : str) : str :=
  match n with O => h | S k => hash_after emit browser k (reparse_hash browser (emit h)) end.

Definition res_str_eqb (r : res str) (s : str) : bool :=
  match r with Ok x => str_eqb x s | Panic _ => false end.

(** switching from the URL of [inst] in some locale to locale [b] must yield the URL of the same
    reading in [b]: same base segments, prefix of [b] (absent for the default), every static
    segment in [b]'s spelling, every captured value unchanged, same query and fragment *)
Definition spec_switch (names : list str) (dflt : nat) (bsegs : list str) (inst : list iseg)
  (search hash : str) (b : nat) (out : res str) : bool :=
  res_str_eqb out (url_path names dflt bsegs b inst ++ spec_suffix search hash).

(** first-match semantics: the rewritten URL has the expected segments of the first reading *)
Definition spec_first_match (names : list str) (dflt : nat) (bsegs : list str) (t : list (list aseg))
  (a b : nat) (segs : list str) (search hash : str) (out : res str) : bool :=
  res_str_eqb out (render_path (bsegs ++ prefix_of names dflt b ++ expected_segs (length names) t a b segs)
                   ++ spec_suffix search hash).

Definition opt_nat_eqb (a b : option nat) : bool :=
  match a, b with Some x, Some y => Nat.eqb x y | None, None => true | _, _ => false end.

(** the locale read from a URL whose segments are [psegs] under the base segments [bsegs]:
    [Some l] iff the first segment after the base path is exactly the name of [l] *)
Definition spec_locale (names : list str) (bsegs psegs : list str) (out : option nat) : bool :=
  match strip_segs bsegs psegs with
  | Some (f :: _) =>
      match out with
      | Some l => Nat.ltb l (length names) && str_eqb (name_of names l) f
                  && negb (existsb (fun nm => str_eqb nm f) (firstn l names))
      | None => negb (existsb (fun nm => str_eqb nm f) names)
      end
  | _ => match out with None => true | Some _ => false end
  end.

(** the whole property on one input: the locale read back from the rewritten URL and the
    rewritten URL itself *)
Definition spec_C14 (names : list str) (dflt : nat) (bsegs : list str) (inst : list iseg)
  (search hash : str) (b : nat) (out : res str) : bool :=
  spec_switch names dflt bsegs inst search hash b out.

Definition history_spec (names : list str) (dflt : nat) (bsegs : list str) (inst : list iseg)
  (ls : list nat) (out : res (list str)) : bool :=
  match out with
  | Ok ps => list_eqb str_eqb ps (map (fun l => url_path names dflt bsegs l inst) ls)
  | Panic _ => false
  end.

(** * I18nNestedRoute::match_nested.
    The inner route tree is matched by leptos_router, which is not modelled: its answers are oracle
    arguments.  [ol]: for every locale (in [names] order) the result of matching the inner tree, under
    that locale, against the REST of the path after the first segment; [od]: the result of matching
    the inner tree under the default locale against the WHOLE path.  A result is (remaining, params).
    The model mirrors the code: the locales are tried in order — the first segment must be exactly
    the locale's name and the rest must match — and only then the bare path. *)
Definition mres := (str * list (str * str))%type.

Fixpoint find_loc (f : str) (names : list str) (ol : list (option mres)) (idx : nat) : option (nat * mres) :=
  match names, ol with
  | nm :: names', o :: ol' =>
      if str_eqb nm f then
        match o with Some r => Some (idx, r) | None => find_loc f names' ol' (S idx) end
      else find_loc f names' ol' (S idx)
  | _, _ => None
  end.

(** result: (locale, matched prefix, (remaining, params)) *)
Definition match_nested_model (names : list str) (first : option str) (ol : list (option mres)) (od : option mres)
  : option (option nat * str * mres) :=
  match (match first with Some f => find_loc f names ol O | None => None end) with
  | Some (l, r) => Some (Some l, slash :: name_of names l, r)
  | None => match od with Some r => Some (None, [], r) | None => None end
  end.

(** the two attempts in the other order (bare path first): kept for the refutation *)
Definition match_nested_swapped (names : list str) (first : option str) (ol : list (option mres)) (od : option mres)
  : option (option nat * str * mres) :=
  match od with
  | Some r => Some (None, [], r)
  | None => match (match first with Some f => find_loc f names ol O | None => None end) with
            | Some (l, r) => Some (Some l, slash :: name_of names l, r)
            | None => None
            end
  end.

Definition pair_eqb {A B} (ea : A -> A -> bool) (eb : B -> B -> bool) (x y : A * B) : bool :=
  ea (fst x) (fst y) && eb (snd x) (snd y).
Definition mres_eqb : mres -> mres -> bool := pair_eqb str_eqb (list_eqb (pair_eqb str_eqb str_eqb)).
Definition omres_eqb (a b : option mres) : bool :=
  match a, b with Some x, Some y => mres_eqb x y | None, None => true | _, _ => false end.
Definition is_some {A} (o : option A) : bool := match o with Some _ => true | None => false end.

(** locale [j] serves the path: its name is exactly the first segment and the rest matches under it *)
Definition served (names : list str) (ol : list (option mres)) (f : str) (j : nat) : bool :=
  str_eqb (name_of names j) f && is_some (nth j ol None).

(** the locale read is [Some l] iff the first segment equals [name l] exactly and the rest is matched by
    the inner table under [l] ([l] the first such locale); otherwise no locale and the whole path is
    matched by the inner table *)
Definition spec_match (names : list str) (first : option str) (ol : list (option mres)) (od : option mres)
  (out : option (option nat * str * mres)) : bool :=
  let n := length names in
  let none_served := match first with
                     | Some f => forallb (fun j => negb (served names ol f j)) (seq 0 n)
                     | None => true
                     end in
  match out with
  | Some (Some l, m, r) =>
      match first with
      | Some f => Nat.ltb l n && str_eqb (name_of names l) f && omres_eqb (nth l ol None) (Some r)
                  && str_eqb m (slash :: f) && forallb (fun j => negb (served names ol f j)) (seq 0 l)
      | None => false
      end
  | Some (None, m, r) => negb (nonempty m) && omres_eqb od (Some r) && none_served
  | None => negb (is_some od) && none_served
  end.
