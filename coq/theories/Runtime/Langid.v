(** Model of leptos_i18n/src/langid.rs (locale negotiation) — property C12.
    Mirrors: lang_matches, subtag_matches, subtags_match, lang_id_matches,
    filter_matches (per request: exact pass then available-as-range pass, both
    `retain`-style, then a stable sort by specificity of what this request
    contributed), into_specificity, find_match, convert_vec_str_to_langids_lossy.
    Subtags are an abstract carrier (N); [lang = 0] is the empty language `und`. *)
From Coq Require Import List NArith Bool Arith.
Import ListNotations.
Open Scope N_scope.

Record langid := mk_langid {
  lang : N;               (* 0 = empty (und) *)
  script : option N;
  region : option N;
  variants : list N }.

(** a locale of the application: an identifier (enum discriminant) and its langid *)
Definition loc := (N * langid)%type.
Definition lid (l : loc) : langid := snd l.

Definition is_none {A} (o : option A) : bool := match o with None => true | Some _ => false end.
Definition opt_eqb (a b : option N) : bool :=
  match a, b with
  | None, None => true
  | Some x, Some y => x =? y
  | _, _ => false
  end.
Fixpoint list_eqb (a b : list N) : bool :=
  match a, b with
  | [], [] => true
  | x :: xs, y :: ys => (x =? y) && list_eqb xs ys
  | _, _ => false
  end.
Definition is_nil {A} (l : list A) : bool := match l with [] => true | _ => false end.

Definition lang_matches (l r : N) (ar1 ar2 : bool) : bool :=
  (ar1 && (l =? 0)) || (ar2 && (r =? 0)) || (l =? r).
Definition subtag_matches (s1 s2 : option N) (ar1 ar2 : bool) : bool :=
  (ar1 && is_none s1) || (ar2 && is_none s2) || opt_eqb s1 s2.
Definition subtags_match (v1 v2 : list N) (ar1 ar2 : bool) : bool :=
  (ar1 && is_nil v1) || (ar2 && is_nil v2) || list_eqb v1 v2.

Definition lang_id_matches (l r : langid) (ar1 ar2 : bool) : bool :=
  lang_matches (lang l) (lang r) ar1 ar2
  && subtag_matches (script l) (script r) ar1 ar2
  && subtag_matches (region l) (region r) ar1 ar2
  && subtags_match (variants l) (variants r) ar1 ar2.

Definition specificity (l : langid) : nat :=
  ((if is_none (script l) then 0 else 1) + (if is_none (region l) then 0 else 1) + length (variants l))%nat.

(** [Vec::retain] with a closure that moves matching elements to the result:
    (moved, kept), both in the original order. *)
Definition pass (self_as_range : bool) (req : langid) (avail : list loc) : list loc * list loc :=
  partition (fun l => lang_id_matches (lid l) req self_as_range false) avail.

(** stable sort by specificity, descending ([sort_by(|x,y| cmp(x,y).reverse())], stable in Rust) *)
Fixpoint insert_desc (x : loc) (l : list loc) : list loc :=
  match l with
  | [] => [x]
  | y :: r => if (specificity (lid x) <? specificity (lid y))%nat then y :: insert_desc x r else x :: l
  end.
Fixpoint sort_desc (l : list loc) : list loc :=
  match l with
  | [] => []
  | x :: r => insert_desc x (sort_desc r)
  end.

(** one iteration of the request loop (current code: sorts only the segment this
    request contributed) *)
Definition step (st : list loc * list loc) (req : langid) : list loc * list loc :=
  let '(acc, avail) := st in
  let '(m1, a1) := pass false req avail in
  let '(m2, a2) := pass true req a1 in
  (acc ++ sort_desc (m1 ++ m2), a2).

Definition filter_matches (reqs : list langid) (avail : list loc) : list loc :=
  fst (fold_left step reqs ([], avail)).

Definition find_match (reqs : list langid) (avail : list loc) (dflt : loc) : loc :=
  hd dflt (filter_matches reqs avail).

(** convert_vec_str_to_langids_lossy: entries that do not parse are dropped.
    The parser itself (icu_locid) is an oracle: an input entry is [Some id] or [None]. *)
Fixpoint lossy (inputs : list (option langid)) : list langid :=
  match inputs with
  | [] => []
  | Some i :: r => i :: lossy r
  | None :: r => lossy r
  end.
Definition find_locale (inputs : list (option langid)) (all : list loc) (dflt : loc) : loc :=
  find_match (lossy inputs) all dflt.

(** The code as it was before the fix: one global sort of the whole result. *)
Definition step_old (st : list loc * list loc) (req : langid) : list loc * list loc :=
  let '(acc, avail) := st in
  let '(m1, a1) := pass false req avail in
  let '(m2, a2) := pass true req a1 in
  (acc ++ m1 ++ m2, a2).
Definition filter_matches_old (reqs : list langid) (avail : list loc) : list loc :=
  sort_desc (fst (fold_left step_old reqs ([], avail))).
Definition find_match_old reqs avail (dflt : loc) : loc := hd dflt (filter_matches_old reqs avail).

(** * Specification (independent of the algorithm) *)
Definition serves (s r : langid) : bool := lang_id_matches s r true false.
Definition exact (s r : langid) : bool := lang_id_matches s r false false.

Definition servable (avail : list loc) (r : langid) : bool := existsb (fun s => serves (lid s) r) avail.
Definition loc_eqb (a b : loc) : bool :=
  (fst a =? fst b) && (lang (lid a) =? lang (lid b)) && opt_eqb (script (lid a)) (script (lid b))
  && opt_eqb (region (lid a)) (region (lid b)) && list_eqb (variants (lid a)) (variants (lid b)).
Definition mem_loc (x : loc) (l : list loc) : bool := existsb (loc_eqb x) l.

(** the property as an executable predicate on a result [res] *)
Definition spec_C12 (reqs : list langid) (avail : list loc) (dflt res : loc) : bool :=
  match find (servable avail) reqs with
  | None => loc_eqb res dflt
  | Some r =>
      mem_loc res avail && serves (lid res) r
      && (if existsb (fun s => exact (lid s) r) avail then exact (lid res) r else true)
  end.
