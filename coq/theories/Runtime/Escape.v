(** JSON text (RFC 8259) over code points: value type, a DECODER for the whole grammar,
    and the two hand-built JSON writers of the repository:

    - [format]    = `impl Display for TranslationsFormatter` (leptos_i18n_build/src/lib.rs):
                    the file written by `write_to_dir`, one JSON array of strings;
    - [to_array]  = `RegisterCtx::to_array` (leptos_i18n/src/fetch_translations.rs): the body of
                    the `<script>` the server embeds for hydration.

    Both are modelled byte for byte (strings are lists of code points, the output
    is UTF-8 encoded by Rust afterwards; the harness decodes it back).  The
    algorithms as they were before the repairs are kept as [format_old]
    (the `{:?}` format, i.e. the Debug escaping of Rust) and [to_array_old] (strings pushed raw).

    No proofs in this file. *)
From Coq Require Import List NArith Bool Arith.
Import ListNotations.
From LI Require Import Base.StrOps.
Open Scope N_scope.

(** ASCII constants are written as code point lists; the text is in the comment next to each. *)

(** ** hexadecimal *)
Definition hex_digit (d : N) : N := if d <? 10 then 48 + d else 87 + d.   (* 0-9 a-f, lower case as `{:x}` *)
Definition hex4 (c : N) : str :=
  [hex_digit ((c / 4096) mod 16); hex_digit ((c / 256) mod 16); hex_digit ((c / 16) mod 16); hex_digit (c mod 16)].
Definition hex_val (c : N) : option N :=
  if (48 <=? c) && (c <=? 57) then Some (c - 48)
  else if (97 <=? c) && (c <=? 102) then Some (c - 87)
  else if (65 <=? c) && (c <=? 70) then Some (c - 55)
  else None.
Definition hex4_val (a b c d : N) : option N :=
  match hex_val a, hex_val b, hex_val c, hex_val d with
  | Some x, Some y, Some z, Some w => Some (4096 * x + 256 * y + 16 * z + w)
  | _, _, _, _ => None
  end.
(** minimal-width lower-case hex, as `{:x}` (used by Debug's `\u{..}`) *)
Fixpoint hex_digits (fuel : nat) (c : N) (acc : str) : str :=
  match fuel with
  | O => acc
  | S f => let acc' := hex_digit (c mod 16) :: acc in
           if c / 16 =? 0 then acc' else hex_digits f (c / 16) acc'
  end.
Definition hex_min (c : N) : str := hex_digits 8 c [].

(** ** JSON values *)
Inductive json :=
| JNull
| JBool (b : bool)
| JNum (raw : str)              (* the number's text; never produced by the writers below *)
| JStr (s : str)
| JArr (l : list json)
| JObj (m : list (str * json)).

(** ** Decoder *)
Definition is_jws (c : N) : bool := (c =? 32) || (c =? 9) || (c =? 10) || (c =? 13).
Fixpoint skip_ws (s : str) : str :=
  match s with c :: r => if is_jws c then skip_ws r else s | [] => [] end.

Definition is_high (u : N) : bool := (55296 <=? u) && (u <? 56320).   (* D800..DBFF *)
Definition is_low (u : N) : bool := (56320 <=? u) && (u <? 57344).    (* DC00..DFFF *)

Definition cons_res (c : N) (r : option (str * str)) : option (str * str) :=
  match r with Some (x, rest) => Some (c :: x, rest) | None => None end.

(** after the opening quote: (content, text after the closing quote).
    RFC 8259 §7: unescaped = any code point except the quote, the backslash and C0 controls;
    `\uXXXX` denotes a UTF-16 unit, a surrogate pair denotes one astral code point,
    an unpaired surrogate is rejected (it is not a Unicode scalar value, a Rust
    `str`/`Box<str>` cannot hold it and serde_json rejects it). *)
Fixpoint dec_str (s : str) : option (str * str) :=
  match s with
  | [] => None
  | c :: r =>
    if c =? 34 then Some ([], r)
    else if c =? 92 then
      match r with
      | [] => None
      | e :: r1 =>
        if e =? 34 then cons_res 34 (dec_str r1)
        else if e =? 92 then cons_res 92 (dec_str r1)
        else if e =? 47 then cons_res 47 (dec_str r1)
        else if e =? 98 then cons_res 8 (dec_str r1)
        else if e =? 102 then cons_res 12 (dec_str r1)
        else if e =? 110 then cons_res 10 (dec_str r1)
        else if e =? 114 then cons_res 13 (dec_str r1)
        else if e =? 116 then cons_res 9 (dec_str r1)
        else if e =? 117 then
          match r1 with
          | a :: b :: c2 :: d :: r2 =>
            match hex4_val a b c2 d with
            | None => None
            | Some u =>
              if is_low u then None
              else if is_high u then
                match r2 with
                | b1 :: u1 :: a' :: b' :: c' :: d' :: r3 =>
                  if (b1 =? 92) && (u1 =? 117) then
                    match hex4_val a' b' c' d' with
                    | Some l => if is_low l then cons_res (65536 + (u - 55296) * 1024 + (l - 56320)) (dec_str r3)
                                else None
                    | None => None
                    end
                  else None
                | _ => None
                end
              else cons_res u (dec_str r2)
            end
          | _ => None
          end
        else None
      end
    else if c <? 32 then None
    else cons_res c (dec_str r)
  end.

Definition is_digit (c : N) : bool := (48 <=? c) && (c <=? 57).
Fixpoint span_digits (s : str) : str * str :=
  match s with
  | c :: r => if is_digit c then let (a, b) := span_digits r in (c :: a, b) else ([], s)
  | [] => ([], [])
  end.
(** number = [ minus ] int [ frac ] [ exp ] *)
Definition dec_num (s : str) : option (str * str) :=
  let '(sign, s1) := match s with c :: r => if c =? 45 then ([45], r) else ([], s) | [] => ([], s) end in
  match s1 with
  | [] => None
  | d :: r =>
    let int_part :=
      if d =? 48 then Some ([48], r)
      else if is_digit d then let (ds, r') := span_digits r in Some (d :: ds, r')
      else None in
    match int_part with
    | None => None
    | Some (ip, r1) =>
      let frac :=
        match r1 with
        | c :: r2 => if c =? 46 then
                       let (ds, r3) := span_digits r2 in
                       match ds with [] => None | _ => Some (46 :: ds, r3) end
                     else Some ([], r1)
        | [] => Some ([], r1)
        end in
      match frac with
      | None => None
      | Some (fp, r4) =>
        let exp :=
          match r4 with
          | c :: r5 =>
            if (c =? 101) || (c =? 69) then
              let '(sg, r6) := match r5 with c2 :: r' => if (c2 =? 43) || (c2 =? 45) then ([c2], r') else ([], r5)
                                          | [] => ([], r5) end in
              let (ds, r7) := span_digits r6 in
              match ds with [] => None | _ => Some (c :: sg ++ ds, r7) end
            else Some ([], r4)
          | [] => Some ([], r4)
          end in
        match exp with
        | None => None
        | Some (ep, r8) => Some (sign ++ ip ++ fp ++ ep, r8)
        end
      end
    end
  end.

Definition K_null : str := [110; 117; 108; 108].   (* null *)
Definition K_true : str := [116; 114; 117; 101].   (* true *)
Definition K_false : str := [102; 97; 108; 115; 101].   (* false *)

(** value / elements of a non-empty array (after `[`) / members of a non-empty object (after `{`).
    [fuel] bounds the number of nested calls; [json_parse] supplies enough for any text. *)
Fixpoint pval (fuel : nat) (s : str) {struct fuel} : option (json * str) :=
  match fuel with
  | O => None
  | S f =>
    match skip_ws s with
    | [] => None
    | c :: r =>
      if c =? 34 then
        match dec_str r with Some (x, r') => Some (JStr x, r') | None => None end
      else if c =? 91 then
        match skip_ws r with
        | c2 :: r2 => if c2 =? 93 then Some (JArr [], r2)
                      else match pelems f r with Some (vs, r') => Some (JArr vs, r') | None => None end
        | [] => None
        end
      else if c =? 123 then
        match skip_ws r with
        | c2 :: r2 => if c2 =? 125 then Some (JObj [], r2)
                      else match pmembers f r with Some (ms, r') => Some (JObj ms, r') | None => None end
        | [] => None
        end
      else match strip_prefix K_null (c :: r) with
      | Some r' => Some (JNull, r')
      | None => match strip_prefix K_true (c :: r) with
      | Some r' => Some (JBool true, r')
      | None => match strip_prefix K_false (c :: r) with
      | Some r' => Some (JBool false, r')
      | None => match dec_num (c :: r) with
      | Some (raw, r') => Some (JNum raw, r')
      | None => None
      end end end end
    end
  end
with pelems (fuel : nat) (s : str) {struct fuel} : option (list json * str) :=
  match fuel with
  | O => None
  | S f =>
    match pval f s with
    | None => None
    | Some (v, r) =>
      match skip_ws r with
      | c :: r1 =>
        if c =? 44 then
          match pelems f r1 with Some (vs, r2) => Some (v :: vs, r2) | None => None end
        else if c =? 93 then Some ([v], r1)
        else None
      | [] => None
      end
    end
  end
with pmembers (fuel : nat) (s : str) {struct fuel} : option (list (str * json) * str) :=
  match fuel with
  | O => None
  | S f =>
    match skip_ws s with
    | c :: r =>
      if c =? 34 then
        match dec_str r with
        | None => None
        | Some (k, r1) =>
          match skip_ws r1 with
          | c1 :: r2 =>
            if c1 =? 58 then
              match pval f r2 with
              | None => None
              | Some (v, r3) =>
                match skip_ws r3 with
                | c3 :: r4 =>
                  if c3 =? 44 then
                    match pmembers f r4 with Some (ms, r5) => Some ((k, v) :: ms, r5) | None => None end
                  else if c3 =? 125 then Some ([(k, v)], r4)
                  else None
                | [] => None
                end
              end
            else None
          | [] => None
          end
        end
      else None
    | [] => None
    end
  end.

Definition json_fuel (s : str) : nat := S (S (2 * length s)).

(** a complete JSON text: one value, optional whitespace around it *)
Definition json_parse (s : str) : option json :=
  match pval (json_fuel s) s with
  | Some (v, r) => match skip_ws r with [] => Some v | _ => None end
  | None => None
  end.

Definition as_str (j : json) : option str := match j with JStr s => Some s | _ => None end.
Fixpoint as_strs (l : list json) : option (list str) :=
  match l with
  | [] => Some []
  | j :: r => match as_str j, as_strs r with Some s, Some t => Some (s :: t) | _, _ => None end
  end.
(** the decoding a client applies to an exported file: `Vec<Box<str>>` *)
Definition json_decode (s : str) : option (list str) :=
  match json_parse s with Some (JArr l) => as_strs l | _ => None end.

(** ** Writers *)

(** One character inside a JSON string literal.  [fu] lists the characters that are
    written as `\uXXXX` although JSON would allow them raw. *)
Definition esc_char (fu : N -> bool) (c : N) : str :=
  if c =? 34 then [92; 34]
  else if c =? 92 then [92; 92]
  else if c =? 10 then [92; 110]
  else if c =? 13 then [92; 114]
  else if c =? 9 then [92; 116]
  else if (c <? 32) || fu c then 92 :: 117 :: hex4 c
  else [c].
Definition esc_str (fu : N -> bool) (s : str) : str := 34 :: flat_map (esc_char fu) s ++ [34].

(** leptos_i18n_build: `write_json_str` escapes only what JSON requires *)
Definition fu_none (c : N) : bool := false.
(** leptos_i18n: `push_js_str` also escapes `<`, `>`, `&` (script data cannot be closed, no
    comment can be opened) and U+2028 / U+2029 (line terminators for pre-ES2019 engines) *)
Definition fu_html (c : N) : bool := (c =? 60) || (c =? 62) || (c =? 38) || (c =? 8232) || (c =? 8233).

(** `impl Display for TranslationsFormatter` *)
Definition format (ss : list str) : str :=
  91 :: match ss with
        | [] => []
        | first :: rest => esc_str fu_none first ++ flat_map (fun s => 44 :: esc_str fu_none s) rest
        end ++ [93].

(** `{:?}` of a `str`: char::escape_debug_ext with grapheme-extend and double-quote escaping.
    [np] is the oracle (Grapheme_Extend or not printable) for code points >= 128 (tables of
    core::unicode); below 128 it is exact. *)
Definition dbg_np (np : N -> bool) (c : N) : bool := if c <? 128 then (c <? 32) || (c =? 127) else np c.
Definition dbg_char (np : N -> bool) (c : N) : str :=
  if c =? 0 then [92; 48]
  else if c =? 9 then [92; 116]
  else if c =? 13 then [92; 114]
  else if c =? 10 then [92; 110]
  else if c =? 92 then [92; 92]
  else if c =? 34 then [92; 34]
  else if dbg_np np c then 92 :: 117 :: 123 :: hex_min c ++ [125]
  else [c].
Definition dbg_str (np : N -> bool) (s : str) : str := 34 :: flat_map (dbg_char np) s ++ [34].
Definition format_old (np : N -> bool) (ss : list str) : str :=
  91 :: match ss with
        | [] => []
        | first :: rest => dbg_str np first ++ flat_map (fun s => 44 :: dbg_str np s) rest
        end ++ [93].

(** a translation unit as registered: locale name, namespace name (None = `()` id), strings *)
Definition unit_ := (str * option str * list str)%type.

Definition S_prefix : str := [119; 105; 110; 100; 111; 119; 46; 95; 95; 76; 69; 80; 84; 79; 83; 95; 73; 49; 56; 78; 95; 84; 82; 65; 78; 83; 76; 65; 84; 73; 79; 78; 83; 32; 61; 32; 91].   (* window.__LEPTOS_I18N_TRANSLATIONS = [ *)
Definition S_locale : str := [123; 34; 108; 111; 99; 97; 108; 101; 34; 58].   (* {''locale'': *)
Definition S_id : str := [44; 34; 105; 100; 34; 58].   (* ,''id'': *)
Definition S_values : str := [44; 34; 118; 97; 108; 117; 101; 115; 34; 58; 91].   (* ,''values'':[ *)
Definition S_id_null : str := [44; 34; 105; 100; 34; 58; 110; 117; 108; 108; 44; 34; 118; 97; 108; 117; 101; 115; 34; 58; 91].   (* ,''id'':null,''values'':[ *)
Definition S_unit_end : str := [93; 125].   (* ]} *)
Definition S_end : str := [93; 59].   (* ]; *)

(** the `first` flag loops: a comma before every item but the first *)
Fixpoint commas (first : bool) (xs : list str) : str :=
  match xs with
  | [] => []
  | x :: r => (if first then [] else [44]) ++ x ++ commas false r
  end.

Definition fmt_unit (u : unit_) : str :=
  let '(l, i, vs) := u in
  S_locale ++ esc_str fu_html l
  ++ match i with
     | Some x => S_id ++ esc_str fu_html x ++ S_values
     | None => S_id_null
     end
  ++ commas true (map (esc_str fu_html) vs) ++ S_unit_end.

(** `RegisterCtx::to_array`; [us] is the content of the HashMap in iteration order *)
Definition to_array (us : list unit_) : str :=
  S_prefix ++ commas true (map fmt_unit us) ++ S_end.

(** before the repair: every string pushed between two quote characters as it is *)
Definition S_locale_old : str := [123; 34; 108; 111; 99; 97; 108; 101; 34; 58; 34].   (* {''locale'':'' *)
Definition S_id_old : str := [34; 44; 34; 105; 100; 34; 58; 34].   (* '',''id'':'' *)
Definition S_values_old : str := [34; 44; 34; 118; 97; 108; 117; 101; 115; 34; 58; 91].   (* '',''values'':[ *)
Definition S_id_null_old : str := [34; 44; 34; 105; 100; 34; 58; 110; 117; 108; 108; 44; 34; 118; 97; 108; 117; 101; 115; 34; 58; 91].   (* '',''id'':null,''values'':[ *)
Definition raw_str (s : str) : str := 34 :: s ++ [34].
Definition fmt_unit_old (u : unit_) : str :=
  let '(l, i, vs) := u in
  S_locale_old ++ l
  ++ match i with
     | Some x => S_id_old ++ x ++ S_values_old
     | None => S_id_null_old
     end
  ++ commas true (map raw_str vs) ++ S_unit_end.
Definition to_array_old (us : list unit_) : str :=
  S_prefix ++ commas true (map fmt_unit_old us) ++ S_end.

(** ** Reading the script back *)
Definition S_window : str := [119; 105; 110; 100; 111; 119; 46; 95; 95; 76; 69; 80; 84; 79; 83; 95; 73; 49; 56; 78; 95; 84; 82; 65; 78; 83; 76; 65; 84; 73; 79; 78; 83].   (* window.__LEPTOS_I18N_TRANSLATIONS *)
Definition K_locale : str := [108; 111; 99; 97; 108; 101].   (* locale *)
Definition K_id : str := [105; 100].   (* id *)
Definition K_values : str := [118; 97; 108; 117; 101; 115].   (* values *)

Fixpoint obj_get (k : str) (m : list (str * json)) : option json :=
  match m with
  | [] => None
  | (k', v) :: r => if str_eqb k k' then Some v else obj_get k r
  end.
Definition as_unit (j : json) : option unit_ :=
  match j with
  | JObj m =>
    match obj_get K_locale m, obj_get K_id m, obj_get K_values m with
    | Some (JStr l), Some idj, Some (JArr vs) =>
      match (match idj with JNull => Some None | JStr i => Some (Some i) | _ => None end), as_strs vs with
      | Some i, Some v => Some (l, i, v)
      | _, _ => None
      end
    | _, _, _ => None
    end
  | _ => None
  end.
Fixpoint as_units (l : list json) : option (list unit_) :=
  match l with
  | [] => Some []
  | j :: r => match as_unit j, as_units r with Some u, Some t => Some (u :: t) | _, _ => None end
  end.

(** the script is the statement `window.__LEPTOS_I18N_TRANSLATIONS = <JSON array>` with an
    optional `;` — what the hydrating client reads back through `Reflect::get` + serde
    (`struct Trans { locale, id, values }`).  The JavaScript parser is replaced by the JSON
    grammar here (JSON texts are JavaScript expressions with the same value, ECMA-262 §25.5). *)
Definition decode_script (body : str) : option (list unit_) :=
  match strip_prefix S_window (skip_ws body) with
  | None => None
  | Some r =>
    match skip_ws r with
    | c :: r1 =>
      if c =? 61 then
        match pval (json_fuel r1) r1 with
        | Some (JArr us, r2) =>
          match skip_ws r2 with
          | [] => as_units us
          | c2 :: r3 => if (c2 =? 59) then match skip_ws r3 with [] => as_units us | _ => None end else None
          end
        | _ => None
        end
      else None
    | [] => None
    end
  end.

(** ** Safety inside `<script>` (HTML §13.2.5.4 script data states): the element ends at the
    first `</script` (ASCII case-insensitive); `<!--` switches to the escaped states in which a
    later `<script` hides the real end tag.  Absence of both is sufficient for the body to be
    exactly the script's source. *)
Definition lower (c : N) : N := if (65 <=? c) && (c <=? 90) then c + 32 else c.
Fixpoint starts_with_ci (p s : str) : bool :=
  match p, s with
  | [], _ => true
  | x :: xs, y :: ys => (x =? lower y) && starts_with_ci xs ys
  | _ :: _, [] => false
  end.
Fixpoint contains_ci (p s : str) : bool :=
  starts_with_ci p s || match s with [] => false | _ :: r => contains_ci p r end.
Definition S_close : str := [60; 47; 115; 99; 114; 105; 112; 116].   (* </script *)
Definition S_comment : str := [60; 33; 45; 45].   (* <!-- *)
Definition html_safe (body : str) : bool := negb (contains_ci S_close body) && negb (contains_ci S_comment body).

(** ** Executable specifications *)
Definition strs_eqb (a b : list str) : bool :=
  (length a =? length b)%nat && forallb (fun p => str_eqb (fst p) (snd p)) (combine a b).
Definition opt_str_eqb (a b : option str) : bool :=
  match a, b with Some x, Some y => str_eqb x y | None, None => true | _, _ => false end.
Definition unit_eqb (a b : unit_) : bool :=
  let '(l1, i1, v1) := a in let '(l2, i2, v2) := b in
  str_eqb l1 l2 && opt_str_eqb i1 i2 && strs_eqb v1 v2.

(** C11 (file part): the exported text is JSON and decodes to exactly the table *)
Definition spec_file (table : list str) (file : str) : bool :=
  match json_decode file with Some ss => strs_eqb ss table | None => false end.

(** C17: the script decodes, as a set, to exactly the units the request used (each once,
    with its strings in order) and cannot be cut short or hidden by the HTML tokenizer *)
Definition spec_C17 (used : list unit_) (body : str) : bool :=
  match decode_script body with
  | Some us =>
      (length us =? length used)%nat
      && forallb (fun u => existsb (unit_eqb u) us) used
      && forallb (fun u => existsb (unit_eqb u) used) us
  | None => false
  end && html_safe body.

(** ** `RegisterCtx::register` — the map is keyed by (locale, id); the value is the unit's table.
    [tbl] is the generated code's `STRINGS` of a unit. *)
Definition ukey := (str * option str)%type.
Definition ukey_eqb (a b : ukey) : bool := str_eqb (fst a) (fst b) && opt_str_eqb (snd a) (snd b).
Fixpoint reg_insert (k : ukey) (v : list str) (m : list (ukey * list str)) : list (ukey * list str) :=
  match m with
  | [] => [(k, v)]
  | (k', v') :: r => if ukey_eqb k k' then (k, v) :: r else (k', v') :: reg_insert k v r
  end.
(** `get_translations()` of the unit [k] is called: `register::<T>()` then the table is returned *)
Definition register (tbl : ukey -> list str) (m : list (ukey * list str)) (k : ukey) := reg_insert k (tbl k) m.
(** a request = the sequence of units whose accessor ran while rendering (repetitions allowed) *)
Definition run_request (tbl : ukey -> list str) (touched : list ukey) : list (ukey * list str) :=
  fold_left (register tbl) touched [].
Definition units_of (m : list (ukey * list str)) : list unit_ := map (fun kv => (fst (fst kv), snd (fst kv), snd kv)) m.

(** ** Access times.  One request = a sequence of events in the order the server executes them:
    accessors running outside of / before any provider, the creation of the provider's registry
    (`RegisterCtx::provide_context()`, first statement of `provide_i18n_context_component_inner`), accessors
    running EAGERLY while the provider's children are being built (`t_string!`, `td_string!`, `t_display!`,
    `td_display!` in a component body), accessors running LAZILY while the HTML is rendered (the closures
    made by `t!` / `td!`), then `to_array`.  `register` without a registry in scope does nothing
    (`use_context` gives `None`). *)
Inductive ev := EvProvide | EvAccess (k : ukey).
Fixpoint run_events (tbl : ukey -> list str) (evs : list ev) (st : option (list (ukey * list str)))
  : option (list (ukey * list str)) :=
  match evs with
  | [] => st
  | EvProvide :: r => run_events tbl r (Some [])
  | EvAccess k :: r =>
      run_events tbl r (match st with Some m => Some (register tbl m k) | None => None end)
  end.
(** the provider component: registry first, then the children (eager accesses), then rendering (lazy accesses) *)
Definition page_events (before eager lazy : list ukey) : list ev :=
  map EvAccess before ++ EvProvide :: map EvAccess eager ++ map EvAccess lazy.
(** a provider that would create the registry only after its children were built *)
Definition page_events_late (before eager lazy : list ukey) : list ev :=
  map EvAccess before ++ map EvAccess eager ++ EvProvide :: map EvAccess lazy.
