(** Model of the initial locale resolution (property C15).
    Mirrors, for an `ssr` build (the only one that runs natively):
      leptos_i18n/src/fetch_locale.rs   fetch_locale, fetch_locale_ssr, signal_once_then,
                                        signal_maybe_once_then (first evaluation), resolve_locale,
                                        get_accepted_locale
      leptos_i18n/src/context.rs        init_i18n_context_with_options, init_subcontext_with_options
                                        (first and later runs of the `initial_locale_listener` memo),
                                        ENABLE_COOKIE / enable_cookie / cookie_name
      leptos_i18n/src/locale.rs         resolve_locale_with_options
      generated `impl FromStr for Locale` (leptos_i18n_macro/src/load_locales/mod.rs): `match s.trim()`
      over the configured locale names, used by `FromToStringCodec` to decode the cookie.
    External, taken as inputs (oracles read back through the real libraries by the harness):
      - the cookie jar the `cookie` crate parses out of the Cookie header (list of name/value pairs);
      - the language list leptos-use derives from Accept-Language, each entry parsed by icu_locid
        ([Some langid] / [None] = rejected), exactly the input of [Langid.find_locale].
    A locale is its index in the configured list; index 0 is the default. *)
From Coq Require Import List NArith Bool.
Import ListNotations.
From LI Require Import Base.StrOps.
From LI Require Import Runtime.Langid.
Open Scope N_scope.

(** the application's configured locales: names (as written in the configuration) and langids, by index *)
Record app := mk_app { a_names : list str; a_ids : list langid }.

Fixpoint enum_from (i : N) (ids : list langid) : list loc :=
  match ids with [] => [] | x :: r => (i, x) :: enum_from (i + 1) r end.
Definition app_locs (a : app) : list loc := enum_from 0 (a_ids a).        (* Locale::get_all() *)
Definition und : langid := mk_langid 0 None None [].
Definition app_dflt (a : app) : loc := (0, hd und (a_ids a)).             (* Locale::default() = first variant *)

(** generated FromStr: `match s.trim() { "en" => Ok(en), ... , _ => Err(()) }` *)
Fixpoint from_str_arms (names : list str) (i : N) (s : str) : option N :=
  match names with
  | [] => None
  | n :: r => if str_eqb n s then Some i else from_str_arms r (i + 1) s
  end.
Definition from_str (a : app) (s : str) : option N := from_str_arms (a_names a) 0 (trim s).

(** cookie jar: `jar.add_original` in header order, a later cookie of the same name replaces an earlier one *)
Definition jar := list (str * str).
Fixpoint jar_get (name : str) (j : jar) : option str :=
  match j with
  | [] => None
  | (n, v) :: r => match jar_get name r with
                   | Some v' => Some v'
                   | None => if str_eqb n name then Some v else None
                   end
  end.

(** leptos_use::use_cookie_with_options (server side, first read): header absent => None;
    decode failure => None (on_error is only a log) *)
Definition use_cookie (a : app) (name : str) (hdr : option jar) : option N :=
  match hdr with
  | None => None
  | Some j => match jar_get name j with
              | Some v => from_str a v
              | None => None
              end
  end.

(** accepted_locale memo: L::find_locale(accepted) *)
Definition accepted_locale (a : app) (accept : list (option langid)) : N :=
  fst (find_locale accept (app_locs a) (app_dflt a)).

(** signal_maybe_once_then, first evaluation of the resulting memo *)
Definition signal_maybe_once_then_first {A} (start : option A) (then_ : A) : A :=
  match start with Some s => s | None => then_ end.
Definition fetch_locale_ssr_first (current_cookie : option N) (accepted : N) : N :=
  signal_maybe_once_then_first current_cookie accepted.

(** options of a main context.  [feat_cookie] is the cargo feature `cookie` (ENABLE_COOKIE). *)
Record main_opts := mk_main_opts {
  mo_enable_cookie : bool;
  mo_cookie_name : str;
  mo_cookie_hdr : option jar;
  mo_accept : list (option langid) }.

Definition COOKIE_PREFERED_LANG : str :=
  [105; 49; 56; 110; 95; 112; 114; 101; 102; 95; 108; 111; 99; 97; 108; 101]. (* "i18n_pref_locale" *)

Definition main_lang_cookie (feat_cookie : bool) (a : app) (o : main_opts) : option N :=
  if feat_cookie && mo_enable_cookie o then use_cookie a (mo_cookie_name o) (mo_cookie_hdr o) else None.

(** init_i18n_context_with_options(..).get_locale_untracked() *)
Definition init_main (feat_cookie : bool) (a : app) (o : main_opts) : N :=
  fetch_locale_ssr_first (main_lang_cookie feat_cookie a o) (accepted_locale a (mo_accept o)).

(** resolve_locale_with_options: hydrate is off, so `None.or(cookie).unwrap_or_else(get_accepted_locale)` *)
Definition resolve_locale (feat_cookie : bool) (a : app) (o : main_opts) : N :=
  match main_lang_cookie feat_cookie a o with
  | Some c => c
  | None => accepted_locale a (mo_accept o)
  end.

(** sub-context *)
Record sub_opts := mk_sub_opts {
  so_initial : option N;              (* initial_locale signal's value, if the caller gave one *)
  so_cookie_name : option str;
  so_cookie_hdr : option jar;
  so_accept : list (option langid);
  so_parent : option N }.             (* use_context::<I18nContext<L>>().map(get_locale_untracked) *)

Definition opt_or {A} (x y : option A) : option A := match x with Some _ => x | None => y end.
Definition unwrap_or {A} (x : option A) (d : A) : A := match x with Some v => v | None => d end.

Definition sub_lang_cookie (feat_cookie : bool) (a : app) (o : sub_opts) : option N :=
  match so_cookie_name o with
  | Some n => if feat_cookie then use_cookie a n (so_cookie_hdr o) else None
  | None => None
  end.

(** the `initial_locale_listener` memo: first run (prev = None) and later runs *)
Definition listener_first (cookie initial : option N) (parent_locale : N) : N :=
  unwrap_or (opt_or cookie initial) parent_locale.
Definition listener_again (cookie initial : option N) (parent_locale : N) : N :=
  unwrap_or (opt_or initial cookie) parent_locale.

Definition init_sub (feat_cookie : bool) (a : app) (o : sub_opts) : N :=
  let cookie := sub_lang_cookie feat_cookie a o in
  let fetch_locale_memo := fetch_locale_ssr_first None (accepted_locale a (so_accept o)) in
  let parent_locale := signal_maybe_once_then_first (so_parent o) fetch_locale_memo in
  listener_first cookie (so_initial o) parent_locale.

(** * Specification: the documented precedence table, stated on the inputs.
    "the cookie holds a configured locale name": cookies are in use, the named cookie is present and its
    value, modulo surrounding whitespace (C13's reading of names), is one of the configured names. *)
Definition name_of (a : app) (l : N) : option str := nth_error (a_names a) (N.to_nat l).
Definition configured (a : app) (s : str) : bool := existsb (fun n => str_eqb n s) (a_names a).

Definition cookie_value (in_use : bool) (name : str) (hdr : option jar) : option str :=
  if in_use then match hdr with Some j => jar_get name j | None => None end else None.

(** [res] is named by the (valid) cookie value [v] *)
Definition named_by (a : app) (v : str) (res : N) : bool :=
  match name_of a res with Some n => str_eqb n (trim v) | None => false end.

(** best match for the request's languages, otherwise the default: C12's predicate *)
Definition negotiated (a : app) (accept : list (option langid)) (res : N) : bool :=
  match nth_error (app_locs a) (N.to_nat res) with
  | Some l => spec_C12 (lossy accept) (app_locs a) (app_dflt a) l
  | None => false
  end.

Definition valid_cookie (a : app) (v : option str) : option str :=
  match v with
  | Some s => if configured a (trim s) then Some s else None
  | None => None
  end.

Definition spec_C15_main (feat_cookie : bool) (a : app) (o : main_opts) (res : N) : bool :=
  match valid_cookie a (cookie_value (feat_cookie && mo_enable_cookie o) (mo_cookie_name o) (mo_cookie_hdr o)) with
  | Some v => named_by a v res
  | None => negotiated a (mo_accept o) res
  end.

Definition spec_C15_sub (feat_cookie : bool) (a : app) (o : sub_opts) (res : N) : bool :=
  let cv := match so_cookie_name o with
            | Some n => cookie_value feat_cookie n (so_cookie_hdr o)
            | None => None
            end in
  match valid_cookie a cv with
  | Some v => named_by a v res
  | None =>
      match so_initial o with
      | Some i => res =? i
      | None =>
          match so_parent o with
          | Some p => res =? p
          | None => negotiated a (so_accept o) res
          end
      end
  end.

(** well-formed application: as many names as langids, at least one locale, names pairwise distinct
    (the macro rejects duplicates) *)
Fixpoint distinct (l : list str) : bool :=
  match l with [] => true | x :: r => negb (existsb (str_eqb x) r) && distinct r end.
Definition app_wf (a : app) : bool :=
  Nat.eqb (length (a_names a)) (length (a_ids a)) && negb (Nat.eqb (length (a_ids a)) 0) && distinct (a_names a).
