(** Executable correspondence predicate for C17: evaluated by the harness-generated case files.
    One case = one rendered request. *)
From Coq Require Import List NArith Bool Arith.
Import ListNotations.
From LI Require Import Base.StrOps Runtime.Escape.
Open Scope N_scope.

Record case17 := mk_case17 {
  c_used : list unit_;        (* generator + parser tables: the units the request touched *)
  c_body : option str }.      (* implementation: content of the script element of the rendered page *)

(** the decoding part of the spec alone (compared with Python's json module) *)
Definition decode_ok (c : case17) : bool :=
  match c_body c with
  | Some b =>
    match decode_script b with
    | Some us => (length us =? length (c_used c))%nat
                 && forallb (fun u => existsb (unit_eqb u) us) (c_used c)
                 && forallb (fun u => existsb (unit_eqb u) (c_used c)) us
    | None => false
    end
  | None => false
  end.

(** 0 = agree and spec holds; 2 = implementation differs from the model (spec holds); 3 = spec violated.
    Agreement: the model, given the units in the order the implementation's HashMap iterated them,
    produces the same text byte for byte. *)
Definition check17 (c : case17) : N :=
  match c_body c with
  | None => 3
  | Some b =>
    if negb (spec_C17 (c_used c) b) then 3
    else match decode_script b with
         | Some us => if str_eqb (to_array us) b then 0 else 2
         | None => 3
         end
  end.

Definition check17_x (c : case17) : N := check17 c + (if decode_ok c then 10 else 0).
