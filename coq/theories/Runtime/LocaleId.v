(** Model of the identity methods of the generated [Locale] enum (property C13).

    Mirrors leptos_i18n_macro/src/load_locales/mod.rs [create_locales_enum]:
    the macro receives the configured locale names as [Key]s (names stored
    trimmed, [Key::new]) with the default first ([ConfigFile::new] /
    [declare_locales!]) and emits, in that order, one enum variant per name and
    the match tables [as_str] / [FromStr::from_str] / [as_icu_locale] /
    [direction] / [get_all]; [Display], [Serialize], [AsRef<str>] forward to
    [as_str]; [Deserialize] goes through [LocaleVisitor] (macro_helpers/mod.rs),
    the cookie codec is codee's [FromToStringCodec]; [ScopedLocale] (scopes.rs)
    forwards everything to the wrapped enum value.

    A value of the enum is its variant index ([nat]); variant 0 carries
    [#[default]].  No proofs in this file. *)
From Coq Require Import List NArith Bool Arith.
Import ListNotations.
From LI Require Import Base.StrOps.
Open Scope N_scope.

(** [Key::new]: the stored name is [name.trim()] *)
Definition key_new (raw : str) : str := trim raw.
Definition configured (raws : list str) : list str := map key_new raws.

(** position of the first element equal to [t] ([Iterator::position], [==] on Keys is name equality) *)
Fixpoint position_from (off : nat) (t : str) (l : list str) : option nat :=
  match l with
  | [] => None
  | x :: r => if str_eqb x t then Some off else position_from (S off) t r
  end.
Definition position (t : str) (l : list str) : option nat := position_from 0 t l.

(** [Vec::swap(0, i)] *)
Definition set_nth {A} (i : nat) (v : A) (l : list A) : list A := firstn i l ++ v :: skipn (S i) l.
Definition swap0 {A} (i : nat) (l : list A) : list A :=
  match l, nth_error l i with
  | x0 :: _, Some xi => match i with O => l | S _ => set_nth i x0 (set_nth 0 xi l) end
  | _, _ => l
  end.

(** [ConfigFile::new], cfg_file.rs:45-53: the default is put first by a swap, appended first when unlisted *)
Definition cfg_normalise (default : str) (locales : list str) : list str :=
  match position default locales with
  | Some i => swap0 i locales
  | None => swap0 (length locales) (locales ++ [default])
  end.

(** ** the generated tables *)

Definition variant := nat.

(** arms [Locale::V => "name"] in declaration order *)
Definition as_str_arms (names : list str) : list (variant * str) := combine (seq 0 (length names)) names.
(** arms ["name" => Ok(Locale::V)] in declaration order *)
Definition from_str_arms (names : list str) : list (str * variant) := combine names (seq 0 (length names)).

(** [match self { V => e, ... }] *)
Fixpoint match_variant {A} (arms : list (variant * A)) (v : variant) : option A :=
  match arms with
  | [] => None
  | (w, e) :: r => if Nat.eqb w v then Some e else match_variant r v
  end.
(** [match t { "lit" => e, ..., _ => fallback }]: the first arm whose literal equals [t] *)
Fixpoint match_str {A} (arms : list (str * A)) (t : str) : option A :=
  match arms with
  | [] => None
  | (lit, e) :: r => if str_eqb lit t then Some e else match_str r t
  end.

(** [Locale::as_str] ([intern] is the identity outside the browser); the [[]] branch is
    not reachable for a value of the enum *)
Definition as_str (names : list str) (v : variant) : str :=
  match match_variant (as_str_arms names) v with Some s => s | None => [] end.

(** [FromStr::from_str]: [match s.trim() { ... , _ => Err(()) }] *)
Definition from_str (names : list str) (s : str) : option variant :=
  match_str (from_str_arms names) (trim s).

(** [Display], [AsRef<str>], [Serialize] (as a str) all forward to [as_str] *)
Definition display (names : list str) (v : variant) : str := as_str names v.
Definition as_ref_str (names : list str) (v : variant) : str := as_str names v.
Definition serialize (names : list str) (v : variant) : str := as_str names v.

(** [#[default]] is on the first variant *)
Definition default_variant : variant := 0%nat.

(** [LocaleVisitor::visit_borrowed_str] = [L::from_str(v).unwrap_or_default()];
    [visit_str] and [visit_string] forward to it; [Deserialize] = [deserialize_str] with that visitor *)
Definition visit_borrowed_str (names : list str) (s : str) : variant :=
  match from_str names s with Some v => v | None => default_variant end.
Definition visit_str := visit_borrowed_str.
Definition visit_string := visit_str.
Definition deserialize (names : list str) (s : str) : variant := visit_str names s.

(** codee's [FromToStringCodec]: [encode = to_string], [decode = from_str] *)
Definition cookie_encode (names : list str) (v : variant) : str := display names v.
Definition cookie_decode (names : list str) (s : str) : option variant := from_str names s.

(** [get_all() = &[Locale::V0, Locale::V1, ...]] in declaration order *)
Definition get_all (names : list str) : list variant := seq 0 (length names).

(** ** ICU part: the macro embeds [icu::locid::locale!(name)] and the direction that
    [icu_locid_transform::LocaleDirectionality] gives for the parsed name at expansion time.
    ICU parsing and the CLDR direction table are oracles (Section variables). *)
Inductive direction := LeftToRight | RightToLeft | Auto.
Definition direction_eqb (a b : direction) : bool :=
  match a, b with
  | LeftToRight, LeftToRight | RightToLeft, RightToLeft | Auto, Auto => true
  | _, _ => false
  end.

Section Icu.
  Variable icu : Type.
  Variable parse_locale : str -> option icu.        (* icu_locid parsing of a name; [None] = the macro reports an error *)
  Variable cldr_direction : icu -> option bool.      (* LocaleDirectionality::get: Some true = RTL, Some false = LTR *)

  Definition as_icu_locale (names : list str) (v : variant) : option icu :=
    match match_variant (as_str_arms names) v with Some n => parse_locale n | None => None end.
  (** [as_langid] is [as_icu_locale(..).as_ref()], the language identifier part of the same value *)
  Definition direction_of (names : list str) (v : variant) : option direction :=
    match as_icu_locale names v with
    | Some l => Some match cldr_direction l with
                     | Some false => LeftToRight
                     | Some true => RightToLeft
                     | None => Auto
                     end
    | None => None
    end.
End Icu.

(** ** [ScopedLocale<L, S>]: a wrapper whose identity methods forward to the wrapped value *)
Record scoped := mk_scoped { base_locale : variant }.
Definition scoped_as_str names (x : scoped) := as_str names (base_locale x).
Definition scoped_display names (x : scoped) := display names (base_locale x).
Definition scoped_serialize names (x : scoped) := serialize names (base_locale x).
Definition scoped_from_str names (s : str) : option scoped :=
  match from_str names s with Some v => Some (mk_scoped v) | None => None end.
Definition scoped_deserialize names (s : str) : scoped := mk_scoped (deserialize names s).
Definition scoped_default : scoped := mk_scoped default_variant.
Definition scoped_get_all names : list variant := get_all names.   (* [Locale<L>::get_all] returns base values *)

(** ** executable specification (independent of the tables above)

    The configured names are the input; [index_of] is the only notion used: the position of a string in
    the configured list. *)
Fixpoint index_of (t : str) (l : list str) : option nat :=
  match l with
  | [] => None
  | x :: r => if str_eqb x t then Some 0%nat else option_map S (index_of t r)
  end.

Definition opt_nat_eqb (a b : option nat) : bool :=
  match a, b with
  | Some x, Some y => Nat.eqb x y
  | None, None => true
  | _, _ => false
  end.

(** what the three parsers answered for the string [s]: [FromStr], serde ([None] = error), cookie codec *)
Record parse_obs := mk_parse_obs {
  o_from_str : option variant;
  o_serde : option variant;
  o_cookie : option variant }.

Definition none_or_default (o : option variant) : bool :=
  match o with None => true | Some v => Nat.eqb v 0 end.

(** a string that is (modulo surrounding White_Space, DESIGN §5 C13) the i-th configured name parses to
    variant i through every parser; any other string never yields a non-default locale *)
Definition spec_parse (names : list str) (s : str) (o : parse_obs) : bool :=
  match index_of (trim s) names with
  | Some i => opt_nat_eqb (o_from_str o) (Some i) && opt_nat_eqb (o_serde o) (Some i) && opt_nat_eqb (o_cookie o) (Some i)
  | None => none_or_default (o_from_str o) && none_or_default (o_serde o) && none_or_default (o_cookie o)
  end.

Definition model_parse (names : list str) (s : str) : parse_obs :=
  mk_parse_obs (from_str names s) (Some (deserialize names s)) (cookie_decode names s).

(** every observable of one locale value *)
Record row_obs := mk_row_obs {
  r_as_str : str;
  r_display : str;
  r_as_ref : str;
  r_serialized : str;           (* the str handed to the serializer *)
  r_cookie : str;               (* FromToStringCodec::encode *)
  r_back_from_str : option variant;   (* from_str (as_str l) *)
  r_back_display : option variant;    (* from_str (to_string l) *)
  r_back_serde : option variant;      (* deserialize (serialize l) *)
  r_back_cookie : option variant;     (* decode (encode l) *)
  r_icu : option str;            (* canonical text of as_icu_locale *)
  r_langid : option str;         (* canonical text of as_langid *)
  r_direction : option direction }.

(** the ICU oracle's answers for one name: canonical text of the parsed locale, of its language identifier,
    and the CLDR direction *)
Record icu_oracle := mk_icu_oracle {
  q_icu : option str;
  q_langid : option str;
  q_direction : option direction }.

Definition opt_str_eqb (a b : option str) : bool :=
  match a, b with
  | Some x, Some y => str_eqb x y
  | _, _ => false                 (* an unparsable name is not a locale the property speaks about *)
  end.
Definition opt_dir_eqb (a b : option direction) : bool :=
  match a, b with
  | Some x, Some y => direction_eqb x y
  | _, _ => false
  end.

Definition spec_row (names : list str) (i : nat) (q : icu_oracle) (r : row_obs) : bool :=
  match nth_error names i with
  | None => false
  | Some name =>
      str_eqb (r_as_str r) name && str_eqb (r_display r) name && str_eqb (r_as_ref r) name
      && str_eqb (r_serialized r) name && str_eqb (r_cookie r) name
      && opt_nat_eqb (r_back_from_str r) (Some i) && opt_nat_eqb (r_back_display r) (Some i)
      && opt_nat_eqb (r_back_serde r) (Some i) && opt_nat_eqb (r_back_cookie r) (Some i)
      && opt_str_eqb (r_icu r) (q_icu q) && opt_str_eqb (r_langid r) (q_langid q)
      && opt_dir_eqb (r_direction r) (q_direction q)
  end.

(** the oracle as the two functions the model is parameterised by: ICU values are represented by
    (canonical locale text, canonical langid text, direction) *)
Definition icu_repr := (str * str * option bool)%type.

Definition model_row (parse_locale : str -> option icu_repr) (names : list str) (v : variant) : row_obs :=
  let l := as_icu_locale icu_repr parse_locale names v in
  mk_row_obs (as_str names v) (display names v) (as_ref_str names v) (serialize names v) (cookie_encode names v)
    (from_str names (as_str names v)) (from_str names (display names v))
    (Some (deserialize names (serialize names v))) (cookie_decode names (cookie_encode names v))
    (option_map (fun l => fst (fst l)) l) (option_map (fun l => snd (fst l)) l)
    (direction_of icu_repr parse_locale snd names v).

Definition oracle_of (p : option icu_repr) : icu_oracle :=
  match p with
  | Some (a, b, d) => mk_icu_oracle (Some a) (Some b)
      (Some match d with Some false => LeftToRight | Some true => RightToLeft | None => Auto end)
  | None => mk_icu_oracle None None None
  end.

(** [get_all]: every locale exactly once, the default first; [default] is the configured default *)
Fixpoint nodup_nat (l : list nat) : bool :=
  match l with
  | [] => true
  | x :: r => negb (existsb (Nat.eqb x) r) && nodup_nat r
  end.
Definition spec_all (names : list str) (default : variant) (all : list variant) : bool :=
  Nat.eqb default 0
  && match all with v :: _ => Nat.eqb v 0 | [] => false end
  && Nat.eqb (length all) (length names)
  && forallb (fun v => Nat.ltb v (length names)) all
  && nodup_nat all.

Definition spec_C13 (names : list str) (s : str) (o : parse_obs) (default : variant) (all : list variant) : bool :=
  spec_parse names s o && spec_all names default all.
