(** Executable correspondence predicate for C16 over histories with accessor flavours (Runtime/ContextAcc.v). *)
From Coq Require Import List NArith Bool Arith.
Import ListNotations.
From LI Require Import Base.StrOps.
From LI Require Import Runtime.Langid.
From LI Require Import Runtime.Resolve.
From LI Require Import Runtime.Context.
From LI Require Import Runtime.ContextCheck.
From LI Require Import Runtime.ContextAcc.
From LI Require Import Runtime.Provider.
Open Scope N_scope.

(** operations as the harness receives them *)
(** a component forest as the harness receives it: providers name their cookie *)
Inductive rnode :=
| RLookup
| RSubP (wire : option nat) (cookie_name : option str) (children : rforest)
with rforest :=
| RNil
| RCons (n : rnode) (f : rforest).

Inductive xraw_op :=
| XRaw (r : raw_op)
| XRAcc (h : nat) (fa fb : flavour)
| XRMount (h : nat) (f : flavour)
| XRTree (h nh nctx cur : nat) (f : rforest).
    (* render the forest under the owner of handle [h]; [nh] handles and [nctx] contexts exist, [cur] is the context of [h]
       (numbering supplied by the generator; the scoping is [Provider.compile_forest]) *)

Fixpoint cook_node (a : app) (o : main_opts) (n : rnode) : node :=
  match n with
  | RLookup => NLookup
  | RSubP w None ch => NSub w None (cook_forest a o ch)
  | RSubP w (Some nm) ch => NSub w (Some (use_cookie a nm (mo_cookie_hdr o))) (cook_forest a o ch)
  end
with cook_forest (a : app) (o : main_opts) (f : rforest) : forest :=
  match f with
  | RNil => FNil
  | RCons n r => FCons (cook_node a o n) (cook_forest a o r)
  end.

Record xcase := mk_xcase {
  x_app : app;
  x_main : main_opts;
  x_ops : list xraw_op;
  x_impl_a : list xobs;     (* per step: untracked reads of handles, first accessor of each pair, mounted effects, cookies; frozen observers *)
  x_impl_b : list xobs }.   (* per step: tracked reads of handles, second accessor of each pair, ... *)

Definition xcook (a : app) (o : main_opts) (r : xraw_op) : list xop :=
  match r with
  | XRaw r => [XOp (cook a o r)]
  | XRAcc h fa fb => [XAcc h fa fb]
  | XRMount h f => [XMount h f]
  | XRTree h nh nctx cur f => map XOp (snd (compile_forest (cook_forest a o f) h cur nh nctx))
  end.

(** the harness observes once after a whole forest; nothing is set or flushed while it is rendered, so what was
    observable after each of its operations is that observation cut to the handles and contexts existing then *)
Definition trunc (o : xobs) (nh nc : nat) : xobs :=
  (mk_obs (firstn nh (o_handles (fst o))) (o_accs (fst o)) (o_watch (fst o)) (firstn nc (o_cookies (fst o))), snd o).
Fixpoint expand_tree (ops : list op) (nh nc : nat) (io : xobs) : list xobs :=
  match ops with
  | [] => []
  | [_] => [io]
  | o :: r =>
      let nc' := match o with ONewSub _ _ _ => S nc | _ => nc end in
      trunc io (S nh) nc' :: expand_tree r (S nh) nc' io
  end.
Fixpoint expand_impl (a : app) (o : main_opts) (rs : list xraw_op) (tr : list xobs) : list xobs :=
  match rs, tr with
  | XRTree h nh nctx cur f :: rs', io :: tr' =>
      expand_tree (snd (compile_forest (cook_forest a o f) h cur nh nctx)) nh nctx io ++ expand_impl a o rs' tr'
  | _ :: rs', io :: tr' => io :: expand_impl a o rs' tr'
  | _, _ => tr
  end.
Definition expand_trace (a : app) (o : main_opts) (rs : list xraw_op) (tr : list xobs) : list xobs :=
  match tr with
  | o0 :: r => o0 :: expand_impl a o rs r
  | [] => []
  end.

Definition xobs_eqb (x y : xobs) : bool := obs_eqb (fst x) (fst y) && listN_eqb (snd x) (snd y).
Fixpoint xtrace_eqb (x y : list xobs) : bool :=
  match x, y with
  | [], [] => true
  | a :: r, b :: t => xobs_eqb a b && xtrace_eqb r t
  | _, _ => false
  end.

(** 0 = agree and spec holds; 1 = outside the modelled domain; 2 = implementation differs from the model
    (spec holds on the implementation's trace); 3 = spec false on the implementation's trace *)
Definition xcheck (c : xcase) : N :=
  let a := x_app c in
  if negb (app_wf a) then 1 else
  let l0 := init_main true a (x_main c) in
  let con := mo_enable_cookie (x_main c) in
  let xops := flat_map (xcook a (x_main c)) (x_ops c) in
  if negb (forallb xop_wf xops) then 1 else
  let m := xmodel_trace l0 con xops in
  if negb (xspec_C16 l0 con xops (x_impl_a c) && xspec_C16 l0 con xops (x_impl_b c)) then 3
  else if negb (xtrace_eqb m (x_impl_a c) && xtrace_eqb m (x_impl_b c)) then 2
  else 0.

Fixpoint xfirst_diff (i : N) (x y : list xobs) : option N :=
  match x, y with
  | [], [] => None
  | a :: r, b :: t => if xobs_eqb a b then xfirst_diff (i + 1) r t else Some i
  | _, _ => Some i
  end.

(** * Accessors whose rendering is a function of the locale (plural and format macros)
    The harness prints such a rendering as the class of its text; [dec_trace] reads every class back as a locale
    ([decode]) before the traces are judged as above.  Candidates: for an accessor, what the implementation's own handle of
    that accessor shows at that step, then the model's value; for mounted effects and frozen observers the model's value. *)
Record dectab := mk_dectab {
  d_accs : list (nat * option tbl * option tbl);   (* per accessor pair: its handle, the tables of the first / second accessor *)
  d_watch : list (option tbl);
  d_frozen : list (option tbl * option tbl) }.

Fixpoint dec_list {A} (f : A -> list N -> N -> N) (ds : list A) (ms rs : list N) : list N :=
  match rs with
  | [] => []
  | r :: rs' =>
      match ds with
      | [] => r :: rs'
      | d :: ds' => f d (match ms with m :: _ => [m] | [] => [] end) r :: dec_list f ds' (tl ms) rs'
      end
  end.

Definition dec_xobs (d : dectab) (sel : bool) (mo io : xobs) : xobs :=
  let hs := o_handles (fst io) in
  (mk_obs hs
     (dec_list (fun (e : nat * option tbl * option tbl) ms r =>
                  let '(h, ta, tb) := e in
                  decode (if sel then ta else tb) (match nth_error hs h with Some v => v :: ms | None => ms end) r)
               (d_accs d) (o_accs (fst mo)) (o_accs (fst io)))
     (dec_list (fun t ms r => decode t ms r) (d_watch d) (o_watch (fst mo)) (o_watch (fst io)))
     (o_cookies (fst io)),
   dec_list (fun (p : option tbl * option tbl) ms r => decode (if sel then fst p else snd p) ms r) (d_frozen d) (snd mo) (snd io)).

Fixpoint dec_trace (d : dectab) (sel : bool) (m i : list xobs) : list xobs :=
  match i with
  | [] => []
  | io :: i' =>
      match m with
      | mo :: m' => dec_xobs d sel mo io :: dec_trace d sel m' i'
      | [] => io :: i'
      end
  end.

Record tcase := mk_tcase { t_case : xcase; t_dec : dectab }.

Definition tcheck (tc : tcase) : N :=
  let c := t_case tc in
  let a := x_app c in
  if negb (app_wf a) then 1 else
  let l0 := init_main true a (x_main c) in
  let con := mo_enable_cookie (x_main c) in
  let xops := flat_map (xcook a (x_main c)) (x_ops c) in
  if negb (forallb xop_wf xops) then 1 else
  let m := xmodel_trace l0 con xops in
  let ia := dec_trace (t_dec tc) true m (expand_trace a (x_main c) (x_ops c) (x_impl_a c)) in
  let ib := dec_trace (t_dec tc) false m (expand_trace a (x_main c) (x_ops c) (x_impl_b c)) in
  if negb (xspec_C16 l0 con xops ia && xspec_C16 l0 con xops ib) then 3
  else if negb (xtrace_eqb m ia && xtrace_eqb m ib) then 2
  else 0.
