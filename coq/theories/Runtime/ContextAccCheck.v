(** Executable correspondence predicate for C16 over histories with accessor flavours (Runtime/ContextAcc.v). *)
From Coq Require Import List NArith Bool Arith.
Import ListNotations.
From LI Require Import Base.StrOps.
From LI Require Import Runtime.Langid.
From LI Require Import Runtime.Resolve.
From LI Require Import Runtime.Context.
From LI Require Import Runtime.ContextCheck.
From LI Require Import Runtime.ContextAcc.
Open Scope N_scope.

(** operations as the harness receives them *)
Inductive xraw_op :=
| XRaw (r : raw_op)
| XRAcc (h : nat) (fa fb : flavour)
| XRMount (h : nat) (f : flavour).

Record xcase := mk_xcase {
  x_app : app;
  x_main : main_opts;
  x_ops : list xraw_op;
  x_impl_a : list xobs;     (* per step: untracked reads of handles, first accessor of each pair, mounted effects, cookies; frozen observers *)
  x_impl_b : list xobs }.   (* per step: tracked reads of handles, second accessor of each pair, ... *)

Definition xcook (a : app) (o : main_opts) (r : xraw_op) : xop :=
  match r with
  | XRaw r => XOp (cook a o r)
  | XRAcc h fa fb => XAcc h fa fb
  | XRMount h f => XMount h f
  end.

Definition xobs_eqb (x y : xobs) : bool := obs_eqb (fst x) (fst y) && listN_eqb (snd x) (snd y).
Fixpoint xtrace_eqb (x y : list xobs) : bool :=
  match x, y with
  | [], [] => true
  | a :: r, b :: t => xobs_eqb a b && xtrace_eqb r t
  | _, _ => false
  end.

(** 0 = agree and spec holds; 1 = outside the modelled domain; 2 = implementation differs from the model
    (spec holds on the implementation's trace); 3 = spec false on the implementation's trace *)
Definition xcheck (c : xcase) : N :=
  let a := x_app c in
  if negb (app_wf a) then 1 else
  let l0 := init_main true a (x_main c) in
  let con := mo_enable_cookie (x_main c) in
  let xops := map (xcook a (x_main c)) (x_ops c) in
  if negb (forallb xop_wf xops) then 1 else
  let m := xmodel_trace l0 con xops in
  if negb (xspec_C16 l0 con xops (x_impl_a c) && xspec_C16 l0 con xops (x_impl_b c)) then 3
  else if negb (xtrace_eqb m (x_impl_a c) && xtrace_eqb m (x_impl_b c)) then 2
  else 0.

Fixpoint xfirst_diff (i : N) (x y : list xobs) : option N :=
  match x, y with
  | [], [] => None
  | a :: r, b :: t => if xobs_eqb a b then xfirst_diff (i + 1) r t else Some i
  | _, _ => Some i
  end.
