(** Accessor flavours on top of the context machines of Runtime/Context.v (property C16).

    An accessor is written with one of nine macros and an arbitrary expression as first argument.  What the macro
    expands to (leptos_i18n_macro/src/t_macro/mod.rs):
      - `t!(e, k ..)` / `tu!` / `td!` (View output):  `{ <args bound once>; move || { I18nContext::get_keys(e).k() .. } }` —
        the returned closure evaluates the *whole* expression [e] and reads the locale each time it is called;
      - `t_string!` / `t_display!` (and `tu_`, `td_` forms): `{ <args>; get_keys(e).k() .. }` — evaluated where the call
        is; an accessor is then a closure around the call, which again evaluates [e] and reads the locale on every
        rendering.
    `get_keys` = `locale_signal.get()` (subscribes the running effect), `get_keys_untracked` = `get_untracked()`.
    Every context expression below denotes a copy of the handle it is built from (a copy of the id of the context's
    `locale_signal`): a bound identifier, `use_i18n()` under the owner of that context, `scope_i18n!(..)` /
    `use_i18n_scoped!(..)` (scope() copies the signal), a struct field, the deref of a reference, a block, ...
    Hence in the model every such accessor is the [OAcc] observer of Context.v (re-reads the signal when rendered),
    whatever its flavour; the correspondence check drives the real macros with every flavour.

    For the macros taking a locale (`td!`..) the first argument is an expression of type `Locale`:
    `ctx.get_locale()` (tracked) or `ctx.get_locale_untracked()` in the same syntactic shapes, or — [EIdent] — a
    `Locale` *value* bound when the accessor is created, which by construction never changes: a frozen observer.
    A mounted effect whose accessor only reads untracked never subscribes: it shows for ever what it showed when it
    was mounted; it is a frozen observer too.

    The plural and format macros (t_plural/mod.rs, t_format/mod.rs) bind their first argument once
    (`let _ctx = e;` — a copy of the handle) and read the locale where the output is produced:
      - `t_plural!` / `t_plural_ordinal!`: `move || { let _locale = get_locale(_ctx); match category(_locale, count) { arms } }` —
        a closure, the locale is read (tracked) on every call;  `tu_plural!` / `tu_plural_ordinal!`: the same `match`
        evaluated in place with `get_locale_untracked`;
      - `t_format!` / `tu_format!`: `move || { let _locale = get_locale[_untracked](_ctx); format_*_to_view(_locale, value, options) }`;
        the `_string` / `_display` forms are evaluated in place.
    What such an accessor renders is a function of the locale it reads (the selected arm, the formatted text): for a
    text function [txt], [render_with txt] below.

    Extended machines: state = (state of Context.v, values of the frozen observers); an extended operation is
    erased to an operation of Context.v ([erase]) and may add a frozen observer ([freezes]).  No proofs here. *)
From Coq Require Import List NArith Bool Arith.
Import ListNotations.
From LI Require Import Runtime.Resolve.
From LI Require Import Runtime.Context.
Open Scope N_scope.

Inductive macro :=
| MT | MTu | MTString | MTuString | MTDisplay | MTuDisplay | MTd | MTdString | MTdDisplay
| MTPlural | MTuPlural | MTPluralOrd | MTuPluralOrd
| MTFormat | MTuFormat | MTFormatString | MTuFormatString | MTFormatDisplay | MTuFormatDisplay.

(** syntactic kind of the first macro argument.  For a macro taking a context, built from the handle `c`:
      EIdent `c` | EUseCall `use_i18n()` | EScopeInline `scope_i18n!(c, ns)` | EUseScopedInline `use_i18n_scoped!(ns)` |
      EField `holder.i18n` | EDeref `*r` | EBlock `{ c }` | EParen `(c)` | EMethod `holder.get()` | EFnCall `idf(c)`.
    For a macro taking a locale:
      EIdent `l` (a Locale bound at creation) | EUseCall `use_i18n().get_locale()` |
      EScopeInline `scope_locale!(c.get_locale(), ns)` | EUseScopedInline `use_i18n().get_locale_untracked()` |
      EField `holder.i18n.get_locale()` | EDeref `( *r ).get_locale()` | EBlock `{ c.get_locale() }` |
      EParen `(c.get_locale())` | EMethod `c.get_locale()` | EFnCall `idf(c.get_locale_untracked())`. *)
Inductive cexpr := EIdent | EUseCall | EScopeInline | EUseScopedInline | EField | EDeref | EBlock | EParen | EMethod | EFnCall.

Record flavour := mk_fl { f_macro : macro; f_expr : cexpr; f_args : bool (* interpolation arguments given *) }.

Definition takes_locale (m : macro) : bool :=
  match m with MTd | MTdString | MTdDisplay => true | _ => false end.

(** the accessor is over a value computed when it was created *)
Definition fl_frozen (f : flavour) : bool :=
  takes_locale (f_macro f) && match f_expr f with EIdent => true | _ => false end.

(** rendering the accessor inside an effect subscribes the effect to the locale signal *)
Definition fl_tracked (f : flavour) : bool :=
  match f_macro f with
  | MT | MTString | MTDisplay | MTPlural | MTPluralOrd | MTFormat | MTFormatString | MTFormatDisplay => true
  | MTu | MTuString | MTuDisplay | MTuPlural | MTuPluralOrd | MTuFormat | MTuFormatString | MTuFormatDisplay => false
  | MTd | MTdString | MTdDisplay =>
      match f_expr f with EIdent | EUseScopedInline | EFnCall => false | _ => true end
  end.

Inductive xop :=
| XOp (o : op)
| XAcc (h : nat) (fa fb : flavour)     (* two accessors on handle h (one per observed trace) *)
| XMount (h : nat) (f : flavour).      (* a render effect showing an accessor of handle h created outside of it *)

Definition xop_wf (x : xop) : bool :=
  match x with XAcc _ fa fb => Bool.eqb (fl_frozen fa) (fl_frozen fb) | _ => true end.

Definition erase (x : xop) : op :=
  match x with
  | XOp o => o
  | XAcc h fa _ => if fl_frozen fa then OGet else OAcc h
  | XMount h f => if fl_tracked f then OMount h else OGet
  end.

(** the operation adds a frozen observer showing what handle h reads now *)
Definition freezes (x : xop) : option nat :=
  match x with
  | XOp _ => None
  | XAcc h fa _ => if fl_frozen fa then Some h else None
  | XMount h f => if fl_tracked f then None else Some h
  end.

Definition xobs := (obs * list N)%type.

(** * Concrete machine *)
Definition xc_step (xs : cstate * list N) (x : xop) : cstate * list N :=
  let s := fst xs in
  (c_step s (erase x),
   match freezes x with
   | Some h => if Nat.ltb h (c_nh s) then snd xs ++ [c_ar s (c_hsig s h)] else snd xs
   | None => snd xs
   end).
Definition xc_obs (xs : cstate * list N) : xobs := (c_obs (fst xs), snd xs).
Fixpoint xc_trace (xs : cstate * list N) (xops : list xop) : list xobs :=
  match xops with
  | [] => []
  | x :: r => let xs' := xc_step xs x in xc_obs xs' :: xc_trace xs' r
  end.
Definition xc_run (xs : cstate * list N) (xops : list xop) : cstate * list N := fold_left xc_step xops xs.
Definition xmodel_trace (l0 : N) (con : bool) (xops : list xop) : list xobs :=
  xc_obs (c_init l0 con, []) :: xc_trace (c_init l0 con, []) xops.

(** * Abstract machine *)
Definition xa_step (xa : astate * list N) (x : xop) : astate * list N :=
  let a := fst xa in
  (a_step a (erase x),
   match freezes x with
   | Some h => if Nat.ltb h (a_nh a) then snd xa ++ [a_loc a (a_hctx a h)] else snd xa
   | None => snd xa
   end).
Definition xa_obs (xa : astate * list N) : xobs := (a_obs (fst xa), snd xa).
Fixpoint xa_trace (xa : astate * list N) (xops : list xop) : list xobs :=
  match xops with
  | [] => []
  | x :: r => let xa' := xa_step xa x in xa_obs xa' :: xa_trace xa' r
  end.
Definition xa_run (xa : astate * list N) (xops : list xop) : astate * list N := fold_left xa_step xops xa.
Definition xspec_trace (l0 : N) (con : bool) (xops : list xop) : list xobs :=
  xa_obs (a_init l0 con, []) :: xa_trace (a_init l0 con, []) xops.

(** what accessor [k] renders when its output is the function [txt] of the locale it reads (the arm `t_plural!` selects
    for the CLDR category of a count, the text ICU4X produces for a value and options, the translation of a key) *)
Definition render_with {T : Type} (txt : N -> T) (s : cstate) (k : nat) : T := txt (c_ar s (c_acc s k)).

(** the knowledge machine of the executable predicate, run over a history *)
Definition k_run (k : kstate) (ops : list op) : kstate := fold_left k_step ops k.

(** * The property on an observed extended trace: [spec_C16] on the erased history and the non-frozen observations.
    Nothing is demanded of the frozen observers (the property does not speak of them); they are compared with the
    model by the correspondence check. *)
Definition xspec_C16 (l0 : N) (con : bool) (xops : list xop) (tr : list xobs) : bool :=
  spec_C16 l0 con (map erase xops) (map fst tr).

(** * Reading a rendering that is a function of the locale (used by the correspondence check)
    A table [t] gives, per locale index, the class of the text the fixed-locale macro (`td_plural!`, `td_format!`) renders
    for one payload; an observed class [r] is read back as a locale whose class it is — the first of [cands] (the
    locale the context itself shows / the model expects) that qualifies, else the least such locale, else 99.
    [decode_iff] (ContextAccProofs.v): the result is the expected locale exactly when the text is that locale's. *)
Definition tbl := list N.
Definition tbl_get (t : tbl) (l : N) : N := nth (N.to_nat l) t 99.
Fixpoint find_cand (t : tbl) (r : N) (cands : list N) : option N :=
  match cands with
  | [] => None
  | c :: cs => if tbl_get t c =? r then Some c else find_cand t r cs
  end.
Definition decode (t : option tbl) (cands : list N) (r : N) : N :=
  match t with
  | None => r
  | Some t =>
      match find_cand t r cands with
      | Some c => c
      | None => match find_cand t r (map N.of_nat (seq 0 (length t))) with Some c => c | None => 99 end
      end
  end.
