(** The keys of the formatter cache — property C18.
    Mirrors the six maps of [Formatters] in leptos_i18n/src/macro_helpers/formatting/mod.rs and
    the arguments the generated code passes (leptos_i18n_macro/src/utils/formatter.rs,
    [var_to_view] / [var_fmt] / [var_to_display]): every option of the parsed [Formatter] is part
    of the key of its map, except the currency code, which is not an option of the
    [CurrencyFormatter] but an argument of [format_fixed_decimal].  No proofs in this file. *)
From Coq Require Import List NArith Bool.
Import ListNotations.
From LI Require Import Base.StrOps Parser.Formatter.

Inductive cache_key :=
| KNum (g : grouping)              (* formatters.num      : GroupingStrategy *)
| KDate (d : dlen)                 (* formatters.date     : length::Date *)
| KTime (t : tlen)                 (* formatters.time     : length::Time *)
| KDateTime (d : dlen) (t : tlen)  (* formatters.datetime : (length::Date, length::Time) *)
| KList (ty : ltype) (st : lstyle) (* formatters.list     : (ListType, ListLength) *)
| KCurrency (w : cwidth).          (* formatters.currency : Width *)

(** [None]: no formatter, the variable is displayed as it is *)
Definition key_of (f : formatter) : option cache_key :=
  match f with
  | FNone => None
  | FNumber g => Some (KNum g)
  | FDate d => Some (KDate d)
  | FTime t => Some (KTime t)
  | FDateTime d t => Some (KDateTime d t)
  | FList ty st => Some (KList ty st)
  | FCurrency w _ => Some (KCurrency w)
  end.

(** what is handed to the formatting call besides the value *)
Definition call_arg (f : formatter) : option str :=
  match f with FCurrency _ code => Some code | _ => None end.

Definition key_eqb (a b : cache_key) : bool :=
  match a, b with
  | KNum x, KNum y => grouping_eqb x y
  | KDate x, KDate y => dlen_eqb x y
  | KTime x, KTime y => tlen_eqb x y
  | KDateTime x1 x2, KDateTime y1 y2 => dlen_eqb x1 y1 && tlen_eqb x2 y2
  | KList x1 x2, KList y1 y2 => ltype_eqb x1 y1 && lstyle_eqb x2 y2
  | KCurrency x, KCurrency y => cwidth_eqb x y
  | _, _ => false
  end.

(** ICU4X 1.5 cannot build a zone-less Time/DateTime formatter with a time-zone field:
    [time_length: full | long] (observed: UnsupportedField(TimeZone(LowerZ))) *)
Definition needs_time_zone (k : cache_key) : bool :=
  match k with
  | KTime TFull | KTime TLong | KDateTime _ TFull | KDateTime _ TLong => true
  | _ => false
  end.
