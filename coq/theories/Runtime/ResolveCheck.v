(** Executable correspondence predicate for C15: evaluated on harness-generated case files. *)
From Coq Require Import List NArith Bool.
Import ListNotations.
From LI Require Import Base.StrOps.
From LI Require Import Runtime.Langid.
From LI Require Import Runtime.Resolve.
Open Scope N_scope.

Inductive scenario :=
| Main (o : main_opts)
| Sub (o : sub_opts).

Record case := mk_case {
  c_app : app;
  c_feat_cookie : bool;          (* harness is built with the `cookie` feature *)
  c_scn : scenario;
  c_impl_init : N;               (* get_locale_untracked() right after creation *)
  c_impl_resolve : option N;     (* resolve_locale_with_options (main only) *)
  c_impl_after_flush : N }.      (* get_locale_untracked() after the effects ran *)

(** 0 = agree and spec holds; 1 = outside the modelled domain; 2 = implementation differs from the model
    (spec holds); 3 = spec false on the implementation's output *)
Definition check (c : case) : N :=
  let a := c_app c in
  let f := c_feat_cookie c in
  if negb (app_wf a) then 1 else
  match c_scn c with
  | Main o =>
      let m := init_main f a o in
      let r := match c_impl_resolve c with Some r => r | None => m end in
      let spec_ok := spec_C15_main f a o (c_impl_init c) && spec_C15_main f a o r
                     && spec_C15_main f a o (c_impl_after_flush c) in
      let agree := (m =? c_impl_init c) && (resolve_locale f a o =? r) && (m =? c_impl_after_flush c) in
      if negb spec_ok then 3 else if negb agree then 2 else 0
  | Sub o =>
      let m := init_sub f a o in
      let spec_ok := spec_C15_sub f a o (c_impl_init c) && spec_C15_sub f a o (c_impl_after_flush c) in
      let agree := (m =? c_impl_init c) && (m =? c_impl_after_flush c) in
      if negb spec_ok then 3 else if negb agree then 2 else 0
  end.
