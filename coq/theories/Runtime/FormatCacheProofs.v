(** Proofs about the formatter-cache model (property C18, runtime part). *)
From Coq Require Import List Arith Bool Lia.
Import ListNotations.
From LI Require Import Runtime.FormatCache.

Section CacheProofs.
  Variables locale opts fmt value out : Type.
  Variable loc_eqb : locale -> locale -> bool.
  Variable opt_eqb : opts -> opts -> bool.
  (** the keys of the real maps are compared by derived [Eq]: equal keys are the same key *)
  Hypothesis loc_eqb_sound : forall a b, loc_eqb a b = true -> a = b.
  Hypothesis opt_eqb_sound : forall a b, opt_eqb a b = true -> a = b.
  Variable make : locale -> opts -> option fmt.
  Variable icu : fmt -> value -> out.

  Notation cache := (cache locale opts fmt).
  Notation call := (call locale opts value).
  Notation state := (state locale opts fmt value out).
  Notation get_or_insert := (get_or_insert locale opts fmt loc_eqb opt_eqb make).
  Notation inner_get_or_insert := (inner_get_or_insert opts fmt opt_eqb).
  Notation do_call := (do_call locale opts fmt value out loc_eqb opt_eqb make icu).
  Notation icu_fmt := (icu_fmt locale opts fmt value out make icu).
  Notation step := (step locale opts fmt value out loc_eqb opt_eqb make icu).
  Notation run := (run locale opts fmt value out loc_eqb opt_eqb make icu).
  Notation init := (init locale opts fmt value out).
  Notation results_of := (results_of locale opts value out).
  Notation outcome := (outcome out).
  Notation run_seq := (run_seq locale opts fmt value out loc_eqb opt_eqb make icu).

  (** invariant: every stored formatter is the one [make] builds for its key *)
  Definition inner_ok (l : locale) (m : list (opts * fmt)) : Prop :=
    Forall (fun e => make l (fst e) = Some (snd e)) m.
  Definition cache_ok (c : cache) : Prop :=
    Forall (fun e => inner_ok (fst e) (snd e)) c.

  Lemma inner_goi_ok : forall l o m,
    inner_ok l m ->
    snd (inner_get_or_insert m o (make l o)) = make l o /\ inner_ok l (fst (inner_get_or_insert m o (make l o))).
  Proof.
    intros l o. induction m as [|[o' f'] r IH]; intro H.
    - cbn [FormatCache.inner_get_or_insert]. destruct (make l o) as [f|] eqn:E; cbn [fst snd].
      + split; [reflexivity|]. constructor; [exact E|constructor].
      + split; [reflexivity|constructor].
    - cbn [FormatCache.inner_get_or_insert].
      destruct (opt_eqb o' o) eqn:E.
      + cbn [fst snd]. split; [|exact H].
        apply opt_eqb_sound in E. subst o'. inversion H as [|? ? Hf _]. symmetry. exact Hf.
      + inversion H as [|? ? Hf Hr]; subst.
        destruct (IH Hr) as [IH1 IH2].
        destruct (inner_get_or_insert r o (make l o)) as [r' f]. cbn [fst snd] in *.
        split; [exact IH1|]. constructor; assumption.
  Qed.

  Lemma goi_ok : forall l o c,
    cache_ok c ->
    snd (get_or_insert c l o) = make l o /\ cache_ok (fst (get_or_insert c l o)).
  Proof.
    intros l o. induction c as [|[l' m] r IH]; intro H.
    - cbn [FormatCache.get_or_insert].
      destruct (inner_goi_ok l o [] (Forall_nil _)) as [G1 G2].
      destruct (inner_get_or_insert [] o (make l o)) as [m' f]. cbn [fst snd] in *.
      split; [exact G1|]. constructor; [exact G2|constructor].
    - cbn [FormatCache.get_or_insert].
      inversion H as [|? ? Hm Hr]; subst. cbn [fst snd] in Hm.
      destruct (loc_eqb l' l) eqn:E.
      + apply loc_eqb_sound in E. subst l'.
        destruct (inner_goi_ok l o m Hm) as [G1 G2].
        destruct (inner_get_or_insert m o (make l o)) as [m' f]. cbn [fst snd] in *.
        split; [exact G1|]. constructor; assumption.
      + destruct (IH Hr) as [IH1 IH2].
        destruct (get_or_insert r l o) as [r' f]. cbn [fst snd] in *.
        split; [exact IH1|]. constructor; assumption.
  Qed.

  Lemma do_call_ok : forall c k, cache_ok c ->
    snd (do_call c k) = icu_fmt k /\ cache_ok (fst (do_call c k)).
  Proof.
    intros c k H. unfold FormatCache.do_call, FormatCache.icu_fmt.
    destruct (goi_ok (c_loc _ _ _ k) (c_opts _ _ _ k) c H) as [G1 G2].
    destruct (get_or_insert c (c_loc _ _ _ k) (c_opts _ _ _ k)) as [c' f]. cbn [fst snd] in *.
    rewrite G1. split; [reflexivity | exact G2].
  Qed.

  (** * every call returns the ICU formatting with the declared options, for every schedule *)
  Definition log_ok (log : list (nat * call * outcome)) : Prop :=
    Forall (fun e => snd e = icu_fmt (snd (fst e))) log.

  Lemma step_ok : forall s t,
    cache_ok (st_cache _ _ _ _ _ s) -> log_ok (st_log _ _ _ _ _ s) ->
    cache_ok (st_cache _ _ _ _ _ (step s t)) /\ log_ok (st_log _ _ _ _ _ (step s t)).
  Proof.
    intros s t Hc Hl. unfold FormatCache.step.
    destruct (nth_error (st_pending _ _ _ _ _ s) t) as [[|k rest]|]; try (split; assumption).
    destruct (do_call_ok (st_cache _ _ _ _ _ s) k Hc) as [D1 D2].
    destruct (do_call (st_cache _ _ _ _ _ s) k) as [c' o]. cbn [fst snd st_cache st_log] in *.
    split; [exact D2|].
    apply Forall_app. split; [exact Hl|]. constructor; [exact D1|constructor].
  Qed.

  Lemma run_ok : forall sched s,
    cache_ok (st_cache _ _ _ _ _ s) -> log_ok (st_log _ _ _ _ _ s) ->
    cache_ok (st_cache _ _ _ _ _ (run sched s)) /\ log_ok (st_log _ _ _ _ _ (run sched s)).
  Proof.
    induction sched as [|t sched IH]; intros s Hc Hl; [split; assumption|].
    cbn [FormatCache.run fold_left]. destruct (step_ok s t Hc Hl) as [S1 S2].
    apply IH; assumption.
  Qed.

  Theorem cache_transparent : forall progs sched t k o,
    In (t, k, o) (st_log _ _ _ _ _ (run sched (init progs))) -> o = icu_fmt k.
  Proof.
    intros progs sched t k o Hin.
    destruct (run_ok sched (init progs)) as [_ Hl]; [constructor | constructor |].
    unfold log_ok in Hl. rewrite Forall_forall in Hl. exact (Hl _ Hin).
  Qed.

  (** also from any earlier state of the cache that the cache itself produced *)
  Theorem cache_transparent_from : forall s sched t k o,
    cache_ok (st_cache _ _ _ _ _ s) -> log_ok (st_log _ _ _ _ _ s) ->
    In (t, k, o) (st_log _ _ _ _ _ (run sched s)) -> o = icu_fmt k.
  Proof.
    intros s sched t k o Hc Hl0 Hin.
    destruct (run_ok sched s Hc Hl0) as [_ Hl].
    unfold log_ok in Hl. rewrite Forall_forall in Hl. exact (Hl _ Hin).
  Qed.

  (** * every thread sees exactly the results of its own program, in order *)
  Fixpoint keys_of (t : nat) (log : list (nat * call * outcome)) : list call :=
    match log with
    | [] => []
    | (t', k, _) :: r => if Nat.eqb t' t then k :: keys_of t r else keys_of t r
    end.

  Lemma keys_of_app : forall t a b, keys_of t (a ++ b) = keys_of t a ++ keys_of t b.
  Proof.
    intros t. induction a as [|[[t' k] o] a IH]; intro b; [reflexivity|].
    cbn [app keys_of]. destruct (Nat.eqb t' t); cbn [app]; rewrite IH; reflexivity.
  Qed.

  Lemma nth_set_nth_same : forall A (l : list A) n x d, n < length l -> nth n (set_nth n x l) d = x.
  Proof.
    intros A. induction l as [|y l IH]; intros n x d H; cbn [length] in H; [lia|].
    destruct n as [|n]; cbn [set_nth nth]; [reflexivity|]. apply IH. lia.
  Qed.

  Lemma nth_set_nth_other : forall A (l : list A) n m x d, n <> m -> nth m (set_nth n x l) d = nth m l d.
  Proof.
    intros A. induction l as [|y l IH]; intros n m x d H; [destruct n; reflexivity|].
    destruct n as [|n], m as [|m]; cbn [set_nth nth]; try reflexivity; try lia.
    apply IH. lia.
  Qed.

  Lemma length_set_nth : forall A (l : list A) n x, length (set_nth n x l) = length l.
  Proof.
    intros A. induction l as [|y l IH]; intros n x; [destruct n; reflexivity|].
    destruct n; cbn [set_nth length]; [reflexivity|]. rewrite IH. reflexivity.
  Qed.

  Definition progress_inv (progs : list (list call)) (s : state) : Prop :=
    forall t, keys_of t (st_log _ _ _ _ _ s) ++ nth t (st_pending _ _ _ _ _ s) [] = nth t progs [].

  Lemma step_progress : forall progs s t, progress_inv progs s -> progress_inv progs (step s t).
  Proof.
    intros progs s t H. unfold FormatCache.step.
    destruct (nth_error (st_pending _ _ _ _ _ s) t) as [[|k rest]|] eqn:E; try exact H.
    destruct (do_call (st_cache _ _ _ _ _ s) k) as [c' o].
    intro t'. cbn [st_log st_pending]. rewrite keys_of_app. cbn [keys_of].
    pose proof (H t') as Ht'.
    destruct (Nat.eqb_spec t t') as [->|Hne].
    - rewrite nth_set_nth_same by (apply nth_error_Some; congruence).
      rewrite (nth_error_nth _ _ [] E) in Ht'. rewrite <- Ht', <- app_assoc. reflexivity.
    - rewrite nth_set_nth_other by exact Hne. rewrite app_nil_r. exact Ht'.
  Qed.

  Lemma run_progress : forall progs sched s, progress_inv progs s -> progress_inv progs (run sched s).
  Proof.
    intros progs. induction sched as [|t sched IH]; intros s H; [exact H|].
    cbn [FormatCache.run fold_left]. apply IH. apply step_progress. exact H.
  Qed.

  Lemma results_of_keys : forall t log, log_ok log ->
    results_of t log = map (fun k => (k, icu_fmt k)) (keys_of t log).
  Proof.
    intros t. induction log as [|[[t' k] o] r IH]; intro H; [reflexivity|].
    inversion H as [|? ? Ho Hr]; subst. cbn [fst snd] in Ho. subst o.
    cbn [results_of keys_of]. destruct (Nat.eqb t' t); cbn [map]; rewrite (IH Hr); reflexivity.
  Qed.

  Lemma length_pending_step : forall s t,
    length (st_pending _ _ _ _ _ (step s t)) = length (st_pending _ _ _ _ _ s).
  Proof.
    intros s t. unfold FormatCache.step.
    destruct (nth_error (st_pending _ _ _ _ _ s) t) as [[|k rest]|]; try reflexivity.
    destruct (do_call (st_cache _ _ _ _ _ s) k) as [c' o]. cbn [st_pending]. apply length_set_nth.
  Qed.

  Lemma complete_nth : forall (s : state) t, complete _ _ _ _ _ s -> nth t (st_pending _ _ _ _ _ s) [] = [].
  Proof.
    intros s t H. unfold complete in H. rewrite Forall_forall in H.
    destruct (nth_in_or_default t (st_pending _ _ _ _ _ s) []) as [Hin|Hd]; [apply H; exact Hin | exact Hd].
  Qed.

  (** when every thread has finished, thread [t] has seen [icu_fmt] of each of its calls, in order *)
  Theorem results_when_complete : forall progs sched t,
    complete _ _ _ _ _ (run sched (init progs)) ->
    results_of t (st_log _ _ _ _ _ (run sched (init progs))) = map (fun k => (k, icu_fmt k)) (nth t progs []).
  Proof.
    intros progs sched t Hc.
    destruct (run_ok sched (init progs)) as [_ Hl]; [constructor | constructor |].
    rewrite (results_of_keys t _ Hl). f_equal.
    assert (Hp : progress_inv progs (run sched (init progs))).
    { apply run_progress. intro t'. reflexivity. }
    specialize (Hp t). rewrite (complete_nth _ t Hc), app_nil_r in Hp. exact Hp.
  Qed.

  (** hence two complete schedules (for instance 8 racing threads and one thread after the other) agree *)
  Theorem schedule_independent : forall progs sched1 sched2 t,
    complete _ _ _ _ _ (run sched1 (init progs)) -> complete _ _ _ _ _ (run sched2 (init progs)) ->
    results_of t (st_log _ _ _ _ _ (run sched1 (init progs)))
    = results_of t (st_log _ _ _ _ _ (run sched2 (init progs))).
  Proof.
    intros progs s1 s2 t H1 H2.
    rewrite (results_when_complete progs s1 t H1), (results_when_complete progs s2 t H2). reflexivity.
  Qed.

  (** the program run alone on any cache the library can have built gives the same results *)
  Theorem sequential_same : forall p c, cache_ok c -> run_seq c p = map (fun k => (k, icu_fmt k)) p.
  Proof.
    induction p as [|k r IH]; intros c Hc; [reflexivity|].
    cbn [FormatCache.run_seq map]. destruct (do_call_ok c k Hc) as [D1 D2].
    destruct (do_call c k) as [c' o]. cbn [fst snd] in *. subst o. rewrite (IH c' D2). reflexivity.
  Qed.

  (** every schedule that gives each thread enough turns is complete (non-vacuity of [complete]):
      the round-robin schedule *)
End CacheProofs.

(** * the code before the repair ([mutex.write().unwrap()]) violates the property:
    a call whose options ICU4X refuses (a `time` formatter with `time_length: full`)
    makes a later, unrelated call panic although ICU4X formats it *)
Definition w_make (l o : nat) : option (nat * nat) := if Nat.eqb o 0 then None else Some (l, o).
Definition w_icu (f : nat * nat) (v : nat) : nat * nat * nat := (f, v).
Definition w_progs : list (list (call nat nat nat)) := [[(1, 0, 5); (1, 7, 5)]].
Definition w_log_old :=
  st_log _ _ _ _ _ (so_state _ _ _ _ _ (run_old nat nat (nat * nat) nat (nat * nat * nat) Nat.eqb Nat.eqb w_make w_icu [0; 0]
                                               (init_old _ _ _ _ _ w_progs))).
Definition w_log_new :=
  st_log _ _ _ _ _ (run nat nat (nat * nat) nat (nat * nat * nat) Nat.eqb Nat.eqb w_make w_icu [0; 0] (init _ _ _ _ _ w_progs)).

Lemma old_cache_refuted :
  In (0, (1, 7, 5), Panicked _) w_log_old /\
  icu_fmt nat nat (nat * nat) nat (nat * nat * nat) w_make w_icu (1, 7, 5) = Out _ ((1, 7), 5).
Proof. vm_compute. split; [right; left; reflexivity | reflexivity]. Qed.

Lemma new_cache_witness :
  w_log_new = [(0, (1, 0, 5), Panicked _); (0, (1, 7, 5), Out _ ((1, 7), 5))].
Proof. vm_compute. reflexivity. Qed.

(** * the cache instantiated with the real keys *)
From LI Require Import Parser.Formatter Runtime.FormatKeys.

Lemma key_eqb_sound : forall a b, key_eqb a b = true -> a = b.
Proof.
  intros [g|d|t|d t|ty st|w] [g'|d'|t'|d' t'|ty' st'|w'] H; cbn [key_eqb] in H; try discriminate;
    try (apply andb_true_iff in H as [H1 H2]);
    repeat match goal with
    | x : grouping |- _ => destruct x
    | x : dlen |- _ => destruct x
    | x : tlen |- _ => destruct x
    | x : ltype |- _ => destruct x
    | x : lstyle |- _ => destruct x
    | x : cwidth |- _ => destruct x
    end; try discriminate; reflexivity.
Qed.

(** for every locale carrier with a sound equality test, every ICU4X ([make], [icu]), every set of
    thread programs over (locale, cache key, value) and every schedule *)
Theorem cache_transparent_keys :
  forall (locale fmt value out : Type) (loc_eqb : locale -> locale -> bool),
    (forall a b, loc_eqb a b = true -> a = b) ->
  forall (make : locale -> cache_key -> option fmt) (icu : fmt -> value -> out)
         (progs : list (list (call locale cache_key value))) (sched : list nat) t k o,
    In (t, k, o) (st_log _ _ _ _ _ (run _ _ _ _ _ loc_eqb key_eqb make icu sched (init _ _ _ _ _ progs))) ->
    o = icu_fmt _ _ _ _ _ make icu k.
Proof.
  intros locale fmt value out loc_eqb Hl make icu progs sched t k o.
  exact (cache_transparent locale cache_key fmt value out loc_eqb key_eqb Hl key_eqb_sound make icu progs sched t k o).
Qed.

(** * the data provider is process-wide: installed once, every thread's formatter is built from it *)
From LI Require Import Runtime.FormatProvider.

Theorem provider_global :
  forall (provider locale opts fmt value out : Type)
         (loc_eqb : locale -> locale -> bool) (opt_eqb : opts -> opts -> bool),
    (forall a b, loc_eqb a b = true -> a = b) -> (forall a b, opt_eqb a b = true -> a = b) ->
  forall (build : provider -> locale -> opts -> option fmt) (icu : fmt -> value -> out) (p : provider)
         (progs : list (list (call locale opts value))) (sched : list nat) t k o,
    In (t, k, o) (st_log _ _ _ _ _ (run_global provider locale opts fmt value out loc_eqb opt_eqb build icu (Some p) sched progs)) ->
    o = icu_fmt_with provider locale opts fmt value out build icu p k.
Proof.
  intros provider locale opts fmt value out loc_eqb opt_eqb Hl Ho build icu p progs sched t k o H.
  unfold run_global in H. unfold icu_fmt_with.
  exact (cache_transparent locale opts fmt value out loc_eqb opt_eqb Hl Ho (make_of provider locale opts fmt build (Some p)) icu
           progs sched t k o H).
Qed.

(** thread-local state refuted: thread 0 installs the provider, thread 1 formats a number - it panics although
    the installed provider builds the formatter *)
Definition w_build (p l o : nat) : option (nat * nat * nat) := Some (p, l, o).
Definition w_icu3 (f : nat * nat * nat) (v : nat) := (f, v).
Definition w_progs2 : list (list (call nat nat nat)) := [[(1, 7, 5)]; [(1, 7, 5)]].

Lemma provider_thread_local_refuted :
  tl_log _ _ _ _ _ (run_tl nat nat nat (nat * nat * nat) nat (nat * nat * nat * nat) Nat.eqb Nat.eqb w_build w_icu3 0 9 [0; 1] w_progs2)
  = [(0, (1, 7, 5), Out _ ((9, 1, 7), 5)); (1, (1, 7, 5), Panicked _)]
  /\ icu_fmt_with nat nat nat (nat * nat * nat) nat (nat * nat * nat * nat) w_build w_icu3 9 (1, 7, 5) = Out _ ((9, 1, 7), 5)
  /\ st_log _ _ _ _ _ (run_global nat nat nat (nat * nat * nat) nat (nat * nat * nat * nat) Nat.eqb Nat.eqb w_build w_icu3 (Some 9) [0; 1] w_progs2)
     = [(0, (1, 7, 5), Out _ ((9, 1, 7), 5)); (1, (1, 7, 5), Out _ ((9, 1, 7), 5))].
Proof. vm_compute. repeat split; reflexivity. Qed.
