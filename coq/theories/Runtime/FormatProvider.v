(** The ICU data provider of the formatter cache — property C18.
    `Formatters` (leptos_i18n/src/macro_helpers/formatting/mod.rs) holds, next to the six maps, the data
    provider every formatter is built from.  With the `icu_compiled_data` feature it is the baked data; without
    it, it is `None` until the application calls [set_icu_data_provider] (`formatters.provider = Some(..)` under
    the same lock), and building a formatter with no provider panics ("No DataProvider provided.").

    ASSUMED USE (documented): the provider is installed once, at start-up, before any formatting.  The state is
    one process-wide value behind `static FORMATTERS: StaticLock<Formatters>` (OnceLock<RwLock<..>>), so the
    provider installed by one thread is the provider of every thread: formatting with provider [p] installed is
    the cache of Runtime/FormatCache.v with [make := build p] - for ALL threads ([run_global]).

    [run_tl] is the variant in which the state (maps AND provider) is thread-local: only the installing thread
    has a provider.  Kept to be refuted.  No proofs in this file. *)
From Coq Require Import List Arith Bool.
Import ListNotations.
From LI Require Import Runtime.FormatCache.

Section Provider.
  Variables provider locale opts fmt value out : Type.
  Variable loc_eqb : locale -> locale -> bool.
  Variable opt_eqb : opts -> opts -> bool.
  (** the provider's `try_new_*_formatter(locale, options)`; [None] = it refuses the options *)
  Variable build : provider -> locale -> opts -> option fmt.
  Variable icu : fmt -> value -> out.

  (** `get_provider()`: `self.0.as_deref().expect("No DataProvider provided.")` *)
  Definition make_of (p : option provider) (l : locale) (o : opts) : option fmt :=
    match p with
    | Some q => build q l o
    | None => None          (* the expect panics inside the closure: the call panics *)
    end.

  (** process-wide state: [installed] is what set_icu_data_provider stored, seen by every thread *)
  Definition run_global (installed : option provider) (sched : list nat) (progs : list (list (call locale opts value)))
    : state locale opts fmt value out :=
    run locale opts fmt value out loc_eqb opt_eqb (make_of installed) icu sched (init locale opts fmt value out progs).

  (** what a call must give once provider [p] is installed *)
  Definition icu_fmt_with (p : provider) (k : call locale opts value) : outcome out :=
    icu_fmt locale opts fmt value out (make_of (Some p)) icu k.

  (** * thread-local variant: every thread has its own maps and its own provider slot; [installer] is the thread
      that called set_icu_data_provider *)
  Record tl_state := mk_tl {
    tl_caches : list (cache locale opts fmt);      (* per thread *)
    tl_pending : list (list (call locale opts value));
    tl_log : list (nat * call locale opts value * outcome out) }.

  Definition provider_of_thread (installer : nat) (p : provider) (t : nat) : option provider :=
    if Nat.eqb t installer then Some p else None.

  Definition step_tl (installer : nat) (p : provider) (s : tl_state) (t : nat) : tl_state :=
    match nth_error (tl_pending s) t with
    | Some (k :: rest) =>
        let '(c', o) := do_call locale opts fmt value out loc_eqb opt_eqb
                                (make_of (provider_of_thread installer p t)) icu (nth t (tl_caches s) []) k in
        mk_tl (set_nth t c' (tl_caches s)) (set_nth t rest (tl_pending s)) (tl_log s ++ [(t, k, o)])
    | _ => s
    end.
  Definition run_tl (installer : nat) (p : provider) (sched : list nat) (progs : list (list (call locale opts value)))
    : tl_state :=
    fold_left (step_tl installer p) sched (mk_tl (map (fun _ => []) progs) progs []).
End Provider.
