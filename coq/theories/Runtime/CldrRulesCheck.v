(** Executable comparisons used by the runtime half of the C05 check. *)
From Coq Require Import List NArith Bool.
Import ListNotations.
From LI Require Import Parser.Plurals Runtime.CldrRules.
Open Scope N_scope.

(** ICU4X table of one (locale, rule type) against the reference rules *)
Record tcase := mk_tcase {
  t_loc : locale; t_rule : rule; t_ops : list operand;
  t_table : list form;          (* ICU4X category_for, per operand *)
  t_cats : list form }.         (* ICU4X categories() *)

Fixpoint first_diff (i : N) (ops : list operand) (tbl : list form) (f : operand -> form) : N :=
  match ops, tbl with
  | [], [] => 0
  | o :: ops', c :: tbl' => if form_eqb (f o) c then first_diff (i + 1) ops' tbl' f else i + 1
  | _, _ => i + 1
  end.
Fixpoint forms_eqb (a b : list form) : bool :=
  match a, b with
  | [], [] => true
  | x :: xs, y :: ys => form_eqb x y && forms_eqb xs ys
  | _, _ => false
  end.
(** 0 = identical; k+1 = operand number k differs; 100000 = categories() differ *)
Definition check_table (c : tcase) : N :=
  if negb (forms_eqb (cldr_categories (t_loc c) (t_rule c)) (t_cats c)) then 100000
  else first_diff 0 (t_ops c) (t_table c) (cldr_cat (t_loc c) (t_rule c)).

(** what must be rendered for category [c] when exactly the forms [written] (containing Other) exist *)
Definition expected_form (written : list form) (c : form) : form :=
  if existsb (form_eqb c) written then c else Other.

(** one row of renderings of one key in one locale: category of every count (oracle) and the form whose text was rendered *)
Record rcase := mk_rcase { r_written : list form; r_table : list form; r_rendered : list (option form) }.
Fixpoint first_bad (i : N) (written : list form) (tbl : list form) (got : list (option form)) : N :=
  match tbl, got with
  | [], [] => 0
  | c :: tbl', Some g :: got' => if form_eqb g (expected_form written c) then first_bad (i + 1) written tbl' got' else i + 1
  | _, _ => i + 1
  end.
Definition check_render (c : rcase) : N := first_bad 0 (r_written c) (r_table c) (r_rendered c).
