(** Executable correspondence predicates for C14, evaluated on harness-generated case files.
    Codes: 0 = implementation agrees with the model and the spec holds on its output;
    1 = outside the domain of the spec (not [valid]); implementation and model still agree;
    2 = implementation differs from the model (spec holds or is not applicable);
    3 = the spec is false on the implementation's output. *)
From Coq Require Import List NArith Bool Arith.
Import ListNotations.
From LI Require Import Base.StrOps Runtime.Router.
Open Scope N_scope.

Definition res_eqb {A} (e : A -> A -> bool) (a b : res A) : bool :=
  match a, b with Ok x, Ok y => e x y | Panic _, Panic _ => true | _, _ => false end.

(** get_locale_from_path *)
Record lcase := mk_lcase {
  lc_names : list str;
  lc_base : str; lc_path : str;          (* strings handed to the implementation *)
  lc_bsegs : list str; lc_psegs : list str;   (* the generator's segment lists *)
  lc_impl : option nat }.

Definition check_l (c : lcase) : N :=
  let m := get_locale_from_path (lc_names c) (lc_path c) (lc_base c) in
  let agree := opt_nat_eqb m (lc_impl c) in
  let dom := list_eqb str_eqb (path_segments (lc_base c)) (lc_bsegs c)
             && list_eqb str_eqb (path_segments (lc_path c)) (lc_psegs c) in
  if dom then
    if spec_locale (lc_names c) (lc_bsegs c) (lc_psegs c) (lc_impl c) then (if agree then 0 else 2) else 3
  else (if agree then 1 else 2).

(** get_new_path on the URL of a reading *)
Record ncase := mk_ncase {
  nc_names : list str; nc_dflt : nat;
  nc_base : str; nc_bsegs : list str;
  nc_atab : list (list aseg);
  nc_inst : list iseg;
  nc_a : nat; nc_b : nat; nc_old : option nat;
  nc_path : str; nc_search : str; nc_hash : str;
  nc_impl : res str }.

Definition old_ok (dflt a : nat) (old : option nat) : bool :=
  match old with Some l => Nat.eqb l a | None => Nat.eqb a dflt end.

(** the segments of the URL (after base path and prefix) as the generator produced them *)
Definition ncase_segs (c : ncase) : list str := render (nc_a c) (nc_inst c).

(** domain of the first-match specification: a well-formed URL of locale [a] in any spelling
    (repeated / trailing slashes allowed); the table may have overlapping routes, the path may match
    none *)
Definition ncase_dom_canonical (c : ncase) : bool :=
  valid_url_b (nc_names c) (nc_dflt c) (nc_atab c) (nc_a c) (nc_b c) (ncase_segs c)
  && base_ok_b (nc_base c) (nc_bsegs c)
  && list_eqb str_eqb (path_segments (nc_path c))
       (nc_bsegs c ++ prefix_of (nc_names c) (nc_dflt c) (nc_a c) ++ ncase_segs c)
  && old_ok (nc_dflt c) (nc_a c) (nc_old c).

(** the URL carries an explicit prefix for its locale (in particular for the default locale:
    "/en/about"), the [locale] argument is that locale *)
Definition ncase_dom_explicit (c : ncase) : bool :=
  valid_url_explicit_b (nc_names c) (nc_atab c) (nc_a c) (nc_b c) (ncase_segs c)
  && base_ok_b (nc_base c) (nc_bsegs c)
  && list_eqb str_eqb (path_segments (nc_path c))
       (nc_bsegs c ++ name_of (nc_names c) (nc_a c) :: ncase_segs c)
  && opt_nat_eqb (nc_old c) (Some (nc_a c)).

Definition ncase_dom (c : ncase) : bool :=
  (ncase_dom_canonical c || ncase_dom_explicit c) && hash_decidable (nc_hash c).

Definition ncase_model (c : ncase) : res str :=
  get_new_path (nc_names c) (nc_dflt c) (nc_base c) (tabs_of (length (nc_names c)) (nc_atab c))
    (nc_path c) (nc_search c) (nc_hash c) (nc_b c) (nc_old c).

Definition check_n (c : ncase) : N :=
  let agree := res_eqb str_eqb (ncase_model c) (nc_impl c) in
  if ncase_dom c then
    if spec_first_match (nc_names c) (nc_dflt c) (nc_bsegs c) (nc_atab c) (nc_a c) (nc_b c) (ncase_segs c)
         (nc_search c) (nc_hash c) (nc_impl c)
    then (if agree then 0 else 2) else 3
  else (if agree then 1 else 2).

(** how the source path reads against the table: 0 no route matches, 1 exactly one reading,
    2 several readings and the generator's is the first, 3 several and another one is first *)
Definition nclass (c : ncase) : N :=
  match flat_map (fun r => parses (length (nc_names c)) (nc_a c) r (ncase_segs c)) (nc_atab c) with
  | [] => 0
  | [_] => 1
  | i :: _ => if list_eqb iseg_eqb i (nc_inst c) then 2 else 3
  end.
(** does the round trip hypothesis hold (the image's first reading is the same reading)? 1 yes, 0 no *)
Definition nround (c : ncase) : N :=
  let n := length (nc_names c) in
  match first_parse n (nc_a c) (nc_atab c) (ncase_segs c) with
  | Some i => match first_parse n (nc_b c) (nc_atab c) (render (nc_b c) i) with
              | Some i' => if list_eqb iseg_eqb i i' then 1 else 0
              | None => 0
              end
  | None => 0
  end.

(** the same with the pre-repair model: used only to show which algorithm the implementation follows *)
Definition check_n_old (c : ncase) : N :=
  let m := get_new_path_old (nc_names c) (nc_dflt c) (nc_base c) (tabs_of (length (nc_names c)) (nc_atab c))
             (nc_path c) (nc_search c) (nc_hash c) (nc_b c) (nc_old c) in
  if res_eqb str_eqb m (nc_impl c) then 0 else 2.

(** free-form: arbitrary tables (any shape, entries may be missing), arbitrary strings; agreement only *)
Record fcase := mk_fcase {
  fc_names : list str; fc_dflt : nat; fc_base : str; fc_tabs : tables;
  fc_path : str; fc_search : str; fc_hash : str; fc_new : nat; fc_old : option nat;
  fc_impl : res str }.
Definition check_f (c : fcase) : N :=
  if res_eqb str_eqb (get_new_path (fc_names c) (fc_dflt c) (fc_base c) (fc_tabs c) (fc_path c)
                        (fc_search c) (fc_hash c) (fc_new c) (fc_old c)) (fc_impl c) then 1 else 2.

(** histories of switches *)
Record hcase := mk_hcase {
  hc_names : list str; hc_dflt : nat;
  hc_base : str; hc_bsegs : list str;
  hc_atab : list (list aseg);
  hc_inst : list iseg;
  hc_a : nat; hc_by_path : bool; hc_ls : list nat;
  hc_path : str; hc_search : str; hc_hash : str;
  hc_impl : res (list str) }.

Definition no_qh (s : str) : bool := forallb (fun c => negb (c =? qmark) && negb (c =? hashc)) s.

Fixpoint nodup_b (l : list str) : bool :=
  match l with [] => true | x :: r => negb (existsb (str_eqb x) r) && nodup_b r end.

Definition hcase_segs (c : hcase) : list str := render (hc_a c) (hc_inst c).
Definition hcase_expected (c : hcase) : list str :=
  map (fun ls' => render_path (hc_bsegs c ++ prefix_of (hc_names c) (hc_dflt c) (fst ls') ++ snd ls'))
      (expected_history (length (hc_names c)) (hc_atab c) (hc_a c) (hcase_segs c) (hc_ls c)).

Definition hcase_common (c : hcase) : bool :=
  base_ok_b (hc_base c) (hc_bsegs c)
  && (negb (hc_by_path c) || nodup_b (hc_names c))
  (* the harness re-parses every URL like a browser: nothing but the query may contain '?' and
     nothing but the fragment '#' *)
  && forallb no_qh (hc_path c :: hcase_expected c)
  && no_qh (hc_base c) && forallb (fun c' => negb (c' =? hashc)) (hc_search c).

Definition hcase_dom_canonical (c : hcase) : bool :=
  hist_valid_b (hc_names c) (hc_dflt c) (hc_atab c) (hc_a c) (hcase_segs c) (hc_ls c)
  && list_eqb str_eqb (path_segments (hc_path c))
       (hc_bsegs c ++ prefix_of (hc_names c) (hc_dflt c) (hc_a c) ++ hcase_segs c).

(** the start URL carries an explicit prefix for its locale (also the default one) *)
Definition hcase_dom_explicit (c : hcase) : bool :=
  match hc_ls c with
  | [] => false
  | l :: ls => valid_url_explicit_b (hc_names c) (hc_atab c) (hc_a c) l (hcase_segs c)
               && hist_valid_b (hc_names c) (hc_dflt c) (hc_atab c) l
                    (expected_segs (length (hc_names c)) (hc_atab c) (hc_a c) l (hcase_segs c)) ls
  end
  && list_eqb str_eqb (path_segments (hc_path c))
       (hc_bsegs c ++ name_of (hc_names c) (hc_a c) :: hcase_segs c).

(** the harness feeds every step with the hash in the convention of the start URL (browser form
    "#…" or bare), so the suffix expected at every step is the same; a bare fragment that starts with
    '#' cannot occur (it would be read as browser form) *)
Definition hcase_dom (c : hcase) : bool :=
  hcase_common c && (hcase_dom_canonical c || hcase_dom_explicit c) && hash_decidable (hc_hash c).

(** the harness re-parses the URL after every step and feeds the next step with the hash in the
    convention of the start URL *)
Fixpoint with_suffixes (search : str) (browser : bool) (h : str) (ps : list str) : list str :=
  match ps with
  | [] => []
  | p :: r => (p ++ url_suffix search h) :: with_suffixes search browser (reparse_hash browser (hash_part h)) r
  end.

Definition hcase_model (c : hcase) : res (list str) :=
  match history (hc_names c) (hc_dflt c) (hc_base c) (tabs_of (length (hc_names c)) (hc_atab c))
          (hc_by_path c) (hc_path c) (Some (hc_a c)) (hc_ls c) with
  | Panic s => Panic s
  | Ok ps => Ok (with_suffixes (hc_search c) (starts_with_hash (hc_hash c)) (hc_hash c) ps)
  end.

Definition hspec (c : hcase) : bool :=
  match hc_impl c with
  | Ok us => list_eqb str_eqb us (map (fun p => p ++ spec_suffix (hc_search c) (hc_hash c)) (hcase_expected c))
  | Panic _ => false
  end.

Definition check_h (c : hcase) : N :=
  let agree := res_eqb (list_eqb str_eqb) (hcase_model c) (hc_impl c) in
  if hcase_dom c then (if hspec c then (if agree then 0 else 2) else 3)
  else (if agree then 1 else 2).

(** route tables of a natively built I18nRoute *)
Record tcase := mk_tcase {
  tc_names : list str; tc_dflt : nat; tc_atab : list (list aseg);
  tc_tables : tables;          (* RouteSegments filled by i18n_routing *)
  tc_routes : list route }.    (* generate_routes() *)

Definition pseg_eqb (a b : pseg) : bool :=
  match a, b with
  | PUnit, PUnit => true
  | PStatic x, PStatic y | PParam x, PParam y | POpt x, POpt y | PSplat x, PSplat y => str_eqb x y
  | _, _ => false
  end.
Definition opt_eqb {A} (e : A -> A -> bool) (a b : option A) : bool :=
  match a, b with Some x, Some y => e x y | None, None => true | _, _ => false end.

Definition check_t (c : tcase) : N :=
  if list_eqb (opt_eqb (list_eqb (list_eqb pseg_eqb))) (tabs_of (length (tc_names c)) (tc_atab c)) (tc_tables c)
     && list_eqb (list_eqb pseg_eqb) (generated_routes (tc_names c) (tc_dflt c) (tc_atab c)) (tc_routes c)
  then 0 else 2.

(** match_nested of a natively built I18nRoute: the locale it reports must be the one whose name
    is exactly the first segment of the path *)
Record mcase := mk_mcase {
  mc_names : list str; mc_psegs : list str; mc_impl : option (option nat) }.   (* None = no route matched *)
Definition check_m (c : mcase) : N :=
  match mc_impl c with
  | None => 0
  | Some None => 0
  | Some (Some l) => match mc_psegs c with
                     | f :: _ => if str_eqb (name_of (mc_names c) l) f then 0 else 3
                     | [] => 3
                     end
  end.

(** match_nested against the model, leptos_router's answers on the inner route tree being the oracle *)
Record m2case := mk_m2case {
  m2_names : list str;
  m2_first : option str;              (* first segment of the path, None if the path has no leading '/' *)
  m2_ol : list (option mres);         (* oracle: inner tree on the rest of the path, per locale *)
  m2_od : option mres;                (* oracle: inner tree on the whole path, default locale *)
  m2_impl : option (option nat * str * mres) }.

Definition mout_eqb (a b : option (option nat * str * mres)) : bool :=
  match a, b with
  | Some (l1, m1, r1), Some (l2, m2, r2) => opt_nat_eqb l1 l2 && str_eqb m1 m2 && mres_eqb r1 r2
  | None, None => true
  | _, _ => false
  end.

Definition check_m2 (c : m2case) : N :=
  let agree := mout_eqb (match_nested_model (m2_names c) (m2_first c) (m2_ol c) (m2_od c)) (m2_impl c) in
  if spec_match (m2_names c) (m2_first c) (m2_ol c) (m2_od c) (m2_impl c) then (if agree then 0 else 2) else 3.
