(** Executable correspondence predicate for C12: evaluated by the harness-generated case files. *)
From Coq Require Import List NArith Bool.
Import ListNotations.
From LI Require Import Runtime.Langid.
Open Scope N_scope.

Record case := mk_case {
  c_universe : list langid;     (* langids of the enum, by index; index 0 is the default *)
  c_avail : list N;             (* indices handed to filter_matches/find_match, in order *)
  c_reqs : list (option langid); (* per request string: icu_locid's parse, None = rejected *)
  c_impl_matches : list N;      (* implementation: filter_matches *)
  c_impl_find : N;              (* implementation: find_match *)
  c_impl_find_locale : N }.     (* implementation: Locale::find_locale over the whole universe *)

Definition dummy : langid := mk_langid 0 None None [].
Definition loc_of (u : list langid) (i : N) : loc := (i, nth (N.to_nat i) u dummy).
Definition all_locs (u : list langid) : list loc :=
  map (fun i => loc_of u (N.of_nat i)) (seq 0 (length u)).

(** 0 = agree and spec holds; 2 = implementation differs from the model (spec holds); 3 = spec violated *)
Definition check (c : case) : N :=
  let u := c_universe c in
  let avail := map (loc_of u) (c_avail c) in
  let dflt := loc_of u 0 in
  let m := filter_matches (lossy (c_reqs c)) avail in
  let f := find_match (lossy (c_reqs c)) avail dflt in
  let fl := find_match (lossy (c_reqs c)) (all_locs u) dflt in
  let spec_ok := spec_C12 (lossy (c_reqs c)) avail dflt (loc_of u (c_impl_find c))
                 && spec_C12 (lossy (c_reqs c)) (all_locs u) dflt (loc_of u (c_impl_find_locale c))
                 && forallb (fun i => existsb (N.eqb i) (c_avail c)) (c_impl_matches c) in
  let agree := list_eqb (map fst m) (c_impl_matches c) && (fst f =? c_impl_find c) && (fst fl =? c_impl_find_locale c) in
  if negb spec_ok then 3 else if negb agree then 2 else 0.
