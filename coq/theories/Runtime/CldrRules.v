(** CLDR (v44/45) cardinal and ordinal plural rules of en, fr, ru, ar, pl, ja, cy, he as arithmetic on the
    plural operands — a *reference specification for the oracle* [cat]/[categories] of property C05.
    It is used by the correspondence check only (compared with the ICU4X table the harness prints); no theorem
    of C05 depends on it.  Source: unicode.org/cldr/charts/44/supplemental/language_plural_rules.html

    Operands (UTS #35): n absolute value, i integer digits, v number of visible fraction digits (with trailing
    zeros), w .. without trailing zeros, f visible fraction digits as integer, t .. without trailing zeros.
    The compact-exponent operand e/c is always 0 for the inputs considered. *)
From Coq Require Import List NArith Bool.
Import ListNotations.
From LI Require Import Parser.Plurals.
Open Scope N_scope.

Record operand := mk_op { o_i : N; o_v : N; o_w : N; o_f : N; o_t : N }.
Definition op_int (n : N) : operand := mk_op n 0 0 0 0.

Inductive locale := L_en | L_fr | L_ru | L_ar | L_pl | L_ja | L_cy | L_he | L_pt | L_pt_PT.

(* relations on n are only true when n has an integer value (t = 0) *)
Definition n_int (o : operand) : bool := o_t o =? 0.
Definition n_is (o : operand) (k : N) : bool := n_int o && (o_i o =? k).
Definition between (x lo hi : N) : bool := (lo <=? x) && (x <=? hi).
Definition n_mod_in (o : operand) (m lo hi : N) : bool := n_int o && between (o_i o mod m) lo hi.
Definition i_mod_in (o : operand) (m lo hi : N) : bool := between (o_i o mod m) lo hi.
Definition v0 (o : operand) : bool := o_v o =? 0.

(* first matching rule in the order zero, one, two, few, many; else other *)
Definition first_of (rules : list (form * bool)) : form :=
  match find snd rules with Some (f, _) => f | None => Other end.

Definition cardinal (l : locale) (o : operand) : form :=
  match l with
  | L_en => first_of [(One, (o_i o =? 1) && v0 o)]
  | L_fr => first_of [(One, (o_i o =? 0) || (o_i o =? 1));
                      (Many, negb (o_i o =? 0) && (o_i o mod 1000000 =? 0) && v0 o)]
  | L_ru => first_of [(One, v0 o && (o_i o mod 10 =? 1) && negb (o_i o mod 100 =? 11));
                      (Few, v0 o && i_mod_in o 10 2 4 && negb (i_mod_in o 100 12 14));
                      (Many, v0 o && ((o_i o mod 10 =? 0) || i_mod_in o 10 5 9 || i_mod_in o 100 11 14))]
  | L_ar => first_of [(Zero, n_is o 0); (One, n_is o 1); (Two, n_is o 2);
                      (Few, n_mod_in o 100 3 10); (Many, n_mod_in o 100 11 99)]
  | L_pl => first_of [(One, (o_i o =? 1) && v0 o);
                      (Few, v0 o && i_mod_in o 10 2 4 && negb (i_mod_in o 100 12 14));
                      (Many, v0 o && ((negb (o_i o =? 1) && i_mod_in o 10 0 1) || i_mod_in o 10 5 9 || i_mod_in o 100 12 14))]
  | L_ja => Other
  | L_cy => first_of [(Zero, n_is o 0); (One, n_is o 1); (Two, n_is o 2); (Few, n_is o 3); (Many, n_is o 6)]
  | L_he => first_of [(One, ((o_i o =? 1) && v0 o) || ((o_i o =? 0) && negb (v0 o)));
                      (Two, (o_i o =? 2) && v0 o)]
  (* Brazilian / generic Portuguese: one: i = 0..1 *)
  | L_pt => first_of [(One, (o_i o =? 0) || (o_i o =? 1));
                      (Many, negb (o_i o =? 0) && (o_i o mod 1000000 =? 0) && v0 o)]
  (* European Portuguese (pt-PT and its children): one: i = 1 and v = 0 — the region changes the rule *)
  | L_pt_PT => first_of [(One, (o_i o =? 1) && v0 o);
                         (Many, negb (o_i o =? 0) && (o_i o mod 1000000 =? 0) && v0 o)]
  end.

Definition ordinal (l : locale) (o : operand) : form :=
  match l with
  | L_en => first_of [(One, n_mod_in o 10 1 1 && negb (n_mod_in o 100 11 11));
                      (Two, n_mod_in o 10 2 2 && negb (n_mod_in o 100 12 12));
                      (Few, n_mod_in o 10 3 3 && negb (n_mod_in o 100 13 13))]
  | L_fr => first_of [(One, n_is o 1)]
  | L_cy => first_of [(Zero, n_is o 0 || n_is o 7 || n_is o 8 || n_is o 9); (One, n_is o 1); (Two, n_is o 2);
                      (Few, n_is o 3 || n_is o 4); (Many, n_is o 5 || n_is o 6)]
  | L_ru | L_ar | L_pl | L_ja | L_he | L_pt | L_pt_PT => Other
  end.

Definition cldr_cat (l : locale) (r : rule) (o : operand) : form :=
  match r with Cardinal => cardinal l o | Ordinal => ordinal l o end.

(** the categories a locale's rules can produce *)
Definition cldr_categories (l : locale) (r : rule) : list form :=
  match r, l with
  | Cardinal, L_en => [One; Other]
  | Cardinal, L_fr => [One; Many; Other]
  | Cardinal, L_ru => [One; Few; Many; Other]
  | Cardinal, L_ar => [Zero; One; Two; Few; Many; Other]
  | Cardinal, L_pl => [One; Few; Many; Other]
  | Cardinal, L_ja => [Other]
  | Cardinal, L_cy => [Zero; One; Two; Few; Many; Other]
  | Cardinal, L_he => [One; Two; Other]
  | Cardinal, L_pt => [One; Many; Other]
  | Cardinal, L_pt_PT => [One; Many; Other]
  | Ordinal, L_en => [One; Two; Few; Other]
  | Ordinal, L_fr => [One; Other]
  | Ordinal, L_cy => [Zero; One; Two; Few; Many; Other]
  | Ordinal, _ => [Other]
  end.
