(** Lemmas about the router model (property C14). *)
From Coq Require Import List NArith Bool Arith Lia.
Import ListNotations.
From LI Require Import Base.StrOps Runtime.Router.
Open Scope N_scope.

(** * strings *)
Lemma str_eqb_refl : forall s, str_eqb s s = true.
Proof. induction s as [|c s IH]; cbn [str_eqb]; [reflexivity|]. rewrite N.eqb_refl, IH. reflexivity. Qed.

Lemma str_eqb_eq : forall a b, str_eqb a b = true <-> a = b.
Proof.
  induction a as [|x a IH]; destruct b as [|y b]; cbn [str_eqb]; split; intro H; try reflexivity; try discriminate.
  - apply andb_true_iff in H. destruct H as [H1 H2]. apply N.eqb_eq in H1. apply IH in H2. subst. reflexivity.
  - inversion H; subst. rewrite N.eqb_refl. cbn [andb]. apply IH. reflexivity.
Qed.

Lemma str_eqb_neq : forall a b, str_eqb a b = false <-> a <> b.
Proof.
  intros a b. split.
  - intros H E. apply str_eqb_eq in E. congruence.
  - intro H. destruct (str_eqb a b) eqn:E; [apply str_eqb_eq in E; contradiction|reflexivity].
Qed.

Lemma seg_ok_inv : forall s, seg_ok s = true -> s <> [] /\ no_slash s = true.
Proof.
  intros s H. unfold seg_ok in H. apply andb_true_iff in H. destruct H as [H1 H2].
  split; [|exact H2]. destruct s; [discriminate|discriminate].
Qed.

Lemma split_all_nonnil : forall c s, exists h t, split_all c s = h :: t.
Proof.
  intros c s. induction s as [|x s IH]; cbn [split_all]; [eauto|].
  destruct IH as [h [t E]]. rewrite E. destruct (x =? c); eauto.
Qed.

Lemma split_all_app : forall c a b, split_all c (a ++ c :: b) = split_all c a ++ split_all c b.
Proof.
  intros c a b. induction a as [|x a IH].
  - cbn [app split_all]. destruct (split_all_nonnil c b) as [h [t E]]. rewrite E, N.eqb_refl. reflexivity.
  - change ((x :: a) ++ c :: b) with (x :: (a ++ c :: b)). cbn [split_all]. rewrite IH.
    destruct (split_all_nonnil c a) as [h [t E]]. rewrite E. cbn [app]. destruct (x =? c); reflexivity.
Qed.

Lemma split_all_noslash : forall s, no_slash s = true -> split_all slash s = [s].
Proof.
  induction s as [|x s IH]; intro H; cbn [split_all]; [reflexivity|].
  unfold no_slash in H. cbn [forallb] in H. apply andb_true_iff in H. destruct H as [H1 H2].
  rewrite (IH H2). apply negb_true_iff in H1. rewrite H1. reflexivity.
Qed.

Lemma path_segments_app : forall a b, path_segments (a ++ slash :: b) = path_segments a ++ path_segments b.
Proof. intros a b. unfold path_segments. rewrite split_all_app, filter_app. reflexivity. Qed.

Lemma path_segments_slash_cons : forall s, path_segments (slash :: s) = path_segments s.
Proof. intro s. apply (path_segments_app [] s). Qed.

Lemma path_segments_seg : forall s, seg_ok s = true -> path_segments s = [s].
Proof.
  intros s H. destruct (seg_ok_inv s H) as [H1 H2]. unfold path_segments. rewrite (split_all_noslash s H2).
  cbn [filter]. destruct s; [contradiction|reflexivity].
Qed.

Lemma path_segments_join : forall segs, forallb seg_ok segs = true -> path_segments (join_slash segs) = segs.
Proof.
  induction segs as [|x r IH]; intro H; [reflexivity|].
  cbn [forallb] in H. apply andb_true_iff in H. destruct H as [Hx Hr].
  destruct r as [|y r'].
  - cbn [join_slash]. apply path_segments_seg. exact Hx.
  - change (join_slash (x :: y :: r')) with (x ++ slash :: join_slash (y :: r')).
    rewrite path_segments_app, (path_segments_seg x Hx), (IH Hr). reflexivity.
Qed.

Lemma path_segments_render : forall segs, forallb seg_ok segs = true -> path_segments (render_path segs) = segs.
Proof.
  intros segs H. destruct segs as [|x r]; [reflexivity|].
  unfold render_path. rewrite path_segments_slash_cons. apply path_segments_join. exact H.
Qed.

(** * trimming *)
Lemma trim_start_slash_id : forall c s, (c =? slash) = false -> trim_start_slash (c :: s) = c :: s.
Proof. intros c s H. cbn [trim_start_slash]. rewrite H. reflexivity. Qed.

Lemma trim_end_slash_noslash : forall s, no_slash s = true -> trim_end_slash s = s.
Proof.
  induction s as [|c s IH]; intro H; [reflexivity|].
  unfold no_slash in H. cbn [forallb] in H. apply andb_true_iff in H. destruct H as [H1 H2].
  cbn [trim_end_slash]. rewrite (IH H2). apply negb_true_iff in H1. rewrite H1. destruct s; reflexivity.
Qed.

Lemma trim_slashes_seg : forall s, seg_ok s = true -> trim_slashes s = s.
Proof.
  intros s H. destruct (seg_ok_inv s H) as [H1 H2]. unfold trim_slashes.
  destruct s as [|c s]; [contradiction|].
  assert (Hc : (c =? slash) = false).
  { unfold no_slash in H2. cbn [forallb] in H2. apply andb_true_iff in H2. destruct H2 as [H2 _].
    apply negb_true_iff in H2. exact H2. }
  cbn [trim_start_slash]. rewrite Hc. apply trim_end_slash_noslash. exact H2.
Qed.

(** * PathBuilder *)
Lemma pb_push_seg : forall pb s, seg_ok s = true -> pb_push pb s = pb ++ [s].
Proof.
  intros pb s H. unfold pb_push. rewrite (trim_slashes_seg s H).
  destruct (seg_ok_inv s H) as [H1 _]. destruct s; [contradiction|reflexivity].
Qed.

Lemma fold_push_segs : forall segs pb, forallb seg_ok segs = true -> fold_left pb_push segs pb = pb ++ segs.
Proof.
  induction segs as [|s r IH]; intros pb H; cbn [fold_left]; [rewrite app_nil_r; reflexivity|].
  cbn [forallb] in H. apply andb_true_iff in H. destruct H as [Hs Hr].
  rewrite (pb_push_seg pb s Hs), (IH _ Hr), <- app_assoc. reflexivity.
Qed.

Lemma join_slash_flat : forall bs segs, bs <> [] ->
  join_slash (join_slash bs :: segs) = join_slash (bs ++ segs).
Proof.
  induction bs as [|x r IH]; intros segs H; [contradiction|].
  destruct r as [|y r'].
  - reflexivity.
  - change (join_slash (x :: y :: r')) with (x ++ slash :: join_slash (y :: r')).
    change ((x :: y :: r') ++ segs) with (x :: ((y :: r') ++ segs)).
    assert (E : join_slash (x :: (y :: r') ++ segs) = x ++ slash :: join_slash ((y :: r') ++ segs)) by reflexivity.
    rewrite E. rewrite <- (IH segs) by discriminate.
    destruct segs as [|s segs'].
    + cbn [join_slash]. reflexivity.
    + change (join_slash ((x ++ slash :: join_slash (y :: r')) :: s :: segs'))
        with ((x ++ slash :: join_slash (y :: r')) ++ slash :: join_slash (s :: segs')).
      change (join_slash (join_slash (y :: r') :: s :: segs'))
        with (join_slash (y :: r') ++ slash :: join_slash (s :: segs')).
      rewrite <- app_assoc. reflexivity.
Qed.

Definition base_piece (bs : list str) : list str := match bs with [] => [] | _ => [join_slash bs] end.

Lemma pb_build_base : forall bs rest,
  pb_build ([] :: base_piece bs ++ rest) = render_path (bs ++ rest).
Proof.
  intros bs rest. unfold pb_build.
  assert (E : join_slash ([] :: base_piece bs ++ rest) =
              match bs ++ rest with [] => [] | _ => slash :: join_slash (bs ++ rest) end).
  { destruct bs as [|b bs'].
    - cbn [base_piece app]. destruct rest; reflexivity.
    - unfold base_piece.
      change (join_slash ([] :: [join_slash (b :: bs')] ++ rest))
        with ([] ++ slash :: join_slash (join_slash (b :: bs') :: rest)).
      rewrite join_slash_flat by discriminate. reflexivity. }
  rewrite E. unfold render_path. destruct (bs ++ rest); reflexivity.
Qed.

(** * strip_segs, find_index *)
Lemma strip_segs_iff : forall bs segs x, strip_segs bs segs = Some x <-> segs = bs ++ x.
Proof.
  induction bs as [|b bs IH]; intros segs x; cbn [strip_segs app].
  - split; intro H; [inversion H|subst]; reflexivity.
  - destruct segs as [|s segs']; [split; intro H; discriminate|].
    destruct (str_eqb s b) eqn:E.
    + apply str_eqb_eq in E. subst s. rewrite IH. split; intro H; [subst|inversion H]; reflexivity.
    + apply str_eqb_neq in E. split; intro H; [discriminate|]. inversion H. contradiction.
Qed.

Lemma find_index_iff : forall {A} (f : A -> bool) (d : A) l i,
  find_index f l = Some i <->
  (i < length l)%nat /\ f (nth i l d) = true /\ forall j, (j < i)%nat -> f (nth j l d) = false.
Proof.
  intros A f d. induction l as [|x l IH]; intro i; cbn [find_index length].
  - split; [discriminate|]. intros [H _]. lia.
  - destruct (f x) eqn:E.
    + split.
      * intro H. inversion H; subst. cbn [nth]. repeat split; [lia|exact E|]. intros j Hj. lia.
      * intros [H1 [H2 H3]]. destruct i as [|i']; [reflexivity|]. specialize (H3 0%nat ltac:(lia)). cbn [nth] in H3. congruence.
    + destruct (find_index f l) as [k|] eqn:F.
      * split.
        -- intro H. inversion H; subst. destruct (proj1 (IH k) eq_refl) as [F1 [F2 F3]]. cbn [nth].
           repeat split; [lia|exact F2|]. intros j Hj. destruct j as [|j']; [exact E|]. apply F3. lia.
        -- intros [H1 [H2 H3]]. destruct i as [|i']; [cbn [nth] in H2; congruence|].
           assert (G : Some k = Some i').
           { apply IH. cbn [nth] in H2. repeat split; [lia|exact H2|]. intros j Hj. apply (H3 (S j)). lia. }
           inversion G. reflexivity.
      * split; [discriminate|]. intros [H1 [H2 H3]]. destruct i as [|i']; [cbn [nth] in H2; congruence|].
        assert (G : None = Some i').
        { apply IH. cbn [nth] in H2. repeat split; [lia|exact H2|]. intros j Hj. apply (H3 (S j)). lia. }
        discriminate.
Qed.

(** * C14_whole_segment *)
Lemma get_locale_whole_segment : forall names path base l,
  get_locale_from_path names path base = Some l <->
  (exists rest, path_segments path = path_segments base ++ name_of names l :: rest) /\
  (l < length names)%nat /\ (forall j, (j < l)%nat -> name_of names j <> name_of names l).
Proof.
  intros names path base l. unfold get_locale_from_path, strip_base_path, name_of. split.
  - destruct (strip_segs (path_segments base) (path_segments path)) as [segs|] eqn:E; [|discriminate].
    destruct segs as [|f rest]; [discriminate|]. intro H.
    apply (find_index_iff _ []) in H. destruct H as [H1 [H2 H3]].
    apply str_eqb_eq in H2. apply strip_segs_iff in E. subst f. repeat split.
    + exists rest. exact E.
    + exact H1.
    + intros j Hj. specialize (H3 j Hj). apply str_eqb_neq in H3. exact H3.
  - intros [[rest E] [H1 H2]]. apply strip_segs_iff in E. rewrite E.
    apply (find_index_iff _ []). repeat split; [exact H1|apply str_eqb_refl|].
    intros j Hj. apply str_eqb_neq. apply H2. exact Hj.
Qed.

(** * match_path_segments / construct_path_segments *)
Lemma construct_nil : forall r idx o pb, construct r idx [] o pb = Ok pb.
Proof. intros r idx o pb. destruct r; reflexivity. Qed.

Lemma all_empty_nth : forall n ns l, all_empty n ns = true -> (l < n)%nat -> nth l ns [] = [].
Proof.
  intros n ns l H Hl. unfold all_empty in H. rewrite forallb_forall in H.
  specialize (H l). rewrite in_seq in H. specialize (H ltac:(lia)).
  destruct (nth l ns []); [reflexivity|discriminate].
Qed.

Lemma all_ok_nth : forall n ns l, all_ok n ns = true -> (l < n)%nat -> seg_ok (nth l ns []) = true.
Proof.
  intros n ns l H Hl. unfold all_ok in H. rewrite forallb_forall in H. apply H. rewrite in_seq. lia.
Qed.

Lemma seg_ok_nonempty : forall s, seg_ok s = true -> nonempty s = true.
Proof. intros s H. unfold seg_ok in H. apply andb_true_iff in H. tauto. Qed.

Lemma render_nil_inv : forall l inst, render l inst = [] -> inst = [].
Proof. intros l inst H. destruct inst; [reflexivity|discriminate]. Qed.

Lemma render_map_IVal : forall l vs, render l (map IVal vs) = vs.
Proof. intros l vs. unfold render. rewrite map_map. cbn [render_seg]. apply map_id. Qed.

Lemma mem_nat_cons_ne : forall i j o, i <> j -> mem_nat i (j :: o) = mem_nat i o.
Proof.
  intros i j o H. unfold mem_nat. cbn [existsb]. destruct (Nat.eqb i j) eqn:E; [apply Nat.eqb_eq in E; contradiction|reflexivity].
Qed.

Lemma mem_nat_ge_false : forall i o, Forall (fun k => (S i <= k)%nat) o -> mem_nat i o = false.
Proof.
  intros i o H. unfold mem_nat. induction H as [|k o Hk Ho IH]; cbn [existsb]; [reflexivity|].
  rewrite IH. destruct (Nat.eqb i k) eqn:E; [apply Nat.eqb_eq in E; lia|reflexivity].
Qed.

Lemma match_sound : forall n a b r idx segs o,
  forallb (aseg_ok n) r = true -> (a < n)%nat -> (b < n)%nat -> forallb seg_ok segs = true ->
  match_segs (map (concr a) r) idx segs = Some o ->
  exists inst, inst_of n r inst /\ render a inst = segs /\ Forall (fun i => (idx <= i)%nat) o /\
    forall o' pb, (forall i, (idx <= i)%nat -> mem_nat i o' = mem_nat i o) ->
      construct (map (concr b) r) idx segs o' pb = Ok (pb ++ render b inst).
Proof.
  intros n a b r. induction r as [|x r IH]; intros idx segs o Hr Ha Hb Hs Hm.
  - cbn [map match_segs] in Hm. destruct segs; [|discriminate]. inversion Hm; subst.
    exists []. repeat split; [constructor|constructor|]. intros o' pb _. cbn [map render]. rewrite app_nil_r. reflexivity.
  - cbn [forallb] in Hr. apply andb_true_iff in Hr. destruct Hr as [Hx Hr].
    destruct x as [|ns|p|p|p]; cbn [map concr match_segs] in Hm |- *.
    + (* Unit *)
      destruct (IH (S idx) segs o Hr Ha Hb Hs Hm) as [inst [I1 [I2 [I3 I4]]]].
      exists inst. repeat split; [constructor; exact I1|exact I2|eapply Forall_impl; [|exact I3]; cbn beta; lia|].
      intros o' pb Ho'. destruct segs as [|s segs'].
      * apply render_nil_inv in I2. subst inst. cbn [render map]. rewrite app_nil_r. reflexivity.
      * cbn [construct]. apply I4. intros i Hi. apply Ho'. lia.
    + (* Static *)
      cbn [aseg_ok] in Hx. apply orb_true_iff in Hx. destruct Hx as [He|Ho].
      * pose proof (all_empty_nth n ns a He Ha) as Ea. pose proof (all_empty_nth n ns b He Hb) as Eb.
        rewrite Ea in Hm. cbn [nonempty] in Hm.
        destruct (IH (S idx) segs o Hr Ha Hb Hs Hm) as [inst [I1 [I2 [I3 I4]]]].
        exists inst. repeat split; [apply io_skip; assumption|exact I2|eapply Forall_impl; [|exact I3]; cbn beta; lia|].
        intros o' pb Ho'. destruct segs as [|s segs'].
        -- apply render_nil_inv in I2. subst inst. cbn [render map]. rewrite app_nil_r. reflexivity.
        -- cbn [construct]. rewrite Eb. cbn [nonempty]. apply I4. intros i Hi. apply Ho'. lia.
      * pose proof (all_ok_nth n ns a Ho Ha) as Oa. pose proof (all_ok_nth n ns b Ho Hb) as Ob.
        rewrite (seg_ok_nonempty _ Oa) in Hm.
        destruct segs as [|s segs']; [discriminate|].
        destruct (str_eqb (nth a ns []) s) eqn:E; [|discriminate].
        apply str_eqb_eq in E.
        cbn [forallb] in Hs. apply andb_true_iff in Hs. destruct Hs as [Hs1 Hs2].
        destruct (IH (S idx) segs' o Hr Ha Hb Hs2 Hm) as [inst [I1 [I2 [I3 I4]]]].
        exists (IStat ns :: inst). repeat split.
        -- apply io_stat; assumption.
        -- cbn [render map render_seg]. fold (render a inst). rewrite I2, E. reflexivity.
        -- eapply Forall_impl; [|exact I3]; cbn beta; lia.
        -- intros o' pb Ho'. cbn [construct]. rewrite (seg_ok_nonempty _ Ob).
           rewrite (pb_push_seg pb _ Ob). rewrite I4 by (intros i Hi; apply Ho'; lia).
           cbn [render map render_seg]. rewrite <- app_assoc. reflexivity.
    + (* Param *)
      destruct segs as [|s segs']; [discriminate|].
      cbn [forallb] in Hs. apply andb_true_iff in Hs. destruct Hs as [Hs1 Hs2].
      destruct (IH (S idx) segs' o Hr Ha Hb Hs2 Hm) as [inst [I1 [I2 [I3 I4]]]].
      exists (IVal s :: inst). repeat split.
      * apply io_param; assumption.
      * cbn [render map render_seg]. fold (render a inst). rewrite I2. reflexivity.
      * eapply Forall_impl; [|exact I3]; cbn beta; lia.
      * intros o' pb Ho'. cbn [construct]. rewrite (pb_push_seg pb _ Hs1).
        rewrite I4 by (intros i Hi; apply Ho'; lia).
        cbn [render map render_seg]. rewrite <- app_assoc. reflexivity.
    + (* Optional *)
      destruct segs as [|s segs'].
      * destruct (IH (S idx) [] o Hr Ha Hb Hs Hm) as [inst [I1 [I2 [I3 I4]]]].
        exists inst. repeat split; [apply io_opt_none; exact I1|exact I2|eapply Forall_impl; [|exact I3]; cbn beta; lia|].
        intros o' pb Ho'. apply render_nil_inv in I2. subst inst. cbn [render map]. rewrite app_nil_r. reflexivity.
      * destruct (match_segs (map (concr a) r) (S idx) segs') as [o1|] eqn:E1.
        -- inversion Hm; subst o.
           pose proof Hs as Hs0. cbn [forallb] in Hs. apply andb_true_iff in Hs. destruct Hs as [Hs1 Hs2].
           destruct (IH (S idx) segs' o1 Hr Ha Hb Hs2 E1) as [inst [I1 [I2 [I3 I4]]]].
           exists (IVal s :: inst). repeat split.
           ++ apply io_opt_some; assumption.
           ++ cbn [render map render_seg]. fold (render a inst). rewrite I2. reflexivity.
           ++ constructor; [lia|]. eapply Forall_impl; [|exact I3]; cbn beta; lia.
           ++ intros o' pb Ho'. cbn [construct].
              assert (M : mem_nat idx o' = true).
              { rewrite (Ho' idx) by lia. unfold mem_nat. cbn [existsb]. rewrite Nat.eqb_refl. reflexivity. }
              rewrite M. rewrite (pb_push_seg pb _ Hs1).
              rewrite I4.
              ** cbn [render map render_seg]. rewrite <- app_assoc. reflexivity.
              ** intros i Hi. rewrite (Ho' i) by lia. apply mem_nat_cons_ne. lia.
        -- destruct (IH (S idx) (s :: segs') o Hr Ha Hb Hs Hm) as [inst [I1 [I2 [I3 I4]]]].
           exists inst. repeat split; [apply io_opt_none; exact I1|exact I2|eapply Forall_impl; [|exact I3]; cbn beta; lia|].
           intros o' pb Ho'. cbn [construct].
           assert (M : mem_nat idx o' = false).
           { rewrite (Ho' idx) by lia. apply mem_nat_ge_false. exact I3. }
           rewrite M. apply I4. intros i Hi. apply Ho'. lia.
    + (* Splat *)
      inversion Hm; subst o.
      exists (map IVal segs). repeat split.
      * apply io_splat. exact Hs.
      * apply render_map_IVal.
      * constructor.
      * intros o' pb _. rewrite render_map_IVal. destruct segs as [|s segs'].
        -- rewrite app_nil_r. reflexivity.
        -- cbn [construct]. rewrite (fold_push_segs _ pb Hs). reflexivity.
Qed.

Lemma match_complete : forall n a r inst, inst_of n r inst -> (a < n)%nat ->
  forall idx, match_segs (map (concr a) r) idx (render a inst) <> None.
Proof.
  intros n a r inst H Ha. induction H as [|r i H IH|ns r i He H IH|ns r i Ho H IH|p v r i Hv H IH|p v r i Hv H IH|p r i H IH|p r vs Hvs];
    intro idx; cbn [map concr match_segs].
  - cbn [render map]. discriminate.
  - apply IH.
  - rewrite (all_empty_nth n ns a He Ha). cbn [nonempty]. apply IH.
  - rewrite (seg_ok_nonempty _ (all_ok_nth n ns a Ho Ha)). cbn [render map render_seg].
    rewrite str_eqb_refl. apply IH.
  - cbn [render map render_seg]. apply IH.
  - cbn [render map render_seg]. fold (render a i).
    destruct (match_segs (map (concr a) r) (S idx) (render a i)) eqn:E; [discriminate|]. exfalso. exact (IH (S idx) E).
  - destruct (render a i) as [|s segs'] eqn:R.
    + apply IH.
    + destruct (match_segs (map (concr a) r) (S idx) segs'); [discriminate|]. apply IH.
  - discriminate.
Qed.

Lemma inst_render_ok : forall n r inst a, inst_of n r inst -> (a < n)%nat -> forallb seg_ok (render a inst) = true.
Proof.
  intros n r inst a H Ha. induction H; cbn [render map render_seg forallb]; try assumption; try reflexivity.
  - fold (render a i). rewrite (all_ok_nth n ns a H Ha), IHinst_of. reflexivity.
  - fold (render a i). rewrite H, IHinst_of. reflexivity.
  - fold (render a i). rewrite H, IHinst_of. reflexivity.
  - rewrite render_map_IVal. exact H.
Qed.

(** * localize_path *)
Lemma find_route_some : forall m t pos p o, find_route m t pos = Some (p, o) ->
  exists k r, p = (pos + k)%nat /\ nth_error t k = Some r /\ m r = Some o.
Proof.
  intros m t. induction t as [|r t IH]; intros pos p o H; cbn [find_route] in H; [discriminate|].
  destruct (m r) as [o1|] eqn:E.
  - inversion H; subst. exists 0%nat, r. repeat split; [lia|exact E].
  - destruct (IH _ _ _ H) as [k [r' [H1 [H2 H3]]]]. exists (S k), r'. repeat split; [lia|exact H2|exact H3].
Qed.

Lemma find_route_none : forall m t pos, find_route m t pos = None -> forall r, In r t -> m r = None.
Proof.
  intros m t. induction t as [|r t IH]; intros pos H r0 Hin; [contradiction|].
  cbn [find_route] in H. destruct (m r) eqn:E; [discriminate|].
  destruct Hin as [->|Hin]; [exact E|]. exact (IH _ H r0 Hin).
Qed.

Lemma nth_error_map_inv : forall {A B} (f : A -> B) l k y, nth_error (map f l) k = Some y ->
  exists x, nth_error l k = Some x /\ y = f x.
Proof.
  intros A B f l. induction l as [|x l IH]; intros k y H; destruct k; cbn [map nth_error] in H; try discriminate.
  - inversion H. exists x. split; reflexivity.
  - apply IH. exact H.
Qed.

Lemma nth_error_map_some : forall {A B} (f : A -> B) l k x, nth_error l k = Some x -> nth_error (map f l) k = Some (f x).
Proof.
  intros A B f l. induction l as [|x0 l IH]; intros k x H; destruct k; cbn [map nth_error] in H |- *; try discriminate.
  - inversion H. reflexivity.
  - apply IH. exact H.
Qed.

Lemma nth_error_seq : forall n s l, (l < n)%nat -> nth_error (seq s n) l = Some (s + l)%nat.
Proof.
  induction n as [|n IH]; intros s l H; [lia|]. cbn [seq]. destruct l as [|l']; cbn [nth_error].
  - f_equal. lia.
  - rewrite IH by lia. f_equal. lia.
Qed.

Lemma tabs_get_of : forall n t l, (l < n)%nat -> tabs_get (tabs_of n t) l = Some (table_of l t).
Proof.
  intros n t l H. unfold tabs_get, tabs_of.
  rewrite (nth_error_map_some _ _ _ _ (nth_error_seq n 0 l H)). reflexivity.
Qed.

Lemma localize_ok : forall n t a b inst pb,
  atab_ok n t = true -> (a < n)%nat -> (b < n)%nat -> reads_as n t a inst ->
  localize_path (render a inst) (table_of a t) (table_of b t) pb = Ok (Some (pb ++ render b inst)).
Proof.
  intros n t a b inst pb Ht Ha Hb [[r0 [Hin0 Hi0]] Huniq].
  unfold localize_path, localize_path_with.
  destruct (find_route (fun r => match_segs r 0 (render a inst)) (table_of a t) 0) as [[p o]|] eqn:F.
  - destruct (find_route_some _ _ _ _ _ F) as [k [rc [Hp [Hk Hm]]]]. cbn [plus] in Hp. subst p.
    unfold table_of in Hk. destruct (nth_error_map_inv _ _ _ _ Hk) as [r [Hr Erc]]. subst rc.
    unfold table_of at 1. rewrite (nth_error_map_some _ _ _ _ Hr).
    assert (Hrin : In r t) by (eapply nth_error_In; exact Hr).
    assert (Hrok : forallb (aseg_ok n) r = true).
    { unfold atab_ok in Ht. rewrite forallb_forall in Ht. apply Ht. exact Hrin. }
    destruct (match_sound n a b r 0 (render a inst) o Hrok Ha Hb (inst_render_ok n r0 inst a Hi0 Ha) Hm)
      as [inst' [I1 [I2 [_ I4]]]].
    assert (inst' = inst) by (eapply Huniq; eassumption). subst inst'.
    rewrite (I4 o pb) by reflexivity. reflexivity.
  - exfalso. apply (match_complete n a r0 inst Hi0 Ha 0).
    apply (find_route_none _ _ _ F (map (concr a) r0)). unfold table_of. apply in_map. exact Hin0.
Qed.

(** * the base path *)
Lemma all_slash_cons : forall c s, all_slash (c :: s) = true -> c = slash /\ all_slash s = true.
Proof.
  intros c s H. unfold all_slash in H. cbn [forallb] in H. apply andb_true_iff in H. destruct H as [H1 H2].
  apply N.eqb_eq in H1. split; assumption.
Qed.

Lemma path_segments_pre : forall pre s, all_slash pre = true -> path_segments (pre ++ s) = path_segments s.
Proof.
  induction pre as [|c pre IH]; intros s H; [reflexivity|].
  destruct (all_slash_cons _ _ H) as [-> H2]. cbn [app]. rewrite path_segments_slash_cons. apply IH. exact H2.
Qed.

Lemma path_segments_post : forall post s, all_slash post = true -> path_segments (s ++ post) = path_segments s.
Proof.
  intros post s H. destruct post as [|c post]; [rewrite app_nil_r; reflexivity|].
  destruct (all_slash_cons _ _ H) as [-> H2]. rewrite path_segments_app.
  pose proof (path_segments_pre post [] H2) as E. rewrite app_nil_r in E. rewrite E. cbn. apply app_nil_r.
Qed.

Lemma trim_start_pre : forall pre s, all_slash pre = true -> trim_start_slash (pre ++ s) = trim_start_slash s.
Proof.
  induction pre as [|c pre IH]; intros s H; [reflexivity|].
  destruct (all_slash_cons _ _ H) as [-> H2]. cbn [app trim_start_slash]. rewrite N.eqb_refl. apply IH. exact H2.
Qed.

Lemma trim_end_post : forall post j, all_slash post = true -> trim_end_slash (j ++ post) = trim_end_slash j.
Proof.
  intros post j H. induction j as [|c j IH].
  - cbn [app]. induction post as [|d post IHp]; [reflexivity|].
    destruct (all_slash_cons _ _ H) as [-> H2]. cbn [trim_end_slash]. rewrite (IHp H2). reflexivity.
  - cbn [app trim_end_slash]. rewrite IH. reflexivity.
Qed.

Lemma trim_end_app_keep : forall a b, trim_end_slash b <> [] -> trim_end_slash (a ++ b) = a ++ trim_end_slash b.
Proof.
  induction a as [|c a IH]; intros b H; [reflexivity|].
  cbn [app trim_end_slash]. rewrite (IH b H).
  destruct (a ++ trim_end_slash b) eqn:E; [|reflexivity].
  apply app_eq_nil in E. destruct E as [_ E]. contradiction.
Qed.

Lemma join_head : forall x r, forallb seg_ok (x :: r) = true ->
  exists c tl, join_slash (x :: r) = c :: tl /\ (c =? slash) = false.
Proof.
  intros x r H. cbn [forallb] in H. apply andb_true_iff in H. destruct H as [Hx _].
  destruct (seg_ok_inv x Hx) as [H1 H2]. destruct x as [|c x']; [contradiction|].
  unfold no_slash in H2. cbn [forallb] in H2. apply andb_true_iff in H2. destruct H2 as [H2 _]. apply negb_true_iff in H2.
  destruct r; cbn [join_slash app]; eauto.
Qed.

Lemma trim_end_join : forall bs, forallb seg_ok bs = true -> trim_end_slash (join_slash bs) = join_slash bs.
Proof.
  induction bs as [|x r IH]; intro H; [reflexivity|].
  pose proof H as H0. cbn [forallb] in H. apply andb_true_iff in H. destruct H as [Hx Hr].
  destruct r as [|y r'].
  - cbn [join_slash]. apply trim_end_slash_noslash. apply (seg_ok_inv x Hx).
  - change (join_slash (x :: y :: r')) with (x ++ slash :: join_slash (y :: r')).
    change (x ++ slash :: join_slash (y :: r')) with (x ++ [slash] ++ join_slash (y :: r')).
    rewrite app_assoc. rewrite trim_end_app_keep; rewrite (IH Hr).
    + reflexivity.
    + destruct (join_head y r' Hr) as [c [tl [E _]]]. rewrite E. discriminate.
Qed.

Lemma base_ok_facts : forall base bs, base_ok base bs ->
  path_segments base = bs /\ trim_slashes base = join_slash bs.
Proof.
  intros base bs [Hbs [pre [post [Hpre [Hpost E]]]]]. subst base. split.
  - rewrite path_segments_pre by exact Hpre. rewrite path_segments_post by exact Hpost.
    apply path_segments_join. exact Hbs.
  - unfold trim_slashes. rewrite trim_start_pre by exact Hpre.
    destruct bs as [|x r].
    + cbn [join_slash app]. pose proof (trim_start_pre post [] Hpost) as T. rewrite app_nil_r in T. rewrite T. reflexivity.
    + destruct (join_head x r Hbs) as [c [tl [Ej Hc]]].
      assert (T : trim_start_slash (join_slash (x :: r) ++ post) = join_slash (x :: r) ++ post).
      { rewrite Ej. cbn [app trim_start_slash]. rewrite Hc. reflexivity. }
      rewrite T, trim_end_post by exact Hpost. apply trim_end_join. exact Hbs.
Qed.

Lemma pb_push_base : forall pb base bs, base_ok base bs -> pb_push pb base = pb ++ base_piece bs.
Proof.
  intros pb base bs H. destruct (base_ok_facts base bs H) as [_ T]. destruct H as [Hbs _].
  unfold pb_push. rewrite T. destruct bs as [|x r].
  - cbn. rewrite app_nil_r. reflexivity.
  - destruct (join_head x r Hbs) as [c [tl [Ej _]]]. unfold base_piece. rewrite Ej. reflexivity.
Qed.

(** * get_new_path *)
Lemma names_ok_nth : forall names l, names_ok names = true -> (l < length names)%nat -> seg_ok (name_of names l) = true.
Proof.
  intros names l H Hl. unfold names_ok in H. rewrite forallb_forall in H. apply H. unfold name_of. apply nth_In. exact Hl.
Qed.

Lemma prefix_ok : forall names dflt l, names_ok names = true -> (l < length names)%nat ->
  forallb seg_ok (prefix_of names dflt l) = true.
Proof.
  intros names dflt l H Hl. unfold prefix_of. destruct (Nat.eqb l dflt); [reflexivity|].
  cbn [forallb]. rewrite (names_ok_nth names l H Hl). reflexivity.
Qed.

Lemma forallb_app_true : forall {A} (f : A -> bool) a b, forallb f a = true -> forallb f b = true -> forallb f (a ++ b) = true.
Proof. intros A f a b Ha Hb. rewrite forallb_app, Ha, Hb. reflexivity. Qed.

Lemma strip_locale_url : forall names dflt a inst old,
  (a < length names)%nat -> locale_readable names dflt a inst -> old_ok_p dflt a old ->
  strip_locale names old (prefix_of names dflt a ++ render a inst) = render a inst.
Proof.
  intros names dflt a inst old Ha Hread Hold. unfold prefix_of.
  destruct (Nat.eqb a dflt) eqn:E.
  - apply Nat.eqb_eq in E. cbn [app]. destruct old as [l|]; [|reflexivity].
    unfold old_ok_p in Hold. subst l. cbn [strip_locale].
    destruct (render a inst) as [|f rest] eqn:R; [reflexivity|].
    specialize (Hread E). rewrite R in Hread. cbn [first_not_locale] in Hread. apply negb_true_iff in Hread.
    destruct (str_eqb f (name_of names a)) eqn:F; [|reflexivity].
    apply str_eqb_eq in F. exfalso.
    assert (X : existsb (fun nm => str_eqb nm f) names = true).
    { apply existsb_exists. exists (name_of names a). split; [unfold name_of; apply nth_In; exact Ha|].
      rewrite F. apply str_eqb_refl. }
    congruence.
  - cbn [app]. destruct old as [l|].
    + unfold old_ok_p in Hold. subst l. cbn [strip_locale]. rewrite str_eqb_refl. reflexivity.
    + unfold old_ok_p in Hold. apply Nat.eqb_neq in E. contradiction.
Qed.

Theorem switch_pathname_ok : forall names dflt base bsegs t a b inst old,
  valid names dflt t a b inst -> base_ok base bsegs -> old_ok_p dflt a old ->
  get_new_pathname names dflt base (tabs_of (length names) t) (url_path names dflt bsegs a inst) b old
  = Ok (url_path names dflt bsegs b inst).
Proof.
  intros names dflt base bsegs t a b inst old [Hn [Ht [[Ha [Hra Hla]] [Hb [Hrb Hlb]]]]] Hbase Hold.
  destruct (base_ok_facts base bsegs Hbase) as [Bseg Btrim].
  pose proof Hbase as [Hbs _].
  destruct Hra as [[r0 [Hin0 Hi0]] Huniq].
  assert (Hsa : forallb seg_ok (render a inst) = true) by (eapply inst_render_ok; eassumption).
  assert (Hsb : forallb seg_ok (render b inst) = true) by (eapply inst_render_ok; eassumption).
  unfold get_new_pathname. cbv zeta.
  rewrite (pb_push_base pb_new base bsegs Hbase).
  assert (S1 : strip_base_path (url_path names dflt bsegs a inst) base
               = Some (prefix_of names dflt a ++ render a inst)).
  { unfold strip_base_path, url_path. rewrite Bseg. rewrite path_segments_render.
    - apply strip_segs_iff. reflexivity.
    - apply forallb_app_true; [exact Hbs|]. apply forallb_app_true; [apply prefix_ok; assumption|exact Hsa]. }
  rewrite S1. cbv beta iota.
  assert (O : match old with Some l => l | None => dflt end = a).
  { destruct old as [l|]; unfold old_ok_p in Hold; congruence. }
  rewrite O. rewrite (tabs_get_of _ t a Ha). cbv beta iota. rewrite (tabs_get_of _ t b Hb). cbv beta iota.
  match goal with |- context [localize_path _ _ _ ?pb] =>
    assert (P1 : pb = pb_new ++ base_piece bsegs ++ prefix_of names dflt b) end.
  { unfold prefix_of. destruct (Nat.eqb b dflt).
    - rewrite app_nil_r. reflexivity.
    - rewrite pb_push_seg by (apply names_ok_nth; assumption). rewrite <- app_assoc. reflexivity. }
  rewrite P1.
  rewrite (strip_locale_url names dflt a inst old Ha Hla Hold).
  rewrite (localize_ok (length names) t a b inst _ Ht Ha Hb).
  - unfold url_path, pb_new. cbn [app].
    rewrite <- app_assoc. f_equal. apply pb_build_base.
  - split; [exists r0; split; assumption|exact Huniq].
Qed.

Theorem switch_ok : forall names dflt base bsegs t a b inst old search hash,
  valid names dflt t a b inst -> base_ok base bsegs -> old_ok_p dflt a old ->
  get_new_path names dflt base (tabs_of (length names) t) (url_path names dflt bsegs a inst) search hash b old
  = Ok (url_path names dflt bsegs b inst ++ url_suffix search hash).
Proof.
  intros. unfold get_new_path. rewrite (switch_pathname_ok names dflt base bsegs t a b inst old); auto.
Qed.

Lemma valid_sym : forall names dflt t a b inst, valid names dflt t a b inst -> valid names dflt t b a inst.
Proof. intros names dflt t a b inst [H1 [H2 [H3 H4]]]. split; [exact H1|split; [exact H2|split; [exact H4|exact H3]]]. Qed.

Theorem roundtrip_ok : forall names dflt base bsegs t a b inst search hash,
  valid names dflt t a b inst -> base_ok base bsegs ->
  forall u, get_new_pathname names dflt base (tabs_of (length names) t) (url_path names dflt bsegs a inst) b (Some a) = Ok u ->
  get_new_path names dflt base (tabs_of (length names) t) u search hash a (Some b)
  = Ok (url_path names dflt bsegs a inst ++ url_suffix search hash).
Proof.
  intros names dflt base bsegs t a b inst search hash Hv Hb u Hu.
  rewrite (switch_pathname_ok names dflt base bsegs t a b inst (Some a) Hv Hb eq_refl) in Hu.
  inversion Hu; subst u. apply switch_ok; [apply valid_sym; exact Hv|exact Hb|reflexivity].
Qed.

(** histories: every locale visited must give a valid reading *)
Definition valid_all (names : list str) (dflt : nat) (t : list (list aseg)) (ls : list nat) (inst : list iseg) : Prop :=
  names_ok names = true /\ atab_ok (length names) t = true /\ Forall (fun l => valid_at names dflt t l inst) ls.

Theorem history_ok : forall names dflt base bsegs t inst ls a,
  valid_all names dflt t (a :: ls) inst -> base_ok base bsegs ->
  history names dflt base (tabs_of (length names) t) false (url_path names dflt bsegs a inst) (Some a) ls
  = Ok (map (fun l => url_path names dflt bsegs l inst) ls).
Proof.
  intros names dflt base bsegs t inst ls. induction ls as [|l ls IH]; intros a [Hn [Ht Hall]] Hb; [reflexivity|].
  cbn [history map].
  inversion Hall as [|? ? Ha Hrest]; subst. inversion Hrest as [|? ? Hl Hls]; subst.
  rewrite (switch_pathname_ok names dflt base bsegs t a l inst (Some a)); [| split; [exact Hn|split; [exact Ht|split; [exact Ha|exact Hl]]] | exact Hb | reflexivity].
  rewrite (IH l); [reflexivity| |exact Hb].
  split; [exact Hn|split; [exact Ht|]]. exact Hrest.
Qed.

Corollary history_returns : forall names dflt base bsegs t inst ls a,
  valid_all names dflt t (a :: ls ++ [a]) inst -> base_ok base bsegs ->
  exists us, history names dflt base (tabs_of (length names) t) false (url_path names dflt bsegs a inst) (Some a) (ls ++ [a])
             = Ok (us ++ [url_path names dflt bsegs a inst]).
Proof.
  intros names dflt base bsegs t inst ls a Hv Hb.
  rewrite (history_ok names dflt base bsegs t inst (ls ++ [a]) a Hv Hb).
  rewrite map_app. cbn [map]. eexists. reflexivity.
Qed.

(** * the executable [valid_b] decides [valid] (soundness: what the check treats as valid is valid) *)
Lemma parses_complete : forall n l r inst, inst_of n r inst -> In inst (parses n l r (render l inst)).
Proof.
  intros n l r inst H. induction H; cbn [parses].
  - cbn [render map]. left. reflexivity.
  - exact IHinst_of.
  - apply in_or_app. left. rewrite H. exact IHinst_of.
  - apply in_or_app. right. rewrite H. cbn [render map render_seg]. rewrite str_eqb_refl.
    apply in_map. exact IHinst_of.
  - cbn [render map render_seg]. rewrite H. apply in_map. exact IHinst_of.
  - apply in_or_app. left. cbn [render map render_seg]. rewrite H. apply in_map. exact IHinst_of.
  - apply in_or_app. right. exact IHinst_of.
  - rewrite render_map_IVal, H. left. reflexivity.
Qed.

Lemma parses_sound : forall n l r segs i, In i (parses n l r segs) -> inst_of n r i /\ render l i = segs.
Proof.
  intros n l r. induction r as [|x r IH]; intros segs i H; cbn [parses] in H.
  - destruct segs; [|contradiction]. destruct H as [<-|[]]. split; [constructor|reflexivity].
  - destruct x as [|ns|p|p|p].
    + destruct (IH _ _ H) as [H1 H2]. split; [constructor; exact H1|exact H2].
    + apply in_app_or in H. destruct H as [H|H].
      * destruct (all_empty n ns) eqn:E; [|contradiction]. destruct (IH _ _ H) as [H1 H2].
        split; [apply io_skip; assumption|exact H2].
      * destruct (all_ok n ns) eqn:E; [|contradiction]. destruct segs as [|s segs']; [contradiction|].
        destruct (str_eqb (nth l ns []) s) eqn:F; [|contradiction]. apply str_eqb_eq in F.
        apply in_map_iff in H. destruct H as [i' [<- Hi']]. destruct (IH _ _ Hi') as [H1 H2].
        split; [apply io_stat; assumption|]. cbn [render map render_seg]. fold (render l i'). rewrite H2, F. reflexivity.
    + destruct segs as [|s segs']; [contradiction|]. destruct (seg_ok s) eqn:E; [|contradiction].
      apply in_map_iff in H. destruct H as [i' [<- Hi']]. destruct (IH _ _ Hi') as [H1 H2].
      split; [apply io_param; assumption|]. cbn [render map render_seg]. fold (render l i'). rewrite H2. reflexivity.
    + apply in_app_or in H. destruct H as [H|H].
      * destruct segs as [|s segs']; [contradiction|]. destruct (seg_ok s) eqn:E; [|contradiction].
        apply in_map_iff in H. destruct H as [i' [<- Hi']]. destruct (IH _ _ Hi') as [H1 H2].
        split; [apply io_opt_some; assumption|]. cbn [render map render_seg]. fold (render l i'). rewrite H2. reflexivity.
      * destruct (IH _ _ H) as [H1 H2]. split; [apply io_opt_none; exact H1|exact H2].
    + destruct (forallb seg_ok segs) eqn:E; [|contradiction]. destruct H as [<-|[]].
      split; [apply io_splat; exact E|apply render_map_IVal].
Qed.

Lemma list_eqb_sound : forall {A} (e : A -> A -> bool), (forall x y, e x y = true -> x = y) ->
  forall a b, list_eqb e a b = true -> a = b.
Proof.
  intros A e He. induction a as [|x a IH]; destruct b as [|y b]; cbn [list_eqb]; intro H; try reflexivity; try discriminate.
  apply andb_true_iff in H. destruct H as [H1 H2]. rewrite (He _ _ H1), (IH _ H2). reflexivity.
Qed.

Lemma iseg_eqb_sound : forall x y, iseg_eqb x y = true -> x = y.
Proof.
  intros [a|a] [b|b]; cbn [iseg_eqb]; intro H; try discriminate.
  - f_equal. apply (list_eqb_sound str_eqb); [intros; apply str_eqb_eq; assumption|exact H].
  - f_equal. apply str_eqb_eq. exact H.
Qed.

Lemma reads_as_b_sound : forall n t l inst, reads_as_b n t l inst = true -> reads_as n t l inst.
Proof.
  intros n t l inst H. unfold reads_as_b in H. apply andb_true_iff in H. destruct H as [Hne Hall].
  rewrite forallb_forall in Hall.
  assert (Heq : forall i', In i' (flat_map (fun r => parses n l r (render l inst)) t) -> i' = inst).
  { intros i' Hi'. apply (list_eqb_sound iseg_eqb iseg_eqb_sound). apply Hall. exact Hi'. }
  split.
  - destruct (flat_map (fun r => parses n l r (render l inst)) t) as [|i0 ps] eqn:E; [discriminate|].
    assert (Hin : In i0 (flat_map (fun r => parses n l r (render l inst)) t)) by (rewrite E; left; reflexivity).
    pose proof (Heq i0 (or_introl eq_refl)) as ->. apply in_flat_map in Hin. destruct Hin as [r [Hr Hp]].
    exists r. split; [exact Hr|]. apply (parses_sound n l r _ _ Hp).
  - intros r inst' Hr Hi Hren. apply Heq. apply in_flat_map. exists r. split; [exact Hr|].
    rewrite <- Hren. apply parses_complete. exact Hi.
Qed.

Lemma valid_at_b_sound : forall names dflt t l inst, valid_at_b names dflt t l inst = true -> valid_at names dflt t l inst.
Proof.
  intros names dflt t l inst H. unfold valid_at_b in H.
  apply andb_true_iff in H. destruct H as [H H3]. apply andb_true_iff in H. destruct H as [H1 H2].
  split; [apply Nat.ltb_lt; exact H1|]. split; [apply reads_as_b_sound; exact H2|].
  intro E. apply orb_true_iff in H3. destruct H3 as [H3|H3]; [|exact H3].
  apply negb_true_iff in H3. apply Nat.eqb_neq in H3. contradiction.
Qed.

Theorem valid_b_sound : forall names dflt t a b inst, valid_b names dflt t a b inst = true -> valid names dflt t a b inst.
Proof.
  intros names dflt t a b inst H. unfold valid_b in H.
  apply andb_true_iff in H. destruct H as [H H4]. apply andb_true_iff in H. destruct H as [H H3].
  apply andb_true_iff in H. destruct H as [H1 H2].
  split; [exact H1|split; [exact H2|split; apply valid_at_b_sound; assumption]].
Qed.

Lemma base_ok_b_sound : forall base bs, base_ok_b base bs = true ->
  forallb seg_ok bs = true /\ trim_slashes base = join_slash bs /\ path_segments base = bs.
Proof.
  intros base bs H. unfold base_ok_b in H. apply andb_true_iff in H. destruct H as [H H3].
  apply andb_true_iff in H. destruct H as [H1 H2].
  apply str_eqb_eq in H2. split; [exact H1|split; [exact H2|]].
  apply (list_eqb_sound str_eqb); [intros; apply str_eqb_eq; assumption|exact H3].
Qed.

(** * the fragment *)
Lemma suffix_preserved : forall search hash, hash_decidable hash = true -> url_suffix search hash = spec_suffix search hash.
Proof.
  intros search hash H. unfold url_suffix, spec_suffix, search_part, hash_part. f_equal.
  destruct hash as [|c r]; [reflexivity|]. cbn [nonempty starts_with_hash fragment_of].
  destruct (c =? hashc) eqn:E.
  - apply N.eqb_eq in E. subst c. destruct r as [|d r']; [discriminate H|reflexivity].
  - reflexivity.
Qed.

(** * C14_spec *)
Theorem spec_C14_holds : forall names dflt base bsegs t a b inst old search hash,
  valid names dflt t a b inst -> base_ok base bsegs -> old_ok_p dflt a old -> hash_decidable hash = true ->
  spec_C14 names dflt bsegs inst search hash b
    (get_new_path names dflt base (tabs_of (length names) t) (url_path names dflt bsegs a inst) search hash b old) = true.
Proof.
  intros. rewrite (switch_ok names dflt base bsegs t a b inst old); auto.
  rewrite suffix_preserved by assumption.
  unfold spec_C14, spec_switch, res_str_eqb. apply str_eqb_refl.
Qed.

Lemma in_firstn_nth : forall (l : list str) k x, In x (firstn k l) -> exists j, (j < k)%nat /\ nth j l [] = x.
Proof.
  induction l as [|y l IH]; intros k x H; destruct k; cbn [firstn] in H; try contradiction.
  destruct H as [<-|H].
  - exists 0%nat. split; [lia|reflexivity].
  - destruct (IH _ _ H) as [j [Hj Hn]]. exists (S j). split; [lia|exact Hn].
Qed.

Theorem spec_locale_holds : forall names path base,
  spec_locale names (path_segments base) (path_segments path) (get_locale_from_path names path base) = true.
Proof.
  intros names path base. unfold spec_locale, get_locale_from_path, strip_base_path.
  destruct (strip_segs (path_segments base) (path_segments path)) as [[|f rest]|]; try reflexivity.
  destruct (find_index (fun n => str_eqb n f) names) as [l|] eqn:E.
  - apply (find_index_iff _ ([] : str)) in E. destruct E as [E1 [E2 E3]].
    apply Nat.ltb_lt in E1. rewrite E1. unfold name_of. rewrite E2. cbn [andb].
    apply negb_true_iff. destruct (existsb (fun nm => str_eqb nm f) (firstn l names)) eqn:X; [|reflexivity].
    apply existsb_exists in X. destruct X as [nm [X1 X2]].
    apply in_firstn_nth in X1. destruct X1 as [j [Hjl Hn]].
    specialize (E3 j Hjl). rewrite Hn in E3. congruence.
  - apply negb_true_iff. destruct (existsb (fun nm => str_eqb nm f) names) eqn:X; [|reflexivity].
    apply existsb_exists in X. destruct X as [nm [X1 X2]].
    apply (In_nth _ _ ([] : str)) in X1. destruct X1 as [j [Hj Hn]].
    assert (G : find_index (fun n => str_eqb n f) names <> None).
    { clear E. revert j Hj Hn. induction names as [|x names IH]; intros j Hj Hn; [cbn in Hj; lia|].
      cbn [find_index]. destruct (str_eqb x f) eqn:F; [discriminate|].
      destruct j as [|j']; [cbn [nth] in Hn; subst; congruence|].
      cbn [nth length] in Hn, Hj. specialize (IH j' ltac:(lia) Hn).
      destruct (find_index (fun n => str_eqb n f) names); [discriminate|contradiction]. }
    contradiction.
Qed.

(** * histories in which the [locale] argument is read back from the path (correct_locale_prefix_effect) *)
Lemma strip_base_url : forall names dflt base bsegs t l inst,
  names_ok names = true -> valid_at names dflt t l inst -> base_ok base bsegs ->
  strip_base_path (url_path names dflt bsegs l inst) base = Some (prefix_of names dflt l ++ render l inst).
Proof.
  intros names dflt base bsegs t l inst Hn [Hl [[[r0 [Hin0 Hi0]] _] _]] Hbase.
  destruct (base_ok_facts base bsegs Hbase) as [Bseg _]. pose proof Hbase as [Hbs _].
  unfold strip_base_path, url_path. rewrite Bseg. rewrite path_segments_render.
  - apply strip_segs_iff. reflexivity.
  - apply forallb_app_true; [exact Hbs|]. apply forallb_app_true; [apply prefix_ok; assumption|].
    eapply inst_render_ok; eassumption.
Qed.

Lemma find_index_none : forall {A} (f : A -> bool) l, existsb f l = false -> find_index f l = None.
Proof.
  intros A f. induction l as [|x l IH]; intro H; [reflexivity|].
  cbn [existsb] in H. apply orb_false_iff in H. destruct H as [H1 H2].
  cbn [find_index]. rewrite H1, (IH H2). reflexivity.
Qed.

Lemma get_locale_url : forall names dflt base bsegs t l inst,
  names_ok names = true -> NoDup names -> valid_at names dflt t l inst -> base_ok base bsegs ->
  get_locale_from_path names (url_path names dflt bsegs l inst) base = if Nat.eqb l dflt then None else Some l.
Proof.
  intros names dflt base bsegs t l inst Hn Hnd Hv Hbase.
  unfold get_locale_from_path. rewrite (strip_base_url names dflt base bsegs t l inst Hn Hv Hbase).
  destruct Hv as [Hl [_ Hread]]. unfold prefix_of. destruct (Nat.eqb l dflt) eqn:E.
  - apply Nat.eqb_eq in E. cbn [app]. specialize (Hread E).
    destruct (render l inst) as [|f rest]; [reflexivity|].
    cbn [first_not_locale] in Hread. apply negb_true_iff in Hread. apply find_index_none. exact Hread.
  - cbn [app]. apply (find_index_iff _ ([] : str)). split; [exact Hl|]. split; [apply str_eqb_refl|].
    intros j Hj. apply str_eqb_neq. unfold name_of. intro Heq.
    assert (j = l); [|lia]. apply (proj1 (NoDup_nth names ([] : str)) Hnd); [lia|exact Hl|exact Heq].
Qed.

Theorem history_any_ok : forall names dflt base bsegs t inst by_path ls a,
  valid_all names dflt t (a :: ls) inst -> base_ok base bsegs -> (by_path = true -> NoDup names) ->
  history names dflt base (tabs_of (length names) t) by_path (url_path names dflt bsegs a inst) (Some a) ls
  = Ok (map (fun l => url_path names dflt bsegs l inst) ls).
Proof.
  intros names dflt base bsegs t inst by_path ls. induction ls as [|l ls IH]; intros a [Hn [Ht Hall]] Hb Hnd; [reflexivity|].
  cbn [history map].
  inversion Hall as [|? ? Ha Hrest]; subst. inversion Hrest as [|? ? Hl Hls]; subst.
  assert (Hold : old_ok_p dflt a (if by_path then get_locale_from_path names (url_path names dflt bsegs a inst) base else Some a)).
  { destruct by_path; [|reflexivity].
    rewrite (get_locale_url names dflt base bsegs t a inst Hn (Hnd eq_refl) Ha Hb).
    destruct (Nat.eqb a dflt) eqn:E; [apply Nat.eqb_eq in E; exact E|reflexivity]. }
  rewrite (switch_pathname_ok names dflt base bsegs t a l inst _
             (conj Hn (conj Ht (conj Ha Hl))) Hb Hold).
  rewrite (IH l); [reflexivity| |exact Hb|exact Hnd].
  split; [exact Hn|split; [exact Ht|exact Hrest]].
Qed.

(** * First-match semantics: overlapping routes *)
Lemma all_empty_not_ok : forall n ns a, all_empty n ns = true -> (a < n)%nat -> all_ok n ns = false.
Proof.
  intros n ns a He Ha. destruct (all_ok n ns) eqn:E; [|reflexivity].
  pose proof (all_ok_nth n ns a E Ha) as H. rewrite (all_empty_nth n ns a He Ha) in H. discriminate.
Qed.

Lemma all_ok_not_empty : forall n ns a, all_ok n ns = true -> (a < n)%nat -> all_empty n ns = false.
Proof.
  intros n ns a Ho Ha. destruct (all_empty n ns) eqn:E; [|reflexivity].
  rewrite (all_empty_not_ok n ns a E Ha) in Ho. discriminate.
Qed.

Lemma match_none_parses : forall n a r idx segs, (a < n)%nat ->
  match_segs (map (concr a) r) idx segs = None -> parses n a r segs = [].
Proof.
  intros n a r idx segs Ha H. destruct (parses n a r segs) as [|i ps] eqn:E; [reflexivity|].
  exfalso. assert (Hin : In i (parses n a r segs)) by (rewrite E; left; reflexivity).
  destruct (parses_sound n a r segs i Hin) as [H1 H2].
  apply (match_complete n a r i H1 Ha idx). rewrite H2. exact H.
Qed.

Lemma match_hd : forall n a b r idx segs o,
  forallb (aseg_ok n) r = true -> (a < n)%nat -> (b < n)%nat -> forallb seg_ok segs = true ->
  match_segs (map (concr a) r) idx segs = Some o ->
  exists inst ps, parses n a r segs = inst :: ps /\ Forall (fun i => (idx <= i)%nat) o /\
    forall o' pb, (forall i, (idx <= i)%nat -> mem_nat i o' = mem_nat i o) ->
      construct (map (concr b) r) idx segs o' pb = Ok (pb ++ render b inst).
Proof.
  intros n a b r. induction r as [|x r IH]; intros idx segs o Hr Ha Hb Hs Hm.
  - cbn [map match_segs] in Hm. destruct segs; [|discriminate]. inversion Hm; subst.
    exists [], []. repeat split; [constructor|]. intros o' pb _. cbn [map render]. rewrite app_nil_r. reflexivity.
  - cbn [forallb] in Hr. apply andb_true_iff in Hr. destruct Hr as [Hx Hr].
    destruct x as [|ns|p|p|p]; cbn [map concr match_segs] in Hm; cbn [parses].
    + (* Unit *)
      destruct (IH (S idx) segs o Hr Ha Hb Hs Hm) as [inst [ps [I1 [I3 I4]]]].
      exists inst, ps. split; [exact I1|]. split; [eapply Forall_impl; [|exact I3]; cbn beta; lia|].
      intros o' pb Ho'. destruct segs as [|s segs'].
      * rewrite construct_nil. rewrite <- (I4 o' pb) by (intros i Hi; apply Ho'; lia). symmetry. apply construct_nil.
      * cbn [map concr construct]. apply I4. intros i Hi. apply Ho'. lia.
    + (* Static *)
      cbn [aseg_ok] in Hx. apply orb_true_iff in Hx. destruct Hx as [He|Ho].
      * pose proof (all_empty_nth n ns a He Ha) as Ea. pose proof (all_empty_nth n ns b He Hb) as Eb.
        rewrite Ea in Hm. cbn [nonempty] in Hm.
        destruct (IH (S idx) segs o Hr Ha Hb Hs Hm) as [inst [ps [I1 [I3 I4]]]].
        exists inst, ps. split; [rewrite He, (all_empty_not_ok n ns a He Ha), app_nil_r; exact I1|].
        split; [eapply Forall_impl; [|exact I3]; cbn beta; lia|].
        intros o' pb Ho'. destruct segs as [|s segs'].
        -- rewrite construct_nil. rewrite <- (I4 o' pb) by (intros i Hi; apply Ho'; lia). symmetry. apply construct_nil.
        -- cbn [map concr construct]. rewrite Eb. cbn [nonempty]. apply I4. intros i Hi. apply Ho'. lia.
      * pose proof (all_ok_nth n ns a Ho Ha) as Oa. pose proof (all_ok_nth n ns b Ho Hb) as Ob.
        rewrite (seg_ok_nonempty _ Oa) in Hm.
        destruct segs as [|s segs']; [discriminate|].
        destruct (str_eqb (nth a ns []) s) eqn:E; [|discriminate].
        cbn [forallb] in Hs. apply andb_true_iff in Hs. destruct Hs as [Hs1 Hs2].
        destruct (IH (S idx) segs' o Hr Ha Hb Hs2 Hm) as [inst [ps [I1 [I3 I4]]]].
        exists (IStat ns :: inst), (map (cons (IStat ns)) ps).
        split; [rewrite Ho, (all_ok_not_empty n ns a Ho Ha), I1; reflexivity|].
        split; [eapply Forall_impl; [|exact I3]; cbn beta; lia|].
        intros o' pb Ho'. cbn [map concr construct]. rewrite (seg_ok_nonempty _ Ob).
        rewrite (pb_push_seg pb _ Ob). rewrite I4 by (intros i Hi; apply Ho'; lia).
        cbn [render map render_seg]. rewrite <- app_assoc. reflexivity.
    + (* Param *)
      destruct segs as [|s segs']; [discriminate|].
      cbn [forallb] in Hs. apply andb_true_iff in Hs. destruct Hs as [Hs1 Hs2].
      destruct (IH (S idx) segs' o Hr Ha Hb Hs2 Hm) as [inst [ps [I1 [I3 I4]]]].
      exists (IVal s :: inst), (map (cons (IVal s)) ps).
      split; [rewrite Hs1, I1; reflexivity|].
      split; [eapply Forall_impl; [|exact I3]; cbn beta; lia|].
      intros o' pb Ho'. cbn [map concr construct]. rewrite (pb_push_seg pb _ Hs1).
      rewrite I4 by (intros i Hi; apply Ho'; lia).
      cbn [render map render_seg]. rewrite <- app_assoc. reflexivity.
    + (* Optional *)
      destruct segs as [|s segs'].
      * destruct (IH (S idx) [] o Hr Ha Hb Hs Hm) as [inst [ps [I1 [I3 I4]]]].
        exists inst, ps. split; [exact I1|]. split; [eapply Forall_impl; [|exact I3]; cbn beta; lia|].
        intros o' pb Ho'. rewrite construct_nil. rewrite <- (I4 o' pb) by (intros i Hi; apply Ho'; lia). symmetry. apply construct_nil.
      * pose proof Hs as Hs0. cbn [forallb] in Hs. apply andb_true_iff in Hs. destruct Hs as [Hs1 Hs2].
        destruct (match_segs (map (concr a) r) (S idx) segs') as [o1|] eqn:E1.
        -- inversion Hm; subst o.
           destruct (IH (S idx) segs' o1 Hr Ha Hb Hs2 E1) as [inst [ps [I1 [I3 I4]]]].
           exists (IVal s :: inst), (map (cons (IVal s)) ps ++ parses n a r (s :: segs')).
           split; [rewrite Hs1, I1; reflexivity|].
           split; [constructor; [lia|]; eapply Forall_impl; [|exact I3]; cbn beta; lia|].
           intros o' pb Ho'. cbn [map concr construct].
           assert (M : mem_nat idx o' = true).
           { rewrite (Ho' idx) by lia. unfold mem_nat. cbn [existsb]. rewrite Nat.eqb_refl. reflexivity. }
           rewrite M. rewrite (pb_push_seg pb _ Hs1).
           rewrite I4.
           ++ cbn [render map render_seg]. rewrite <- app_assoc. reflexivity.
           ++ intros i Hi. rewrite (Ho' i) by lia. apply mem_nat_cons_ne. lia.
        -- destruct (IH (S idx) (s :: segs') o Hr Ha Hb Hs0 Hm) as [inst [ps [I1 [I3 I4]]]].
           exists inst, ps.
           split; [rewrite Hs1, (match_none_parses n a r (S idx) segs' Ha E1); exact I1|].
           split; [eapply Forall_impl; [|exact I3]; cbn beta; lia|].
           intros o' pb Ho'. cbn [map concr construct].
           assert (M : mem_nat idx o' = false).
           { rewrite (Ho' idx) by lia. apply mem_nat_ge_false. exact I3. }
           rewrite M. apply I4. intros i Hi. apply Ho'. lia.
    + (* Splat *)
      inversion Hm; subst o.
      exists (map IVal segs), []. split; [rewrite Hs; reflexivity|]. split; [constructor|].
      intros o' pb _. rewrite render_map_IVal. destruct segs as [|s segs'].
      * rewrite app_nil_r. reflexivity.
      * cbn [map concr construct]. rewrite (fold_push_segs _ pb Hs). reflexivity.
Qed.

Lemma find_route_first : forall n a t segs inst, (a < n)%nat ->
  atab_ok n t = true -> forallb seg_ok segs = true ->
  first_parse n a t segs = Some inst -> forall pos,
  exists k r o ps, find_route (fun r => match_segs r 0 segs) (table_of a t) pos = Some ((pos + k)%nat, o) /\
    nth_error t k = Some r /\ match_segs (map (concr a) r) 0 segs = Some o /\ parses n a r segs = inst :: ps.
Proof.
  intros n a t segs inst Ha Ht Hs. unfold first_parse. induction t as [|r t IH]; intros H pos; [discriminate|].
  cbn [atab_ok forallb] in Ht. unfold atab_ok in Ht. cbn [forallb] in Ht. apply andb_true_iff in Ht. destruct Ht as [Hr Ht].
  cbn [flat_map table_of map find_route] in H |- *.
  destruct (match_segs (map (concr a) r) 0 segs) as [o|] eqn:E.
  - destruct (match_hd n a a r 0 segs o Hr Ha Ha Hs E) as [i [ps [P _]]].
    rewrite P in H. cbn [app hd_error] in H. inversion H; subst i. exists 0%nat, r, o, ps.
    repeat split; [f_equal; f_equal; lia|exact E|exact P].
  - rewrite (match_none_parses n a r 0 segs Ha E) in H. cbn [app] in H.
    destruct (IH Ht H (S pos)) as [k [r' [o [ps [F1 [F2 [F3 F4]]]]]]].
    exists (S k), r', o, ps. unfold table_of in F1. rewrite F1. repeat split; [f_equal; f_equal; lia|exact F2|exact F3|exact F4].
Qed.

Lemma find_route_nomatch : forall n a t segs, (a < n)%nat ->
  atab_ok n t = true -> forallb seg_ok segs = true ->
  first_parse n a t segs = None -> forall pos,
  find_route (fun r => match_segs r 0 segs) (table_of a t) pos = None.
Proof.
  intros n a t segs Ha Ht Hs. unfold first_parse. induction t as [|r t IH]; intros H pos; [reflexivity|].
  unfold atab_ok in Ht. cbn [forallb] in Ht. apply andb_true_iff in Ht. destruct Ht as [Hr Ht].
  cbn [flat_map table_of map find_route] in H |- *.
  destruct (match_segs (map (concr a) r) 0 segs) as [o|] eqn:E.
  - destruct (match_hd n a a r 0 segs o Hr Ha Ha Hs E) as [i [ps [P _]]]. rewrite P in H. discriminate.
  - rewrite (match_none_parses n a r 0 segs Ha E) in H. cbn [app] in H. apply (IH Ht H).
Qed.

Lemma first_parse_render : forall n a t segs inst, first_parse n a t segs = Some inst -> render a inst = segs.
Proof.
  intros n a t segs inst H. unfold first_parse in H.
  destruct (flat_map (fun r => parses n a r segs) t) as [|i ps] eqn:E; [discriminate|].
  cbn [hd_error] in H. inversion H; subst i.
  assert (Hin : In inst (flat_map (fun r => parses n a r segs) t)) by (rewrite E; left; reflexivity).
  apply in_flat_map in Hin. destruct Hin as [r [_ Hp]]. apply (parses_sound n a r segs inst Hp).
Qed.

Lemma localize_first : forall n t a b segs pb,
  atab_ok n t = true -> (a < n)%nat -> (b < n)%nat -> forallb seg_ok segs = true ->
  localize_path segs (table_of a t) (table_of b t) pb =
  Ok (match first_parse n a t segs with Some inst => Some (pb ++ render b inst) | None => None end).
Proof.
  intros n t a b segs pb Ht Ha Hb Hs. unfold localize_path, localize_path_with.
  destruct (first_parse n a t segs) as [inst|] eqn:F.
  - destruct (find_route_first n a t segs inst Ha Ht Hs F 0) as [k [r [o [ps [F1 [F2 [F3 F4]]]]]]].
    rewrite F1. cbn [plus]. unfold table_of at 1. rewrite (nth_error_map_some _ _ _ _ F2).
    assert (Hrok : forallb (aseg_ok n) r = true).
    { unfold atab_ok in Ht. rewrite forallb_forall in Ht. apply Ht. eapply nth_error_In. exact F2. }
    destruct (match_hd n a b r 0 segs o Hrok Ha Hb Hs F3) as [i [ps' [P [_ C]]]].
    rewrite F4 in P. inversion P; subst i. rewrite (C o pb) by reflexivity. reflexivity.
  - rewrite (find_route_nomatch n a t segs Ha Ht Hs F 0). reflexivity.
Qed.

Lemma strip_locale_segs : forall names dflt a segs old,
  (a < length names)%nat -> (a = dflt -> first_not_locale names segs = true) -> old_ok_p dflt a old ->
  strip_locale names old (prefix_of names dflt a ++ segs) = segs.
Proof.
  intros names dflt a segs old Ha Hread Hold. unfold prefix_of.
  destruct (Nat.eqb a dflt) eqn:E.
  - apply Nat.eqb_eq in E. cbn [app]. destruct old as [l|]; [|reflexivity].
    unfold old_ok_p in Hold. subst l. cbn [strip_locale].
    destruct segs as [|f rest]; [reflexivity|].
    specialize (Hread E). cbn [first_not_locale] in Hread. apply negb_true_iff in Hread.
    destruct (str_eqb f (name_of names a)) eqn:F; [|reflexivity].
    apply str_eqb_eq in F. exfalso.
    assert (X : existsb (fun nm => str_eqb nm f) names = true).
    { apply existsb_exists. exists (name_of names a). split; [unfold name_of; apply nth_In; exact Ha|].
      rewrite F. apply str_eqb_refl. }
    congruence.
  - cbn [app]. destruct old as [l|].
    + unfold old_ok_p in Hold. subst l. cbn [strip_locale]. rewrite str_eqb_refl. reflexivity.
    + unfold old_ok_p in Hold. apply Nat.eqb_neq in E. contradiction.
Qed.

Theorem switch_first_match_pathname : forall names dflt base bsegs t a b segs old path,
  valid_url names dflt t a b segs -> base_ok base bsegs -> old_ok_p dflt a old ->
  path_denotes names dflt bsegs a segs path ->
  get_new_pathname names dflt base (tabs_of (length names) t) path b old
  = Ok (render_path (bsegs ++ prefix_of names dflt b ++ expected_segs (length names) t a b segs)).
Proof.
  intros names dflt base bsegs t a b segs old path [Hn [Ht [Ha [Hb [Hs Hread]]]]] Hbase Hold Hpath.
  destruct (base_ok_facts base bsegs Hbase) as [Bseg Btrim].
  unfold get_new_pathname. cbv zeta.
  rewrite (pb_push_base pb_new base bsegs Hbase).
  assert (S1 : strip_base_path path base = Some (prefix_of names dflt a ++ segs)).
  { unfold strip_base_path. rewrite Bseg. unfold path_denotes in Hpath. rewrite Hpath. apply strip_segs_iff. reflexivity. }
  rewrite S1. cbv beta iota.
  assert (O : match old with Some l => l | None => dflt end = a).
  { destruct old as [l|]; unfold old_ok_p in Hold; congruence. }
  rewrite O. rewrite (tabs_get_of _ t a Ha). cbv beta iota. rewrite (tabs_get_of _ t b Hb). cbv beta iota.
  match goal with |- context [localize_path _ _ _ ?pb] =>
    assert (P1 : pb = pb_new ++ base_piece bsegs ++ prefix_of names dflt b) end.
  { unfold prefix_of. destruct (Nat.eqb b dflt).
    - rewrite app_nil_r. reflexivity.
    - rewrite pb_push_seg by (apply names_ok_nth; assumption). rewrite <- app_assoc. reflexivity. }
  rewrite P1.
  rewrite (strip_locale_segs names dflt a segs old Ha Hread Hold).
  rewrite (localize_first (length names) t a b segs _ Ht Ha Hb Hs).
  unfold expected_segs. destruct (first_parse (length names) a t segs) as [inst|] eqn:F.
  - unfold pb_new. cbn [app]. rewrite <- app_assoc. f_equal. apply pb_build_base.
  - rewrite (fold_push_segs segs _ Hs). unfold pb_new. cbn [app]. rewrite <- !app_assoc. f_equal. apply pb_build_base.
Qed.

Theorem switch_first_match : forall names dflt base bsegs t a b segs old path search hash,
  valid_url names dflt t a b segs -> base_ok base bsegs -> old_ok_p dflt a old ->
  path_denotes names dflt bsegs a segs path ->
  get_new_path names dflt base (tabs_of (length names) t) path search hash b old
  = Ok (render_path (bsegs ++ prefix_of names dflt b ++ expected_segs (length names) t a b segs) ++ url_suffix search hash).
Proof.
  intros. unfold get_new_path.
  rewrite (switch_first_match_pathname names dflt base bsegs t a b segs old path); auto.
Qed.

Lemma expected_roundtrip : forall n t a b segs inst,
  first_parse n a t segs = Some inst -> first_parse n b t (render b inst) = Some inst ->
  expected_segs n t b a (expected_segs n t a b segs) = segs.
Proof.
  intros n t a b segs inst H1 H2. unfold expected_segs. rewrite H1, H2. apply (first_parse_render n a t segs inst H1).
Qed.

Lemma render_path_denotes : forall names dflt bsegs l segs,
  names_ok names = true -> (l < length names)%nat -> forallb seg_ok bsegs = true -> forallb seg_ok segs = true ->
  path_denotes names dflt bsegs l segs (render_path (bsegs ++ prefix_of names dflt l ++ segs)).
Proof.
  intros names dflt bsegs l segs Hn Hl Hb Hs. unfold path_denotes. apply path_segments_render.
  apply forallb_app_true; [exact Hb|]. apply forallb_app_true; [apply prefix_ok; assumption|exact Hs].
Qed.

(** the round trip under first-match semantics: required when the first reading of the image is the
    same reading (same route, read the same way) *)
Theorem roundtrip_first_match : forall names dflt base bsegs t a b segs inst path search hash,
  valid_url names dflt t a b segs -> valid_url names dflt t b a (render b inst) ->
  first_parse (length names) a t segs = Some inst ->
  first_parse (length names) b t (render b inst) = Some inst ->
  base_ok base bsegs -> path_denotes names dflt bsegs a segs path ->
  forall u, get_new_pathname names dflt base (tabs_of (length names) t) path b (Some a) = Ok u ->
  get_new_path names dflt base (tabs_of (length names) t) u search hash a (Some b)
  = Ok (render_path (bsegs ++ prefix_of names dflt a ++ segs) ++ url_suffix search hash).
Proof.
  intros names dflt base bsegs t a b segs inst path search hash Hv Hv' F1 F2 Hbase Hpath u Hu.
  rewrite (switch_first_match_pathname names dflt base bsegs t a b segs (Some a) path Hv Hbase eq_refl Hpath) in Hu.
  inversion Hu; subst u. clear Hu.
  assert (E : expected_segs (length names) t a b segs = render b inst) by (unfold expected_segs; rewrite F1; reflexivity).
  rewrite E.
  destruct Hv' as [Hn [Ht [Hb [Ha [Hs Hread]]]]]. pose proof Hbase as [Hbs _].
  rewrite (switch_first_match names dflt base bsegs t b a (render b inst) (Some b) _ search hash
             (conj Hn (conj Ht (conj Hb (conj Ha (conj Hs Hread))))) Hbase eq_refl
             (render_path_denotes names dflt bsegs b (render b inst) Hn Hb Hbs Hs)).
  unfold expected_segs. rewrite F2. rewrite (first_parse_render _ a t segs inst F1). reflexivity.
Qed.

(** a path with exactly one reading has that reading as its first reading: the unique-reading
    theorems are instances of the first-match ones *)
Lemma reads_as_first : forall n t a inst, reads_as n t a inst -> first_parse n a t (render a inst) = Some inst.
Proof.
  intros n t a inst [[r [Hr Hi]] Huniq]. unfold first_parse.
  destruct (flat_map (fun r => parses n a r (render a inst)) t) as [|i ps] eqn:E.
  - exfalso. assert (Hin : In inst (flat_map (fun r => parses n a r (render a inst)) t)).
    { apply in_flat_map. exists r. split; [exact Hr|apply parses_complete; exact Hi]. }
    rewrite E in Hin. contradiction.
  - cbn [hd_error]. f_equal.
    assert (Hin : In i (flat_map (fun r => parses n a r (render a inst)) t)) by (rewrite E; left; reflexivity).
    apply in_flat_map in Hin. destruct Hin as [r' [Hr' Hp]].
    destruct (parses_sound n a r' _ i Hp) as [P1 P2]. exact (Huniq r' i Hr' P1 P2).
Qed.

Theorem spec_first_match_holds : forall names dflt base bsegs t a b segs old path search hash,
  valid_url names dflt t a b segs -> base_ok base bsegs -> old_ok_p dflt a old ->
  path_denotes names dflt bsegs a segs path -> hash_decidable hash = true ->
  spec_first_match names dflt bsegs t a b segs search hash
    (get_new_path names dflt base (tabs_of (length names) t) path search hash b old) = true.
Proof.
  intros. rewrite (switch_first_match names dflt base bsegs t a b segs old path); auto.
  rewrite suffix_preserved by assumption.
  unfold spec_first_match, res_str_eqb. apply str_eqb_refl.
Qed.

Lemma valid_url_b_sound : forall names dflt t a b segs, valid_url_b names dflt t a b segs = true -> valid_url names dflt t a b segs.
Proof.
  intros names dflt t a b segs H. unfold valid_url_b in H.
  repeat (apply andb_true_iff in H; let H' := fresh "G" in destruct H as [H H']).
  repeat split; try assumption; try (apply Nat.ltb_lt; assumption).
  intro E. apply orb_true_iff in G. destruct G as [G|G]; [|exact G].
  apply negb_true_iff in G. apply Nat.eqb_neq in G. contradiction.
Qed.

Lemma get_locale_denotes : forall names dflt base bsegs a segs path,
  NoDup names -> (a < length names)%nat -> (a = dflt -> first_not_locale names segs = true) ->
  base_ok base bsegs -> path_denotes names dflt bsegs a segs path ->
  get_locale_from_path names path base = if Nat.eqb a dflt then None else Some a.
Proof.
  intros names dflt base bsegs a segs path Hnd Ha Hread Hbase Hpath.
  destruct (base_ok_facts base bsegs Hbase) as [Bseg _].
  unfold get_locale_from_path, strip_base_path. rewrite Bseg. unfold path_denotes in Hpath. rewrite Hpath.
  rewrite (proj2 (strip_segs_iff bsegs _ (prefix_of names dflt a ++ segs)) eq_refl).
  unfold prefix_of. destruct (Nat.eqb a dflt) eqn:E.
  - apply Nat.eqb_eq in E. cbn [app]. specialize (Hread E).
    destruct segs as [|f rest]; [reflexivity|].
    cbn [first_not_locale] in Hread. apply negb_true_iff in Hread. apply find_index_none. exact Hread.
  - cbn [app]. apply (find_index_iff _ ([] : str)). split; [exact Ha|]. split; [apply str_eqb_refl|].
    intros j Hj. apply str_eqb_neq. unfold name_of. intro Heq.
    assert (j = a); [|lia]. apply (proj1 (NoDup_nth names ([] : str)) Hnd); [lia|exact Ha|exact Heq].
Qed.

Lemma hist_valid_b_sound : forall names dflt t ls a segs, hist_valid_b names dflt t a segs ls = true -> hist_valid names dflt t a segs ls.
Proof.
  intros names dflt t. induction ls as [|l ls IH]; intros a segs H; cbn [hist_valid_b hist_valid] in *; [exact I|].
  apply andb_true_iff in H. destruct H as [H1 H2]. split; [apply valid_url_b_sound; exact H1|apply IH; exact H2].
Qed.

Theorem history_first_match : forall names dflt base bsegs t by_path ls a segs path,
  hist_valid names dflt t a segs ls -> base_ok base bsegs -> (by_path = true -> NoDup names) ->
  path_denotes names dflt bsegs a segs path ->
  history names dflt base (tabs_of (length names) t) by_path path (Some a) ls
  = Ok (map (fun ls' => render_path (bsegs ++ prefix_of names dflt (fst ls') ++ snd ls'))
            (expected_history (length names) t a segs ls)).
Proof.
  intros names dflt base bsegs t by_path. induction ls as [|l ls IH]; intros a segs path Hv Hbase Hnd Hpath; [reflexivity|].
  cbn [history expected_history map hist_valid fst snd] in *. destruct Hv as [Hv Hrest].
  pose proof Hv as [Hn [Ht [Ha [Hl [Hs Hread]]]]].
  assert (Hold : old_ok_p dflt a (if by_path then get_locale_from_path names path base else Some a)).
  { destruct by_path; [|reflexivity].
    rewrite (get_locale_denotes names dflt base bsegs a segs path (Hnd eq_refl) Ha Hread Hbase Hpath).
    destruct (Nat.eqb a dflt) eqn:E; [apply Nat.eqb_eq in E; exact E|reflexivity]. }
  rewrite (switch_first_match_pathname names dflt base bsegs t a l segs _ path Hv Hbase Hold Hpath).
  destruct ls as [|l2 ls'].
  - reflexivity.
  - rewrite (IH l (expected_segs (length names) t a l segs) _ Hrest Hbase Hnd); [reflexivity|].
    cbn [hist_valid] in Hrest. destruct Hrest as [[_ [_ [_ [_ [Hs' _]]]]] _]. pose proof Hbase as [Hbs _].
    apply render_path_denotes; assumption.
Qed.

(** * URLs with an explicit prefix (also for the default locale) *)
Lemma switch_core : forall names dflt base bsegs t a b segs rest old path,
  names_ok names = true -> atab_ok (length names) t = true -> (a < length names)%nat -> (b < length names)%nat ->
  forallb seg_ok segs = true -> base_ok base bsegs ->
  path_segments path = bsegs ++ rest -> strip_locale names old rest = segs ->
  match old with Some l => l | None => dflt end = a ->
  get_new_pathname names dflt base (tabs_of (length names) t) path b old
  = Ok (render_path (bsegs ++ prefix_of names dflt b ++ expected_segs (length names) t a b segs)).
Proof.
  intros names dflt base bsegs t a b segs rest old path Hn Ht Ha Hb Hs Hbase Hpath Hstrip O.
  destruct (base_ok_facts base bsegs Hbase) as [Bseg Btrim].
  unfold get_new_pathname. cbv zeta.
  rewrite (pb_push_base pb_new base bsegs Hbase).
  assert (S1 : strip_base_path path base = Some rest).
  { unfold strip_base_path. rewrite Bseg, Hpath. apply strip_segs_iff. reflexivity. }
  rewrite S1. cbv beta iota.
  rewrite O. rewrite (tabs_get_of _ t a Ha). cbv beta iota. rewrite (tabs_get_of _ t b Hb). cbv beta iota.
  match goal with |- context [localize_path _ _ _ ?pb] =>
    assert (P1 : pb = pb_new ++ base_piece bsegs ++ prefix_of names dflt b) end.
  { unfold prefix_of. destruct (Nat.eqb b dflt).
    - rewrite app_nil_r. reflexivity.
    - rewrite pb_push_seg by (apply names_ok_nth; assumption). rewrite <- app_assoc. reflexivity. }
  rewrite P1. rewrite Hstrip.
  rewrite (localize_first (length names) t a b segs _ Ht Ha Hb Hs).
  unfold expected_segs. destruct (first_parse (length names) a t segs) as [inst|] eqn:F.
  - unfold pb_new. cbn [app]. rewrite <- app_assoc. f_equal. apply pb_build_base.
  - rewrite (fold_push_segs segs _ Hs). unfold pb_new. cbn [app]. rewrite <- !app_assoc. f_equal. apply pb_build_base.
Qed.

Theorem switch_explicit_pathname : forall names dflt base bsegs t a b segs path,
  valid_url_explicit names t a b segs -> base_ok base bsegs -> path_denotes_explicit names bsegs a segs path ->
  get_new_pathname names dflt base (tabs_of (length names) t) path b (Some a)
  = Ok (render_path (bsegs ++ prefix_of names dflt b ++ expected_segs (length names) t a b segs)).
Proof.
  intros names dflt base bsegs t a b segs path [Hn [Ht [Ha [Hb Hs]]]] Hbase Hpath.
  apply (switch_core names dflt base bsegs t a b segs (name_of names a :: segs) (Some a) path); auto.
  cbn [strip_locale]. rewrite str_eqb_refl. reflexivity.
Qed.

Theorem switch_explicit : forall names dflt base bsegs t a b segs path search hash,
  valid_url_explicit names t a b segs -> base_ok base bsegs -> path_denotes_explicit names bsegs a segs path ->
  get_new_path names dflt base (tabs_of (length names) t) path search hash b (Some a)
  = Ok (render_path (bsegs ++ prefix_of names dflt b ++ expected_segs (length names) t a b segs) ++ url_suffix search hash).
Proof.
  intros. unfold get_new_path. rewrite (switch_explicit_pathname names dflt base bsegs t a b segs path); auto.
Qed.

Lemma get_locale_explicit : forall names base bsegs a segs path,
  NoDup names -> (a < length names)%nat -> base_ok base bsegs -> path_denotes_explicit names bsegs a segs path ->
  get_locale_from_path names path base = Some a.
Proof.
  intros names base bsegs a segs path Hnd Ha Hbase Hpath.
  destruct (base_ok_facts base bsegs Hbase) as [Bseg _].
  apply get_locale_whole_segment. split; [exists segs; rewrite Bseg; exact Hpath|]. split; [exact Ha|].
  intros j Hj Heq. unfold name_of in Heq.
  assert (j = a); [|lia]. apply (proj1 (NoDup_nth names ([] : str)) Hnd); [lia|exact Ha|exact Heq].
Qed.

Theorem history_explicit_start : forall names dflt base bsegs t by_path l ls a segs path,
  valid_url_explicit names t a l segs ->
  hist_valid names dflt t l (expected_segs (length names) t a l segs) ls ->
  base_ok base bsegs -> (by_path = true -> NoDup names) -> path_denotes_explicit names bsegs a segs path ->
  history names dflt base (tabs_of (length names) t) by_path path (Some a) (l :: ls)
  = Ok (map (fun ls' => render_path (bsegs ++ prefix_of names dflt (fst ls') ++ snd ls'))
            (expected_history (length names) t a segs (l :: ls))).
Proof.
  intros names dflt base bsegs t by_path l ls a segs path Hv Hrest Hbase Hnd Hpath.
  pose proof Hv as [Hn [Ht [Ha [Hl Hs]]]].
  cbn [history expected_history map fst snd].
  assert (Hold : (if by_path then get_locale_from_path names path base else Some a) = Some a).
  { destruct by_path; [|reflexivity]. apply (get_locale_explicit names base bsegs a segs path (Hnd eq_refl) Ha Hbase Hpath). }
  rewrite Hold. rewrite (switch_explicit_pathname names dflt base bsegs t a l segs path Hv Hbase Hpath).
  destruct ls as [|l2 ls'].
  - reflexivity.
  - rewrite (history_first_match names dflt base bsegs t by_path (l2 :: ls') l
               (expected_segs (length names) t a l segs) _ Hrest Hbase Hnd); [reflexivity|].
    cbn [hist_valid] in Hrest. destruct Hrest as [[_ [_ [_ [_ [Hs' _]]]]] _]. pose proof Hbase as [Hbs _].
    apply render_path_denotes; assumption.
Qed.

Theorem spec_explicit_holds : forall names dflt base bsegs t a b segs path search hash,
  valid_url_explicit names t a b segs -> base_ok base bsegs -> path_denotes_explicit names bsegs a segs path ->
  hash_decidable hash = true ->
  spec_first_match names dflt bsegs t a b segs search hash
    (get_new_path names dflt base (tabs_of (length names) t) path search hash b (Some a)) = true.
Proof.
  intros. rewrite (switch_explicit names dflt base bsegs t a b segs path); auto.
  rewrite suffix_preserved by assumption.
  unfold spec_first_match, res_str_eqb. apply str_eqb_refl.
Qed.

(** * match_nested *)
Lemma find_loc_some : forall f names ol idx l r, find_loc f names ol idx = Some (l, r) ->
  exists k, l = (idx + k)%nat /\ (k < length names)%nat /\ nth k names [] = f /\ nth k ol None = Some r /\
            forall j, (j < k)%nat -> nth j names [] = f -> nth j ol None = None.
Proof.
  intros f names. induction names as [|nm names IH]; intros ol idx l r H; [destruct ol; discriminate|].
  destruct ol as [|o ol]; [discriminate|]. cbn [find_loc] in H.
  destruct (str_eqb nm f) eqn:E.
  - destruct o as [r0|].
    + inversion H; subst. exists 0%nat. apply str_eqb_eq in E. cbn [nth length].
      repeat split; [lia|lia|exact E|]. intros j Hj. lia.
    + destruct (IH _ _ _ _ H) as [k [H1 [H2 [H3 [H4 H5]]]]]. exists (S k). cbn [nth length].
      repeat split; [lia|lia|exact H3|exact H4|]. intros j Hj Hf. destruct j as [|j']; [reflexivity|]. apply H5; [lia|exact Hf].
  - destruct (IH _ _ _ _ H) as [k [H1 [H2 [H3 [H4 H5]]]]]. exists (S k). cbn [nth length].
    repeat split; [lia|lia|exact H3|exact H4|]. intros j Hj Hf. destruct j as [|j'].
    + cbn [nth] in Hf. apply str_eqb_neq in E. contradiction.
    + apply H5; [lia|exact Hf].
Qed.

Lemma find_loc_first : forall f names ol idx k r,
  (k < length names)%nat -> nth k names [] = f -> nth k ol None = Some r ->
  (forall j, (j < k)%nat -> nth j names [] = f -> nth j ol None = None) ->
  find_loc f names ol idx = Some ((idx + k)%nat, r).
Proof.
  intros f names. induction names as [|nm names IH]; intros ol idx k r Hk Hn Ho Hfirst; [cbn in Hk; lia|].
  destruct ol as [|o ol]; [destruct k; discriminate|]. cbn [find_loc].
  destruct k as [|k'].
  - cbn [nth] in Hn, Ho. subst nm o. rewrite str_eqb_refl. f_equal. f_equal. lia.
  - cbn [nth length] in Hn, Ho, Hk.
    assert (R : find_loc f names ol (S idx) = Some ((idx + S k')%nat, r)).
    { replace (idx + S k')%nat with (S idx + k')%nat by lia. apply IH; [lia|exact Hn|exact Ho|].
      intros j Hj Hf. apply (Hfirst (S j)); [lia|exact Hf]. }
    destruct (str_eqb nm f) eqn:E; [|exact R].
    apply str_eqb_eq in E. pose proof (Hfirst 0%nat ltac:(lia) E) as Z. cbn [nth] in Z. subst o. exact R.
Qed.

Lemma find_loc_none : forall f names ol idx,
  (forall k, (k < length names)%nat -> nth k names [] = f -> nth k ol None = None) ->
  find_loc f names ol idx = None.
Proof.
  intros f names. induction names as [|nm names IH]; intros ol idx H; [destruct ol; reflexivity|].
  destruct ol as [|o ol]; [reflexivity|]. cbn [find_loc].
  assert (R : find_loc f names ol (S idx) = None).
  { apply IH. intros k Hk Hf. apply (H (S k)); [cbn [length]; lia|exact Hf]. }
  destruct (str_eqb nm f) eqn:E; [|exact R].
  apply str_eqb_eq in E. pose proof (H 0%nat ltac:(cbn [length]; lia) E) as Z. cbn [nth] in Z. subst o. exact R.
Qed.

(** a path whose first segment is exactly the name of locale [l] (the first one that serves it) is read
    with that locale, whatever the inner table would do with the whole path ([od] is arbitrary) *)
Theorem match_nested_prefix_first : forall names f ol od l r,
  (l < length names)%nat -> name_of names l = f -> nth l ol None = Some r ->
  (forall j, (j < l)%nat -> name_of names j = f -> nth j ol None = None) ->
  match_nested_model names (Some f) ol od = Some (Some l, slash :: f, r).
Proof.
  intros names f ol od l r Hl Hn Ho Hfirst. unfold match_nested_model.
  rewrite (find_loc_first f names ol 0 l r Hl Hn Ho Hfirst). cbn [plus]. rewrite Hn. reflexivity.
Qed.

Theorem match_nested_locale_exact : forall names first ol od l m r,
  match_nested_model names first ol od = Some (Some l, m, r) ->
  exists f, first = Some f /\ (l < length names)%nat /\ name_of names l = f /\ nth l ol None = Some r /\ m = slash :: f.
Proof.
  intros names first ol od l m r H. unfold match_nested_model in H.
  destruct first as [f|].
  - destruct (find_loc f names ol 0) as [[l' r']|] eqn:E.
    + inversion H; subst. destruct (find_loc_some _ _ _ _ _ _ E) as [k [H1 [H2 [H3 [H4 _]]]]]. cbn [plus] in H1. subst k.
      exists f. unfold name_of. rewrite H3. repeat split; assumption.
    + destruct od; inversion H.
  - destruct od; inversion H.
Qed.

Theorem match_nested_bare : forall names f ol od,
  (forall k, (k < length names)%nat -> name_of names k = f -> nth k ol None = None) ->
  match_nested_model names (Some f) ol od = match od with Some r => Some (None, [], r) | None => None end.
Proof.
  intros names f ol od H. unfold match_nested_model. rewrite (find_loc_none f names ol 0 H). reflexivity.
Qed.

Lemma find_loc_none_inv : forall f names ol idx, find_loc f names ol idx = None ->
  forall k, (k < length names)%nat -> nth k names [] = f -> nth k ol None = None.
Proof.
  intros f names. induction names as [|nm names IH]; intros ol idx H k Hk Hf; [cbn in Hk; lia|].
  destruct ol as [|o ol]; [destruct k; reflexivity|]. cbn [find_loc] in H.
  destruct k as [|k'].
  - cbn [nth] in Hf |- *. subst nm. rewrite str_eqb_refl in H. destruct o; [discriminate|reflexivity].
  - cbn [nth length] in Hf, Hk |- *. apply (IH ol (S idx)); [|lia|exact Hf].
    destruct (str_eqb nm f); [destruct o; [discriminate|exact H]|exact H].
Qed.

Lemma list_eqb_refl : forall {A} (e : A -> A -> bool), (forall x, e x x = true) -> forall l, list_eqb e l l = true.
Proof. intros A e He. induction l as [|x l IH]; cbn [list_eqb]; [reflexivity|]. rewrite He, IH. reflexivity. Qed.

Lemma mres_eqb_refl : forall r, mres_eqb r r = true.
Proof.
  intros [s ps]. unfold mres_eqb, pair_eqb. cbn [fst snd]. rewrite str_eqb_refl. cbn [andb].
  apply list_eqb_refl. intros [a b]. cbn [fst snd]. rewrite !str_eqb_refl. reflexivity.
Qed.

Lemma not_served_below : forall (names : list str) (ol : list (option mres)) (f : str) l,
  (forall j, (j < l)%nat -> nth j names ([] : str) = f -> nth j ol None = None) ->
  forallb (fun j => negb (served names ol f j)) (seq 0 l) = true.
Proof.
  intros names ol f l H. apply forallb_forall. intros j Hj. apply in_seq in Hj.
  unfold served, name_of. destruct (str_eqb (nth j names []) f) eqn:E; [|reflexivity].
  apply str_eqb_eq in E. rewrite (H j ltac:(lia) E). reflexivity.
Qed.

Theorem spec_match_model : forall names first ol od,
  spec_match names first ol od (match_nested_model names first ol od) = true.
Proof.
  intros names first ol od. unfold match_nested_model, spec_match.
  destruct first as [f|].
  - destruct (find_loc f names ol 0) as [[l r]|] eqn:E.
    + destruct (find_loc_some _ _ _ _ _ _ E) as [k [H1 [H2 [H3 [H4 H5]]]]]. cbn [plus] in H1. subst k.
      apply Nat.ltb_lt in H2. rewrite H2. unfold name_of. rewrite H3, H4, str_eqb_refl. cbn [andb omres_eqb].
      rewrite mres_eqb_refl, str_eqb_refl. cbn [andb]. apply not_served_below. exact H5.
    + pose proof (find_loc_none_inv _ _ _ _ E) as N.
      assert (NS : forallb (fun j => negb (served names ol f j)) (seq 0 (length names)) = true).
      { apply forallb_forall. intros j Hj. apply in_seq in Hj. unfold served, name_of.
        destruct (str_eqb (nth j names []) f) eqn:F; [|reflexivity].
        apply str_eqb_eq in F. rewrite (N j ltac:(lia) F). reflexivity. }
      destruct od as [r|]; cbn [nonempty negb omres_eqb is_some andb]; [rewrite mres_eqb_refl|]; exact NS.
  - destruct od as [r|]; cbn [nonempty negb omres_eqb is_some andb]; [rewrite mres_eqb_refl|]; reflexivity.
Qed.

(** * the fragment over a history of switches *)
Lemma fragment_of_hash_part : forall h, fragment_of (hash_part h) = fragment_of h.
Proof.
  intros h. unfold hash_part. destruct h as [|c r]; [reflexivity|]. cbn [nonempty starts_with_hash].
  destruct (c =? hashc) eqn:E; [reflexivity|]. cbn [fragment_of]. rewrite N.eqb_refl, E. reflexivity.
Qed.

Lemma reparse_browser_fragment : forall h, fragment_of (reparse_hash true (hash_part h)) = fragment_of h.
Proof.
  intros h. unfold reparse_hash. rewrite fragment_of_hash_part.
  destruct (fragment_of h) as [|c r] eqn:E; [reflexivity|]. cbn [nonempty fragment_of]. rewrite N.eqb_refl. reflexivity.
Qed.

(** on the client the fragment never changes, however many switches are made *)
Theorem fragment_no_growth : forall n h, fragment_of (hash_after hash_part true n h) = fragment_of h.
Proof.
  induction n as [|n IH]; intro h; [reflexivity|]. cbn [hash_after]. rewrite IH. apply reparse_browser_fragment.
Qed.

(** with a test double that reports the bare fragment the same holds as long as the fragment does
    not itself start with '#' (then the bare form is indistinguishable from the browser form) *)
Theorem fragment_no_growth_bare : forall n h, starts_with_hash (fragment_of h) = false ->
  fragment_of (hash_after hash_part false n h) = fragment_of h.
Proof.
  induction n as [|n IH]; intros h H; [reflexivity|]. cbn [hash_after].
  assert (E : fragment_of (reparse_hash false (hash_part h)) = fragment_of h).
  { unfold reparse_hash. rewrite fragment_of_hash_part.
    destruct (fragment_of h) as [|c r] eqn:F; [reflexivity|]. cbn [starts_with_hash] in H. cbn [fragment_of]. rewrite H. reflexivity. }
  rewrite IH; rewrite E; [reflexivity|exact H].
Qed.
