(** Executable correspondence predicate for C13: evaluated on harness-generated case files.
    A case holds the configured names (the independent description of the input) and what the compiled
    enum answered; locale values are identified by the index of their variant identifier in the
    configured list (an identifier the harness cannot place gets an out-of-range index). *)
From Coq Require Import List NArith Bool Arith.
Import ListNotations.
From LI Require Import Base.StrOps Runtime.LocaleId.
Open Scope N_scope.

Definition on (o : option N) : option nat := option_map N.to_nat o.
Definition dir_of_code (c : N) : direction := match c with 0 => LeftToRight | 1 => RightToLeft | _ => Auto end.

(** the JSON text of a plain string (no quote, backslash or control character) is the string between quotes *)
Definition json_plain (c : char) : bool := negb ((c <? 32) || (c =? 34) || (c =? 92)).
Definition json_unquote (j : str) : option str :=
  match j with
  | 34 :: r => match rev r with
               | 34 :: m => let s := rev m in if forallb json_plain s then Some s else None
               | _ => None
               end
  | _ => None
  end.

Record row_case := mk_row_case {
  rc_names : list str;
  rc_idx : N;                            (* position in get_all of the value observed (= its variant index) *)
  rc_ident : N;                          (* index of its Debug identifier in the configured list *)
  rc_oracle : option (str * str * N);    (* icu_locid/icu_locid_transform on the configured name: locale, langid, direction *)
  rc_as_str : str; rc_display : str; rc_as_ref : str;
  rc_json : str;                         (* serde_json::to_string *)
  rc_cookie : str;
  rc_back_from_str : option N; rc_back_display : option N; rc_back_serde : option N; rc_back_cookie : option N;
  rc_icu : str; rc_langid : str; rc_dir : N;
  rc_refs_ok : bool;                     (* AsRef<Locale>/AsRef<LanguageIdentifier> agree with as_icu_locale/as_langid *)
  rc_base : N }.                         (* to_base_locale, by identifier *)

Record parse_case := mk_parse_case {
  pc_names : list str;
  pc_input : str;
  pc_from_str : option N;
  pc_serde : option N;
  pc_cookie : option N }.

Record all_case := mk_all_case {
  ac_names : list str;
  ac_default : N;
  ac_all : list N }.

Inductive case := CRow (c : row_case) | CParse (c : parse_case) | CAll (c : all_case).

(** the modelled domain: what the config loader / the macro accept *)
Definition valid_names (names : list str) : bool :=
  match names with [] => false | _ => true end
  && forallb (fun n => str_eqb (trim n) n) names
  && (fix nd (l : list str) := match l with [] => true | x :: r => negb (existsb (str_eqb x) r) && nd r end) names.

Definition opt_str_same (a b : option str) : bool :=
  match a, b with Some x, Some y => str_eqb x y | None, None => true | _, _ => false end.
Definition opt_dir_same (a b : option direction) : bool :=
  match a, b with Some x, Some y => direction_eqb x y | None, None => true | _, _ => false end.
Definition row_obs_eqb (a b : row_obs) : bool :=
  str_eqb (r_as_str a) (r_as_str b) && str_eqb (r_display a) (r_display b) && str_eqb (r_as_ref a) (r_as_ref b)
  && str_eqb (r_serialized a) (r_serialized b) && str_eqb (r_cookie a) (r_cookie b)
  && opt_nat_eqb (r_back_from_str a) (r_back_from_str b) && opt_nat_eqb (r_back_display a) (r_back_display b)
  && opt_nat_eqb (r_back_serde a) (r_back_serde b) && opt_nat_eqb (r_back_cookie a) (r_back_cookie b)
  && opt_str_same (r_icu a) (r_icu b) && opt_str_same (r_langid a) (r_langid b)
  && opt_dir_same (r_direction a) (r_direction b).

Definition check_row (c : row_case) : N :=
  let names := rc_names c in
  let i := N.to_nat (rc_idx c) in
  if negb (valid_names names) then 1 else
  match json_unquote (rc_json c), nth_error names i with
  | Some ser, Some name =>
      let q := match rc_oracle c with
               | Some (a, b, d) => Some (a, b, match d with 0 => Some false | 1 => Some true | _ => None end)
               | None => None
               end in
      let obs := mk_row_obs (rc_as_str c) (rc_display c) (rc_as_ref c) ser (rc_cookie c)
                   (on (rc_back_from_str c)) (on (rc_back_display c)) (on (rc_back_serde c)) (on (rc_back_cookie c))
                   (Some (rc_icu c)) (Some (rc_langid c)) (Some (dir_of_code (rc_dir c))) in
      let parse := fun n : str => if str_eqb n name then q else None in
      if negb (spec_row names i (oracle_of q) obs && rc_refs_ok c && (rc_ident c =? rc_idx c) && (rc_base c =? rc_idx c))
      then 3
      else if negb (row_obs_eqb obs (model_row parse names i)) then 2 else 0
  | _, _ => 3
  end.

Definition parse_obs_eqb (a b : parse_obs) : bool :=
  opt_nat_eqb (o_from_str a) (o_from_str b) && opt_nat_eqb (o_serde a) (o_serde b)
  && opt_nat_eqb (o_cookie a) (o_cookie b).

Definition check_parse (c : parse_case) : N :=
  let names := pc_names c in
  if negb (valid_names names) then 1 else
  let obs := mk_parse_obs (on (pc_from_str c)) (on (pc_serde c)) (on (pc_cookie c)) in
  if negb (spec_parse names (pc_input c) obs) then 3
  else if negb (parse_obs_eqb obs (model_parse names (pc_input c))) then 2 else 0.

Fixpoint list_nat_eqb (a b : list nat) : bool :=
  match a, b with
  | [], [] => true
  | x :: r, y :: t => Nat.eqb x y && list_nat_eqb r t
  | _, _ => false
  end.

Definition check_all (c : all_case) : N :=
  let names := ac_names c in
  if negb (valid_names names) then 1 else
  let all := map N.to_nat (ac_all c) in
  if negb (spec_all names (N.to_nat (ac_default c)) all) then 3
  else if negb (list_nat_eqb all (get_all names) && Nat.eqb (N.to_nat (ac_default c)) default_variant) then 2 else 0.

(** 0 = agree and spec holds; 1 = outside the modelled domain; 2 = implementation differs from the model
    (spec holds); 3 = spec violated *)
Definition check (c : case) : N :=
  match c with
  | CRow r => check_row r
  | CParse p => check_parse p
  | CAll a => check_all a
  end.
