(** Proofs about component-level providers (Runtime/Provider.v): the owner-arena model of `run_as_children` scopes
    lexically; lookups are stable; the compiled operations create handles on the lexically denoted contexts. *)
From Coq Require Import List NArith Bool Arith Lia.
Import ListNotations.
From LI Require Import Runtime.Resolve.
From LI Require Import Runtime.Context.
From LI Require Import Runtime.ContextProofs.
From LI Require Import Runtime.Provider.
Open Scope N_scope.

Scheme node_mut := Induction for node Sort Prop
  with forest_mut := Induction for forest Sort Prop.
Combined Scheme node_forest_ind from node_mut, forest_mut.

(** every allocated owner's chain stays inside the allocated owners *)
Definition OInv (st : ostate) : Prop :=
  forall o x, (o < os_n st)%nat -> In x (os_chain st o) -> (x < os_n st)%nat.
(** [st'] extends [st]: the allocated owners keep their chain and what is provided at them *)
Definition Ext (st st' : ostate) : Prop :=
  (os_n st <= os_n st')%nat /\
  (forall x, (x < os_n st)%nat -> os_chain st' x = os_chain st x) /\
  (forall x, (x < os_n st)%nat -> os_prov st' x = os_prov st x).

Lemma Ext_refl st : Ext st st.
Proof. repeat split; auto. Qed.
Lemma Ext_trans a b c : Ext a b -> Ext b c -> Ext a c.
Proof.
  intros [N1 [C1 P1]] [N2 [C2 P2]]. repeat split; [lia | |].
  - intros x Hx. rewrite C2 by lia. apply C1. exact Hx.
  - intros x Hx. rewrite P2 by lia. apply P1. exact Hx.
Qed.

Lemma first_prov_ext p q ch : (forall x, In x ch -> p x = q x) -> first_prov p ch = first_prov q ch.
Proof.
  induction ch as [|o r IH]; intros H; cbn [first_prov]; [reflexivity|].
  rewrite (H o (or_introl eq_refl)). destruct (q o); [reflexivity|]. apply IH. intros x Hx. apply H. right. exact Hx.
Qed.

(** use_context from an owner that already existed gives what it gave *)
Lemma lookup_frame st st' o : OInv st -> Ext st st' -> (o < os_n st)%nat -> os_lookup st' o = os_lookup st o.
Proof.
  intros I [_ [C P]] Ho. unfold os_lookup. rewrite (C o Ho). apply first_prov_ext.
  intros x Hx. apply P. eapply I; eauto.
Qed.

Definition good_node (n : node) : Prop :=
  forall o st cur st' evs, OInv st -> (o < os_n st)%nat -> os_lookup st o = Some cur ->
    rc_node false n o st = (st', evs) ->
    OInv st' /\ Ext st st' /\ os_nctx st' = fst (rl_node n cur (os_nctx st)) /\
    map lex_of evs = map Some (snd (rl_node n cur (os_nctx st))) /\
    (forall ow r, In (CProbe ow r) evs -> (ow < os_n st')%nat /\ os_lookup st' ow = r).
Definition good_forest (f : forest) : Prop :=
  forall o st cur st' evs, OInv st -> (o < os_n st)%nat -> os_lookup st o = Some cur ->
    rc_forest false f o st = (st', evs) ->
    OInv st' /\ Ext st st' /\ os_nctx st' = fst (rl_forest f cur (os_nctx st)) /\
    map lex_of evs = map Some (snd (rl_forest f cur (os_nctx st))) /\
    (forall ow r, In (CProbe ow r) evs -> (ow < os_n st')%nat /\ os_lookup st' ow = r).

Lemma good_all : (forall n, good_node n) /\ (forall f, good_forest f).
Proof.
  apply node_forest_ind.
  - (* NLookup *)
    intros o st cur st' evs I Ho L E. cbn [rc_node] in E. injection E as <- <-. cbn [rl_node fst snd map lex_of].
    rewrite L. split; [exact I|]. split; [apply Ext_refl|]. split; [reflexivity|]. split; [reflexivity|].
    intros ow r [H|[]]. injection H as <- <-. split; [exact Ho | exact L].
  - (* NSub *)
    intros w ck ch IH o st cur st' evs I Ho L E. cbn [rc_node os_new_ctx os_child os_n os_chain os_prov os_nctx] in E.
    set (n := os_n st) in *.
    set (st3 := os_provide (mk_os (S n) (upd (os_chain st) n (n :: os_chain st o)) (os_prov st) (S (os_nctx st))) n (os_nctx st)) in *.
    destruct (rc_forest false ch n st3) as [st4 evs4] eqn:E4. injection E as <- <-.
    assert (I3 : OInv st3).
    { intros x y Hx Hy. cbn in Hx, Hy |- *. unfold upd in Hy. destruct (Nat.eqb_spec x n) as [->|Hne].
      - destruct Hy as [<-|Hy]; [lia|]. pose proof (I o y Ho Hy). fold n in H. lia.
      - assert (Hx' : (x < n)%nat) by lia. pose proof (I x y Hx' Hy). fold n in H. lia. }
    assert (X3 : Ext st st3).
    { repeat split; cbn; fold n; [lia | |]; intros x Hx; unfold upd; destruct (Nat.eqb_spec x n); try lia; reflexivity. }
    assert (L3 : os_lookup st3 n = Some (os_nctx st)).
    { unfold os_lookup. cbn. unfold upd. rewrite Nat.eqb_refl. cbn [first_prov]. rewrite Nat.eqb_refl. reflexivity. }
    assert (Hn3 : (n < os_n st3)%nat) by (cbn; lia).
    destruct (IH n st3 (os_nctx st) st4 evs4 I3 Hn3 L3 E4) as [I4 [X4 [N4 [M4 PR4]]]].
    cbn [rl_node]. change (os_nctx st3) with (S (os_nctx st)) in N4, M4.
    destruct (rl_forest ch (os_nctx st) (S (os_nctx st))) as [n' levs] eqn:EL. cbn [fst snd] in *.
    split; [exact I4|]. split; [eapply Ext_trans; eauto|]. split; [exact N4|]. split.
    + cbn [map lex_of]. rewrite L, L3. cbn [lex_of]. rewrite M4. reflexivity.
    + intros ow r [H|[H|H]]; [discriminate | | apply PR4; exact H].
      injection H as <- <-. split; [destruct X4; lia|]. apply (lookup_frame st3 st4 n I3 X4 Hn3).
  - (* FNil *)
    intros o st cur st' evs I Ho L E. cbn [rc_forest] in E. injection E as <- <-. cbn.
    split; [exact I|]. split; [apply Ext_refl|]. split; [reflexivity|]. split; [reflexivity|]. intros ow r [].
  - (* FCons *)
    intros n IHn r IHr o st cur st' evs I Ho L E. cbn [rc_forest] in E.
    destruct (rc_node false n o st) as [st1 e1] eqn:E1. destruct (rc_forest false r o st1) as [st2 e2] eqn:E2.
    injection E as <- <-.
    destruct (IHn o st cur st1 e1 I Ho L E1) as [I1 [X1 [N1 [M1 PR1]]]].
    assert (Ho1 : (o < os_n st1)%nat) by (destruct X1; lia).
    assert (L1 : os_lookup st1 o = Some cur) by (rewrite (lookup_frame st st1 o I X1 Ho); exact L).
    destruct (IHr o st1 cur st2 e2 I1 Ho1 L1 E2) as [I2 [X2 [N2 [M2 PR2]]]].
    cbn [rl_forest]. destruct (rl_node n cur (os_nctx st)) as [n1 l1] eqn:EL1. cbn [fst snd] in *.
    rewrite N1 in N2, M2. destruct (rl_forest r cur n1) as [n2 l2] eqn:EL2. cbn [fst snd] in *.
    split; [exact I2|]. split; [eapply Ext_trans; eauto|]. split; [exact N2|]. split.
    + rewrite !map_app, M1, M2. reflexivity.
    + intros ow rr Hin. apply in_app_or in Hin as [Hin|Hin].
      * destruct (PR1 ow rr Hin) as [A B]. split; [destruct X2; lia|].
        rewrite (lookup_frame st1 st2 ow I1 X2 A). exact B.
      * apply PR2. exact Hin.
Qed.

(** lexical scoping of the providers, for every forest (any nesting, any number of sibling providers, any lookup
    positions) rendered under any owner [o] whose lookup gives [cur]:
      - every lookup made while rendering denotes the context of the innermost enclosing provider, else [cur]
        (the events are the lexical ones);
      - every owner that existed before — [o] itself, where the siblings after a provider are rendered, and everything
        outside the forest — still looks up what it did: a provider is invisible outside its subtree;
      - a lookup repeated later under the owner of a probe (an accessor that evaluates `use_i18n()` when rendered)
        gives what the probe got. *)
Theorem provider_scoping f o st cur :
  OInv st -> (o < os_n st)%nat -> os_lookup st o = Some cur ->
  let res := rc_forest false f o st in
  map lex_of (snd res) = map Some (snd (rl_forest f cur (os_nctx st))) /\
  (forall ow, (ow < os_n st)%nat -> os_lookup (fst res) ow = os_lookup st ow) /\
  (forall ow r, In (CProbe ow r) (snd res) -> os_lookup (fst res) ow = r).
Proof.
  intros I Ho L res. destruct (rc_forest false f o st) as [st' evs] eqn:E. subst res. cbn [fst snd].
  destruct (proj2 good_all f o st cur st' evs I Ho L E) as [I' [X [_ [M PR]]]].
  split; [exact M|]. split.
  - intros ow Hw. apply lookup_frame; auto.
  - intros ow r Hin. apply PR. exact Hin.
Qed.

(** * The compiled operations create the handles of the lexical probes *)
Definition den_node (n : node) : Prop :=
  forall a curh cur, node_wf (a_nus a) n = true -> (curh < a_nh a)%nat -> a_hctx a curh = cur -> (cur < a_nctx a)%nat ->
    let r := compile_node n curh cur (a_nh a) (a_nctx a) in
    let a' := a_run a (snd r) in
    let ps := probes (snd (rl_node n cur (a_nctx a))) in
    a_nh a' = fst (fst r) /\ a_nctx a' = snd (fst r) /\ a_nh a' = (a_nh a + length ps)%nat /\
    a_nctx a' = fst (rl_node n cur (a_nctx a)) /\ (a_nctx a <= a_nctx a')%nat /\ a_nus a' = a_nus a /\
    (forall k, (k < length ps)%nat -> a_hctx a' (a_nh a + k) = nth k ps O) /\
    (forall h, (h < a_nh a)%nat -> a_hctx a' h = a_hctx a h).
Definition den_forest (f : forest) : Prop :=
  forall a curh cur, forest_wf (a_nus a) f = true -> (curh < a_nh a)%nat -> a_hctx a curh = cur -> (cur < a_nctx a)%nat ->
    let r := compile_forest f curh cur (a_nh a) (a_nctx a) in
    let a' := a_run a (snd r) in
    let ps := probes (snd (rl_forest f cur (a_nctx a))) in
    a_nh a' = fst (fst r) /\ a_nctx a' = snd (fst r) /\ a_nh a' = (a_nh a + length ps)%nat /\
    a_nctx a' = fst (rl_forest f cur (a_nctx a)) /\ (a_nctx a <= a_nctx a')%nat /\ a_nus a' = a_nus a /\
    (forall k, (k < length ps)%nat -> a_hctx a' (a_nh a + k) = nth k ps O) /\
    (forall h, (h < a_nh a)%nat -> a_hctx a' h = a_hctx a h).

Lemma probes_app x y : probes (x ++ y) = probes x ++ probes y.
Proof. induction x as [|[c|p w ck] r IH]; cbn [probes List.app]; [reflexivity | rewrite IH; reflexivity | exact IH]. Qed.

Lemma den_all : (forall n, den_node n) /\ (forall f, den_forest f).
Proof.
  apply node_forest_ind.
  - (* NLookup *)
    intros a curh cur _ Hh Hc Hcur. cbn [compile_node rl_node snd fst probes length a_run fold_left a_step].
    unfold a_scope. apply Nat.ltb_lt in Hh. rewrite Hh. cbn. apply Nat.ltb_lt in Hh.
    repeat split; try lia.
    + intros k Hk. assert (k = O) by lia. subst k. rewrite Nat.add_0_r. unfold upd. rewrite Nat.eqb_refl. exact Hc.
    + intros h Hlt. unfold upd. destruct (Nat.eqb_spec h (a_nh a)); [lia | reflexivity].
  - (* NSub *)
    intros w ck ch IH a curh cur W Hh Hc Hcur. cbn [node_wf] in W. apply andb_true_iff in W as [W1 W2].
    cbn [compile_node rl_node].
    set (a1 := a_step a (ONewSub cur w ck)).
    assert (E1 : a1 = mk_as (S (a_nctx a))
                   (upd (a_loc a) (a_nctx a) (listener_first (cookie_of ck) (option_map (a_us a) w) (a_loc a cur)))
                   (upd (a_wire a) (a_nctx a) w)
                   (upd (a_meta a) (a_nctx a) (mk_meta (listener_first (cookie_of ck) (option_map (a_us a) w) (a_loc a cur)) false (is_some ck) None true))
                   (a_nus a) (a_us a) (S (a_nh a)) (upd (a_hctx a) (a_nh a) (a_nctx a)) (a_nacc a) (a_acc a) (a_nw a) (a_wctx a) (a_wm a)).
    { unfold a1. cbn [a_step]. unfold a_new_sub. apply Nat.ltb_lt in Hcur. rewrite Hcur, W1. reflexivity. }
    assert (Hn1 : a_nh a1 = S (a_nh a)) by (rewrite E1; reflexivity).
    assert (Hc1 : a_nctx a1 = S (a_nctx a)) by (rewrite E1; reflexivity).
    assert (Hu1 : a_nus a1 = a_nus a) by (rewrite E1; reflexivity).
    assert (Hh1 : a_hctx a1 (a_nh a) = a_nctx a) by (rewrite E1; cbn; unfold upd; rewrite Nat.eqb_refl; reflexivity).
    assert (Hold1 : forall h, (h < a_nh a)%nat -> a_hctx a1 h = a_hctx a h).
    { intros h Hlt. rewrite E1. cbn. unfold upd. destruct (Nat.eqb_spec h (a_nh a)); [lia | reflexivity]. }
    assert (W2' : forest_wf (a_nus a1) ch = true) by (rewrite Hu1; exact W2).
    assert (Hlt1 : (a_nh a < a_nh a1)%nat) by lia.
    assert (Hcur1 : (a_nctx a < a_nctx a1)%nat) by lia.
    specialize (IH a1 (a_nh a) (a_nctx a) W2' Hlt1 Hh1 Hcur1). rewrite Hn1, Hc1 in IH.
    destruct (compile_forest ch (a_nh a) (a_nctx a) (S (a_nh a)) (S (a_nctx a))) as [[nh' nctx'] ops] eqn:EC.
    destruct (rl_forest ch (a_nctx a) (S (a_nctx a))) as [n' levs] eqn:EL.
    cbn [fst snd] in IH |- *. cbn [probes length].
    change (a_run a (ONewSub cur w ck :: ops)) with (a_run a1 ops).
    destruct IH as [A1 [A2 [A3 [A4 [A5 [A6 [A7 A8]]]]]]].
    repeat split; try assumption; try lia.
    + intros k Hk. destruct k as [|j].
      * rewrite Nat.add_0_r. rewrite A8 by lia. exact Hh1.
      * replace (a_nh a + S j)%nat with (S (a_nh a) + j)%nat by lia. rewrite A7 by lia. reflexivity.
    + intros h Hlt. rewrite A8 by lia. apply Hold1. exact Hlt.
  - (* FNil *)
    intros a curh cur _ Hh Hc Hcur. cbn. repeat split; auto; try lia.
  - (* FCons *)
    intros n IHn r IHr a curh cur W Hh Hc Hcur. cbn [forest_wf] in W. apply andb_true_iff in W as [W1 W2].
    cbn [compile_forest rl_forest].
    specialize (IHn a curh cur W1 Hh Hc Hcur).
    destruct (compile_node n curh cur (a_nh a) (a_nctx a)) as [[nh1 nctx1] o1] eqn:EC1.
    destruct (rl_node n cur (a_nctx a)) as [n1 l1] eqn:EL1. cbn [fst snd] in IHn.
    destruct IHn as [A1 [A2 [A3 [A4 [A5 [A6 [A7 A8]]]]]]].
    set (a1 := a_run a o1) in *.
    assert (W2' : forest_wf (a_nus a1) r = true) by (rewrite A6; exact W2).
    assert (Hh' : (curh < a_nh a1)%nat) by lia.
    assert (Hc' : a_hctx a1 curh = cur) by (rewrite A8 by exact Hh; exact Hc).
    assert (Hcur' : (cur < a_nctx a1)%nat) by lia.
    specialize (IHr a1 curh cur W2' Hh' Hc' Hcur'). rewrite A1, A2 in IHr.
    assert (En : n1 = nctx1) by congruence. subst n1.
    destruct (compile_forest r curh cur nh1 nctx1) as [[nh2 nctx2] o2] eqn:EC2.
    destruct (rl_forest r cur nctx1) as [n2 l2] eqn:EL2. cbn [fst snd] in IHr |- *.
    destruct IHr as [B1 [B2 [B3 [B4 [B5 [B6 [B7 B8]]]]]]].
    assert (ER : a_run a (o1 ++ o2) = a_run a1 o2) by (unfold a_run, a1; rewrite fold_left_app; reflexivity).
    rewrite ER, En, EL2. cbn [fst snd]. rewrite probes_app, app_length.
    repeat split; try assumption; try lia; try congruence.
    + intros k Hk. destruct (Nat.ltb_spec k (length (probes l1))) as [Hlt|Hge].
      * rewrite app_nth1 by exact Hlt. rewrite B8 by lia. apply A7. exact Hlt.
      * rewrite app_nth2 by exact Hge. rewrite <- (B7 (k - length (probes l1))%nat) by lia. f_equal. lia.
    + intros h Hlt. rewrite B8 by lia. apply A8. exact Hlt.
Qed.

(** for every forest rendered on handle [curh] of any abstract state: the compiled operations create exactly one new
    handle per lookup position, denoting the lexically scoped context of that position; the handles that existed keep
    their context *)
Theorem compile_denotes f a curh :
  forest_wf (a_nus a) f = true -> (curh < a_nh a)%nat -> (a_hctx a curh < a_nctx a)%nat ->
  let cur := a_hctx a curh in
  let a' := a_run a (snd (compile_forest f curh cur (a_nh a) (a_nctx a))) in
  let ps := probes (snd (rl_forest f cur (a_nctx a))) in
  a_nh a' = (a_nh a + length ps)%nat /\
  (forall k, (k < length ps)%nat -> a_hctx a' (a_nh a + k) = nth k ps O) /\
  (forall h, (h < a_nh a)%nat -> a_hctx a' h = a_hctx a h).
Proof.
  intros W Hh Hcur cur a' ps.
  destruct (proj2 den_all f a curh cur W Hh eq_refl Hcur) as [_ [_ [A3 [_ [_ [_ [A7 A8]]]]]]].
  split; [exact A3|]. split; [exact A7 | exact A8].
Qed.

(** the initial owner state of a scenario: one owner, the root context provided at it *)
Definition os_init : ostate := mk_os 1 (fun _ => [O]) (fun o => if Nat.eqb o 0 then Some O else None) 1.
Lemma os_init_inv : OInv os_init.
Proof. intros o x Ho [<-|[]]. cbn. lia. Qed.

(** * Non-vacuity and sensitivity: Header / provider(Inner) / Footer, nested providers, sibling providers *)
Definition ex_page : forest :=
  FCons NLookup (FCons (NSub None None (FCons NLookup FNil)) (FCons NLookup FNil)).
Example ex_page_lexical :
  map lex_of (snd (rc_forest false ex_page 0 os_init)) =
  [Some (LProbe 0); Some (LNew 0 None None); Some (LProbe 1); Some (LProbe 1); Some (LProbe 0)].
Proof. vm_compute. reflexivity. Qed.
(** the variant providing at the caller's owner: the footer gets the sub-context, and a lazy lookup under the header's
    owner changes its answer *)
Example ex_page_bug_refuted :
  map lex_of (snd (rc_forest true ex_page 0 os_init)) =
  [Some (LProbe 0); Some (LNew 0 None None); Some (LProbe 1); Some (LProbe 1); Some (LProbe 1)]
  /\ os_lookup (fst (rc_forest true ex_page 0 os_init)) 0%nat = Some 1%nat.
Proof. vm_compute. split; reflexivity. Qed.
Definition ex_nested : forest :=
  FCons (NSub None None (FCons (NSub None None (FCons NLookup FNil)) (FCons NLookup FNil)))
        (FCons (NSub None None FNil) (FCons NLookup FNil)).
Example ex_nested_lexical :
  probes (snd (rl_forest ex_nested 0 1)) = [1; 2; 2; 1; 3; 0]%nat.
Proof. vm_compute. reflexivity. Qed.
