(** Model of the formatter cache of leptos_i18n/src/macro_helpers/formatting/mod.rs — property C18.
    Mirrors [get_num_formatter] / [get_date_formatter] / [get_time_formatter] /
    [get_datetime_formatter] / [get_list_formatter] / [get_currency_formatter]:

      FORMATTERS.with_mut(|formatters| {
          let inner = formatters.<kind>.entry(locale).or_default();
          *inner.entry(options).or_insert_with(|| Box::leak(Box::new(make(locale, options))))
      })

    [with_mut] takes the write lock of a [RwLock] for the whole closure, so one call is
    one atomic step.  The two nested [HashMap]s are association lists (they are never
    iterated).  The kind of formatter is part of [opts].  [make] (construction of an
    ICU4X formatter from the provider; [None] = ICU4X refuses the options, the
    [.expect("A ..Formatter")] inside the closure panics) and [icu] (formatting a value
    with it) are abstract: ICU4X is an oracle, never modelled.

    [with_mut] recovers a poisoned lock (repaired code, fixes/C18-poisoned-formatter-cache.diff):
    a call whose formatter cannot be built panics, later calls are unaffected.  The code
    before the repair ([mutex.write().unwrap()]: once a closure has panicked every later
    call panics) is kept as [step_old]/[run_old].  No proofs in this file. *)
From Coq Require Import List Arith Bool.
Import ListNotations.

Section Cache.
  Variables locale opts fmt value out : Type.
  Variable loc_eqb : locale -> locale -> bool.
  Variable opt_eqb : opts -> opts -> bool.
  Variable make : locale -> opts -> option fmt.
  Variable icu : fmt -> value -> out.

  Definition inner := list (opts * fmt).
  Definition cache := list (locale * inner).

  (** [entry(o).or_insert_with(|| fresh.expect(..))]: [None] = the closure panics, nothing is inserted *)
  Fixpoint inner_get_or_insert (m : inner) (o : opts) (fresh : option fmt) : inner * option fmt :=
    match m with
    | [] => match fresh with Some f => ([(o, f)], Some f) | None => ([], None) end
    | (o', f') :: r =>
        if opt_eqb o' o then (m, Some f')
        else let '(r', f) := inner_get_or_insert r o fresh in ((o', f') :: r', f)
    end.

  (** [entry(l).or_default()] (inserts an empty inner map if absent, also when the closure
      then panics) followed by the inner get-or-insert *)
  Fixpoint get_or_insert (c : cache) (l : locale) (o : opts) : cache * option fmt :=
    match c with
    | [] => let '(m, f) := inner_get_or_insert [] o (make l o) in ([(l, m)], f)
    | (l', m) :: r =>
        if loc_eqb l' l then let '(m', f) := inner_get_or_insert m o (make l o) in ((l', m') :: r, f)
        else let '(r', f) := get_or_insert r l o in ((l', m) :: r', f)
    end.

  (** one formatting call: format_*_to_display(locale, value, options) *)
  Definition call := (locale * opts * value)%type.
  Definition c_loc (c : call) : locale := fst (fst c).
  Definition c_opts (c : call) : opts := snd (fst c).
  Definition c_val (c : call) : value := snd c.

  (** what a call gives its caller *)
  Inductive outcome := Out (o : out) | Panicked.

  Definition do_call (c : cache) (k : call) : cache * outcome :=
    let '(c', f) := get_or_insert c (c_loc k) (c_opts k) in
    (c', match f with Some f => Out (icu f (c_val k)) | None => Panicked end).

  (** what the property demands of a call: ICU formatting of the value with the declared
      options for the locale, whatever happened before (a panic exactly when ICU4X itself
      cannot build a formatter for these options) *)
  Definition icu_fmt (k : call) : outcome :=
    match make (c_loc k) (c_opts k) with
    | Some f => Out (icu f (c_val k))
    | None => Panicked
    end.

  (** * threads: every thread has a program (the calls it will make, in order); a
      schedule is the order in which threads get the lock *)
  Record state := mk_state {
    st_cache : cache;
    st_pending : list (list call);          (* per thread: calls not made yet *)
    st_log : list (nat * call * outcome) }. (* (thread, call, what it got), oldest first *)

  Fixpoint set_nth {A} (n : nat) (x : A) (l : list A) : list A :=
    match l, n with
    | [], _ => []
    | _ :: r, O => x :: r
    | y :: r, S n' => y :: set_nth n' x r
    end.

  Definition step (s : state) (t : nat) : state :=
    match nth_error (st_pending s) t with
    | Some (k :: rest) =>
        let '(c', o) := do_call (st_cache s) k in
        mk_state c' (set_nth t rest (st_pending s)) (st_log s ++ [(t, k, o)])
    | _ => s      (* no such thread, or it has finished: nothing happens *)
    end.

  Definition run (sched : list nat) (s : state) : state := fold_left step sched s.
  Definition init (progs : list (list call)) : state := mk_state [] progs [].

  Definition complete (s : state) : Prop := Forall (fun p => p = []) (st_pending s).

  (** the outputs thread [t] saw, in its own order *)
  Fixpoint results_of (t : nat) (log : list (nat * call * outcome)) : list (call * outcome) :=
    match log with
    | [] => []
    | (t', k, o) :: r => if Nat.eqb t' t then (k, o) :: results_of t r else results_of t r
    end.

  (** the same program executed by one thread with nothing else running *)
  Fixpoint run_seq (c : cache) (p : list call) : list (call * outcome) :=
    match p with
    | [] => []
    | k :: r => let '(c', o) := do_call c k in (k, o) :: run_seq c' r
    end.

  (** * the code before the repair: a panic inside [with_mut] poisons the lock *)
  Record state_old := mk_state_old { so_state : state; so_poisoned : bool }.

  Definition step_old (s : state_old) (t : nat) : state_old :=
    match nth_error (st_pending (so_state s)) t with
    | Some (k :: rest) =>
        if so_poisoned s then
          (* mutex.write().unwrap() panics before the closure runs *)
          mk_state_old (mk_state (st_cache (so_state s)) (set_nth t rest (st_pending (so_state s)))
                                 (st_log (so_state s) ++ [(t, k, Panicked)])) true
        else
          let '(c', o) := do_call (st_cache (so_state s)) k in
          mk_state_old (mk_state c' (set_nth t rest (st_pending (so_state s))) (st_log (so_state s) ++ [(t, k, o)]))
                       (match o with Panicked => true | Out _ => false end)
    | _ => s
    end.

  Definition run_old (sched : list nat) (s : state_old) : state_old := fold_left step_old sched s.
  Definition init_old (progs : list (list call)) : state_old := mk_state_old (init progs) false.
End Cache.
