(** Proofs about the extended machines of Runtime/ContextAcc.v (accessor flavours, frozen observers). *)
From Coq Require Import List NArith Bool Arith Lia.
Import ListNotations.
From LI Require Import Runtime.Resolve.
From LI Require Import Runtime.Context.
From LI Require Import Runtime.ContextProofs.
From LI Require Import Runtime.ContextAcc.
Open Scope N_scope.

(** * Erasure *)
Lemma xc_fst_run xs xops : fst (xc_run xs xops) = c_run (fst xs) (map erase xops).
Proof.
  revert xs; induction xops as [|x r IH]; intros xs; cbn [xc_run c_run fold_left map]; [reflexivity|].
  change (fold_left xc_step r (xc_step xs x)) with (xc_run (xc_step xs x) r). rewrite IH. reflexivity.
Qed.

Lemma xa_fst_run xa xops : fst (xa_run xa xops) = a_run (fst xa) (map erase xops).
Proof.
  revert xa; induction xops as [|x r IH]; intros xa; cbn [xa_run a_run fold_left map]; [reflexivity|].
  change (fold_left xa_step r (xa_step xa x)) with (xa_run (xa_step xa x) r). rewrite IH. reflexivity.
Qed.

Lemma xc_trace_base xs xops : map fst (xc_trace xs xops) = c_trace (fst xs) (map erase xops).
Proof.
  revert xs; induction xops as [|x r IH]; intros xs; cbn [xc_trace c_trace map]; [reflexivity|].
  rewrite IH. reflexivity.
Qed.

Theorem xmodel_base l0 con xops : map fst (xmodel_trace l0 con xops) = model_trace l0 con (map erase xops).
Proof. unfold xmodel_trace, model_trace. cbn [map]. rewrite xc_trace_base. reflexivity. Qed.

(** * Simulation *)
Definition XR (xs : cstate * list N) (xa : astate * list N) : Prop := R (fst xs) (fst xa) /\ snd xs = snd xa.

Lemma XR_step xs xa x : XR xs xa -> XR (xc_step xs x) (xa_step xa x).
Proof.
  intros [HR HZ]. split; cbn [xc_step xa_step fst snd].
  - apply R_step. exact HR.
  - destruct (freezes x) as [h|]; [|exact HZ].
    rewrite <- (R_nh _ _ HR). destruct (Nat.ltb_spec h (c_nh (fst xs))) as [Hh|Hh]; [|exact HZ].
    destruct (R_h _ _ HR h Hh) as [H1 H2]. rewrite H2, <- (R_loc _ _ HR _ H1), HZ. reflexivity.
Qed.

Lemma XR_obs xs xa : XR xs xa -> xc_obs xs = xa_obs xa.
Proof. intros [HR HZ]. unfold xc_obs, xa_obs. rewrite (R_obs _ _ HR), HZ. reflexivity. Qed.

Lemma XR_trace xs xa xops : XR xs xa -> xc_trace xs xops = xa_trace xa xops.
Proof.
  revert xs xa; induction xops as [|x r IH]; intros xs xa H; cbn [xc_trace xa_trace]; [reflexivity|].
  pose proof (XR_step xs xa x H) as H'. rewrite (XR_obs _ _ H'). f_equal. apply IH. exact H'.
Qed.

Lemma XR_initial l0 con : XR (c_init l0 con, []) (a_init l0 con, []).
Proof. split; [apply R_initial | reflexivity]. Qed.

Theorem x_refines l0 con xops : xmodel_trace l0 con xops = xspec_trace l0 con xops.
Proof.
  unfold xmodel_trace, xspec_trace. pose proof (XR_initial l0 con) as H.
  rewrite (XR_obs _ _ H). f_equal. apply XR_trace. exact H.
Qed.

Theorem xspec_model l0 con xops : xspec_C16 l0 con xops (xmodel_trace l0 con xops) = true.
Proof. unfold xspec_C16. rewrite xmodel_base. apply spec_C16_model. Qed.

(** * Accessors persist and keep denoting their context *)
Lemma a_accs_step a o k : (k < a_nacc a)%nat ->
  (k < a_nacc (a_step a o))%nat /\ a_acc (a_step a o) k = a_acc a k.
Proof.
  intros Hk. destruct o as [p w ck|l|u l|h' l|h' l|h'|h'|h'| |]; cbn [a_step]; auto.
  - unfold a_new_sub. destruct (_ && _); cbn; auto.
  - unfold a_write. destruct (Nat.ltb _ _); cbn; auto.
  - destruct (Nat.ltb _ _); cbn; auto.
  - destruct (Nat.ltb _ _); cbn; auto.
  - unfold a_scope. destruct (Nat.ltb _ _); cbn; auto.
  - unfold a_new_acc. destruct (Nat.ltb _ _); cbn; [|auto]. unfold upd.
    destruct (Nat.eqb_spec k (a_nacc a)); [lia|]. split; [lia | reflexivity].
  - unfold a_mount. destruct (Nat.ltb _ _); cbn; auto.
  - unfold a_flush. cbn. destruct (a_sync_all_struct (a_nctx a) a) as [_ [_ [E3 [E4 _]]]]. rewrite E3, E4. auto.
Qed.

Lemma a_accs_run a ops k : (k < a_nacc a)%nat ->
  (k < a_nacc (a_run a ops))%nat /\ a_acc (a_run a ops) k = a_acc a k.
Proof.
  revert a; induction ops as [|o r IH]; intros a Hk; cbn [a_run fold_left]; [auto|].
  destruct (a_accs_step a o k Hk) as [H1 H2].
  change (fold_left a_step r (a_step a o)) with (a_run (a_step a o) r).
  destruct (IH (a_step a o) H1) as [H3 H4]. split; [exact H3 | rewrite H4; exact H2].
Qed.

(** an accessor of any non-frozen flavour, created on handle [h] at any point of any history, is rendered — at the
    end of any continuation — as the current locale of the context [h] belonged to *)
Theorem accessor_reads_current l0 con pre h fa fb post :
  let a0 := a_run (a_init l0 con) (map erase pre) in
  (h < a_nh a0)%nat -> fl_frozen fa = false ->
  let xops := pre ++ XAcc h fa fb :: post in
  let s := fst (xc_run (c_init l0 con, []) xops) in
  let a := a_run (a_init l0 con) (map erase xops) in
  let k := a_nacc a0 in
  (k < c_nacc s)%nat /\ a_acc a k = a_hctx a0 h /\ c_ar s (c_acc s k) = a_loc a (a_hctx a0 h).
Proof.
  intros a0 Hh Hf xops s a k.
  assert (Es : s = c_run (c_init l0 con) (map erase xops)) by (unfold s; rewrite xc_fst_run; reflexivity).
  assert (Ea : a = a_run (a_step a0 (OAcc h)) (map erase post)).
  { unfold a, xops. rewrite map_app. cbn [map erase]. rewrite Hf. unfold a_run. rewrite run_app. reflexivity. }
  assert (Hk : (k < a_nacc (a_step a0 (OAcc h)))%nat /\ a_acc (a_step a0 (OAcc h)) k = a_hctx a0 h).
  { cbn [a_step]. unfold a_new_acc. apply Nat.ltb_lt in Hh. rewrite Hh. cbn. unfold upd, k. rewrite Nat.eqb_refl. split; [lia | reflexivity]. }
  destruct Hk as [Hk1 Hk2].
  destruct (a_accs_run (a_step a0 (OAcc h)) (map erase post) k Hk1) as [H1 H2]. rewrite <- Ea in H1, H2.
  destruct (views_agree l0 con (map erase xops)) as [_ [En [_ V]]]. rewrite <- Es in En, V. fold a in En, V.
  assert (Hks : (k < c_nacc s)%nat) by (rewrite En; exact H1).
  split; [exact Hks|]. split; [rewrite H2; exact Hk2|]. rewrite (V k Hks), H2, Hk2. reflexivity.
Qed.

(** the same for an accessor whose output is any function of the locale it reads: the arm a plural macro selects, the
    text a format macro produces *)
Theorem accessor_renders_current_text {T : Type} (txt : N -> T) l0 con pre h fa fb post :
  let a0 := a_run (a_init l0 con) (map erase pre) in
  (h < a_nh a0)%nat -> fl_frozen fa = false ->
  let xops := pre ++ XAcc h fa fb :: post in
  let s := fst (xc_run (c_init l0 con, []) xops) in
  let a := a_run (a_init l0 con) (map erase xops) in
  let k := a_nacc a0 in
  (k < c_nacc s)%nat /\ render_with txt s k = txt (a_loc a (a_hctx a0 h)).
Proof.
  intros a0 Hh Hf xops s a k.
  destruct (accessor_reads_current l0 con pre h fa fb post Hh Hf) as [H1 [_ H3]].
  split; [exact H1|]. unfold render_with. exact (f_equal txt H3).
Qed.

(** * Frozen observers never change *)
Lemma xc_step_frozen xs x : exists t, snd (xc_step xs x) = snd xs ++ t.
Proof.
  cbn [xc_step snd]. destruct (freezes x) as [h|]; [|exists []; rewrite app_nil_r; reflexivity].
  destruct (Nat.ltb h (c_nh (fst xs))); [eexists; reflexivity | exists []; rewrite app_nil_r; reflexivity].
Qed.

Lemma xc_run_frozen xs xops : exists t, snd (xc_run xs xops) = snd xs ++ t.
Proof.
  revert xs; induction xops as [|x r IH]; intros xs; cbn [xc_run fold_left]; [exists []; rewrite app_nil_r; reflexivity|].
  change (fold_left xc_step r (xc_step xs x)) with (xc_run (xc_step xs x) r).
  destruct (IH (xc_step xs x)) as [t1 E1]. destruct (xc_step_frozen xs x) as [t2 E2].
  exists (t2 ++ t1). rewrite E1, E2, app_assoc. reflexivity.
Qed.

(** a frozen observer (an accessor over a `Locale` value bound at creation, an effect that only reads untracked)
    created on handle [h] shows, after any continuation, what [h] read when it was created *)
Theorem frozen_observer l0 con pre x h post :
  freezes x = Some h ->
  let xs0 := xc_run (c_init l0 con, []) pre in
  (h < c_nh (fst xs0))%nat ->
  nth_error (snd (xc_run (c_init l0 con, []) (pre ++ x :: post))) (length (snd xs0))
  = Some (c_ar (fst xs0) (c_hsig (fst xs0) h)).
Proof.
  intros Hf xs0 Hh. unfold xc_run. rewrite fold_left_app. fold (xc_run (c_init l0 con, []) pre). fold xs0.
  cbn [fold_left]. change (fold_left xc_step post (xc_step xs0 x)) with (xc_run (xc_step xs0 x) post).
  destruct (xc_run_frozen (xc_step xs0 x) post) as [t E]. rewrite E.
  cbn [xc_step snd]. rewrite Hf. apply Nat.ltb_lt in Hh. rewrite Hh.
  rewrite <- app_assoc. rewrite nth_error_app2 by lia. rewrite Nat.sub_diag. reflexivity.
Qed.

(** * Mounted effects of tracked flavours *)
Lemma k_run_inv ops : forall k s,
  R s (k_a k) -> Wi (k_silent k) (k_a k) ->
  R (c_run s ops) (k_a (k_run k ops)) /\ Wi (k_silent (k_run k ops)) (k_a (k_run k ops)).
Proof.
  induction ops as [|o r IH]; intros k s HR I; cbn [k_run c_run fold_left]; [auto|].
  change (fold_left k_step r (k_step k o)) with (k_run (k_step k o) r).
  change (fold_left c_step r (c_step s o)) with (c_run (c_step s o) r).
  apply IH.
  - rewrite k_a_step. apply R_step. exact HR.
  - apply Wi_step; [exact (R_Bnd _ _ HR) | exact I].
Qed.

(** after a flush, every mounted effect (they are the effects showing an accessor of a tracked flavour) shows the
    content of the signal of its context, unless the last change of that context was a `set_locale_untracked` *)
Theorem mounted_current l0 con xops :
  let ops := map erase xops ++ [OFlush] in
  let k := k_run (k_init l0 con) ops in
  let s := c_run (c_init l0 con) ops in
  forall w, (w < c_nw s)%nat -> k_silent k (a_wctx (k_a k) w) = false ->
  fst (c_wm s w) = c_ar s (c_wsig s w).
Proof.
  intros ops k s w Hw Hs.
  assert (I0 : Wi (k_silent (k_init l0 con)) (k_a (k_init l0 con))) by (intros w' Hw'; cbn in Hw'; lia).
  destruct (k_run_inv (map erase xops) (k_init l0 con) (c_init l0 con) (R_initial l0 con) I0) as [HR1 I1].
  set (k1 := k_run (k_init l0 con) (map erase xops)) in *.
  set (s1 := c_run (c_init l0 con) (map erase xops)) in *.
  assert (Ek : k = k_step k1 OFlush) by (unfold k, ops, k_run; rewrite fold_left_app; reflexivity).
  assert (Es : s = c_step s1 OFlush) by (unfold s, ops, c_run; rewrite fold_left_app; reflexivity).
  assert (HR : R s (k_a k)) by (rewrite Ek, Es, k_a_step; apply R_step; exact HR1).
  destruct (Wi_flush (k_silent k1) (k_a k1) I1) as [I2 F2].
  assert (Eka : k_a k = a_flush (k_a k1)) by (rewrite Ek; reflexivity).
  assert (Eks : k_silent k = k_silent k1) by (rewrite Ek; reflexivity).
  rewrite Eks, Eka in Hs.
  assert (Hwa : (w < a_nw (a_flush (k_a k1)))%nat) by (rewrite <- Eka, <- (R_nw _ _ HR); exact Hw).
  destruct (R_w _ _ HR w Hw) as [B1 [B2 B3]].
  rewrite <- B3, B2, <- (R_loc _ _ HR _ B1), Eka.
  destruct (I2 w Hwa Hs) as [Q|Q]; [rewrite (F2 w) in Q; discriminate | exact Q].
Qed.

(** * Reading back a class of texts as a locale *)
Lemma find_cand_sound t r cs c : find_cand t r cs = Some c -> tbl_get t c = r.
Proof.
  induction cs as [|x cs IH]; cbn [find_cand]; [discriminate|].
  destruct (tbl_get t x =? r) eqn:E; [|exact IH]. intros H. injection H as <-. apply N.eqb_eq. exact E.
Qed.

(** with the expected locale [c] as first candidate, the rendering is read back as [c] exactly when it is the text of [c] *)
Theorem decode_iff t c cs r :
  (N.to_nat c < length t)%nat -> (length t <= 99)%nat ->
  decode (Some t) (c :: cs) r = c <-> tbl_get t c = r.
Proof.
  intros Hc Hl. unfold decode. split.
  - destruct (find_cand t r (c :: cs)) as [x|] eqn:F.
    + intros <-. eapply find_cand_sound. exact F.
    + destruct (find_cand t r (map N.of_nat (seq 0 (length t)))) as [x|] eqn:G.
      * intros <-. eapply find_cand_sound. exact G.
      * intros E. subst c. cbn in Hc. lia.
  - intros E. cbn [find_cand]. apply N.eqb_eq in E. rewrite E. reflexivity.
Qed.

(** * Non-vacuity *)
Definition fl_t_call := mk_fl MT EUseCall false.
Definition fl_tu_field := mk_fl MTu EField true.
Definition fl_td_bound := mk_fl MTd EIdent false.
Definition ex_xops : list xop :=
  [XAcc 0 fl_t_call fl_tu_field; XAcc 0 fl_td_bound fl_td_bound; XMount 0 fl_t_call; XMount 0 fl_tu_field;
   XOp (OSet 0 3); XOp OFlush; XOp (OSetU 0 2); XOp OFlush].
Example ex_xtrace :
  map (fun o => (o_accs (fst o), o_watch (fst o), snd o)) (xmodel_trace 1 false ex_xops) =
  [([], [], []); ([1], [], []); ([1], [], [1]); ([1], [1], [1]); ([1], [1], [1; 1]);
   ([3], [1], [1; 1]); ([3], [3], [1; 1]); ([2], [3], [1; 1]); ([2], [3], [1; 1])].
Proof. vm_compute. reflexivity. Qed.
(** an accessor whose context expression was evaluated once, when it was created (it keeps showing locale 1) *)
Example ex_captured_rejected :
  xspec_C16 1 false [XAcc 0 fl_t_call fl_t_call; XOp (OSet 0 3)]
    [(mk_obs [1] [] [] [None], []); (mk_obs [1] [1] [] [None], []); (mk_obs [3] [1] [] [None], [])] = false.
Proof. vm_compute. reflexivity. Qed.
(** a mounted effect of a tracked flavour that did not subscribe *)
Example ex_unsubscribed_rejected :
  xspec_C16 1 false [XMount 0 fl_t_call; XOp (OSet 0 3); XOp OFlush]
    [(mk_obs [1] [] [] [None], []); (mk_obs [1] [] [1] [None], []); (mk_obs [3] [] [1] [None], []);
     (mk_obs [3] [] [1] [None], [])] = false.
Proof. vm_compute. reflexivity. Qed.
