(** Model of the reactive pieces behind `I18nContext` (property C16).

    Concrete machine ([cstate], [c_step]) — mirrors leptos_i18n/src/context.rs on top of a signal arena:
      - every `RwSignal<L>` (the `locale_signal` of a context, a caller's initial-locale signal) is a cell
        of one shared arena, allocated with a fresh id;
      - an `I18nContext` handle is just a copy of the id of its `locale_signal` (`scope()` copies the signal and
        changes only the marker type); `t!`/`t_string!` accessors capture the handle (a signal id) and re-read
        it on every evaluation (t_macro/mod.rs: `move || get_keys(ctx)...`);
      - `set_locale` = `RwSignal::set` (writes, then notifies the subscribers of that signal: the cookie effect of
        the owning context and every mounted render effect reading it); `set_locale_untracked` writes without
        notifying;
      - `init_context_inner`: `locale_signal = RwSignal::new(initial_locale.get_untracked())`, a RenderEffect
        `locale_signal.set(initial_locale.get())` which re-runs only when the memo's value changed, and
        `Effect::new_isomorphic(set_lang_cookie.set(Some(locale_signal.get())))`;
      - `init_subcontext_with_options`: the `initial_locale_listener` memo ([Resolve.listener_first] at creation,
        [Resolve.listener_again] when the caller's signal was written; the memo is lazy: it is marked dirty by the
        write and re-evaluated when the scheduled RenderEffect runs);
      - effects run when the executor is flushed ([OFlush], to quiescence).
    Abstract machine ([astate], [a_step]) — the specification's view: a map context-id -> locale, handles /
    accessors / mounted effects refer to a context, caller signals are plain values.
    Not modelled: leptos' scheduler beyond "effects run at flush", owner disposal, client-only sources. *)
From Coq Require Import List NArith Bool Arith.
Import ListNotations.
From LI Require Import Runtime.Resolve.
Open Scope N_scope.

Definition upd {A} (f : nat -> A) (k : nat) (v : A) : nat -> A := fun i => if Nat.eqb i k then v else f i.
Definition tab {A} (n : nat) (f : nat -> A) : list A := map f (seq 0 n).
Definition is_some {A} (o : option A) : bool := match o with Some _ => true | None => false end.

(** per-context bookkeeping shared by both machines *)
Record meta := mk_meta {
  m_memo : N;            (* cached value of the initial-locale memo *)
  m_dirty : bool;        (* a source of the memo was written: the syncing RenderEffect is scheduled *)
  m_con : bool;          (* a cookie is attached (use_cookie) *)
  m_emit : option N;     (* last locale handed to the cookie writer (Set-Cookie) *)
  m_cpend : bool }.      (* the cookie effect is scheduled *)
Definition set_memo v m := mk_meta v (m_dirty m) (m_con m) (m_emit m) (m_cpend m).
Definition set_dirty b m := mk_meta (m_memo m) b (m_con m) (m_emit m) (m_cpend m).
Definition set_emit e m := mk_meta (m_memo m) (m_dirty m) (m_con m) e (m_cpend m).
Definition set_cpend b m := mk_meta (m_memo m) (m_dirty m) (m_con m) (m_emit m) b.

Inductive op :=
| ONewSub (parent : nat) (wire : option nat) (cookie : option (option N))
    (* init_i18n_subcontext_with_options below context [parent]; [wire]: caller signal given as initial locale;
       [cookie]: None = no cookie name, Some v = cookie name given and v is the decoded cookie *)
| ONewSig (l : N)                 (* the caller creates an RwSignal<Locale> *)
| OWrite (u : nat) (l : N)        (* the caller writes that signal *)
| OSet (h : nat) (l : N)          (* handle.set_locale(l) *)
| OSetU (h : nat) (l : N)         (* handle.set_locale_untracked(l) *)
| OScope (h : nat)                (* handle.scope(..): a new handle *)
| OAcc (h : nat)                  (* create `t!` / `t_string!` accessors on a handle *)
| OMount (h : nat)                (* mount a render effect showing `t_string!(handle, ..)` *)
| OGet                            (* only observe *)
| OFlush.                         (* the executor runs every scheduled effect *)

Record obs := mk_obs {
  o_handles : list N;             (* get_locale of every handle *)
  o_accs : list N;                (* locale rendered by every accessor *)
  o_watch : list N;               (* locale currently shown by every mounted effect *)
  o_cookies : list (option N) }.  (* per context: last Set-Cookie value (None: none / no cookie attached) *)

(** * Concrete machine *)
Record cstate := mk_cs {
  c_nar : nat; c_ar : nat -> N;                       (* signal arena *)
  c_nctx : nat; c_sig : nat -> nat;                   (* context -> id of its locale_signal *)
  c_wire : nat -> option nat;                         (* context -> id of the caller's initial-locale signal *)
  c_meta : nat -> meta;
  c_nus : nat; c_us : nat -> nat;                     (* caller signals -> arena id *)
  c_nh : nat; c_hsig : nat -> nat;                    (* handles: captured signal id *)
  c_nacc : nat; c_acc : nat -> nat;                   (* accessors: captured signal id *)
  c_nw : nat; c_wsig : nat -> nat; c_wm : nat -> N * bool }.   (* mounted effects: signal read, (shown, scheduled) *)

Definition c_set_ar (s : cstate) f :=
  mk_cs (c_nar s) f (c_nctx s) (c_sig s) (c_wire s) (c_meta s) (c_nus s) (c_us s) (c_nh s) (c_hsig s)
        (c_nacc s) (c_acc s) (c_nw s) (c_wsig s) (c_wm s).
Definition c_set_meta (s : cstate) f :=
  mk_cs (c_nar s) (c_ar s) (c_nctx s) (c_sig s) (c_wire s) f (c_nus s) (c_us s) (c_nh s) (c_hsig s)
        (c_nacc s) (c_acc s) (c_nw s) (c_wsig s) (c_wm s).
Definition c_set_wm (s : cstate) f :=
  mk_cs (c_nar s) (c_ar s) (c_nctx s) (c_sig s) (c_wire s) (c_meta s) (c_nus s) (c_us s) (c_nh s) (c_hsig s)
        (c_nacc s) (c_acc s) (c_nw s) (c_wsig s) f.

(** subscribers of signal [sig] are scheduled *)
Definition c_notify (sig : nat) (s : cstate) : cstate :=
  c_set_wm
    (c_set_meta s (fun c => if Nat.eqb (c_sig s c) sig then set_cpend true (c_meta s c) else c_meta s c))
    (fun w => if Nat.eqb (c_wsig s w) sig then (fst (c_wm s w), true) else c_wm s w).
(** RwSignal::set *)
Definition c_signal_set (sig : nat) (v : N) (s : cstate) : cstate := c_notify sig (c_set_ar s (upd (c_ar s) sig v)).
(** *write_untracked() = v *)
Definition c_signal_write_untracked (sig : nat) (v : N) (s : cstate) : cstate := c_set_ar s (upd (c_ar s) sig v).

Definition wire_is (o : option nat) (id : nat) : bool := match o with Some w => Nat.eqb w id | None => false end.

(** the caller writes signal [u]: the memo of every context wired to it is marked dirty *)
Definition c_write (u : nat) (l : N) (s : cstate) : cstate :=
  if Nat.ltb u (c_nus s) then
    let id := c_us s u in
    c_set_meta (c_set_ar s (upd (c_ar s) id l))
      (fun c => if wire_is (c_wire s c) id then set_dirty true (c_meta s c) else c_meta s c)
  else s.

(** the syncing RenderEffect of context [c] gets its turn: the memo is re-evaluated (later run of the listener,
    where the caller's value is Some and therefore wins); the effect body runs only if the memo's value changed *)
Definition c_sync1 (c : nat) (s : cstate) : cstate :=
  let m := c_meta s c in
  if m_dirty m then
    match c_wire s c with
    | Some w =>
        let v := listener_again None (Some (c_ar s w)) (m_memo m) in
        if v =? m_memo m then c_set_meta s (upd (c_meta s) c (set_dirty false m))
        else c_signal_set (c_sig s c) v (c_set_meta s (upd (c_meta s) c (set_memo v (set_dirty false m))))
    | None => c_set_meta s (upd (c_meta s) c (set_dirty false m))
    end
  else s.
Fixpoint c_sync_all (n : nat) (s : cstate) : cstate :=
  match n with O => s | S k => c_sync1 k (c_sync_all k s) end.
(** cookie effects: `set_lang_cookie.set(Some(locale_signal.get()))` *)
Definition c_cookies (s : cstate) : cstate :=
  c_set_meta s (fun c => let m := c_meta s c in
                         if m_cpend m then set_cpend false (set_emit (Some (c_ar s (c_sig s c))) m) else m).
(** mounted render effects re-read their signal *)
Definition c_watch (s : cstate) : cstate :=
  c_set_wm s (fun w => if snd (c_wm s w) then (c_ar s (c_wsig s w), false) else c_wm s w).
Definition c_flush (s : cstate) : cstate := c_watch (c_cookies (c_sync_all (c_nctx s) s)).

Definition wire_ok (wire : option nat) (nus : nat) : bool :=
  match wire with Some u => Nat.ltb u nus | None => true end.
Definition cookie_of (ck : option (option N)) : option N := match ck with Some v => v | None => None end.

Definition c_new_sub (p : nat) (wire : option nat) (ck : option (option N)) (s : cstate) : cstate :=
  if Nat.ltb p (c_nctx s) && wire_ok wire (c_nus s) then
    let wid := option_map (c_us s) wire in
    let init := listener_first (cookie_of ck) (option_map (c_ar s) wid) (c_ar s (c_sig s p)) in
    let id := c_nar s in
    let c := c_nctx s in
    let h := c_nh s in
    mk_cs (S id) (upd (c_ar s) id init) (S c) (upd (c_sig s) c id) (upd (c_wire s) c wid)
          (upd (c_meta s) c (mk_meta init false (is_some ck) None true))
          (c_nus s) (c_us s) (S h) (upd (c_hsig s) h id) (c_nacc s) (c_acc s) (c_nw s) (c_wsig s) (c_wm s)
  else s.

Definition c_new_sig (l : N) (s : cstate) : cstate :=
  let id := c_nar s in
  mk_cs (S id) (upd (c_ar s) id l) (c_nctx s) (c_sig s) (c_wire s) (c_meta s) (S (c_nus s)) (upd (c_us s) (c_nus s) id)
        (c_nh s) (c_hsig s) (c_nacc s) (c_acc s) (c_nw s) (c_wsig s) (c_wm s).
Definition c_scope (h : nat) (s : cstate) : cstate :=
  if Nat.ltb h (c_nh s) then
    mk_cs (c_nar s) (c_ar s) (c_nctx s) (c_sig s) (c_wire s) (c_meta s) (c_nus s) (c_us s)
          (S (c_nh s)) (upd (c_hsig s) (c_nh s) (c_hsig s h)) (c_nacc s) (c_acc s) (c_nw s) (c_wsig s) (c_wm s)
  else s.
Definition c_new_acc (h : nat) (s : cstate) : cstate :=
  if Nat.ltb h (c_nh s) then
    mk_cs (c_nar s) (c_ar s) (c_nctx s) (c_sig s) (c_wire s) (c_meta s) (c_nus s) (c_us s) (c_nh s) (c_hsig s)
          (S (c_nacc s)) (upd (c_acc s) (c_nacc s) (c_hsig s h)) (c_nw s) (c_wsig s) (c_wm s)
  else s.
(** RenderEffect::new runs its body once immediately *)
Definition c_mount (h : nat) (s : cstate) : cstate :=
  if Nat.ltb h (c_nh s) then
    mk_cs (c_nar s) (c_ar s) (c_nctx s) (c_sig s) (c_wire s) (c_meta s) (c_nus s) (c_us s) (c_nh s) (c_hsig s)
          (c_nacc s) (c_acc s) (S (c_nw s)) (upd (c_wsig s) (c_nw s) (c_hsig s h))
          (upd (c_wm s) (c_nw s) (c_ar s (c_hsig s h), false))
  else s.

Definition c_step (s : cstate) (o : op) : cstate :=
  match o with
  | ONewSub p w ck => c_new_sub p w ck s
  | ONewSig l => c_new_sig l s
  | OWrite u l => c_write u l s
  | OSet h l => if Nat.ltb h (c_nh s) then c_signal_set (c_hsig s h) l s else s
  | OSetU h l => if Nat.ltb h (c_nh s) then c_signal_write_untracked (c_hsig s h) l s else s
  | OScope h => c_scope h s
  | OAcc h => c_new_acc h s
  | OMount h => c_mount h s
  | OGet => s
  | OFlush => c_flush s
  end.

(** a main context whose resolution (C15) gave [l0]; [con]: cookies in use *)
Definition c_init (l0 : N) (con : bool) : cstate :=
  mk_cs 1 (fun _ => l0) 1 (fun _ => O) (fun _ => None) (fun _ => mk_meta l0 false con None true)
        0 (fun _ => O) 1 (fun _ => O) 0 (fun _ => O) 0 (fun _ => O) (fun _ => (l0, false)).

Definition c_obs (s : cstate) : obs :=
  mk_obs (tab (c_nh s) (fun h => c_ar s (c_hsig s h)))
         (tab (c_nacc s) (fun k => c_ar s (c_acc s k)))
         (tab (c_nw s) (fun w => fst (c_wm s w)))
         (tab (c_nctx s) (fun c => if m_con (c_meta s c) then m_emit (c_meta s c) else None)).

Fixpoint c_trace (s : cstate) (ops : list op) : list obs :=
  match ops with
  | [] => []
  | o :: r => let s' := c_step s o in c_obs s' :: c_trace s' r
  end.
Definition c_run (s : cstate) (ops : list op) : cstate := fold_left c_step ops s.
(** the model's observations: after creation and after every operation *)
Definition model_trace (l0 : N) (con : bool) (ops : list op) : list obs :=
  c_obs (c_init l0 con) :: c_trace (c_init l0 con) ops.

(** * Abstract machine: a map context -> locale *)
Record astate := mk_as {
  a_nctx : nat; a_loc : nat -> N;
  a_wire : nat -> option nat;                          (* context -> caller signal index *)
  a_meta : nat -> meta;
  a_nus : nat; a_us : nat -> N;                        (* caller signals: their values *)
  a_nh : nat; a_hctx : nat -> nat;                     (* handle -> context *)
  a_nacc : nat; a_acc : nat -> nat;                    (* accessor -> context *)
  a_nw : nat; a_wctx : nat -> nat; a_wm : nat -> N * bool }.

Definition a_set_loc (a : astate) f :=
  mk_as (a_nctx a) f (a_wire a) (a_meta a) (a_nus a) (a_us a) (a_nh a) (a_hctx a) (a_nacc a) (a_acc a)
        (a_nw a) (a_wctx a) (a_wm a).
Definition a_set_meta (a : astate) f :=
  mk_as (a_nctx a) (a_loc a) (a_wire a) f (a_nus a) (a_us a) (a_nh a) (a_hctx a) (a_nacc a) (a_acc a)
        (a_nw a) (a_wctx a) (a_wm a).
Definition a_set_us (a : astate) f :=
  mk_as (a_nctx a) (a_loc a) (a_wire a) (a_meta a) (a_nus a) f (a_nh a) (a_hctx a) (a_nacc a) (a_acc a)
        (a_nw a) (a_wctx a) (a_wm a).
Definition a_set_wm (a : astate) f :=
  mk_as (a_nctx a) (a_loc a) (a_wire a) (a_meta a) (a_nus a) (a_us a) (a_nh a) (a_hctx a) (a_nacc a) (a_acc a)
        (a_nw a) (a_wctx a) f.

Definition a_notify (c : nat) (a : astate) : astate :=
  a_set_wm
    (a_set_meta a (fun i => if Nat.eqb i c then set_cpend true (a_meta a i) else a_meta a i))
    (fun w => if Nat.eqb (a_wctx a w) c then (fst (a_wm a w), true) else a_wm a w).
Definition a_set (c : nat) (v : N) (a : astate) : astate := a_notify c (a_set_loc a (upd (a_loc a) c v)).
Definition a_set_untracked (c : nat) (v : N) (a : astate) : astate := a_set_loc a (upd (a_loc a) c v).

Definition a_write (u : nat) (l : N) (a : astate) : astate :=
  if Nat.ltb u (a_nus a) then
    a_set_meta (a_set_us a (upd (a_us a) u l))
      (fun c => if wire_is (a_wire a c) u then set_dirty true (a_meta a c) else a_meta a c)
  else a.

Definition a_sync1 (c : nat) (a : astate) : astate :=
  let m := a_meta a c in
  if m_dirty m then
    match a_wire a c with
    | Some u =>
        let v := listener_again None (Some (a_us a u)) (m_memo m) in
        if v =? m_memo m then a_set_meta a (upd (a_meta a) c (set_dirty false m))
        else a_set c v (a_set_meta a (upd (a_meta a) c (set_memo v (set_dirty false m))))
    | None => a_set_meta a (upd (a_meta a) c (set_dirty false m))
    end
  else a.
Fixpoint a_sync_all (n : nat) (a : astate) : astate :=
  match n with O => a | S k => a_sync1 k (a_sync_all k a) end.
Definition a_cookies (a : astate) : astate :=
  a_set_meta a (fun c => let m := a_meta a c in
                         if m_cpend m then set_cpend false (set_emit (Some (a_loc a c)) m) else m).
Definition a_watch (a : astate) : astate :=
  a_set_wm a (fun w => if snd (a_wm a w) then (a_loc a (a_wctx a w), false) else a_wm a w).
Definition a_flush (a : astate) : astate := a_watch (a_cookies (a_sync_all (a_nctx a) a)).

Definition a_new_sub (p : nat) (wire : option nat) (ck : option (option N)) (a : astate) : astate :=
  if Nat.ltb p (a_nctx a) && wire_ok wire (a_nus a) then
    let init := listener_first (cookie_of ck) (option_map (a_us a) wire) (a_loc a p) in
    let c := a_nctx a in
    let h := a_nh a in
    mk_as (S c) (upd (a_loc a) c init) (upd (a_wire a) c wire)
          (upd (a_meta a) c (mk_meta init false (is_some ck) None true))
          (a_nus a) (a_us a) (S h) (upd (a_hctx a) h c) (a_nacc a) (a_acc a) (a_nw a) (a_wctx a) (a_wm a)
  else a.
Definition a_new_sig (l : N) (a : astate) : astate :=
  mk_as (a_nctx a) (a_loc a) (a_wire a) (a_meta a) (S (a_nus a)) (upd (a_us a) (a_nus a) l)
        (a_nh a) (a_hctx a) (a_nacc a) (a_acc a) (a_nw a) (a_wctx a) (a_wm a).
Definition a_scope (h : nat) (a : astate) : astate :=
  if Nat.ltb h (a_nh a) then
    mk_as (a_nctx a) (a_loc a) (a_wire a) (a_meta a) (a_nus a) (a_us a)
          (S (a_nh a)) (upd (a_hctx a) (a_nh a) (a_hctx a h)) (a_nacc a) (a_acc a) (a_nw a) (a_wctx a) (a_wm a)
  else a.
Definition a_new_acc (h : nat) (a : astate) : astate :=
  if Nat.ltb h (a_nh a) then
    mk_as (a_nctx a) (a_loc a) (a_wire a) (a_meta a) (a_nus a) (a_us a) (a_nh a) (a_hctx a)
          (S (a_nacc a)) (upd (a_acc a) (a_nacc a) (a_hctx a h)) (a_nw a) (a_wctx a) (a_wm a)
  else a.
Definition a_mount (h : nat) (a : astate) : astate :=
  if Nat.ltb h (a_nh a) then
    mk_as (a_nctx a) (a_loc a) (a_wire a) (a_meta a) (a_nus a) (a_us a) (a_nh a) (a_hctx a)
          (a_nacc a) (a_acc a) (S (a_nw a)) (upd (a_wctx a) (a_nw a) (a_hctx a h))
          (upd (a_wm a) (a_nw a) (a_loc a (a_hctx a h), false))
  else a.

Definition a_step (a : astate) (o : op) : astate :=
  match o with
  | ONewSub p w ck => a_new_sub p w ck a
  | ONewSig l => a_new_sig l a
  | OWrite u l => a_write u l a
  | OSet h l => if Nat.ltb h (a_nh a) then a_set (a_hctx a h) l a else a
  | OSetU h l => if Nat.ltb h (a_nh a) then a_set_untracked (a_hctx a h) l a else a
  | OScope h => a_scope h a
  | OAcc h => a_new_acc h a
  | OMount h => a_mount h a
  | OGet => a
  | OFlush => a_flush a
  end.

Definition a_init (l0 : N) (con : bool) : astate :=
  mk_as 1 (fun _ => l0) (fun _ => None) (fun _ => mk_meta l0 false con None true)
        0 (fun _ => l0) 1 (fun _ => O) 0 (fun _ => O) 0 (fun _ => O) (fun _ => (l0, false)).

Definition a_obs (a : astate) : obs :=
  mk_obs (tab (a_nh a) (fun h => a_loc a (a_hctx a h)))
         (tab (a_nacc a) (fun k => a_loc a (a_acc a k)))
         (tab (a_nw a) (fun w => fst (a_wm a w)))
         (tab (a_nctx a) (fun c => if m_con (a_meta a c) then m_emit (a_meta a c) else None)).
Fixpoint a_trace (a : astate) (ops : list op) : list obs :=
  match ops with
  | [] => []
  | o :: r => let a' := a_step a o in a_obs a' :: a_trace a' r
  end.
Definition a_run (a : astate) (ops : list op) : astate := fold_left a_step ops a.
Definition spec_trace (l0 : N) (con : bool) (ops : list op) : list obs :=
  a_obs (a_init l0 con) :: a_trace (a_init l0 con) ops.

(** * The property as an executable predicate on an observed trace.
    Knowledge on top of the abstract map:
      [k_ex c]     the caller wired an initial-locale signal into context c and has written it: from then on the
                   property leaves c's locale to the caller's signal (only agreement between the views of c is required);
      [k_silent c] the last change of c was a `set_locale_untracked`: mounted effects are (by design) not re-run.
    Checked on every snapshot: every handle (hence every scoped view) and every accessor, old or new, shows the
    locale last set on its context — the abstract map — and nothing else moved; after a flush every mounted
    effect of a context whose last change was notified shows it too. *)
Record kstate := mk_ks { k_a : astate; k_ex : nat -> bool; k_silent : nat -> bool }.

Definition k_init (l0 : N) (con : bool) : kstate := mk_ks (a_init l0 con) (fun _ => false) (fun _ => false).

Definition k_step (k : kstate) (o : op) : kstate :=
  let a := k_a k in
  let a' := a_step a o in
  match o with
  | OWrite u _ =>
      mk_ks a' (fun c => k_ex k c || (Nat.ltb u (a_nus a) && wire_is (a_wire a c) u)) (k_silent k)
  | OSet h _ =>
      mk_ks a' (k_ex k) (fun c => if Nat.ltb h (a_nh a) && Nat.eqb c (a_hctx a h) then false else k_silent k c)
  | OSetU h _ =>
      mk_ks a' (k_ex k) (fun c => if Nat.ltb h (a_nh a) && Nat.eqb c (a_hctx a h) then true else k_silent k c)
  | ONewSub p _ _ =>   (* a context created below an exempt one starts from a locale the property does not fix *)
      mk_ks a' (fun c => if Nat.eqb c (a_nctx a) then Nat.ltb p (a_nctx a) && k_ex k p else k_ex k c)
               (fun c => if Nat.eqb c (a_nctx a) then false else k_silent k c)
  | _ => mk_ks a' (k_ex k) (k_silent k)
  end.

Definition nthN (l : list N) (i : nat) : option N := nth_error l i.
Definition opt_N_eqb (x y : option N) : bool :=
  match x, y with Some a, Some b => a =? b | None, None => true | _, _ => false end.
Definition all_lt (n : nat) (f : nat -> bool) : bool := forallb f (seq 0 n).

(** the context's current locale as seen through the trace: its own first handle *)
Definition is_flush (o : op) : bool := match o with OFlush => true | _ => false end.

Definition k_check (k : kstate) (after_flush : bool) (ob : obs) : bool :=
  let a := k_a k in
  Nat.eqb (length (o_handles ob)) (a_nh a) && Nat.eqb (length (o_accs ob)) (a_nacc a)
  && Nat.eqb (length (o_watch ob)) (a_nw a)
  && all_lt (a_nh a) (fun h =>
       let c := a_hctx a h in
       if k_ex k c
       then all_lt (a_nh a) (fun h' => negb (Nat.eqb (a_hctx a h') c) || opt_N_eqb (nthN (o_handles ob) h') (nthN (o_handles ob) h))
       else opt_N_eqb (nthN (o_handles ob) h) (Some (a_loc a c)))
  && all_lt (a_nacc a) (fun i =>
       let c := a_acc a i in
       if k_ex k c
       then all_lt (a_nh a) (fun h' => negb (Nat.eqb (a_hctx a h') c) || opt_N_eqb (nthN (o_handles ob) h') (nthN (o_accs ob) i))
       else opt_N_eqb (nthN (o_accs ob) i) (Some (a_loc a c)))
  && (negb after_flush ||
      all_lt (a_nw a) (fun w =>
        let c := a_wctx a w in
        k_ex k c || k_silent k c || opt_N_eqb (nthN (o_watch ob) w) (Some (a_loc a c)))).

Fixpoint k_trace (k : kstate) (ops : list op) (tr : list obs) : bool :=
  match ops, tr with
  | [], [] => true
  | o :: r, ob :: tr' => let k' := k_step k o in k_check k' (is_flush o) ob && k_trace k' r tr'
  | _, _ => false
  end.

Definition spec_C16 (l0 : N) (con : bool) (ops : list op) (tr : list obs) : bool :=
  match tr with
  | ob :: tr' => k_check (k_init l0 con) false ob && k_trace (k_init l0 con) ops tr'
  | [] => false
  end.
