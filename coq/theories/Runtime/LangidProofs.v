(** Proofs about the negotiation model (property C12). *)
From Coq Require Import List NArith Bool Arith Lia Permutation.
Import ListNotations.
From LI Require Import Runtime.Langid.
Open Scope N_scope.

(** ** equality helpers *)
Lemma opt_eqb_eq a b : opt_eqb a b = true <-> a = b.
Proof.
  destruct a as [x|], b as [y|]; cbn; split; intros H; try discriminate; try reflexivity.
  - apply N.eqb_eq in H; subst; reflexivity.
  - inversion H; apply N.eqb_refl.
Qed.
Lemma list_eqb_eq a b : list_eqb a b = true <-> a = b.
Proof.
  revert b; induction a as [|x xs IH]; intros [|y ys]; cbn; split; intros H; try discriminate; try reflexivity.
  - apply andb_true_iff in H as [H1 H2]. apply N.eqb_eq in H1. apply IH in H2. subst; reflexivity.
  - inversion H; subst. rewrite N.eqb_refl. cbn. apply IH. reflexivity.
Qed.
Lemma loc_eqb_eq a b : loc_eqb a b = true <-> a = b.
Proof.
  destruct a as [i [l s r v]], b as [j [l' s' r' v']]; unfold loc_eqb, lid; cbn.
  rewrite !andb_true_iff, !N.eqb_eq, !opt_eqb_eq, list_eqb_eq.
  split.
  - intros [[[[-> ->] ->] ->] ->]; reflexivity.
  - intros H; inversion H; subst; repeat split; reflexivity.
Qed.
Lemma mem_loc_In x l : mem_loc x l = true <-> In x l.
Proof.
  unfold mem_loc. rewrite existsb_exists. split.
  - intros [y [Hy He]]. apply loc_eqb_eq in He. subst; assumption.
  - intros H. exists x. split; [assumption | apply loc_eqb_eq; reflexivity].
Qed.

(** ** exact ⇒ serves; specificity of a server is bounded by that of an exact match *)
Lemma exact_serves s r : exact s r = true -> serves s r = true.
Proof.
  unfold exact, serves, lang_id_matches, lang_matches, subtag_matches, subtags_match.
  cbn [andb orb]. intros H. rewrite !andb_true_iff in H. destruct H as [[[H1 H2] H3] H4].
  rewrite H1, H2, H3, H4. rewrite !orb_true_r. reflexivity.
Qed.

Lemma exact_fields s r : exact s r = true ->
  lang s = lang r /\ script s = script r /\ region s = region r /\ variants s = variants r.
Proof.
  unfold exact, lang_id_matches, lang_matches, subtag_matches, subtags_match.
  cbn [andb orb]. intros H. rewrite !andb_true_iff in H. destruct H as [[[H1 H2] H3] H4].
  apply N.eqb_eq in H1. apply opt_eqb_eq in H2, H3. apply list_eqb_eq in H4. tauto.
Qed.

Lemma serves_specificity s r : serves s r = true -> (specificity s <= specificity r)%nat.
Proof.
  unfold serves, lang_id_matches, subtag_matches, subtags_match, specificity.
  cbn [andb]. rewrite !orb_false_r. intros H. rewrite !andb_true_iff in H. destruct H as [[[_ H2] H3] H4].
  assert (A : ((if is_none (script s) then 0 else 1) <= (if is_none (script r) then 0 else 1))%nat).
  { destruct (script s) as [x|] eqn:E; cbn [is_none orb] in *; [|lia].
    apply opt_eqb_eq in H2. rewrite <- H2. cbn. lia. }
  assert (B : ((if is_none (region s) then 0 else 1) <= (if is_none (region r) then 0 else 1))%nat).
  { destruct (region s) as [x|] eqn:E; cbn [is_none orb] in *; [|lia].
    apply opt_eqb_eq in H3. rewrite <- H3. cbn. lia. }
  assert (C : (length (variants s) <= length (variants r))%nat).
  { destruct (variants s) as [|x xs] eqn:E; cbn [is_nil orb length] in *; [lia|].
    apply list_eqb_eq in H4. rewrite <- H4. cbn. lia. }
  lia.
Qed.

Lemma exact_specificity s r : exact s r = true -> specificity s = specificity r.
Proof.
  intros H. apply exact_fields in H as (_ & H2 & H3 & H4). unfold specificity. rewrite H2, H3, H4. reflexivity.
Qed.

(** ** the stable descending sort *)
Lemma insert_desc_perm x l : Permutation (x :: l) (insert_desc x l).
Proof.
  induction l as [|y r IH]; cbn [insert_desc]; [reflexivity|].
  destruct (specificity (lid x) <? specificity (lid y))%nat; [|reflexivity].
  rewrite perm_swap. constructor. exact IH.
Qed.
Lemma sort_desc_perm l : Permutation l (sort_desc l).
Proof.
  induction l as [|x r IH]; cbn [sort_desc]; [reflexivity|].
  rewrite <- insert_desc_perm. constructor. exact IH.
Qed.
Lemma sort_desc_In x l : In x (sort_desc l) <-> In x l.
Proof.
  split; intros H.
  - eapply Permutation_in; [symmetry; apply sort_desc_perm | exact H].
  - eapply Permutation_in; [apply sort_desc_perm | exact H].
Qed.
Lemma sort_desc_nil l : sort_desc l = [] -> l = [].
Proof.
  intros H. pose proof (sort_desc_perm l) as P. rewrite H in P. apply Permutation_sym, Permutation_nil in P. exact P.
Qed.

Lemma insert_desc_hd_max x l :
  (forall y, In y l -> (specificity (lid y) <= specificity (lid x))%nat) ->
  insert_desc x l = x :: l.
Proof.
  destruct l as [|y r]; cbn [insert_desc]; [reflexivity|]. intros H.
  assert (E : (specificity (lid x) <? specificity (lid y))%nat = false).
  { apply Nat.ltb_ge. apply H. left; reflexivity. }
  rewrite E. reflexivity.
Qed.

(** a maximal element that is first stays first (stability) *)
Lemma sort_desc_hd_max x l :
  (forall y, In y l -> (specificity (lid y) <= specificity (lid x))%nat) ->
  exists t, sort_desc (x :: l) = x :: t.
Proof.
  intros H. cbn [sort_desc]. exists (sort_desc l). apply insert_desc_hd_max.
  intros y Hy. apply H. apply (proj1 (sort_desc_In _ _)). exact Hy.
Qed.

(** ** passes *)
Lemma partition_as_filter {A} (f : A -> bool) l :
  partition f l = (filter f l, filter (fun x => negb (f x)) l).
Proof.
  induction l as [|x r IH]; cbn [partition filter]; [reflexivity|].
  rewrite IH. destruct (f x); reflexivity.
Qed.
Lemma pass_spec ar req avail :
  pass ar req avail =
  (filter (fun l => lang_id_matches (lid l) req ar false) avail,
   filter (fun l => negb (lang_id_matches (lid l) req ar false)) avail).
Proof. unfold pass. apply partition_as_filter. Qed.

Lemma filter_none {A} (f : A -> bool) l : (forall x, In x l -> f x = false) -> filter f l = [].
Proof.
  induction l as [|x r IH]; cbn; intros H; [reflexivity|].
  rewrite (H x (or_introl eq_refl)). apply IH. intros y Hy. apply H. right; exact Hy.
Qed.
Lemma filter_all {A} (f : A -> bool) l : (forall x, In x l -> f x = true) -> filter f l = l.
Proof.
  induction l as [|x r IH]; cbn; intros H; [reflexivity|].
  rewrite (H x (or_introl eq_refl)). f_equal. apply IH. intros y Hy. apply H. right; exact Hy.
Qed.

Lemma pass_none ar r avail :
  (forall s, In s avail -> lang_id_matches (lid s) r ar false = false) -> pass ar r avail = ([], avail).
Proof.
  intros H. rewrite pass_spec. rewrite (filter_none _ avail H).
  rewrite (filter_all (fun l => negb (lang_id_matches (lid l) r ar false)) avail); [reflexivity|].
  intros x Hx. rewrite (H x Hx). reflexivity.
Qed.

(** a request nobody serves leaves the state unchanged *)
Lemma step_not_servable acc avail r :
  servable avail r = false -> step (acc, avail) r = (acc, avail).
Proof.
  intros H. unfold step.
  assert (S : forall s, In s avail -> serves (lid s) r = false).
  { intros s Hs. destruct (serves (lid s) r) eqn:E; [|reflexivity].
    unfold servable in H. assert (X : existsb (fun s => serves (lid s) r) avail = true)
      by (apply existsb_exists; exists s; split; assumption). congruence. }
  assert (Ex : forall s, In s avail -> lang_id_matches (lid s) r false false = false).
  { intros s Hs. destruct (lang_id_matches (lid s) r false false) eqn:E; [|reflexivity].
    apply exact_serves in E. rewrite (S s Hs) in E. discriminate. }
  rewrite (pass_none false r avail Ex). rewrite (pass_none true r avail S).
  cbn. rewrite app_nil_r. reflexivity.
Qed.

(** what a servable request contributes *)
Lemma step_servable avail r :
  servable avail r = true ->
  exists h t a2, step ([], avail) r = (h :: t, a2)
    /\ In h avail /\ serves (lid h) r = true
    /\ (existsb (fun s => exact (lid s) r) avail = true -> exact (lid h) r = true)
    /\ (forall x, In x (h :: t) -> In x avail) /\ (forall x, In x a2 -> In x avail).
Proof.
  intros H. unfold step. rewrite !pass_spec. cbn [app].
  set (m1 := filter (fun l => lang_id_matches (lid l) r false false) avail).
  set (a1 := filter (fun l => negb (lang_id_matches (lid l) r false false)) avail).
  set (m2 := filter (fun l => lang_id_matches (lid l) r true false) a1).
  set (a2 := filter (fun l => negb (lang_id_matches (lid l) r true false)) a1).
  assert (Hm : forall x, In x (m1 ++ m2) -> In x avail /\ serves (lid x) r = true).
  { intros x Hx. apply in_app_or in Hx as [Hx|Hx].
    - apply filter_In in Hx as [Hx1 Hx2]. split; [exact Hx1 | apply exact_serves; exact Hx2].
    - apply filter_In in Hx as [Hx1 Hx2]. apply filter_In in Hx1 as [Hx1 _]. split; assumption. }
  assert (Hne : m1 ++ m2 <> []).
  { unfold servable in H. apply existsb_exists in H as [s [Hs Hv]].
    destruct (lang_id_matches (lid s) r false false) eqn:E.
    - assert (In s m1) by (apply filter_In; split; assumption).
      intros Hnil. apply app_eq_nil in Hnil as [Hnil _]. rewrite Hnil in *. contradiction.
    - assert (In s a1) by (apply filter_In; split; [assumption | rewrite E; reflexivity]).
      assert (In s m2) by (apply filter_In; split; assumption).
      intros Hnil. apply app_eq_nil in Hnil as [_ Hnil]. rewrite Hnil in *. contradiction. }
  destruct (sort_desc (m1 ++ m2)) as [|h t] eqn:Es.
  { apply sort_desc_nil in Es. contradiction. }
  exists h, t, a2. split; [reflexivity|].
  assert (Hin : forall x, In x (h :: t) -> In x (m1 ++ m2)).
  { intros x Hx. rewrite <- Es in Hx. apply (proj1 (sort_desc_In _ _)) in Hx. exact Hx. }
  assert (Hh : In h (m1 ++ m2)) by (apply Hin; left; reflexivity).
  split; [apply Hm; exact Hh|]. split; [apply Hm; exact Hh|].
  split.
  - intros Hex. apply existsb_exists in Hex as [s [Hs Hv]].
    destruct m1 as [|e m1'] eqn:Em1.
    { assert (In s m1) by (apply filter_In; split; assumption). rewrite Em1 in *. contradiction. }
    assert (He : exact (lid e) r = true).
    { assert (In e m1) by (rewrite Em1; left; reflexivity). apply filter_In in H0 as [_ H0]. exact H0. }
    cbn [app] in Es.
    destruct (sort_desc_hd_max e (m1' ++ m2)) as [t' Ht'].
    { intros y Hy. assert (Sy : serves (lid y) r = true) by (apply Hm; cbn [app]; right; exact Hy).
      apply serves_specificity in Sy. rewrite (exact_specificity _ _ He). exact Sy. }
    rewrite Ht' in Es. inversion Es; subst. exact He.
  - split.
    + intros x Hx. apply Hm. apply Hin. exact Hx.
    + intros x Hx. apply filter_In in Hx as [Hx _]. apply filter_In in Hx as [Hx _]. exact Hx.
Qed.

(** the accumulated prefix is never changed by later requests *)
Lemma step_acc_app acc avail r :
  step (acc, avail) r = (acc ++ fst (step ([], avail) r), snd (step ([], avail) r)).
Proof.
  unfold step. destruct (pass false r avail) as [m1 a1]. destruct (pass true r a1) as [m2 a2]. reflexivity.
Qed.

Lemma fold_step_acc reqs acc avail :
  fst (fold_left step reqs (acc, avail)) = acc ++ fst (fold_left step reqs ([], avail)).
Proof.
  revert acc avail. induction reqs as [|r rs IH]; intros acc avail; cbn [fold_left].
  - cbn. rewrite app_nil_r. reflexivity.
  - rewrite step_acc_app. rewrite IH.
    destruct (step ([], avail) r) as [m a] eqn:E. cbn [fst snd].
    rewrite (IH m a). rewrite app_assoc. reflexivity.
Qed.

Lemma step_sub acc avail r x :
  In x (fst (step (acc, avail) r)) -> In x acc \/ In x avail.
Proof.
  unfold step. rewrite !pass_spec. cbn [fst]. intros H.
  apply in_app_or in H as [H|H]; [left; exact H|right].
  apply (proj1 (sort_desc_In _ _)) in H. apply in_app_or in H as [H|H].
  - apply filter_In in H as [H _]. exact H.
  - apply filter_In in H as [H _]. apply filter_In in H as [H _]. exact H.
Qed.
Lemma step_avail_sub acc avail r x :
  In x (snd (step (acc, avail) r)) -> In x avail.
Proof.
  unfold step. rewrite !pass_spec. cbn [snd]. intros H.
  apply filter_In in H as [H _]. apply filter_In in H as [H _]. exact H.
Qed.

Lemma fold_step_sub reqs acc avail x :
  In x (fst (fold_left step reqs (acc, avail))) -> In x acc \/ In x avail.
Proof.
  revert acc avail. induction reqs as [|r rs IH]; intros acc avail; cbn [fold_left]; [left; assumption|].
  destruct (step (acc, avail) r) as [acc' avail'] eqn:E. intros H. apply IH in H as [H|H].
  - replace acc' with (fst (step (acc, avail) r)) in H by (rewrite E; reflexivity). apply step_sub in H. exact H.
  - right. replace avail' with (snd (step (acc, avail) r)) in H by (rewrite E; reflexivity).
    apply step_avail_sub in H. exact H.
Qed.

(** every candidate returned is a supported locale *)
Lemma filter_matches_sub reqs avail x : In x (filter_matches reqs avail) -> In x avail.
Proof. unfold filter_matches. intros H. apply fold_step_sub in H as [H|H]; [contradiction | exact H]. Qed.

Lemma find_spec_none {A} (f : A -> bool) l : find f l = None -> forall x, In x l -> f x = false.
Proof.
  induction l as [|y r IH]; cbn; intros H x Hx; [contradiction|].
  destruct (f y) eqn:E; [discriminate|]. destruct Hx as [->|Hx]; [exact E | apply IH; assumption].
Qed.
Lemma find_split {A} (f : A -> bool) l r : find f l = Some r ->
  exists pre post, l = pre ++ r :: post /\ f r = true /\ forall q, In q pre -> f q = false.
Proof.
  induction l as [|y t IH]; cbn; intros H; [discriminate|].
  destruct (f y) eqn:E.
  - inversion H; subst. exists [], t. split; [reflexivity|]. split; [exact E|]. intros q [].
  - destruct (IH H) as (pre & post & -> & Hr & Hp). exists (y :: pre), post. split; [reflexivity|].
    split; [exact Hr|]. intros q [->|Hq]; [exact E | apply Hp; exact Hq].
Qed.

Lemma fold_not_servable pre rest acc avail :
  (forall q, In q pre -> servable avail q = false) ->
  fold_left step (pre ++ rest) (acc, avail) = fold_left step rest (acc, avail).
Proof.
  induction pre as [|q qs IH]; cbn [app fold_left]; intros H; [reflexivity|].
  rewrite step_not_servable by (apply H; left; reflexivity). apply IH. intros x Hx. apply H. right; exact Hx.
Qed.

(** ** Main results *)

(** no request is servable: the default is returned *)
Theorem find_match_default reqs avail dflt :
  (forall q, In q reqs -> servable avail q = false) -> find_match reqs avail dflt = dflt.
Proof.
  intros H. unfold find_match, filter_matches.
  rewrite <- (app_nil_r reqs). rewrite fold_not_servable by exact H. reflexivity.
Qed.

(** the first servable request decides *)
Theorem find_match_first_servable pre r post avail dflt :
  (forall q, In q pre -> servable avail q = false) -> servable avail r = true ->
  let res := find_match (pre ++ r :: post) avail dflt in
  In res avail /\ serves (lid res) r = true
  /\ (existsb (fun s => exact (lid s) r) avail = true -> exact (lid res) r = true).
Proof.
  intros Hpre Hr. cbn zeta. unfold find_match, filter_matches.
  rewrite fold_not_servable by exact Hpre. cbn [fold_left].
  destruct (step_servable avail r Hr) as (h & t & a2 & Es & Hin & Hs & Hex & _ & _).
  rewrite Es. rewrite fold_step_acc. cbn [app hd]. tauto.
Qed.

Theorem find_match_supported reqs avail dflt :
  In (find_match reqs avail dflt) avail \/ find_match reqs avail dflt = dflt.
Proof.
  unfold find_match. destruct (filter_matches reqs avail) as [|h t] eqn:E; cbn [hd]; [right; reflexivity|].
  left. apply (filter_matches_sub reqs avail). rewrite E. left; reflexivity.
Qed.

(** the executable spec holds of the model, for every input *)
Theorem spec_C12_holds reqs avail dflt : spec_C12 reqs avail dflt (find_match reqs avail dflt) = true.
Proof.
  unfold spec_C12. destruct (find (servable avail) reqs) as [r|] eqn:F.
  - apply find_split in F as (pre & post & -> & Hr & Hpre).
    destruct (find_match_first_servable pre r post avail dflt Hpre Hr) as (H1 & H2 & H3).
    rewrite (proj2 (mem_loc_In _ _) H1), H2. cbn [andb].
    destruct (existsb (fun s => exact (lid s) r) avail) eqn:E; [apply H3; reflexivity | reflexivity].
  - rewrite find_match_default; [apply loc_eqb_eq; reflexivity|].
    intros q Hq. exact (find_spec_none _ _ F q Hq).
Qed.

(** unparsable entries are ignored: they can be dropped from the list without effect *)
Theorem find_locale_lossy pre post all dflt :
  find_locale (pre ++ None :: post) all dflt = find_locale (pre ++ post) all dflt.
Proof.
  unfold find_locale. f_equal. induction pre as [|[i|] p IH]; cbn; [reflexivity | f_equal; exact IH | exact IH].
Qed.

(** candidates: no duplicates are invented (each supported entry is moved at most once) *)
Lemma step_perm acc avail r :
  Permutation (fst (step (acc, avail) r) ++ snd (step (acc, avail) r)) (acc ++ avail).
Proof.
  unfold step. destruct (pass false r avail) as [m1 a1] eqn:E1. destruct (pass true r a1) as [m2 a2] eqn:E2.
  cbn [fst snd]. unfold pass in *.
  pose proof (partition_length) as _.
  assert (P1 : Permutation avail (m1 ++ a1)).
  { clear E2. revert m1 a1 E1. induction avail as [|x xs IH]; cbn; intros m1 a1 E1.
    - inversion E1; reflexivity.
    - destruct (partition _ xs) as [g d]. destruct (lang_id_matches (lid x) r false false); inversion E1; subst.
      + cbn. constructor. apply IH. reflexivity.
      + rewrite <- Permutation_middle. constructor. apply IH. reflexivity. }
  assert (P2 : Permutation a1 (m2 ++ a2)).
  { clear E1 P1. revert m2 a2 E2. induction a1 as [|x xs IH]; cbn; intros m2 a2 E2.
    - inversion E2; reflexivity.
    - destruct (partition _ xs) as [g d]. destruct (lang_id_matches (lid x) r true false); inversion E2; subst.
      + cbn. constructor. apply IH. reflexivity.
      + rewrite <- Permutation_middle. constructor. apply IH. reflexivity. }
  rewrite <- app_assoc. apply Permutation_app_head.
  rewrite <- (sort_desc_perm (m1 ++ m2)). rewrite P1, P2. rewrite <- app_assoc. reflexivity.
Qed.

Theorem filter_matches_NoDup reqs avail : NoDup avail -> NoDup (filter_matches reqs avail).
Proof.
  intros H. unfold filter_matches.
  assert (G : forall st, NoDup (fst st ++ snd st) -> NoDup (fst (fold_left step reqs st))).
  { induction reqs as [|r rs IH]; intros [acc av] Hn; cbn [fold_left].
    - cbn [fst snd] in *. clear -Hn. induction acc as [|a acc IH]; [constructor|].
      cbn [app] in Hn. inversion Hn as [|? ? Hni Hnd]; subst. constructor.
      + intros Hi. apply Hni. apply in_or_app. left; exact Hi.
      + apply IH. exact Hnd.
    - apply IH. destruct (step (acc, av) r) as [acc' av'] eqn:E.
      pose proof (step_perm acc av r) as P. rewrite E in P. cbn [fst snd] in *.
      eapply Permutation_NoDup; [symmetry; exact P | exact Hn]. }
  apply G. cbn. exact H.
Qed.

(** ** The pre-fix algorithm (one global sort) violates the preference order *)
Definition w_fr : langid := mk_langid 1 None None [].
Definition w_de : langid := mk_langid 2 None None [].
Definition w_deDE : langid := mk_langid 2 None (Some 7) [].
Definition w_avail : list loc := [(0, w_fr); (1, w_deDE); (2, w_de)].
Lemma old_model_refuted :
  spec_C12 [w_fr; w_deDE] w_avail (0, w_fr) (find_match_old [w_fr; w_deDE] w_avail (0, w_fr)) = false.
Proof. vm_compute. reflexivity. Qed.
(** non-vacuity: the same input, current algorithm *)
Example new_model_witness :
  find_match [w_fr; w_deDE] w_avail (2, w_de) = (0, w_fr)
  /\ servable w_avail w_fr = true /\ servable w_avail w_deDE = true.
Proof. vm_compute. repeat split. Qed.
