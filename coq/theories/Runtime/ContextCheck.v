(** Executable correspondence predicate for C16: evaluated on harness-generated case files. *)
From Coq Require Import List NArith Bool Arith.
Import ListNotations.
From LI Require Import Base.StrOps.
From LI Require Import Runtime.Langid.
From LI Require Import Runtime.Resolve.
From LI Require Import Runtime.Context.
Open Scope N_scope.

(** operations as the harness receives them: a new sub-context names its cookie, the decoded value is the model's
    ([Resolve.use_cookie] on the scenario's Cookie header) *)
Inductive raw_op :=
| RNewSub (parent : nat) (wire : option nat) (cookie_name : option str)
| ROp (o : op).

Record case := mk_case {
  c_app : app;
  c_main : main_opts;              (* options of the root context (C15 model gives its initial locale) *)
  c_ops : list raw_op;
  c_impl_a : list obs;             (* per step: get_locale_untracked of handles, `t!` views, mounted effects, cookies *)
  c_impl_b : list obs }.           (* per step: get_locale (tracked) of handles, `t_string!`, mounted effects, cookies *)

Definition cook (a : app) (o : main_opts) (r : raw_op) : op :=
  match r with
  | RNewSub p w None => ONewSub p w None
  | RNewSub p w (Some n) => ONewSub p w (Some (use_cookie a n (mo_cookie_hdr o)))
  | ROp x => x
  end.

Fixpoint listN_eqb (x y : list N) : bool :=
  match x, y with
  | [], [] => true
  | a :: r, b :: t => (a =? b) && listN_eqb r t
  | _, _ => false
  end.
Fixpoint listO_eqb (x y : list (option N)) : bool :=
  match x, y with
  | [], [] => true
  | a :: r, b :: t => opt_N_eqb a b && listO_eqb r t
  | _, _ => false
  end.
Definition obs_eqb (x y : obs) : bool :=
  listN_eqb (o_handles x) (o_handles y) && listN_eqb (o_accs x) (o_accs y)
  && listN_eqb (o_watch x) (o_watch y) && listO_eqb (o_cookies x) (o_cookies y).
Fixpoint trace_eqb (x y : list obs) : bool :=
  match x, y with
  | [], [] => true
  | a :: r, b :: t => obs_eqb a b && trace_eqb r t
  | _, _ => false
  end.

(** 0 = agree and spec holds; 1 = outside the modelled domain; 2 = implementation differs from the model
    (spec holds on the implementation's trace); 3 = spec false on the implementation's trace *)
Definition check (c : case) : N :=
  let a := c_app c in
  if negb (app_wf a) then 1 else
  let l0 := init_main true a (c_main c) in
  let con := mo_enable_cookie (c_main c) in
  let ops := map (cook a (c_main c)) (c_ops c) in
  let m := model_trace l0 con ops in
  if negb (spec_C16 l0 con ops (c_impl_a c) && spec_C16 l0 con ops (c_impl_b c)) then 3
  else if negb (trace_eqb m (c_impl_a c) && trace_eqb m (c_impl_b c)) then 2
  else 0.

(** index of the first step where implementation and model differ (for reports) *)
Fixpoint first_diff (i : N) (x y : list obs) : option N :=
  match x, y with
  | [], [] => None
  | a :: r, b :: t => if obs_eqb a b then first_diff (i + 1) r t else Some i
  | _, _ => Some i
  end.
