(** Component-level providers (property C16): which context does a lookup (`use_i18n()`) denote?

    A component tree is a forest of nodes rendered in order under the current reactive owner:
      - [NLookup]: a component that calls `use_i18n()` (= `use_context::<I18nContext<L>>()`: the context provided at the
        nearest owner on the chain current owner -> parent -> ...);
      - [NSub w ck ch]: `<I18nSubContextProvider initial_locale=w cookie_name=ck> ch </I18nSubContextProvider>`, i.e.
        context.rs `i18n_sub_context_provider_inner` + `run_as_children`: the sub-context is created (its parent is the
        context looked up from the current owner), a CHILD owner of the current owner is created, the sub-context is
        provided AT THAT CHILD, the children are rendered under it, and rendering continues under the unchanged
        current owner.
    Concrete model ([rc_node]/[rc_forest]) over an arena of owners: every owner has its immutable chain of ancestors
    (itself first) and at most one provided I18nContext (`provide_context` overwrites the slot of the owner it is called
    on).  [bug = true] is the variant that provides at the CALLER's owner (kept for the refutation example).
    Specification ([rl_node]/[rl_forest]): lexical scoping — a lookup denotes the context of the innermost enclosing
    provider, else the context current where the forest is rendered.
    [compile]: the forest as operations of Runtime/Context.v (a provider = [ONewSub] below the current context, whose own
    handle is the harness' first lookup inside it; any other lookup = a new handle on the current context, [OScope]).
    No proofs here. *)
From Coq Require Import List NArith Bool Arith.
Import ListNotations.
From LI Require Import Runtime.Resolve.
From LI Require Import Runtime.Context.
Open Scope N_scope.

Inductive node :=
| NLookup
| NSub (wire : option nat) (ck : option (option N)) (children : forest)
with forest :=
| FNil
| FCons (n : node) (f : forest).

(** * Owners *)
Record ostate := mk_os {
  os_n : nat;                         (* owners allocated *)
  os_chain : nat -> list nat;         (* owner -> itself and its ancestors, nearest first *)
  os_prov : nat -> option nat;        (* owner -> the I18nContext provided at it *)
  os_nctx : nat }.                    (* contexts created *)

Fixpoint first_prov (prov : nat -> option nat) (ch : list nat) : option nat :=
  match ch with
  | [] => None
  | o :: r => match prov o with Some c => Some c | None => first_prov prov r end
  end.
(** use_context from owner [o] *)
Definition os_lookup (st : ostate) (o : nat) : option nat := first_prov (os_prov st) (os_chain st o).
(** Owner::child() *)
Definition os_child (st : ostate) (o : nat) : ostate * nat :=
  let id := os_n st in
  (mk_os (S id) (upd (os_chain st) id (id :: os_chain st o)) (os_prov st) (os_nctx st), id).
(** provide_context(ctx) while [o] is the current owner *)
Definition os_provide (st : ostate) (o c : nat) : ostate :=
  mk_os (os_n st) (os_chain st) (upd (os_prov st) o (Some c)) (os_nctx st).
Definition os_new_ctx (st : ostate) : ostate * nat :=
  (mk_os (os_n st) (os_chain st) (os_prov st) (S (os_nctx st)), os_nctx st).

(** what rendering produces, in order: a lookup made under owner [o] with its result; a sub-context created below
    the context [parent] *)
Inductive cevent :=
| CProbe (o : nat) (r : option nat)
| CNew (parent : option nat) (wire : option nat) (ck : option (option N)).

Fixpoint rc_node (bug : bool) (n : node) (o : nat) (st : ostate) : ostate * list cevent :=
  match n with
  | NLookup => (st, [CProbe o (os_lookup st o)])
  | NSub w ck ch =>
      let par := os_lookup st o in
      let '(st1, c) := os_new_ctx st in
      if bug then
        let st2 := os_provide st1 o c in
        let '(st3, o') := os_child st2 o in
        let '(st4, evs) := rc_forest bug ch o' st3 in
        (st4, CNew par w ck :: CProbe o' (os_lookup st3 o') :: evs)
      else
        let '(st2, o') := os_child st1 o in
        let st3 := os_provide st2 o' c in
        let '(st4, evs) := rc_forest bug ch o' st3 in
        (st4, CNew par w ck :: CProbe o' (os_lookup st3 o') :: evs)
  end
with rc_forest (bug : bool) (f : forest) (o : nat) (st : ostate) : ostate * list cevent :=
  match f with
  | FNil => (st, [])
  | FCons n r =>
      let '(st1, e1) := rc_node bug n o st in
      let '(st2, e2) := rc_forest bug r o st1 in
      (st2, e1 ++ e2)
  end.

(** * Lexical scoping *)
Inductive levent :=
| LProbe (c : nat)
| LNew (parent : nat) (wire : option nat) (ck : option (option N)).

Fixpoint rl_node (n : node) (cur nctx : nat) : nat * list levent :=
  match n with
  | NLookup => (nctx, [LProbe cur])
  | NSub w ck ch =>
      let '(n', evs) := rl_forest ch nctx (S nctx) in
      (n', LNew cur w ck :: LProbe nctx :: evs)
  end
with rl_forest (f : forest) (cur nctx : nat) : nat * list levent :=
  match f with
  | FNil => (nctx, [])
  | FCons n r =>
      let '(n1, e1) := rl_node n cur nctx in
      let '(n2, e2) := rl_forest r cur n1 in
      (n2, e1 ++ e2)
  end.

Definition lex_of (e : cevent) : option levent :=
  match e with
  | CProbe _ (Some c) => Some (LProbe c)
  | CNew (Some p) w ck => Some (LNew p w ck)
  | _ => None
  end.

(** * The forest as operations of Context.v.  [curh]: a handle of the current context [cur]; [nh], [nctx]: handles and
    contexts allocated so far.  The first lookup inside a provider (the harness always places one) is the handle
    [ONewSub] itself creates. *)
Fixpoint compile_node (n : node) (curh cur nh nctx : nat) : (nat * nat) * list op :=
  match n with
  | NLookup => ((S nh, nctx), [OScope curh])
  | NSub w ck ch =>
      let '(r, ops) := compile_forest ch nh nctx (S nh) (S nctx) in
      (r, ONewSub cur w ck :: ops)
  end
with compile_forest (f : forest) (curh cur nh nctx : nat) : (nat * nat) * list op :=
  match f with
  | FNil => ((nh, nctx), [])
  | FCons n r =>
      let '((nh1, nctx1), o1) := compile_node n curh cur nh nctx in
      let '(res, o2) := compile_forest r curh cur nh1 nctx1 in
      (res, o1 ++ o2)
  end.

(** the context each new handle denotes, read off the compiled operations' lexical events: handle k of the forest (in
    creation order) denotes the k-th [LProbe] *)
Fixpoint probes (evs : list levent) : list nat :=
  match evs with
  | [] => []
  | LProbe c :: r => c :: probes r
  | LNew _ _ _ :: r => probes r
  end.

(** every provider's `initial_locale` signal exists *)
Fixpoint node_wf (nus : nat) (n : node) : bool :=
  match n with
  | NLookup => true
  | NSub w _ ch => wire_ok w nus && forest_wf nus ch
  end
with forest_wf (nus : nat) (f : forest) : bool :=
  match f with
  | FNil => true
  | FCons n r => node_wf nus n && forest_wf nus r
  end.
