(** Proofs about the context machines (property C16): forward simulation between the signal-arena machine and
    the abstract map context -> locale, and the consequences stated in Props/C16.v. *)
From Coq Require Import List NArith Bool Arith Lia.
Import ListNotations.
From LI Require Import Runtime.Resolve.
From LI Require Import Runtime.Context.
Open Scope N_scope.

Definition wire_rel (s : cstate) (cw aw : option nat) : Prop :=
  match cw, aw with
  | Some id, Some u => (u < c_nus s)%nat /\ c_us s u = id
  | None, None => True
  | _, _ => False
  end.

(** the simulation relation: the abstract locale of a context is the content of its signal; distinct contexts own
    distinct signals, which are also distinct from every caller signal (freshness of allocation); handles,
    accessors and mounted effects hold the signal of their context *)
Record R (s : cstate) (a : astate) : Prop := mkR {
  R_nctx : c_nctx s = a_nctx a;
  R_nus : c_nus s = a_nus a;
  R_nh : c_nh s = a_nh a;
  R_nacc : c_nacc s = a_nacc a;
  R_nw : c_nw s = a_nw a;
  R_sig_lt : forall c, (c < c_nctx s)%nat -> (c_sig s c < c_nar s)%nat;
  R_loc : forall c, (c < c_nctx s)%nat -> a_loc a c = c_ar s (c_sig s c);
  R_meta : forall c, (c < c_nctx s)%nat -> a_meta a c = c_meta s c;
  R_wire : forall c, (c < c_nctx s)%nat -> wire_rel s (c_wire s c) (a_wire a c);
  R_sig_inj : forall c c', (c < c_nctx s)%nat -> (c' < c_nctx s)%nat -> c_sig s c = c_sig s c' -> c = c';
  R_us_lt : forall u, (u < c_nus s)%nat -> (c_us s u < c_nar s)%nat;
  R_us_val : forall u, (u < c_nus s)%nat -> a_us a u = c_ar s (c_us s u);
  R_us_inj : forall u u', (u < c_nus s)%nat -> (u' < c_nus s)%nat -> c_us s u = c_us s u' -> u = u';
  R_disj : forall c u, (c < c_nctx s)%nat -> (u < c_nus s)%nat -> c_sig s c <> c_us s u;
  R_h : forall h, (h < c_nh s)%nat -> (a_hctx a h < c_nctx s)%nat /\ c_hsig s h = c_sig s (a_hctx a h);
  R_acc : forall k, (k < c_nacc s)%nat -> (a_acc a k < c_nctx s)%nat /\ c_acc s k = c_sig s (a_acc a k);
  R_w : forall w, (w < c_nw s)%nat ->
        (a_wctx a w < c_nctx s)%nat /\ c_wsig s w = c_sig s (a_wctx a w) /\ a_wm a w = c_wm s w }.

Ltac brk :=
  repeat match goal with
         | |- context [Nat.eqb ?x ?y] => destruct (Nat.eqb_spec x y)
         | H : context [Nat.eqb ?x ?y] |- _ => destruct (Nat.eqb_spec x y)
         end.

Lemma sig_eqb s a c c' : R s a -> (c < c_nctx s)%nat -> (c' < c_nctx s)%nat ->
  Nat.eqb (c_sig s c') (c_sig s c) = Nat.eqb c' c.
Proof.
  intros HR Hc Hc'. destruct (Nat.eqb_spec c' c) as [->|Hn]; [apply Nat.eqb_refl|].
  apply Nat.eqb_neq. intros E. apply Hn. eapply R_sig_inj; eauto.
Qed.

Lemma R_initial l0 con : R (c_init l0 con) (a_init l0 con).
Proof.
  constructor; cbn; intros; try reflexivity; try lia; auto.
Qed.

(** RwSignal::set on the locale signal of context c *)
Lemma R_signal_set s a c v : R s a -> (c < c_nctx s)%nat ->
  R (c_signal_set (c_sig s c) v s) (a_set c v a).
Proof.
  intros HR Hc. destruct HR as [Hn1 Hn2 Hn3 Hn4 Hn5 Hlt Hloc Hmeta Hwire Hinj Huslt Husval Husinj Hdisj Hh Hacc Hw].
  assert (SE : forall c', (c' < c_nctx s)%nat -> Nat.eqb (c_sig s c') (c_sig s c) = Nat.eqb c' c).
  { intros c' Hc'. destruct (Nat.eqb_spec c' c) as [->|Hne]; [apply Nat.eqb_refl|].
    apply Nat.eqb_neq. intros E. apply Hne. apply Hinj; auto. }
  constructor; unfold c_signal_set, c_notify, c_set_wm, c_set_meta, c_set_ar, a_set, a_notify, a_set_wm, a_set_meta, a_set_loc;
    cbn; auto.
  - intros c' Hc'. unfold upd. rewrite SE by assumption. destruct (Nat.eqb c' c); auto.
  - intros c' Hc'. rewrite SE by assumption. rewrite Hmeta by assumption. reflexivity.
  - intros u Hu. unfold upd. rewrite Husval by assumption.
    destruct (Nat.eqb_spec (c_us s u) (c_sig s c)) as [E|E]; [exfalso; eapply Hdisj; eauto | reflexivity].
  - intros w Hw'. destruct (Hw w Hw') as [H1 [H2 H3]]. repeat split; auto.
    rewrite H2, SE by assumption. rewrite H3. reflexivity.
Qed.

Lemma R_write_untracked s a c v : R s a -> (c < c_nctx s)%nat ->
  R (c_signal_write_untracked (c_sig s c) v s) (a_set_untracked c v a).
Proof.
  intros HR Hc. destruct HR as [Hn1 Hn2 Hn3 Hn4 Hn5 Hlt Hloc Hmeta Hwire Hinj Huslt Husval Husinj Hdisj Hh Hacc Hw].
  assert (SE : forall c', (c' < c_nctx s)%nat -> Nat.eqb (c_sig s c') (c_sig s c) = Nat.eqb c' c).
  { intros c' Hc'. destruct (Nat.eqb_spec c' c) as [->|Hne]; [apply Nat.eqb_refl|].
    apply Nat.eqb_neq. intros E. apply Hne. apply Hinj; auto. }
  constructor; unfold c_signal_write_untracked, c_set_ar, a_set_untracked, a_set_loc; cbn; auto.
  - intros c' Hc'. unfold upd. rewrite SE by assumption. destruct (Nat.eqb c' c); auto.
  - intros u Hu. unfold upd. rewrite Husval by assumption.
    destruct (Nat.eqb_spec (c_us s u) (c_sig s c)) as [E|E]; [exfalso; eapply Hdisj; eauto | reflexivity].
Qed.

Lemma wire_is_rel s a c u : R s a -> (c < c_nctx s)%nat -> (u < c_nus s)%nat ->
  wire_is (c_wire s c) (c_us s u) = wire_is (a_wire a c) u.
Proof.
  intros HR Hc Hu. pose proof (R_wire _ _ HR c Hc) as W. unfold wire_rel in W.
  destruct (c_wire s c) as [id|], (a_wire a c) as [u'|]; cbn; try contradiction; try reflexivity.
  destruct W as [Hu' E]. subst id.
  destruct (Nat.eqb_spec u' u) as [->|Hne]; [apply Nat.eqb_refl|].
  apply Nat.eqb_neq. intros E. apply Hne. eapply R_us_inj; eauto.
Qed.

Lemma R_write s a u l : R s a -> R (c_write u l s) (a_write u l a).
Proof.
  intros HR. unfold c_write, a_write. rewrite <- (R_nus _ _ HR).
  destruct (Nat.ltb_spec u (c_nus s)) as [Hu|Hu]; [|assumption].
  pose proof (wire_is_rel s a) as WI.
  destruct HR as [Hn1 Hn2 Hn3 Hn4 Hn5 Hlt Hloc Hmeta Hwire Hinj Huslt Husval Husinj Hdisj Hh Hacc Hw].
  assert (HR : R s a) by (constructor; assumption).
  constructor; unfold c_set_meta, c_set_ar, a_set_meta, a_set_us; cbn; auto.
  - intros c Hc. unfold upd. rewrite Hloc by assumption.
    destruct (Nat.eqb_spec (c_sig s c) (c_us s u)) as [E|E]; [exfalso; eapply Hdisj; eauto | reflexivity].
  - intros c Hc. rewrite WI by assumption. rewrite Hmeta by assumption. reflexivity.
  - intros u' Hu'. unfold upd.
    destruct (Nat.eqb_spec u' u) as [->|Hne].
    + rewrite Nat.eqb_refl. reflexivity.
    + destruct (Nat.eqb_spec (c_us s u') (c_us s u)) as [E|E]; [exfalso; apply Hne; apply Husinj; auto | auto].
Qed.

Lemma R_set_meta_pt s a c m : R s a ->
  R (c_set_meta s (upd (c_meta s) c m)) (a_set_meta a (upd (a_meta a) c m)).
Proof.
  intros HR. destruct HR as [Hn1 Hn2 Hn3 Hn4 Hn5 Hlt Hloc Hmeta Hwire Hinj Huslt Husval Husinj Hdisj Hh Hacc Hw].
  constructor; unfold c_set_meta, a_set_meta; cbn; auto.
  intros c' Hc'. unfold upd. rewrite Hmeta by assumption. reflexivity.
Qed.

Lemma R_sync1 s a c : R s a -> (c < c_nctx s)%nat -> R (c_sync1 c s) (a_sync1 c a).
Proof.
  intros HR Hc. unfold c_sync1, a_sync1. rewrite (R_meta _ _ HR c Hc).
  destruct (m_dirty (c_meta s c)); [|assumption].
  pose proof (R_wire _ _ HR c Hc) as W. unfold wire_rel in W.
  destruct (c_wire s c) as [id|], (a_wire a c) as [u|]; try contradiction.
  - destruct W as [Hu E]. subst id. rewrite (R_us_val _ _ HR u Hu).
    destruct (listener_again None (Some (c_ar s (c_us s u))) (m_memo (c_meta s c)) =? m_memo (c_meta s c)).
    + apply R_set_meta_pt. assumption.
    + set (m' := set_memo _ _).
      change (c_sig s c) with (c_sig (c_set_meta s (upd (c_meta s) c m')) c).
      apply R_signal_set; [apply R_set_meta_pt; assumption | exact Hc].
  - apply R_set_meta_pt. assumption.
Qed.

Lemma c_sync1_nctx c s : c_nctx (c_sync1 c s) = c_nctx s.
Proof.
  unfold c_sync1. destruct (m_dirty (c_meta s c)); [|reflexivity].
  destruct (c_wire s c); [|reflexivity].
  destruct (_ =? _); reflexivity.
Qed.
Lemma c_sync_all_nctx n s : c_nctx (c_sync_all n s) = c_nctx s.
Proof. induction n; cbn [c_sync_all]; [reflexivity | rewrite c_sync1_nctx; assumption]. Qed.

Lemma R_sync_all n s a : R s a -> (n <= c_nctx s)%nat -> R (c_sync_all n s) (a_sync_all n a).
Proof.
  intros HR. induction n as [|k IH]; intros Hn; cbn [c_sync_all a_sync_all]; [assumption|].
  apply R_sync1; [apply IH; lia | rewrite c_sync_all_nctx; lia].
Qed.

Lemma R_cookies s a : R s a -> R (c_cookies s) (a_cookies a).
Proof.
  intros HR. destruct HR as [Hn1 Hn2 Hn3 Hn4 Hn5 Hlt Hloc Hmeta Hwire Hinj Huslt Husval Husinj Hdisj Hh Hacc Hw].
  constructor; unfold c_cookies, a_cookies, c_set_meta, a_set_meta; cbn; auto.
  intros c Hc. rewrite Hmeta, Hloc by assumption. reflexivity.
Qed.

Lemma R_watch s a : R s a -> R (c_watch s) (a_watch a).
Proof.
  intros HR. destruct HR as [Hn1 Hn2 Hn3 Hn4 Hn5 Hlt Hloc Hmeta Hwire Hinj Huslt Husval Husinj Hdisj Hh Hacc Hw].
  constructor; unfold c_watch, a_watch, c_set_wm, a_set_wm; cbn; auto.
  intros w Hw'. destruct (Hw w Hw') as [H1 [H2 H3]]. repeat split; auto.
  rewrite H3, H2, Hloc by assumption. reflexivity.
Qed.

Lemma R_flush s a : R s a -> R (c_flush s) (a_flush a).
Proof.
  intros HR. unfold c_flush, a_flush. rewrite <- (R_nctx _ _ HR).
  apply R_watch, R_cookies, R_sync_all; [assumption | lia].
Qed.

Lemma wire_rel_ext s s' cw aw :
  c_nus s' = c_nus s -> (forall u, (u < c_nus s)%nat -> c_us s' u = c_us s u) ->
  wire_rel s cw aw -> wire_rel s' cw aw.
Proof.
  intros E1 E2. unfold wire_rel. destruct cw, aw; auto. intros [H1 H2]. rewrite E1, E2; auto.
Qed.

Lemma R_new_sub s a p wire ck : R s a -> R (c_new_sub p wire ck s) (a_new_sub p wire ck a).
Proof.
  intros HR. unfold c_new_sub, a_new_sub. rewrite <- (R_nctx _ _ HR), <- (R_nus _ _ HR).
  destruct (Nat.ltb_spec p (c_nctx s)) as [Hp|Hp]; cbn [andb]; [|assumption].
  destruct (wire_ok wire (c_nus s)) eqn:Hwk; [|assumption].
  assert (Hinit : option_map (a_us a) wire = option_map (c_ar s) (option_map (c_us s) wire)).
  { destruct wire as [u|]; cbn in *; [|reflexivity]. apply Nat.ltb_lt in Hwk. rewrite (R_us_val _ _ HR u Hwk). reflexivity. }
  rewrite Hinit, (R_loc _ _ HR p Hp). rewrite <- (R_nh _ _ HR).
  set (init := listener_first _ _ _).
  destruct HR as [Hn1 Hn2 Hn3 Hn4 Hn5 Hlt Hloc Hmeta Hwire Hinj Huslt Husval Husinj Hdisj Hh Hacc Hw].
  constructor; cbn; auto.
  - intros c Hc. unfold upd. destruct (Nat.eqb_spec c (c_nctx s)); [lia|]. assert (c < c_nctx s)%nat by lia. specialize (Hlt c). lia.
  - intros c Hc. unfold upd. destruct (Nat.eqb_spec c (c_nctx s)) as [->|Hne].
    + rewrite Nat.eqb_refl. reflexivity.
    + assert (Hc' : (c < c_nctx s)%nat) by lia. specialize (Hlt c Hc').
      destruct (Nat.eqb_spec (c_sig s c) (c_nar s)); [lia | auto].
  - intros c Hc. unfold upd. destruct (Nat.eqb_spec c (c_nctx s)); [reflexivity | apply Hmeta; lia].
  - intros c Hc. unfold upd. destruct (Nat.eqb_spec c (c_nctx s)) as [->|Hne].
    + destruct wire as [u|]; cbn in *; [|exact I]. apply Nat.ltb_lt in Hwk. split; [assumption | reflexivity].
    + assert (Hc' : (c < c_nctx s)%nat) by lia. specialize (Hwire c Hc'). exact Hwire.
  - intros c c' Hc Hc'. unfold upd.
    destruct (Nat.eqb_spec c (c_nctx s)) as [->|H1], (Nat.eqb_spec c' (c_nctx s)) as [->|H2]; intros E; auto.
    + assert (Hq : (c' < c_nctx s)%nat) by lia. specialize (Hlt c' Hq). lia.
    + assert (Hq : (c < c_nctx s)%nat) by lia. specialize (Hlt c Hq). lia.
    + apply Hinj; auto; lia.
  - intros u Hu. specialize (Huslt u Hu). lia.
  - intros u Hu. unfold upd. specialize (Huslt u Hu). destruct (Nat.eqb_spec (c_us s u) (c_nar s)); [lia | auto].
  - intros c u Hc Hu. unfold upd. destruct (Nat.eqb_spec c (c_nctx s)) as [->|Hne].
    + specialize (Huslt u Hu). lia.
    + apply Hdisj; auto; lia.
  - intros h Hh'. unfold upd. destruct (Nat.eqb_spec h (c_nh s)) as [->|Hne].
    + rewrite Nat.eqb_refl. split; [lia | reflexivity].
    + assert (Hq : (h < c_nh s)%nat) by lia. destruct (Hh h Hq) as [H1 H2]. split; [lia|].
      destruct (Nat.eqb_spec (a_hctx a h) (c_nctx s)); [lia | assumption].
  - intros k Hk. destruct (Hacc k Hk) as [H1 H2]. split; [lia|]. unfold upd.
    destruct (Nat.eqb_spec (a_acc a k) (c_nctx s)); [lia | assumption].
  - intros w Hw'. destruct (Hw w Hw') as [H1 [H2 H3]]. split; [lia|]. split; [|assumption]. unfold upd.
    destruct (Nat.eqb_spec (a_wctx a w) (c_nctx s)); [lia | assumption].
Qed.

Lemma R_new_sig s a l : R s a -> R (c_new_sig l s) (a_new_sig l a).
Proof.
  intros HR. unfold c_new_sig, a_new_sig. rewrite <- (R_nus _ _ HR).
  destruct HR as [Hn1 Hn2 Hn3 Hn4 Hn5 Hlt Hloc Hmeta Hwire Hinj Huslt Husval Husinj Hdisj Hh Hacc Hw].
  constructor; cbn; auto.
  - intros c Hc. specialize (Hlt c Hc). lia.
  - intros c Hc. unfold upd. specialize (Hlt c Hc). destruct (Nat.eqb_spec (c_sig s c) (c_nar s)); [lia | auto].
  - intros c Hc. specialize (Hwire c Hc). unfold wire_rel in *. cbn.
    destruct (c_wire s c) as [id|], (a_wire a c) as [u|]; auto. destruct Hwire as [H1 H2]. split; [lia|].
    unfold upd. destruct (Nat.eqb_spec u (c_nus s)); [lia | assumption].
  - intros u Hu. unfold upd. destruct (Nat.eqb_spec u (c_nus s)); [lia|]. assert (Hq : (u < c_nus s)%nat) by lia. specialize (Huslt u Hq). lia.
  - intros u Hu. unfold upd. destruct (Nat.eqb_spec u (c_nus s)) as [->|Hne].
    + rewrite Nat.eqb_refl. reflexivity.
    + assert (Hq : (u < c_nus s)%nat) by lia. specialize (Huslt u Hq).
      destruct (Nat.eqb_spec (c_us s u) (c_nar s)); [lia | auto].
  - intros u u' Hu Hu'. unfold upd.
    destruct (Nat.eqb_spec u (c_nus s)) as [->|H1], (Nat.eqb_spec u' (c_nus s)) as [->|H2]; intros E; auto.
    + assert (Hq : (u' < c_nus s)%nat) by lia. specialize (Huslt u' Hq). lia.
    + assert (Hq : (u < c_nus s)%nat) by lia. specialize (Huslt u Hq). lia.
    + apply Husinj; auto; lia.
  - intros c u Hc Hu. unfold upd. destruct (Nat.eqb_spec u (c_nus s)) as [->|Hne].
    + specialize (Hlt c Hc). lia.
    + apply Hdisj; auto; lia.
Qed.

Lemma R_scope s a h : R s a -> R (c_scope h s) (a_scope h a).
Proof.
  intros HR. unfold c_scope, a_scope. rewrite <- (R_nh _ _ HR).
  destruct (Nat.ltb_spec h (c_nh s)) as [Hlt'|]; [|assumption].
  destruct HR as [Hn1 Hn2 Hn3 Hn4 Hn5 Hlt Hloc Hmeta Hwire Hinj Huslt Husval Husinj Hdisj Hh Hacc Hw].
  constructor; cbn; auto.
  intros h' Hh'. unfold upd. destruct (Nat.eqb_spec h' (c_nh s)); [apply Hh; assumption | apply Hh; lia].
Qed.

Lemma R_new_acc s a h : R s a -> R (c_new_acc h s) (a_new_acc h a).
Proof.
  intros HR. unfold c_new_acc, a_new_acc. rewrite <- (R_nh _ _ HR), <- (R_nacc _ _ HR).
  destruct (Nat.ltb_spec h (c_nh s)) as [Hlt'|]; [|assumption].
  destruct HR as [Hn1 Hn2 Hn3 Hn4 Hn5 Hlt Hloc Hmeta Hwire Hinj Huslt Husval Husinj Hdisj Hh Hacc Hw].
  constructor; cbn; auto.
  intros k Hk. unfold upd. destruct (Nat.eqb_spec k (c_nacc s)); [apply Hh; assumption | apply Hacc; lia].
Qed.

Lemma R_mount s a h : R s a -> R (c_mount h s) (a_mount h a).
Proof.
  intros HR. unfold c_mount, a_mount. rewrite <- (R_nh _ _ HR), <- (R_nw _ _ HR).
  destruct (Nat.ltb_spec h (c_nh s)) as [Hlt'|]; [|assumption].
  destruct HR as [Hn1 Hn2 Hn3 Hn4 Hn5 Hlt Hloc Hmeta Hwire Hinj Huslt Husval Husinj Hdisj Hh Hacc Hw].
  constructor; cbn; auto.
  intros w Hw'. unfold upd. destruct (Nat.eqb_spec w (c_nw s)).
  - destruct (Hh h Hlt') as [H1 H2]. repeat split; auto. rewrite Hloc, H2 by assumption. reflexivity.
  - apply Hw. lia.
Qed.

(** ** the simulation *)
Theorem R_step s a o : R s a -> R (c_step s o) (a_step a o).
Proof.
  intros HR. destruct o as [p w ck|l|u l|h l|h l|h|h|h| |]; cbn [c_step a_step].
  - apply R_new_sub; assumption.
  - apply R_new_sig; assumption.
  - apply R_write; assumption.
  - rewrite <- (R_nh _ _ HR). destruct (Nat.ltb_spec h (c_nh s)) as [Hh|]; [|assumption].
    destruct (R_h _ _ HR h Hh) as [H1 H2]. rewrite H2. apply R_signal_set; assumption.
  - rewrite <- (R_nh _ _ HR). destruct (Nat.ltb_spec h (c_nh s)) as [Hh|]; [|assumption].
    destruct (R_h _ _ HR h Hh) as [H1 H2]. rewrite H2. apply R_write_untracked; assumption.
  - apply R_scope; assumption.
  - apply R_new_acc; assumption.
  - apply R_mount; assumption.
  - assumption.
  - apply R_flush; assumption.
Qed.

Lemma tab_ext {A} n (f g : nat -> A) : (forall i, (i < n)%nat -> f i = g i) -> tab n f = tab n g.
Proof.
  intros H. unfold tab. apply map_ext_in. intros i Hi. apply in_seq in Hi. apply H. lia.
Qed.

Lemma R_obs s a : R s a -> c_obs s = a_obs a.
Proof.
  intros HR. unfold c_obs, a_obs.
  rewrite <- (R_nh _ _ HR), <- (R_nacc _ _ HR), <- (R_nw _ _ HR), <- (R_nctx _ _ HR). f_equal; apply tab_ext; intros i Hi.
  - destruct (R_h _ _ HR i Hi) as [H1 H2]. rewrite H2, (R_loc _ _ HR _ H1). reflexivity.
  - destruct (R_acc _ _ HR i Hi) as [H1 H2]. rewrite H2, (R_loc _ _ HR _ H1). reflexivity.
  - destruct (R_w _ _ HR i Hi) as [H1 [H2 H3]]. rewrite H3. reflexivity.
  - rewrite (R_meta _ _ HR i Hi). reflexivity.
Qed.

Lemma R_trace s a ops : R s a -> c_trace s ops = a_trace a ops.
Proof.
  revert s a; induction ops as [|o r IH]; intros s a HR; cbn [c_trace a_trace]; [reflexivity|].
  pose proof (R_step s a o HR) as HR'. rewrite (R_obs _ _ HR'). f_equal. apply IH. exact HR'.
Qed.

Lemma R_run s a ops : R s a -> R (c_run s ops) (a_run a ops).
Proof.
  revert s a; induction ops as [|o r IH]; intros s a HR; cbn; [assumption|]. apply IH. apply R_step. exact HR.
Qed.

(** every operation list, every placement of flushes: the arena machine shows exactly what the abstract map shows *)
Theorem refines l0 con ops :
  model_trace l0 con ops = spec_trace l0 con ops
  /\ R (c_run (c_init l0 con) ops) (a_run (a_init l0 con) ops).
Proof.
  unfold model_trace, spec_trace. pose proof (R_initial l0 con) as HR. split.
  - rewrite (R_obs _ _ HR). f_equal. apply R_trace. exact HR.
  - apply R_run. exact HR.
Qed.

(** * Facts about the abstract machine *)
Lemma a_sync1_loc_other k c a : c <> k -> a_loc (a_sync1 k a) c = a_loc a c.
Proof.
  intros Hne. unfold a_sync1. destruct (m_dirty (a_meta a k)); [|reflexivity].
  destruct (a_wire a k); [|reflexivity]. destruct (_ =? _); [reflexivity|].
  cbn. unfold upd. destruct (Nat.eqb_spec c k); [contradiction | reflexivity].
Qed.

Lemma a_sync1_clean c a : m_dirty (a_meta a c) = false -> a_sync1 c a = a.
Proof. intros H. unfold a_sync1. rewrite H. reflexivity. Qed.

Lemma a_sync1_dirty k c a : m_dirty (a_meta (a_sync1 k a) c) = true -> m_dirty (a_meta a c) = true.
Proof.
  unfold a_sync1. destruct (m_dirty (a_meta a k)) eqn:D; [|auto].
  destruct (a_wire a k); [destruct (_ =? _)|]; cbn; unfold upd; brk; subst; cbn; try discriminate; auto.
Qed.

Lemma a_sync_all_frame n c a : m_dirty (a_meta a c) = false ->
  a_loc (a_sync_all n a) c = a_loc a c /\ m_dirty (a_meta (a_sync_all n a) c) = false.
Proof.
  intros D. induction n as [|k [IH1 IH2]]; cbn [a_sync_all]; [auto|].
  destruct (Nat.eq_dec c k) as [->|Hne].
  - rewrite a_sync1_clean by assumption. auto.
  - rewrite a_sync1_loc_other by assumption. split; [assumption|].
    destruct (m_dirty (a_meta (a_sync1 k (a_sync_all k a)) c)) eqn:E; [|reflexivity].
    apply a_sync1_dirty in E. congruence.
Qed.

Lemma a_flush_loc c a : m_dirty (a_meta a c) = false -> a_loc (a_flush a) c = a_loc a c.
Proof. intros D. unfold a_flush. cbn. apply a_sync_all_frame. exact D. Qed.

(** operation [o] is a set through a handle of context [c], or a write of the caller signal wired into [c] *)
Definition touches (c : nat) (a : astate) (o : op) : bool :=
  match o with
  | OSet h _ | OSetU h _ => Nat.ltb h (a_nh a) && Nat.eqb (a_hctx a h) c
  | OWrite u _ => Nat.ltb u (a_nus a) && wire_is (a_wire a c) u
  | _ => false
  end.

Lemma a_loc_frame a o c :
  (c < a_nctx a)%nat -> m_dirty (a_meta a c) = false -> touches c a o = false ->
  a_loc (a_step a o) c = a_loc a c.
Proof.
  intros Hc D T. destruct o as [p w ck|l|u l|h l|h l|h|h|h| |]; cbn [a_step touches] in *.
  - unfold a_new_sub. destruct (_ && _); [|reflexivity]. cbn. unfold upd. destruct (Nat.eqb_spec c (a_nctx a)); [lia | reflexivity].
  - reflexivity.
  - unfold a_write. destruct (Nat.ltb u (a_nus a)); reflexivity.
  - destruct (Nat.ltb h (a_nh a)); [|reflexivity]. cbn in T. cbn. unfold upd.
    destruct (Nat.eqb_spec c (a_hctx a h)) as [E|E]; [|reflexivity]. subst c. rewrite Nat.eqb_refl in T. discriminate.
  - destruct (Nat.ltb h (a_nh a)); [|reflexivity]. cbn in T. cbn. unfold upd.
    destruct (Nat.eqb_spec c (a_hctx a h)) as [E|E]; [|reflexivity]. subst c. rewrite Nat.eqb_refl in T. discriminate.
  - unfold a_scope. destruct (Nat.ltb h (a_nh a)); reflexivity.
  - unfold a_new_acc. destruct (Nat.ltb h (a_nh a)); reflexivity.
  - unfold a_mount. destruct (Nat.ltb h (a_nh a)); reflexivity.
  - reflexivity.
  - apply a_flush_loc. exact D.
Qed.

Lemma a_dirty_step a o c :
  (c < a_nctx a)%nat -> m_dirty (a_meta a c) = false -> touches c a o = false ->
  m_dirty (a_meta (a_step a o) c) = false.
Proof.
  intros Hc D T. destruct o as [p w ck|l|u l|h l|h l|h|h|h| |]; cbn [a_step touches] in *.
  - unfold a_new_sub. destruct (_ && _); [|assumption]. cbn. unfold upd. destruct (Nat.eqb_spec c (a_nctx a)); [lia | assumption].
  - assumption.
  - unfold a_write. destruct (Nat.ltb u (a_nus a)); [|assumption]. cbn in *. rewrite T. assumption.
  - destruct (Nat.ltb h (a_nh a)); [|assumption]. cbn. destruct (Nat.eqb c (a_hctx a h)); cbn; assumption.
  - destruct (Nat.ltb h (a_nh a)); [|assumption]. cbn. assumption.
  - unfold a_scope. destruct (Nat.ltb h (a_nh a)); assumption.
  - unfold a_new_acc. destruct (Nat.ltb h (a_nh a)); assumption.
  - unfold a_mount. destruct (Nat.ltb h (a_nh a)); assumption.
  - assumption.
  - unfold a_flush. cbn. destruct (a_sync_all_frame (a_nctx a) c a D) as [_ D'].
    destruct (m_cpend _); cbn; exact D'.
Qed.

Lemma a_sync_all_nctx n a : a_nctx (a_sync_all n a) = a_nctx a.
Proof.
  induction n as [|k IH]; cbn [a_sync_all]; [reflexivity|].
  unfold a_sync1. destruct (m_dirty _); [|assumption]. destruct (a_wire (a_sync_all k a) k); [destruct (_ =? _)|]; cbn; assumption.
Qed.

Lemma a_nctx_mono a o : (a_nctx a <= a_nctx (a_step a o))%nat.
Proof.
  destruct o as [p w ck|l|u l|h l|h l|h|h|h| |]; cbn [a_step]; auto.
  - unfold a_new_sub. destruct (_ && _); cbn; lia.
  - unfold a_write. destruct (Nat.ltb _ _); cbn; lia.
  - destruct (Nat.ltb _ _); cbn; lia.
  - destruct (Nat.ltb _ _); cbn; lia.
  - unfold a_scope. destruct (Nat.ltb _ _); cbn; lia.
  - unfold a_new_acc. destruct (Nat.ltb _ _); cbn; lia.
  - unfold a_mount. destruct (Nat.ltb _ _); cbn; lia.
  - unfold a_flush. cbn. rewrite a_sync_all_nctx. lia.
Qed.

Lemma a_sync_all_struct n a :
  a_nh (a_sync_all n a) = a_nh a /\ a_hctx (a_sync_all n a) = a_hctx a /\ a_nacc (a_sync_all n a) = a_nacc a
  /\ a_acc (a_sync_all n a) = a_acc a /\ a_wire (a_sync_all n a) = a_wire a /\ a_nus (a_sync_all n a) = a_nus a
  /\ a_nw (a_sync_all n a) = a_nw a /\ a_wctx (a_sync_all n a) = a_wctx a.
Proof.
  induction n as [|k IH]; cbn [a_sync_all]; [repeat split|].
  unfold a_sync1. destruct (m_dirty _); [|assumption]. destruct (a_wire (a_sync_all k a) k); [destruct (_ =? _)|]; cbn; assumption.
Qed.

(** handles (and what they denote) persist *)
Lemma a_handles_step a o h : (h < a_nh a)%nat ->
  (h < a_nh (a_step a o))%nat /\ a_hctx (a_step a o) h = a_hctx a h.
Proof.
  intros Hh. destruct o as [p w ck|l|u l|h' l|h' l|h'|h'|h'| |]; cbn [a_step]; auto.
  - unfold a_new_sub. destruct (_ && _); cbn; [|auto]. unfold upd. destruct (Nat.eqb_spec h (a_nh a)); [lia|]. split; [lia | reflexivity].
  - unfold a_write. destruct (Nat.ltb _ _); cbn; auto.
  - destruct (Nat.ltb _ _); cbn; auto.
  - destruct (Nat.ltb _ _); cbn; auto.
  - unfold a_scope. destruct (Nat.ltb _ _); cbn; [|auto]. unfold upd. destruct (Nat.eqb_spec h (a_nh a)); [lia|]. split; [lia | reflexivity].
  - unfold a_new_acc. destruct (Nat.ltb _ _); cbn; auto.
  - unfold a_mount. destruct (Nat.ltb _ _); cbn; auto.
  - unfold a_flush. cbn. destruct (a_sync_all_struct (a_nctx a) a) as [E1 [E2 _]]. rewrite E1, E2. auto.
Qed.

(** a context into which no caller signal is wired never has a scheduled re-synchronisation *)
Definition unwired_clean (a : astate) : Prop := forall c, a_wire a c = None -> m_dirty (a_meta a c) = false.

Lemma unwired_clean_step a o : unwired_clean a -> unwired_clean (a_step a o).
Proof.
  intros I c. destruct o as [p w ck|l|u l|h l|h l|h|h|h| |]; cbn [a_step]; try apply I.
  - unfold a_new_sub. destruct (_ && _); [|apply I]. cbn. unfold upd. destruct (Nat.eqb c (a_nctx a)); [reflexivity | apply I].
  - unfold a_write. destruct (Nat.ltb _ _); [|apply I]. cbn. intros W. rewrite W. cbn. apply I. exact W.
  - destruct (Nat.ltb _ _); [|apply I]. cbn. intros W. destruct (Nat.eqb c (a_hctx a h)); cbn; apply I; exact W.
  - destruct (Nat.ltb _ _); [|apply I]. cbn. apply I.
  - unfold a_scope. destruct (Nat.ltb _ _); apply I.
  - unfold a_new_acc. destruct (Nat.ltb _ _); apply I.
  - unfold a_mount. destruct (Nat.ltb _ _); apply I.
  - unfold a_flush. cbn. destruct (a_sync_all_struct (a_nctx a) a) as [_ [_ [_ [_ [E _]]]]]. rewrite E. intros W.
    destruct (a_sync_all_frame (a_nctx a) c a (I c W)) as [_ D]. destruct (m_cpend _); cbn; exact D.
Qed.

Lemma unwired_clean_run a ops : unwired_clean a -> unwired_clean (a_run a ops).
Proof. revert a; induction ops as [|o r IH]; intros a I; cbn; [assumption|]. apply IH, unwired_clean_step, I. Qed.

Lemma unwired_clean_init l0 con : unwired_clean (a_init l0 con).
Proof. intros c _. reflexivity. Qed.

(** * Consequences on the concrete machine *)
Theorem views_agree l0 con ops :
  let s := c_run (c_init l0 con) ops in
  let a := a_run (a_init l0 con) ops in
  c_nh s = a_nh a /\ c_nacc s = a_nacc a /\
  (forall h, (h < c_nh s)%nat -> c_ar s (c_hsig s h) = a_loc a (a_hctx a h)) /\
  (forall k, (k < c_nacc s)%nat -> c_ar s (c_acc s k) = a_loc a (a_acc a k)).
Proof.
  intros s a. destruct (refines l0 con ops) as [_ HR]. fold s a in HR.
  split; [apply (R_nh _ _ HR)|]. split; [apply (R_nacc _ _ HR)|]. split.
  - intros h Hh. destruct (R_h _ _ HR h Hh) as [H1 H2]. rewrite H2. symmetry. apply (R_loc _ _ HR). exact H1.
  - intros k Hk. destruct (R_acc _ _ HR k Hk) as [H1 H2]. rewrite H2. symmetry. apply (R_loc _ _ HR). exact H1.
Qed.

Fixpoint quiet (c : nat) (a : astate) (ops : list op) : bool :=
  match ops with
  | [] => true
  | o :: r => negb (touches c a o) && quiet c (a_step a o) r
  end.

Lemma quiet_run c a ops :
  (c < a_nctx a)%nat -> m_dirty (a_meta a c) = false -> quiet c a ops = true ->
  a_loc (a_run a ops) c = a_loc a c.
Proof.
  revert a; induction ops as [|o r IH]; intros a Hc D Q; cbn [a_run fold_left quiet] in *; [reflexivity|].
  apply andb_true_iff in Q as [T Q]. apply negb_true_iff in T.
  change (fold_left a_step r (a_step a o)) with (a_run (a_step a o) r).
  rewrite IH; auto.
  - apply a_loc_frame; assumption.
  - pose proof (a_nctx_mono a o). lia.
  - apply a_dirty_step; assumption.
Qed.

Lemma run_app {S} (f : S -> op -> S) s ops o ops' :
  fold_left f (ops ++ o :: ops') s = fold_left f ops' (f (fold_left f ops s) o).
Proof. rewrite fold_left_app. reflexivity. Qed.

(** after a set (tracked or not) through any handle of a context, every handle — hence every scoped view — and
    every accessor of that context, created before or after, shows the value set, for as long as no further set
    goes through a handle of that context and no wired caller signal of that context is written *)
Theorem last_set l0 con ops h l (tracked : bool) ops' :
  let a0 := a_run (a_init l0 con) ops in
  let c := a_hctx a0 h in
  let o := if tracked then OSet h l else OSetU h l in
  (h < a_nh a0)%nat ->
  m_dirty (a_meta a0 c) = false ->
  quiet c (a_step a0 o) ops' = true ->
  let s := c_run (c_init l0 con) (ops ++ o :: ops') in
  let a := a_run (a_init l0 con) (ops ++ o :: ops') in
  (forall h', (h' < c_nh s)%nat -> a_hctx a h' = c -> c_ar s (c_hsig s h') = l) /\
  (forall k, (k < c_nacc s)%nat -> a_acc a k = c -> c_ar s (c_acc s k) = l).
Proof.
  intros a0 c o Hh D Q s a.
  destruct (refines l0 con ops) as [_ HR0]. fold a0 in HR0.
  assert (Hc : (c < a_nctx a0)%nat).
  { rewrite <- (R_nctx _ _ HR0). apply (R_h _ _ HR0). rewrite (R_nh _ _ HR0). exact Hh. }
  assert (Hl : a_loc a c = l).
  { unfold a, a_run. rewrite run_app. fold (a_run (a_init l0 con) ops). fold a0.
    change (fold_left a_step ops' (a_step a0 o)) with (a_run (a_step a0 o) ops').
    rewrite quiet_run; auto.
    - unfold o. destruct tracked; cbn [a_step]; apply Nat.ltb_lt in Hh; rewrite Hh; cbn; unfold upd; fold c; rewrite Nat.eqb_refl; reflexivity.
    - pose proof (a_nctx_mono a0 o). lia.
    - unfold o. destruct tracked; cbn [a_step]; apply Nat.ltb_lt in Hh; rewrite Hh; cbn; fold c; [rewrite Nat.eqb_refl; cbn|]; exact D. }
  destruct (views_agree l0 con (ops ++ o :: ops')) as [_ [_ [V1 V2]]]. fold s a in V1, V2.
  split.
  - intros h' Hh' E. rewrite V1, E by assumption. exact Hl.
  - intros k Hk E. rewrite V2, E by assumption. exact Hl.
Qed.

(** what is read through a handle does not change under any operation that is neither a set through a handle of the
    same context nor a write of a caller signal wired into it (sets on the parent, on children, on siblings,
    creation of sub-contexts, flushes, ... leave it alone) *)
Theorem isolation l0 con ops o :
  let s := c_run (c_init l0 con) ops in
  let a := a_run (a_init l0 con) ops in
  forall h, (h < c_nh s)%nat ->
  let c := a_hctx a h in
  m_dirty (a_meta a c) = false -> touches c a o = false ->
  (h < c_nh (c_step s o))%nat /\ c_ar (c_step s o) (c_hsig (c_step s o) h) = c_ar s (c_hsig s h).
Proof.
  intros s a h Hh c D T.
  destruct (refines l0 con ops) as [_ HR]. fold s a in HR.
  pose proof (R_step _ _ o HR) as HR'.
  assert (Hha : (h < a_nh a)%nat) by (rewrite <- (R_nh _ _ HR); exact Hh).
  destruct (a_handles_step a o h Hha) as [Hh' Ec].
  assert (Hh'' : (h < c_nh (c_step s o))%nat) by (rewrite (R_nh _ _ HR'); exact Hh').
  split; [exact Hh''|].
  destruct (R_h _ _ HR' h Hh'') as [B1 B2]. rewrite B2, <- (R_loc _ _ HR' _ B1), Ec.
  destruct (R_h _ _ HR h Hh) as [A1 A2]. rewrite A2, <- (R_loc _ _ HR _ A1). fold c.
  apply a_loc_frame; auto. rewrite <- (R_nctx _ _ HR). exact A1.
Qed.

(** for a context without a wired caller signal the side condition is void: only sets through its own handles count *)
Theorem isolation_unwired l0 con ops o :
  let s := c_run (c_init l0 con) ops in
  let a := a_run (a_init l0 con) ops in
  forall h, (h < c_nh s)%nat ->
  let c := a_hctx a h in
  a_wire a c = None ->
  (forall h' l, (o = OSet h' l \/ o = OSetU h' l) -> (h' < a_nh a)%nat -> a_hctx a h' <> c) ->
  c_ar (c_step s o) (c_hsig (c_step s o) h) = c_ar s (c_hsig s h).
Proof.
  intros s a h Hh c W NS. apply isolation; auto.
  - apply (unwired_clean_run _ ops (unwired_clean_init l0 con)). exact W.
  - subst c a s. destruct o as [p w ck|l|u l|h' l|h' l|h'|h'|h'| |]; cbn [touches]; auto.
    + rewrite W. cbn. apply andb_false_r.
    + destruct (Nat.ltb_spec h' (a_nh (a_run (a_init l0 con) ops))) as [L|L]; [|reflexivity]. cbn.
      apply Nat.eqb_neq. apply (NS h' l); auto.
    + destruct (Nat.ltb_spec h' (a_nh (a_run (a_init l0 con) ops))) as [L|L]; [|reflexivity]. cbn.
      apply Nat.eqb_neq. apply (NS h' l); auto.
Qed.

(** * The executable predicate holds of the model *)
(** a mounted effect of a context whose last change was notified is scheduled or up to date *)
Definition Wi (sil : nat -> bool) (a : astate) : Prop :=
  forall w, (w < a_nw a)%nat -> sil (a_wctx a w) = false ->
  snd (a_wm a w) = true \/ fst (a_wm a w) = a_loc a (a_wctx a w).
Definition Bnd (a : astate) : Prop :=
  (forall h, (h < a_nh a)%nat -> (a_hctx a h < a_nctx a)%nat) /\
  (forall w, (w < a_nw a)%nat -> (a_wctx a w < a_nctx a)%nat).

Lemma R_Bnd s a : R s a -> Bnd a.
Proof.
  intros HR. split.
  - intros h Hh. rewrite <- (R_nctx _ _ HR). apply (R_h _ _ HR). rewrite (R_nh _ _ HR). exact Hh.
  - intros w Hw. rewrite <- (R_nctx _ _ HR). apply (R_w _ _ HR). rewrite (R_nw _ _ HR). exact Hw.
Qed.

Lemma Wi_set sil a c v : Wi sil a -> Wi (fun i => if Nat.eqb i c then false else sil i) (a_set c v a).
Proof.
  intros I w Hw S. cbn in *. unfold upd.
  destruct (Nat.eqb_spec (a_wctx a w) c) as [E|E]; cbn; [left; reflexivity|]. apply I; assumption.
Qed.

Lemma Wi_sync1 sil a k : Wi sil a -> Wi sil (a_sync1 k a).
Proof.
  intros I. unfold a_sync1. destruct (m_dirty (a_meta a k)); [|assumption].
  destruct (a_wire a k); [destruct (_ =? _)|]; try exact I.
  intros w Hw S. cbn in *. unfold upd.
  destruct (Nat.eqb_spec (a_wctx a w) k) as [E|E]; cbn; [left; reflexivity|]. apply I; assumption.
Qed.

Lemma Wi_sync_all sil a n : Wi sil a -> Wi sil (a_sync_all n a).
Proof. intros I. induction n; cbn [a_sync_all]; [assumption | apply Wi_sync1; assumption]. Qed.

Lemma Wi_flush sil a : Wi sil a ->
  Wi sil (a_flush a) /\ forall w, snd (a_wm (a_flush a) w) = false.
Proof.
  intros I. pose proof (Wi_sync_all sil a (a_nctx a) I) as I'. unfold a_flush. set (a1 := a_sync_all (a_nctx a) a) in *.
  split.
  - intros w Hw S. cbn in *. destruct (snd (a_wm a1 w)) eqn:P; cbn; [right; reflexivity|].
    destruct (I' w Hw S) as [Q|Q]; [congruence | right; exact Q].
  - intros w. cbn. destruct (snd (a_wm a1 w)) eqn:P; cbn; [reflexivity | exact P].
Qed.

Lemma k_a_step k o : k_a (k_step k o) = a_step (k_a k) o.
Proof. destruct o; reflexivity. Qed.

Lemma Wi_step k o : Bnd (k_a k) -> Wi (k_silent k) (k_a k) -> Wi (k_silent (k_step k o)) (k_a (k_step k o)).
Proof.
  intros [Bh Bw] I. destruct o as [p w ck|l|u l|h l|h l|h|h|h| |]; cbn [k_step k_a k_silent a_step].
  - unfold a_new_sub. destruct (_ && _).
    + intros w' Hw' S. cbn in Hw', S |- *. specialize (Bw w' Hw'). unfold upd in *.
      destruct (Nat.eqb_spec (a_wctx (k_a k) w') (a_nctx (k_a k))); [lia|]. apply I; assumption.
    + intros w' Hw' S. cbn in Hw', S |- *. specialize (Bw w' Hw').
      destruct (Nat.eqb_spec (a_wctx (k_a k) w') (a_nctx (k_a k))); [lia|]. apply I; assumption.
  - exact I.
  - unfold a_write. destruct (Nat.ltb _ _); exact I.
  - destruct (Nat.ltb h (a_nh (k_a k))); cbn [andb]; [|exact I].
    apply (Wi_set _ _ (a_hctx (k_a k) h) l) in I. exact I.
  - destruct (Nat.ltb h (a_nh (k_a k))); cbn [andb]; [|exact I].
    intros w' Hw' S. cbn in *. unfold upd.
    destruct (Nat.eqb_spec (a_wctx (k_a k) w') (a_hctx (k_a k) h)) as [E|E]; [discriminate|]. apply I; assumption.
  - unfold a_scope. destruct (Nat.ltb _ _); exact I.
  - unfold a_new_acc. destruct (Nat.ltb _ _); exact I.
  - unfold a_mount. destruct (Nat.ltb _ _); [|exact I].
    intros w' Hw' S. cbn in *. unfold upd in *. destruct (Nat.eqb_spec w' (a_nw (k_a k))); cbn.
    + right. reflexivity.
    + apply I; [lia | assumption].
  - exact I.
  - apply Wi_flush. exact I.
Qed.

Lemma tab_length {A} n (f : nat -> A) : length (tab n f) = n.
Proof. unfold tab. rewrite map_length, seq_length. reflexivity. Qed.
Lemma tab_nth {A} n (f : nat -> A) i : (i < n)%nat -> nth_error (tab n f) i = Some (f i).
Proof.
  intros H. unfold tab. apply map_nth_error.
  rewrite (nth_error_nth' _ O) by (rewrite seq_length; exact H). rewrite seq_nth by exact H. reflexivity.
Qed.
Lemma all_lt_true n f : (forall i, (i < n)%nat -> f i = true) -> all_lt n f = true.
Proof. intros H. unfold all_lt. apply forallb_forall. intros i Hi. apply in_seq in Hi. apply H. lia. Qed.

Lemma k_check_model k fl :
  Wi (k_silent k) (k_a k) -> (fl = true -> forall w, snd (a_wm (k_a k) w) = false) ->
  k_check k fl (a_obs (k_a k)) = true.
Proof.
  intros I F. unfold k_check, a_obs. cbn [o_handles o_accs o_watch o_cookies]. set (a := k_a k) in *.
  rewrite !tab_length, !Nat.eqb_refl. cbn [andb].
  repeat (apply andb_true_iff; split).
  - apply all_lt_true. intros h Hh. unfold nthN. rewrite tab_nth by assumption.
    destruct (k_ex k (a_hctx a h)).
    + apply all_lt_true. intros h' Hh'. rewrite tab_nth by assumption.
      destruct (Nat.eqb_spec (a_hctx a h') (a_hctx a h)) as [E|E]; cbn; [rewrite E; apply N.eqb_refl | reflexivity].
    + cbn. apply N.eqb_refl.
  - apply all_lt_true. intros i Hi. unfold nthN. rewrite tab_nth by assumption.
    destruct (k_ex k (a_acc a i)).
    + apply all_lt_true. intros h' Hh'. rewrite tab_nth by assumption.
      destruct (Nat.eqb_spec (a_hctx a h') (a_acc a i)) as [E|E]; cbn; [rewrite E; apply N.eqb_refl | reflexivity].
    + cbn. apply N.eqb_refl.
  - destruct fl; cbn [negb orb]; [|reflexivity].
    apply all_lt_true. intros w Hw. unfold nthN. rewrite tab_nth by assumption.
    destruct (k_ex k (a_wctx a w)); cbn [orb]; [reflexivity|].
    destruct (k_silent k (a_wctx a w)) eqn:S; cbn [orb]; [reflexivity|].
    destruct (I w Hw S) as [Q|Q]; [rewrite (F eq_refl w) in Q; discriminate|].
    rewrite Q. cbn. apply N.eqb_refl.
Qed.

Lemma k_trace_model ops : forall k s,
  R s (k_a k) -> Wi (k_silent k) (k_a k) -> k_trace k ops (a_trace (k_a k) ops) = true.
Proof.
  induction ops as [|o r IH]; intros k s HR I; cbn [k_trace a_trace]; [reflexivity|].
  pose proof (Wi_step k o (R_Bnd _ _ HR) I) as I'.
  pose proof (R_step _ _ o HR) as HR'. rewrite <- k_a_step in *.
  apply andb_true_iff. split.
  - apply k_check_model; [exact I'|]. intros Fl. destruct o; try discriminate.
    rewrite k_a_step. cbn [a_step]. apply (Wi_flush (k_silent k) (k_a k) I).
  - eapply IH; eauto.
Qed.

Theorem spec_C16_model l0 con ops : spec_C16 l0 con ops (model_trace l0 con ops) = true.
Proof.
  destruct (refines l0 con ops) as [E _]. rewrite E. unfold spec_trace, spec_C16.
  assert (I : Wi (k_silent (k_init l0 con)) (k_a (k_init l0 con))) by (intros w Hw; cbn in Hw; lia).
  apply andb_true_iff. split.
  - apply (k_check_model (k_init l0 con) false I). discriminate.
  - apply (k_trace_model ops (k_init l0 con) (c_init l0 con)); [apply R_initial | exact I].
Qed.

(** * Non-vacuity and sensitivity of the predicate *)
Definition ex_ops : list op :=
  [OAcc 0; ONewSub 0 None None; OSet 1 3; OFlush; OSet 0 4; OScope 0; OMount 2; OSetU 2 1; OFlush; OSet 0 2; OFlush;
   ONewSig 2; ONewSub 1 (Some 0%nat) (Some (Some 3)); OFlush; OWrite 0 4; OSet 3 0; OFlush].
Example ex_trace_handles :
  map o_handles (model_trace 1 true ex_ops) =
  [[1]; [1]; [1;1]; [1;3]; [1;3]; [4;3]; [4;3;4]; [4;3;4]; [1;3;1]; [1;3;1]; [2;3;2]; [2;3;2]; [2;3;2]; [2;3;2;3]; [2;3;2;3];
   [2;3;2;3]; [2;3;2;0]; [2;3;2;4]].
Proof. vm_compute. reflexivity. Qed.
Example ex_trace_watch_cookie :
  map (fun o => (o_watch o, o_cookies o)) (skipn 14 (model_trace 1 true ex_ops)) =
  [([2], [Some 2; None; Some 3]); ([2], [Some 2; None; Some 3]); ([2], [Some 2; None; Some 3]); ([2], [Some 2; None; Some 4])].
Proof. vm_compute. reflexivity. Qed.
(** a trace in which the parent moves when the child is set is rejected *)
Example ex_leak_rejected :
  spec_C16 1 false [ONewSub 0 None None; OSet 1 3]
    [mk_obs [1] [] [] [None]; mk_obs [1;1] [] [] [None;None]; mk_obs [3;3] [] [] [None;None]] = false.
Proof. vm_compute. reflexivity. Qed.
(** a trace in which an accessor created earlier keeps the old locale is rejected *)
Example ex_stale_accessor_rejected :
  spec_C16 1 false [OAcc 0; OSetU 0 2]
    [mk_obs [1] [] [] [None]; mk_obs [1] [1] [] [None]; mk_obs [2] [1] [] [None]] = false.
Proof. vm_compute. reflexivity. Qed.
(** a mounted effect that is not re-run by a tracked set is rejected, one not re-run by an untracked set is accepted *)
Example ex_unnotified_rejected :
  spec_C16 1 false [OMount 0; OSet 0 2; OFlush]
    [mk_obs [1] [] [] [None]; mk_obs [1] [] [1] [None]; mk_obs [2] [] [1] [None]; mk_obs [2] [] [1] [None]] = false.
Proof. vm_compute. reflexivity. Qed.
Example ex_untracked_accepted :
  spec_C16 1 false [OMount 0; OSetU 0 2; OFlush]
    [mk_obs [1] [] [] [None]; mk_obs [1] [] [1] [None]; mk_obs [2] [] [1] [None]; mk_obs [2] [] [1] [None]] = true.
Proof. vm_compute. reflexivity. Qed.
