(** Proofs about the initial-resolution model (property C15). *)
From Coq Require Import List NArith Bool Arith Lia.
Import ListNotations.
From LI Require Import Base.StrOps.
From LI Require Import Runtime.Langid.
From LI Require Import Runtime.LangidProofs.
From LI Require Import Runtime.Resolve.
Open Scope N_scope.

(** ** generated FromStr *)
Lemma from_str_arms_some names i s k :
  from_str_arms names i s = Some k ->
  i <= k /\ exists n, nth_error names (N.to_nat (k - i)) = Some n /\ str_eqb n s = true.
Proof.
  revert i; induction names as [|n r IH]; intros i H; cbn [from_str_arms] in H; [discriminate|].
  destruct (str_eqb n s) eqn:E.
  - inversion H; subst k. split; [lia|]. exists n. rewrite N.sub_diag. cbn. auto.
  - apply IH in H as [Hle [m [Hn Hm]]]. split; [lia|]. exists m. split; [|assumption].
    replace (N.to_nat (k - i)) with (S (N.to_nat (k - (i + 1)))) by lia. exact Hn.
Qed.

Lemma from_str_arms_none names i s :
  from_str_arms names i s = None <-> existsb (fun n => str_eqb n s) names = false.
Proof.
  revert i; induction names as [|n r IH]; intros i; cbn [from_str_arms existsb]; [tauto|].
  destruct (str_eqb n s); cbn [orb]; [split; discriminate | apply IH].
Qed.

Lemma from_str_named a v k : from_str a v = Some k -> named_by a v k = true.
Proof.
  unfold from_str, named_by, name_of. intros H. apply from_str_arms_some in H as [_ [n [Hn He]]].
  rewrite N.sub_0_r in Hn. rewrite Hn. exact He.
Qed.

Lemma from_str_configured a v : configured a (trim v) = true -> exists k, from_str a v = Some k.
Proof.
  unfold configured, from_str. intros H. destruct (from_str_arms (a_names a) 0 (trim v)) as [k|] eqn:E; [eauto|].
  apply from_str_arms_none in E. congruence.
Qed.

Lemma from_str_invalid a v : configured a (trim v) = false -> from_str a v = None.
Proof. unfold configured, from_str. intros H. apply from_str_arms_none. exact H. Qed.

(** with pairwise distinct names the cookie names exactly one locale *)
Lemma str_eqb_eq x y : str_eqb x y = true <-> x = y.
Proof.
  revert y; induction x as [|c r IH]; intros [|d t]; cbn [str_eqb]; split; intros H; try discriminate; try reflexivity.
  - apply andb_true_iff in H as [H1 H2]. apply N.eqb_eq in H1. apply IH in H2. subst. reflexivity.
  - inversion H; subst. rewrite N.eqb_refl. cbn. apply IH. reflexivity.
Qed.

Lemma distinct_nth names i j n :
  distinct names = true -> nth_error names i = Some n -> nth_error names j = Some n -> i = j.
Proof.
  revert i j; induction names as [|x r IH]; intros i j Hd Hi Hj; [destruct i; discriminate|].
  cbn [distinct] in Hd. apply andb_true_iff in Hd as [Hx Hr]. apply negb_true_iff in Hx.
  assert (Hin : forall k, nth_error r k = Some x -> False).
  { intros k Hk. apply nth_error_In in Hk.
    assert (existsb (str_eqb x) r = true) by (apply existsb_exists; exists x; split; [assumption | apply str_eqb_eq; reflexivity]).
    congruence. }
  destruct i as [|i], j as [|j]; cbn [nth_error] in *.
  - reflexivity.
  - inversion Hi; subst. exfalso; eauto.
  - inversion Hj; subst. exfalso; eauto.
  - f_equal. eauto.
Qed.

Lemma named_by_unique a v k k' :
  distinct (a_names a) = true -> named_by a v k = true -> named_by a v k' = true -> k = k'.
Proof.
  unfold named_by, name_of. intros Hd H1 H2.
  destruct (nth_error (a_names a) (N.to_nat k)) as [n|] eqn:E1; [|discriminate].
  destruct (nth_error (a_names a) (N.to_nat k')) as [n'|] eqn:E2; [|discriminate].
  apply str_eqb_eq in H1, H2. subst n'. subst n.
  assert (N.to_nat k = N.to_nat k') by (eapply distinct_nth; eauto). lia.
Qed.

(** ** negotiation result is a configured locale satisfying C12's predicate *)
Lemma enum_from_nth i ids k x : In (k, x) (enum_from i ids) -> i <= k /\ nth_error (enum_from i ids) (N.to_nat (k - i)) = Some (k, x).
Proof.
  revert i; induction ids as [|y r IH]; intros i H; cbn [enum_from] in *; [contradiction|].
  destruct H as [H|H].
  - inversion H; subst. split; [lia|]. rewrite N.sub_diag. reflexivity.
  - apply IH in H as [Hle Hn]. split; [lia|].
    replace (N.to_nat (k - i)) with (S (N.to_nat (k - (i + 1)))) by lia. exact Hn.
Qed.

Lemma accepted_negotiated a accept :
  a_ids a <> [] -> negotiated a accept (accepted_locale a accept) = true.
Proof.
  intros Hne. unfold negotiated, accepted_locale, find_locale.
  pose proof (find_match_supported (lossy accept) (app_locs a) (app_dflt a)) as Hs.
  pose proof (spec_C12_holds (lossy accept) (app_locs a) (app_dflt a)) as Hspec.
  set (r := find_match (lossy accept) (app_locs a) (app_dflt a)) in *.
  assert (Hn : nth_error (app_locs a) (N.to_nat (fst r)) = Some r).
  { destruct Hs as [Hin | Hd].
    - destruct r as [k x]. unfold app_locs in *. apply enum_from_nth in Hin as [_ Hn].
      rewrite N.sub_0_r in Hn. exact Hn.
    - rewrite Hd. unfold app_dflt, app_locs. destruct (a_ids a) as [|x t]; [congruence|]. reflexivity. }
  rewrite Hn. exact Hspec.
Qed.

Lemma app_wf_ids a : app_wf a = true -> a_ids a <> [].
Proof.
  unfold app_wf. intros H. apply andb_true_iff in H as [H _]. apply andb_true_iff in H as [_ H].
  apply negb_true_iff in H. apply Nat.eqb_neq in H. intros E. rewrite E in H. apply H. reflexivity.
Qed.

(** ** cookie decoding versus the documented "valid cookie" *)
Lemma use_cookie_valid a name hdr v :
  valid_cookie a (cookie_value true name hdr) = Some v ->
  exists k, use_cookie a name hdr = Some k /\ named_by a v k = true.
Proof.
  unfold valid_cookie, cookie_value, use_cookie. destruct hdr as [j|]; [|discriminate].
  destruct (jar_get name j) as [s|]; [|discriminate].
  destruct (configured a (trim s)) eqn:E; [|discriminate]. intros H; inversion H; subst v.
  destruct (from_str_configured _ _ E) as [k Hk]. exists k. split; [assumption | apply from_str_named; assumption].
Qed.

Lemma use_cookie_invalid a name hdr :
  valid_cookie a (cookie_value true name hdr) = None -> use_cookie a name hdr = None.
Proof.
  unfold valid_cookie, cookie_value, use_cookie. destruct hdr as [j|]; [|reflexivity].
  destruct (jar_get name j) as [s|]; [|reflexivity].
  destruct (configured a (trim s)) eqn:E; [discriminate|]. intros _. apply from_str_invalid. exact E.
Qed.

Lemma main_cookie_valid feat a o v :
  valid_cookie a (cookie_value (feat && mo_enable_cookie o) (mo_cookie_name o) (mo_cookie_hdr o)) = Some v ->
  exists k, main_lang_cookie feat a o = Some k /\ named_by a v k = true.
Proof.
  unfold main_lang_cookie. destruct (feat && mo_enable_cookie o).
  - apply use_cookie_valid.
  - cbn. discriminate.
Qed.

Lemma main_cookie_invalid feat a o :
  valid_cookie a (cookie_value (feat && mo_enable_cookie o) (mo_cookie_name o) (mo_cookie_hdr o)) = None ->
  main_lang_cookie feat a o = None.
Proof.
  unfold main_lang_cookie. destruct (feat && mo_enable_cookie o).
  - apply use_cookie_invalid.
  - reflexivity.
Qed.

Definition sub_cookie_value (feat : bool) (o : sub_opts) : option str :=
  match so_cookie_name o with
  | Some n => cookie_value feat n (so_cookie_hdr o)
  | None => None
  end.

Lemma sub_cookie_valid feat a o v :
  valid_cookie a (sub_cookie_value feat o) = Some v ->
  exists k, sub_lang_cookie feat a o = Some k /\ named_by a v k = true.
Proof.
  unfold sub_cookie_value, sub_lang_cookie. destruct (so_cookie_name o) as [n|]; [|discriminate].
  destruct feat; [apply use_cookie_valid | cbn; discriminate].
Qed.

Lemma sub_cookie_invalid feat a o :
  valid_cookie a (sub_cookie_value feat o) = None -> sub_lang_cookie feat a o = None.
Proof.
  unfold sub_cookie_value, sub_lang_cookie. destruct (so_cookie_name o) as [n|]; [|reflexivity].
  destruct feat; [apply use_cookie_invalid | reflexivity].
Qed.

(** ** C15, main context *)
Theorem init_main_precedence feat a o :
  app_wf a = true ->
  let cv := valid_cookie a (cookie_value (feat && mo_enable_cookie o) (mo_cookie_name o) (mo_cookie_hdr o)) in
  (forall v, cv = Some v -> named_by a v (init_main feat a o) = true) /\
  (cv = None -> init_main feat a o = accepted_locale a (mo_accept o)
                /\ negotiated a (mo_accept o) (init_main feat a o) = true).
Proof.
  intros Hwf cv. unfold init_main, fetch_locale_ssr_first, signal_maybe_once_then_first. split.
  - intros v Hv. apply main_cookie_valid in Hv as [k [Hk Hn]]. rewrite Hk. exact Hn.
  - intros Hn. apply main_cookie_invalid in Hn. rewrite Hn. split; [reflexivity|].
    apply accepted_negotiated. apply app_wf_ids. exact Hwf.
Qed.

Theorem resolve_locale_same feat a o : resolve_locale feat a o = init_main feat a o.
Proof. reflexivity. Qed.

(** ** C15, sub-context: cookie, explicit initial locale, parent's locale, then the main resolution *)
Theorem init_sub_precedence feat a o :
  app_wf a = true ->
  let cv := valid_cookie a (sub_cookie_value feat o) in
  (forall v, cv = Some v -> named_by a v (init_sub feat a o) = true) /\
  (cv = None ->
     (forall i, so_initial o = Some i -> init_sub feat a o = i) /\
     (so_initial o = None ->
        (forall p, so_parent o = Some p -> init_sub feat a o = p) /\
        (so_parent o = None -> init_sub feat a o = accepted_locale a (so_accept o)
                               /\ negotiated a (so_accept o) (init_sub feat a o) = true))).
Proof.
  intros Hwf cv. unfold init_sub, listener_first, fetch_locale_ssr_first, signal_maybe_once_then_first. split.
  - intros v Hv. apply sub_cookie_valid in Hv as [k [Hk Hn]]. rewrite Hk. exact Hn.
  - intros Hn. apply sub_cookie_invalid in Hn. rewrite Hn. cbn [opt_or]. split.
    + intros i Hi. rewrite Hi. reflexivity.
    + intros Hi. rewrite Hi. cbn [unwrap_or]. split.
      * intros p Hp. rewrite Hp. reflexivity.
      * intros Hp. rewrite Hp. split; [reflexivity|]. apply accepted_negotiated. apply app_wf_ids. exact Hwf.
Qed.

(** ** an invalid cookie value is ignored: same result as without any cookie header *)
Definition main_without_cookie (o : main_opts) : main_opts :=
  mk_main_opts (mo_enable_cookie o) (mo_cookie_name o) None (mo_accept o).
Definition sub_without_cookie (o : sub_opts) : sub_opts :=
  mk_sub_opts (so_initial o) (so_cookie_name o) None (so_accept o) (so_parent o).

Theorem invalid_cookie_ignored feat a :
  (forall o, valid_cookie a (cookie_value (feat && mo_enable_cookie o) (mo_cookie_name o) (mo_cookie_hdr o)) = None ->
             init_main feat a o = init_main feat a (main_without_cookie o)) /\
  (forall o, valid_cookie a (sub_cookie_value feat o) = None ->
             init_sub feat a o = init_sub feat a (sub_without_cookie o)).
Proof.
  split; intros o H.
  - unfold init_main. rewrite (main_cookie_invalid _ _ _ H).
    unfold main_lang_cookie, main_without_cookie; cbn. destruct (feat && mo_enable_cookie o); reflexivity.
  - unfold init_sub. rewrite (sub_cookie_invalid _ _ _ H).
    unfold sub_lang_cookie, sub_without_cookie; cbn. destruct (so_cookie_name o); [destruct feat|]; reflexivity.
Qed.

(** ** the executable predicates hold of the model *)
Theorem spec_C15_holds feat a :
  app_wf a = true ->
  (forall o, spec_C15_main feat a o (init_main feat a o) = true) /\
  (forall o, spec_C15_main feat a o (resolve_locale feat a o) = true) /\
  (forall o, spec_C15_sub feat a o (init_sub feat a o) = true).
Proof.
  intros Hwf. repeat split; intros o.
  - unfold spec_C15_main. destruct (init_main_precedence feat a o Hwf) as [H1 H2].
    destruct (valid_cookie a _) as [v|]; [apply H1; reflexivity | apply H2; reflexivity].
  - rewrite resolve_locale_same. unfold spec_C15_main. destruct (init_main_precedence feat a o Hwf) as [H1 H2].
    destruct (valid_cookie a _) as [v|]; [apply H1; reflexivity | apply H2; reflexivity].
  - unfold spec_C15_sub. destruct (init_sub_precedence feat a o Hwf) as [H1 H2].
    fold (sub_cookie_value feat o). destruct (valid_cookie a (sub_cookie_value feat o)) as [v|]; [apply H1; reflexivity|].
    destruct (H2 eq_refl) as [Hi Hni].
    destruct (so_initial o) as [i|]; [rewrite (Hi i eq_refl); apply N.eqb_refl|].
    destruct (Hni eq_refl) as [Hp Hnp].
    destruct (so_parent o) as [p|]; [rewrite (Hp p eq_refl); apply N.eqb_refl|].
    apply Hnp. reflexivity.
Qed.

(** the spec pins the result down when a valid cookie exists and names are distinct *)
Theorem spec_C15_main_cookie_unique feat a o v res :
  app_wf a = true ->
  valid_cookie a (cookie_value (feat && mo_enable_cookie o) (mo_cookie_name o) (mo_cookie_hdr o)) = Some v ->
  spec_C15_main feat a o res = true -> res = init_main feat a o.
Proof.
  intros Hwf Hv Hs. unfold spec_C15_main in Hs. rewrite Hv in Hs.
  destruct (init_main_precedence feat a o Hwf) as [H1 _]. specialize (H1 v Hv).
  unfold app_wf in Hwf. apply andb_true_iff in Hwf as [_ Hd]. eapply named_by_unique; eauto.
Qed.

(** ** non-vacuity: a concrete application, every row of the table *)
Definition s_en : str := [101; 110].
Definition s_fr : str := [102; 114].
Definition s_de : str := [100; 101].
Definition ex_app : app := mk_app [s_en; s_fr; s_de] [mk_langid 1 None None []; mk_langid 2 None None []; mk_langid 3 None None []].
Definition ex_jar : jar := [(COOKIE_PREFERED_LANG, [32; 102; 114; 32])].   (* " fr " *)
Definition ex_bad : jar := [(COOKIE_PREFERED_LANG, [70; 82])].              (* "FR" *)
Definition ex_accept := [None; Some (mk_langid 3 None (Some 7) [])].        (* garbage, de-XX *)

Example ex_wf : app_wf ex_app = true. Proof. reflexivity. Qed.
Example ex_main_cookie : init_main true ex_app (mk_main_opts true COOKIE_PREFERED_LANG (Some ex_jar) ex_accept) = 1.
Proof. vm_compute. reflexivity. Qed.
Example ex_main_disabled : init_main true ex_app (mk_main_opts false COOKIE_PREFERED_LANG (Some ex_jar) ex_accept) = 2.
Proof. vm_compute. reflexivity. Qed.
Example ex_main_invalid : init_main true ex_app (mk_main_opts true COOKIE_PREFERED_LANG (Some ex_bad) ex_accept) = 2.
Proof. vm_compute. reflexivity. Qed.
Example ex_main_default : init_main true ex_app (mk_main_opts true COOKIE_PREFERED_LANG None [None]) = 0.
Proof. vm_compute. reflexivity. Qed.
Example ex_sub_cookie : init_sub true ex_app (mk_sub_opts (Some 2) (Some s_en) (Some [(s_en, s_fr)]) ex_accept (Some 0)) = 1.
Proof. vm_compute. reflexivity. Qed.
Example ex_sub_initial : init_sub true ex_app (mk_sub_opts (Some 2) None (Some ex_jar) [] (Some 1)) = 2.
Proof. vm_compute. reflexivity. Qed.
Example ex_sub_parent : init_sub true ex_app (mk_sub_opts None None None ex_accept (Some 1)) = 1.
Proof. vm_compute. reflexivity. Qed.
Example ex_sub_fetch : init_sub true ex_app (mk_sub_opts None None None ex_accept None) = 2.
Proof. vm_compute. reflexivity. Qed.
