(** Proofs about Runtime/Escape.v: the JSON decoder inverts the two repaired writers for every
    list of code point strings; the script body never contains `<`; the register model. *)
From Coq Require Import List NArith Bool Arith Lia Permutation.
Import ListNotations.
From LI Require Import Base.StrOps Runtime.Escape.
Open Scope N_scope.

Local Arguments N.eqb : simpl nomatch.
Local Arguments N.ltb : simpl nomatch.
Local Arguments N.leb : simpl nomatch.
Local Arguments hex4_val : simpl never.
Local Arguments hex4 : simpl never.
Local Arguments is_low : simpl never.
Local Arguments is_high : simpl never.
Local Arguments cons_res : simpl never.

(** * Hexadecimal *)
Lemma hex_val_digit : forall d, d < 16 -> hex_val (hex_digit d) = Some d.
Proof.
  intros d Hd.
  assert (E : d = 0 \/ d = 1 \/ d = 2 \/ d = 3 \/ d = 4 \/ d = 5 \/ d = 6 \/ d = 7 \/ d = 8 \/ d = 9
              \/ d = 10 \/ d = 11 \/ d = 12 \/ d = 13 \/ d = 14 \/ d = 15) by lia.
  repeat (destruct E as [-> | E]; [reflexivity |]). subst d. reflexivity.
Qed.

Lemma hex_digit_range : forall d, d < 16 ->
  (48 <= hex_digit d /\ hex_digit d <= 57) \/ (97 <= hex_digit d /\ hex_digit d <= 102).
Proof.
  intros d Hd. unfold hex_digit. destruct (d <? 10) eqn:E.
  - apply N.ltb_lt in E. left. lia.
  - apply N.ltb_ge in E. right. lia.
Qed.

Lemma mod16_lt : forall x, x mod 16 < 16.
Proof. intros x. apply N.mod_lt. discriminate. Qed.

Lemma hex4_decompose : forall c, c < 65536 ->
  4096 * ((c / 4096) mod 16) + 256 * ((c / 256) mod 16) + 16 * ((c / 16) mod 16) + c mod 16 = c.
Proof.
  intros c Hc.
  pose proof (N.div_mod c 16 ltac:(discriminate)) as H1.
  pose proof (N.div_mod (c / 16) 16 ltac:(discriminate)) as H2.
  pose proof (N.div_mod (c / 256) 16 ltac:(discriminate)) as H3.
  pose proof (N.div_mod (c / 4096) 16 ltac:(discriminate)) as H4.
  assert (E256 : c / 16 / 16 = c / 256) by (rewrite N.div_div by discriminate; reflexivity).
  assert (E4096 : c / 256 / 16 = c / 4096) by (rewrite N.div_div by discriminate; reflexivity).
  assert (E65536 : c / 4096 / 16 = c / 65536) by (rewrite N.div_div by discriminate; reflexivity).
  assert (Z : c / 65536 = 0) by (apply N.div_small; exact Hc).
  rewrite E256 in H2. rewrite E4096 in H3. rewrite E65536, Z in H4.
  pose proof (mod16_lt c). pose proof (mod16_lt (c / 16)). pose proof (mod16_lt (c / 256)).
  pose proof (mod16_lt (c / 4096)).
  lia.
Qed.

Lemma hex4_val_hex4 : forall c, c < 65536 ->
  hex4_val (hex_digit ((c / 4096) mod 16)) (hex_digit ((c / 256) mod 16))
           (hex_digit ((c / 16) mod 16)) (hex_digit (c mod 16)) = Some c.
Proof.
  intros c Hc. unfold hex4_val.
  rewrite !hex_val_digit by apply mod16_lt.
  f_equal. apply hex4_decompose. exact Hc.
Qed.

(** * Strings *)
(** the writers only force `\uXXXX` below the surrogate range *)
Definition fu_ok (fu : N -> bool) : Prop := forall c, fu c = true -> c < 55296.

Lemma fu_none_ok : fu_ok fu_none.
Proof. intros c H. discriminate H. Qed.

Lemma fu_html_ok : fu_ok fu_html.
Proof.
  intros c H. unfold fu_html in H.
  repeat (apply orb_true_iff in H; destruct H as [H | H]); apply N.eqb_eq in H; subst c; reflexivity.
Qed.

Lemma dec_str_raw : forall c r, c <> 34 -> c <> 92 -> 32 <= c -> dec_str (c :: r) = cons_res c (dec_str r).
Proof.
  intros c r H34 H92 H32. cbn [dec_str].
  apply N.eqb_neq in H34. apply N.eqb_neq in H92. rewrite H34, H92.
  assert (L : c <? 32 = false) by (apply N.ltb_ge; exact H32). rewrite L. reflexivity.
Qed.

Lemma dec_str_u : forall a b c d r u,
  hex4_val a b c d = Some u -> is_low u = false -> is_high u = false ->
  dec_str (92 :: 117 :: a :: b :: c :: d :: r) = cons_res u (dec_str r).
Proof.
  intros a b c d r u Hv Hl Hh. simpl. rewrite Hv, Hl, Hh. reflexivity.
Qed.

Lemma below_surrogates : forall c, c < 55296 -> is_low c = false /\ is_high c = false /\ c < 65536.
Proof.
  intros c Hc. unfold is_low, is_high. repeat split.
  - apply andb_false_iff. left. apply N.leb_gt. lia.
  - apply andb_false_iff. left. apply N.leb_gt. lia.
  - lia.
Qed.

Lemma dec_esc_char : forall fu c r, fu_ok fu ->
  dec_str (esc_char fu c ++ r) = cons_res c (dec_str r).
Proof.
  intros fu c r Hfu. unfold esc_char.
  destruct (c =? 34) eqn:E34. { apply N.eqb_eq in E34. subst c. reflexivity. }
  destruct (c =? 92) eqn:E92. { apply N.eqb_eq in E92. subst c. reflexivity. }
  destruct (c =? 10) eqn:E10. { apply N.eqb_eq in E10. subst c. reflexivity. }
  destruct (c =? 13) eqn:E13. { apply N.eqb_eq in E13. subst c. reflexivity. }
  destruct (c =? 9) eqn:E9. { apply N.eqb_eq in E9. subst c. reflexivity. }
  apply N.eqb_neq in E34. apply N.eqb_neq in E92.
  destruct ((c <? 32) || fu c) eqn:EU.
  - assert (Hc : c < 55296).
    { apply orb_true_iff in EU. destruct EU as [L | F].
      - apply N.ltb_lt in L. lia.
      - apply Hfu. exact F. }
    destruct (below_surrogates c Hc) as (Hl & Hh & H16).
    unfold hex4. cbn [app].
    apply dec_str_u; [apply hex4_val_hex4; exact H16 | exact Hl | exact Hh].
  - apply orb_false_iff in EU. destruct EU as [L _]. apply N.ltb_ge in L.
    cbn [app]. apply dec_str_raw; assumption.
Qed.

Lemma dec_esc_body : forall fu s r, fu_ok fu ->
  dec_str (flat_map (esc_char fu) s ++ 34 :: r) = Some (s, r).
Proof.
  intros fu s r Hfu. induction s as [| c s IH].
  - reflexivity.
  - cbn [flat_map]. rewrite <- app_assoc. rewrite dec_esc_char by exact Hfu. rewrite IH. reflexivity.
Qed.

(** * Values: generic sequence lemmas.
    [enc_ok n t v]: with at least [n] units of fuel the text [t] is read as the value [v],
    whatever follows. *)
Definition enc_ok (n : nat) (t : str) (v : json) : Prop :=
  forall f rest, (n <= f)%nat -> pval f (t ++ rest) = Some (v, rest).

Lemma pval_S : forall f s, pval (S f) s =
  match skip_ws s with
  | [] => None
  | c :: r =>
    if c =? 34 then match dec_str r with Some (x, r') => Some (JStr x, r') | None => None end
    else if c =? 91 then
      match skip_ws r with
      | c2 :: r2 => if c2 =? 93 then Some (JArr [], r2)
                    else match pelems f r with Some (vs, r') => Some (JArr vs, r') | None => None end
      | [] => None
      end
    else if c =? 123 then
      match skip_ws r with
      | c2 :: r2 => if c2 =? 125 then Some (JObj [], r2)
                    else match pmembers f r with Some (ms, r') => Some (JObj ms, r') | None => None end
      | [] => None
      end
    else match strip_prefix K_null (c :: r) with
    | Some r' => Some (JNull, r')
    | None => match strip_prefix K_true (c :: r) with
    | Some r' => Some (JBool true, r')
    | None => match strip_prefix K_false (c :: r) with
    | Some r' => Some (JBool false, r')
    | None => match dec_num (c :: r) with
    | Some (raw, r') => Some (JNum raw, r')
    | None => None
    end end end end
  end.
Proof. reflexivity. Qed.

Lemma pelems_S : forall f s, pelems (S f) s =
  match pval f s with
  | None => None
  | Some (v, r) =>
    match skip_ws r with
    | c :: r1 =>
      if c =? 44 then match pelems f r1 with Some (vs, r2) => Some (v :: vs, r2) | None => None end
      else if c =? 93 then Some ([v], r1)
      else None
    | [] => None
    end
  end.
Proof. reflexivity. Qed.

Lemma pmembers_S : forall f s, pmembers (S f) s =
  match skip_ws s with
  | c :: r =>
    if c =? 34 then
      match dec_str r with
      | None => None
      | Some (k, r1) =>
        match skip_ws r1 with
        | c1 :: r2 =>
          if c1 =? 58 then
            match pval f r2 with
            | None => None
            | Some (v, r3) =>
              match skip_ws r3 with
              | c3 :: r4 =>
                if c3 =? 44 then
                  match pmembers f r4 with Some (ms, r5) => Some ((k, v) :: ms, r5) | None => None end
                else if c3 =? 125 then Some ([(k, v)], r4)
                else None
              | [] => None
              end
            end
          else None
        | [] => None
        end
      end
    else None
  | [] => None
  end.
Proof. reflexivity. Qed.

Lemma pval_quote : forall f r, pval (S f) (34 :: r) =
  match dec_str r with Some (x, r') => Some (JStr x, r') | None => None end.
Proof. reflexivity. Qed.

Lemma pval_arr : forall f r, pval (S f) (91 :: r) =
  match skip_ws r with
  | c2 :: r2 => if c2 =? 93 then Some (JArr [], r2)
                else match pelems f r with Some (vs, r') => Some (JArr vs, r') | None => None end
  | [] => None
  end.
Proof. reflexivity. Qed.

Lemma pval_obj : forall f r, pval (S f) (123 :: r) =
  match skip_ws r with
  | c2 :: r2 => if c2 =? 125 then Some (JObj [], r2)
                else match pmembers f r with Some (ms, r') => Some (JObj ms, r') | None => None end
  | [] => None
  end.
Proof. reflexivity. Qed.

Lemma esc_str_ok : forall fu s, fu_ok fu -> enc_ok 1 (esc_str fu s) (JStr s).
Proof.
  intros fu s Hfu f rest Hf. destruct f as [| f]; [lia |].
  unfold esc_str. cbn [app]. rewrite pval_quote.
  rewrite <- app_assoc. cbn [app]. rewrite dec_esc_body by exact Hfu. reflexivity.
Qed.

Lemma commas_false : forall xs, commas false xs = flat_map (fun x => 44 :: x) xs.
Proof.
  induction xs as [| x xs IH]; [reflexivity |].
  cbn [commas flat_map]. rewrite IH. reflexivity.
Qed.

Lemma skip_ws_44 : forall r, skip_ws (44 :: r) = 44 :: r.
Proof. reflexivity. Qed.
Lemma skip_ws_93 : forall r, skip_ws (93 :: r) = 93 :: r.
Proof. reflexivity. Qed.
Lemma skip_ws_34 : forall r, skip_ws (34 :: r) = 34 :: r.
Proof. reflexivity. Qed.
Lemma skip_ws_123 : forall r, skip_ws (123 :: r) = 123 :: r.
Proof. reflexivity. Qed.

(** items after the first one of a non-empty array: `,`-prefixed texts, then `]` *)
Lemma pelems_items : forall (items : list (str * json)) n t0 v0 rest fuel,
  enc_ok n t0 v0 ->
  (forall t v, In (t, v) items -> enc_ok n t v) ->
  (n + length items + 1 <= fuel)%nat ->
  pelems fuel (t0 ++ commas false (map fst items) ++ 93 :: rest) = Some (v0 :: map snd items, rest).
Proof.
  induction items as [| [t1 v1] items IH]; intros n t0 v0 rest fuel H0 Hall Hfuel.
  - destruct fuel as [| f]; [simpl in Hfuel; lia |].
    rewrite pelems_S. cbn [map commas app].
    rewrite H0 by (simpl in Hfuel; lia).
    rewrite skip_ws_93. reflexivity.
  - destruct fuel as [| f]; [simpl in Hfuel; lia |].
    rewrite pelems_S. cbn [map commas fst snd]. cbn [app].
    rewrite H0 by (simpl in Hfuel; lia).
    rewrite skip_ws_44. change (44 =? 44) with true. cbv iota.
    rewrite <- app_assoc.
    rewrite (IH n t1 v1 rest f).
    + reflexivity.
    + apply Hall. left. reflexivity.
    + intros t v Hin. apply Hall. right. exact Hin.
    + simpl in Hfuel. lia.
Qed.

(** a whole array: `[` items `]`; every item starts with a quote or a brace *)
Lemma parr_items : forall (items : list (str * json)) n,
  (forall t v, In (t, v) items -> enc_ok n t v) ->
  (forall t v, In (t, v) items -> exists r : str, t = 34 :: r \/ t = 123 :: r) ->
  enc_ok (n + length items + 2) (91 :: commas true (map fst items) ++ [93]) (JArr (map snd items)).
Proof.
  intros items n Hall Hstart f rest Hf.
  destruct f as [| f]; [lia |].
  cbn [app]. rewrite pval_arr.
  destruct items as [| [t0 v0] items].
  - cbn [map commas app]. rewrite skip_ws_93. reflexivity.
  - cbn [map commas fst snd app]. rewrite <- !app_assoc. cbn [app].
    assert (Hpe : pelems f (t0 ++ commas false (map fst items) ++ 93 :: rest) = Some (v0 :: map snd items, rest)).
    { apply (pelems_items items n t0 v0 rest f).
      - apply Hall. left. reflexivity.
      - intros t v Hin. apply Hall. right. exact Hin.
      - simpl in Hf. lia. }
    destruct (Hstart t0 v0 (or_introl eq_refl)) as [r [E | E]]; subst t0.
    + cbn [app] in *. rewrite skip_ws_34. change (34 =? 93) with false. cbv iota.
      unfold char, str in *. rewrite Hpe. reflexivity.
    + cbn [app] in *. rewrite skip_ws_123. change (123 =? 93) with false. cbv iota.
      unfold char, str in *. rewrite Hpe. reflexivity.
Qed.

(** * Arrays of strings *)
Definition str_items (fu : N -> bool) (ss : list str) : list (str * json) :=
  map (fun s => (esc_str fu s, JStr s)) ss.

Lemma str_items_fst : forall fu ss, map fst (str_items fu ss) = map (esc_str fu) ss.
Proof. intros fu ss. unfold str_items. rewrite map_map. apply map_ext. reflexivity. Qed.
Lemma str_items_snd : forall fu ss, map snd (str_items fu ss) = map JStr ss.
Proof. intros fu ss. unfold str_items. rewrite map_map. apply map_ext. reflexivity. Qed.
Lemma str_items_len : forall fu ss, length (str_items fu ss) = length ss.
Proof. intros. unfold str_items. apply map_length. Qed.

Lemma as_strs_map : forall ss, as_strs (map JStr ss) = Some ss.
Proof. induction ss as [| s ss IH]; [reflexivity |]. cbn [map as_strs as_str]. rewrite IH. reflexivity. Qed.

Lemma strs_array_ok : forall fu ss, fu_ok fu ->
  enc_ok (length ss + 3) (91 :: commas true (map (esc_str fu) ss) ++ [93]) (JArr (map JStr ss)).
Proof.
  intros fu ss Hfu.
  rewrite <- (str_items_fst fu ss), <- (str_items_snd fu ss).
  replace (length ss + 3)%nat with (1 + length (str_items fu ss) + 2)%nat by (rewrite str_items_len; lia).
  apply parr_items.
  - intros t v Hin. unfold str_items in Hin. apply in_map_iff in Hin.
    destruct Hin as (s & E & _). inversion E; subst. apply esc_str_ok. exact Hfu.
  - intros t v Hin. unfold str_items in Hin. apply in_map_iff in Hin.
    destruct Hin as (s & E & _). inversion E; subst. unfold esc_str. eexists. left. reflexivity.
Qed.

Lemma commas_len : forall fu b ss, (length ss <= length (commas b (map (esc_str fu) ss)))%nat.
Proof.
  intros fu b ss. revert b. induction ss as [| s ss IH]; intros b; [simpl; lia |].
  cbn [map commas]. rewrite !app_length. specialize (IH false).
  unfold esc_str at 1. cbn [length]. lia.
Qed.

Lemma flat_map_map : forall (A B C : Type) (g : A -> B) (f : B -> list C) l,
  flat_map f (map g l) = flat_map (fun x => f (g x)) l.
Proof. intros A B C g f l. induction l as [| x l IH]; [reflexivity |]. cbn [map flat_map]. rewrite IH. reflexivity. Qed.

Lemma format_commas : forall ss, format ss = 91 :: commas true (map (esc_str fu_none) ss) ++ [93].
Proof.
  intros ss. unfold format. destruct ss as [| s ss]; [reflexivity |].
  cbn [map commas app]. rewrite commas_false, flat_map_map. reflexivity.
Qed.

Theorem json_roundtrip : forall ss, json_decode (format ss) = Some ss.
Proof.
  intros ss. unfold json_decode, json_parse. rewrite format_commas.
  pose proof (strs_array_ok fu_none ss fu_none_ok) as H.
  set (text := 91 :: commas true (map (esc_str fu_none) ss) ++ [93]) in *.
  assert (Hfuel : (length ss + 3 <= json_fuel text)%nat).
  { unfold json_fuel, text. cbn [length]. rewrite app_length. cbn [length].
    pose proof (commas_len fu_none true ss). lia. }
  specialize (H (json_fuel text) [] Hfuel). rewrite app_nil_r in H. rewrite H.
  cbn [skip_ws]. apply as_strs_map.
Qed.

Theorem json_valid : forall ss, exists v, json_parse (format ss) = Some v.
Proof.
  intros ss. pose proof (json_roundtrip ss) as H. unfold json_decode in H.
  destruct (json_parse (format ss)) as [v |]; [exists v; reflexivity | discriminate H].
Qed.

Theorem spec_file_holds : forall ss, spec_file ss (format ss) = true.
Proof.
  intros ss. unfold spec_file. rewrite json_roundtrip.
  unfold strs_eqb. rewrite Nat.eqb_refl. cbn [andb].
  apply forallb_forall. intros [a b] Hin.
  assert (E : a = b).
  { clear -Hin. revert Hin. induction ss as [| s ss IH]; cbn [combine]; intros Hin; [destruct Hin |].
    destruct Hin as [E | Hin]; [inversion E; reflexivity | apply IH; exact Hin]. }
  subst b. cbn [fst snd].
  clear. induction a as [| x a IH]; [reflexivity |]. cbn [str_eqb]. rewrite N.eqb_refl. exact IH.
Qed.

(** the Debug-based writer is not a JSON writer: U+0001 alone refutes it, whatever the printability oracle *)
Theorem format_old_refuted : forall np, spec_file [[1]] (format_old np [[1]]) = false.
Proof. intros np. vm_compute. reflexivity. Qed.
(** ... and so does a no-break space as soon as the oracle says what core::unicode says *)
Theorem format_old_refuted_nbsp : forall np, np 160 = true -> spec_file [[160]] (format_old np [[160]]) = false.
Proof. intros np H. unfold format_old, dbg_str, dbg_char, dbg_np. cbn [flat_map]. simpl. rewrite H. vm_compute. reflexivity. Qed.

(** * Objects: the embedded script *)
Definition raw_ok (k : str) : Prop := forall c, In c k -> c <> 34 /\ c <> 92 /\ 32 <= c.

Lemma dec_str_rawkey : forall k X, raw_ok k -> dec_str (k ++ 34 :: X) = Some (k, X).
Proof.
  induction k as [| c k IH]; intros X Hk.
  - reflexivity.
  - cbn [app]. destruct (Hk c (or_introl eq_refl)) as (H1 & H2 & H3).
    rewrite dec_str_raw by assumption. rewrite IH; [reflexivity |].
    intros c' Hc'. apply Hk. right. exact Hc'.
Qed.

Lemma skip_ws_58 : forall r, skip_ws (58 :: r) = 58 :: r.
Proof. reflexivity. Qed.
Lemma skip_ws_125 : forall r, skip_ws (125 :: r) = 125 :: r.
Proof. reflexivity. Qed.

(** one member `"k":` followed by a value text *)
Lemma pmembers_key : forall f k X, raw_ok k ->
  pmembers (S f) (34 :: k ++ 34 :: 58 :: X) =
  match pval f X with
  | None => None
  | Some (v, r3) =>
    match skip_ws r3 with
    | c3 :: r4 =>
      if c3 =? 44 then
        match pmembers f r4 with Some (ms, r5) => Some ((k, v) :: ms, r5) | None => None end
      else if c3 =? 125 then Some ([(k, v)], r4)
      else None
    | [] => None
    end
  end.
Proof.
  intros f k X Hk. rewrite pmembers_S. rewrite skip_ws_34. change (34 =? 34) with true. cbv iota.
  rewrite dec_str_rawkey by exact Hk. rewrite skip_ws_58. change (58 =? 58) with true. cbv iota.
  reflexivity.
Qed.

Ltac raw_ok_tac :=
  let c := fresh "c" in let H := fresh "H" in
  intros c H; cbn [In K_locale K_id K_values] in H;
  repeat (destruct H as [H | H]; [subst c; repeat split; [discriminate | discriminate | apply N.leb_le; reflexivity] |]);
  destruct H.

Lemma raw_locale : raw_ok K_locale. Proof. unfold K_locale. raw_ok_tac. Qed.
Lemma raw_id : raw_ok K_id. Proof. unfold K_id. raw_ok_tac. Qed.
Lemma raw_values : raw_ok K_values. Proof. unfold K_values. raw_ok_tac. Qed.

Lemma pval_null : forall f r, pval (S f) (110 :: 117 :: 108 :: 108 :: r) = Some (JNull, r).
Proof. reflexivity. Qed.

Definition unit_json (u : unit_) : json :=
  let '(l, i, vs) := u in
  JObj [(K_locale, JStr l);
        (K_id, match i with Some x => JStr x | None => JNull end);
        (K_values, JArr (map JStr vs))].

Lemma shape_some : forall a b c d e cm rest : list N,
  (a ++ b ++ (c ++ d ++ e) ++ cm ++ [93; 125]) ++ rest = a ++ b ++ c ++ d ++ (e ++ cm ++ [93]) ++ 125 :: rest.
Proof. intros. repeat rewrite <- app_assoc. reflexivity. Qed.
Lemma shape_none : forall a b c cm rest : list N,
  (a ++ b ++ c ++ cm ++ [93; 125]) ++ rest = a ++ b ++ (c ++ cm ++ [93]) ++ 125 :: rest.
Proof. intros. repeat rewrite <- app_assoc. reflexivity. Qed.

Lemma fmt_unit_shape : forall l i vs rest,
  fmt_unit (l, i, vs) ++ rest =
  123 :: 34 :: K_locale ++ 34 :: 58 ::
    (esc_str fu_html l ++ 44 :: 34 :: K_id ++ 34 :: 58 ::
      (match i with Some x => esc_str fu_html x | None => K_null end ++ 44 :: 34 :: K_values ++ 34 :: 58 ::
        ((91 :: commas true (map (esc_str fu_html) vs) ++ [93]) ++ 125 :: rest))).
Proof.
  intros l i vs rest. destruct i as [x |].
  - exact (shape_some S_locale (esc_str fu_html l) S_id (esc_str fu_html x) S_values
             (commas true (map (esc_str fu_html) vs)) rest).
  - exact (shape_none S_locale (esc_str fu_html l) S_id_null (commas true (map (esc_str fu_html) vs)) rest).
Qed.

Lemma fmt_unit_ok : forall u, enc_ok (length (snd u) + 7) (fmt_unit u) (unit_json u).
Proof.
  intros [[l i] vs] f rest Hf. cbn [snd] in Hf.
  destruct f as [| f1]; [lia |]. destruct f1 as [| f2]; [lia |]. destruct f2 as [| f3]; [lia |].
  destruct f3 as [| f4]; [lia |].
  rewrite fmt_unit_shape.
  rewrite pval_obj. rewrite skip_ws_34. change (34 =? 125) with false. cbv iota.
  rewrite pmembers_key by exact raw_locale.
  rewrite (esc_str_ok fu_html l fu_html_ok (S (S f4))) by lia.
  rewrite skip_ws_44. change (44 =? 44) with true. cbv iota.
  rewrite pmembers_key by exact raw_id.
  assert (Hid : pval (S f4) (match i with Some x => esc_str fu_html x | None => K_null end ++ 44 :: 34 :: K_values ++ 34 :: 58 ::
        ((91 :: commas true (map (esc_str fu_html) vs) ++ [93]) ++ 125 :: rest))
        = Some (match i with Some x => JStr x | None => JNull end, 44 :: 34 :: K_values ++ 34 :: 58 ::
        ((91 :: commas true (map (esc_str fu_html) vs) ++ [93]) ++ 125 :: rest))).
  { destruct i as [x |].
    - apply (esc_str_ok fu_html x fu_html_ok). lia.
    - unfold K_null. cbn [app]. apply pval_null. }
  rewrite Hid. clear Hid.
  rewrite skip_ws_44. change (44 =? 44) with true. cbv iota.
  rewrite pmembers_key by exact raw_values.
  rewrite (strs_array_ok fu_html vs fu_html_ok f4) by lia.
  rewrite skip_ws_125. change (125 =? 44) with false. change (125 =? 125) with true. cbv iota.
  reflexivity.
Qed.

Lemma str_eqb_refl : forall a, str_eqb a a = true.
Proof. induction a as [| x a IH]; [reflexivity |]. cbn [str_eqb]. rewrite N.eqb_refl. exact IH. Qed.

Lemma as_unit_json : forall u, as_unit (unit_json u) = Some u.
Proof.
  intros [[l i] vs]. pose proof (as_strs_map vs) as Hs.
  destruct i as [x |]; unfold as_unit, unit_json; simpl; rewrite Hs; reflexivity.
Qed.

Lemma as_units_map : forall us, as_units (map unit_json us) = Some us.
Proof.
  induction us as [| u us IH]; [reflexivity |]. cbn [map as_units]. rewrite as_unit_json, IH. reflexivity.
Qed.

Definition unit_items (us : list unit_) : list (str * json) := map (fun u => (fmt_unit u, unit_json u)) us.
Lemma unit_items_fst : forall us, map fst (unit_items us) = map fmt_unit us.
Proof. intros us. unfold unit_items. rewrite map_map. apply map_ext. reflexivity. Qed.
Lemma unit_items_snd : forall us, map snd (unit_items us) = map unit_json us.
Proof. intros us. unfold unit_items. rewrite map_map. apply map_ext. reflexivity. Qed.

Fixpoint max_fuel (ns : list nat) : nat :=
  match ns with [] => O | n :: r => Nat.max n (max_fuel r) end.

Definition units_fuel (us : list unit_) : nat := max_fuel (map (fun u => length (snd u) + 7)%nat us).

Lemma max_fuel_ge : forall ns n, In n ns -> (n <= max_fuel ns)%nat.
Proof.
  induction ns as [| m ns IH]; intros n Hin; [destruct Hin |].
  cbn [max_fuel]. destruct Hin as [-> | Hin]; [lia | specialize (IH n Hin); lia].
Qed.

Lemma enc_ok_mono : forall n m t v, enc_ok n t v -> (n <= m)%nat -> enc_ok m t v.
Proof. intros n m t v H Hnm f rest Hf. apply H. lia. Qed.

Lemma units_array_ok : forall us,
  enc_ok (units_fuel us + length us + 2) (91 :: commas true (map fmt_unit us) ++ [93]) (JArr (map unit_json us)).
Proof.
  intros us. rewrite <- (unit_items_fst us), <- (unit_items_snd us).
  replace (length us) with (length (unit_items us)) by (unfold unit_items; apply map_length).
  apply parr_items.
  - intros t v Hin. unfold unit_items in Hin. apply in_map_iff in Hin. destruct Hin as (u & E & Hu).
    inversion E; subst. apply (enc_ok_mono (length (snd u) + 7)); [apply fmt_unit_ok |].
    apply max_fuel_ge. apply in_map_iff. exists u. split; [reflexivity | exact Hu].
  - intros t v Hin. unfold unit_items in Hin. apply in_map_iff in Hin. destruct Hin as (u & E & _).
    inversion E; subst. destruct u as [[l i] vs]. unfold fmt_unit, S_locale. cbn [app]. eexists. right. reflexivity.
Qed.

(** lengths, to show that [json_fuel] is enough *)
Lemma fmt_unit_len : forall u, (length (snd u) + 7 <= length (fmt_unit u))%nat.
Proof.
  intros [[l i] vs]. cbn [snd]. unfold fmt_unit. rewrite !app_length.
  pose proof (commas_len fu_html true vs). unfold S_locale, S_unit_end. cbn [length]. lia.
Qed.

Lemma commas_units_len0 : forall b us, (length us <= length (commas b (map fmt_unit us)))%nat.
Proof.
  intros b us. revert b. induction us as [| u us IH]; intros b; [simpl; lia |].
  cbn [map commas length]. rewrite !app_length. specialize (IH false). pose proof (fmt_unit_len u). lia.
Qed.

Lemma commas_units_len : forall b us,
  (units_fuel us + length us <= length (commas b (map fmt_unit us)) + 7)%nat.
Proof.
  intros b us. revert b. induction us as [| u us IH]; intros b.
  - cbn. lia.
  - unfold units_fuel in *. cbn [map max_fuel commas length]. rewrite !app_length.
    specialize (IH false). pose proof (fmt_unit_len u). pose proof (commas_units_len0 false us). lia.
Qed.

Lemma to_array_shape : forall us,
  to_array us = S_window ++ 32 :: 61 :: 32 :: (91 :: commas true (map fmt_unit us) ++ [93]) ++ [59].
Proof.
  intros us. unfold to_array, S_prefix, S_window, S_end. cbn [app]. rewrite <- app_assoc. reflexivity.
Qed.

Lemma strip_window : forall X, strip_prefix S_window (skip_ws (S_window ++ X)) = Some X.
Proof. reflexivity. Qed.

Theorem decode_to_array : forall us, decode_script (to_array us) = Some us.
Proof.
  intros us. unfold decode_script. rewrite to_array_shape. rewrite strip_window.
  change (skip_ws (32 :: 61 :: 32 :: (91 :: commas true (map fmt_unit us) ++ [93]) ++ [59]))
    with (61 :: 32 :: (91 :: commas true (map fmt_unit us) ++ [93]) ++ [59]).
  change (61 =? 61) with true. cbv iota.
  set (arr := 91 :: commas true (map fmt_unit us) ++ [93]).
  set (r1 := 32 :: arr ++ [59]).
  assert (Hfuel : (units_fuel us + length us + 2 <= json_fuel r1)%nat).
  { unfold json_fuel, r1, arr. cbn [length]. rewrite !app_length. cbn [length]. rewrite app_length. cbn [length].
    pose proof (commas_units_len true us). lia. }
  destruct (json_fuel r1) as [| F] eqn:EF; [lia |].
  assert (Hp : pval (S F) r1 = Some (JArr (map unit_json us), [59])).
  { unfold r1. rewrite pval_S. change (skip_ws (32 :: arr ++ [59])) with (skip_ws (arr ++ [59])).
    rewrite <- pval_S. apply units_array_ok. exact Hfuel. }
  rewrite Hp. cbn [skip_ws]. change (is_jws 59) with false. cbv iota.
  change (59 =? 59) with true. cbv iota. apply as_units_map.
Qed.

(** * No `<` in the script body *)
Definition no_lt (s : str) : bool := forallb (fun c => negb (c =? 60)) s.

Lemma no_lt_app : forall a b, no_lt (a ++ b) = no_lt a && no_lt b.
Proof. intros. apply forallb_app. Qed.

Lemma hex4_no_lt : forall c, no_lt (hex4 c) = true.
Proof.
  intros c. unfold hex4, no_lt. cbn [forallb].
  assert (H : forall d, d < 16 -> negb (hex_digit d =? 60) = true).
  { intros d Hd. destruct (hex_digit_range d Hd) as [[A B] | [A B]];
      apply negb_true_iff; apply N.eqb_neq; lia. }
  rewrite !H by apply mod16_lt. reflexivity.
Qed.

Lemma esc_char_no_lt : forall c, no_lt (esc_char fu_html c) = true.
Proof.
  intros c. unfold esc_char.
  destruct (c =? 34); [reflexivity |]. destruct (c =? 92); [reflexivity |].
  destruct (c =? 10); [reflexivity |]. destruct (c =? 13); [reflexivity |].
  destruct (c =? 9); [reflexivity |].
  destruct ((c <? 32) || fu_html c) eqn:E.
  - change (92 :: 117 :: hex4 c) with ([92; 117] ++ hex4 c). rewrite no_lt_app, hex4_no_lt. reflexivity.
  - apply orb_false_iff in E. destruct E as [_ E]. unfold fu_html in E.
    apply orb_false_iff in E. destruct E as [E _]. apply orb_false_iff in E. destruct E as [E _].
    apply orb_false_iff in E. destruct E as [E _]. apply orb_false_iff in E. destruct E as [E _].
    unfold no_lt. cbn [forallb]. rewrite E. reflexivity.
Qed.

Lemma esc_str_no_lt : forall s, no_lt (esc_str fu_html s) = true.
Proof.
  intros s. unfold esc_str. change (34 :: flat_map (esc_char fu_html) s ++ [34]) with ([34] ++ flat_map (esc_char fu_html) s ++ [34]).
  rewrite !no_lt_app. cbn [andb]. change (no_lt [34]) with true. rewrite andb_true_r. cbn [andb].
  induction s as [| c s IH]; [reflexivity |]. cbn [flat_map]. rewrite no_lt_app, esc_char_no_lt, IH. reflexivity.
Qed.

Lemma commas_no_lt : forall b xs, (forall x, In x xs -> no_lt x = true) -> no_lt (commas b xs) = true.
Proof.
  intros b xs. revert b. induction xs as [| x xs IH]; intros b H; [reflexivity |].
  cbn [commas]. rewrite !no_lt_app. rewrite (H x (or_introl eq_refl)).
  rewrite IH by (intros y Hy; apply H; right; exact Hy). destruct b; reflexivity.
Qed.

Lemma fmt_unit_no_lt : forall u, no_lt (fmt_unit u) = true.
Proof.
  intros [[l i] vs]. unfold fmt_unit. rewrite !no_lt_app. rewrite esc_str_no_lt.
  rewrite commas_no_lt.
  - destruct i as [x |]; [rewrite !no_lt_app, esc_str_no_lt |]; reflexivity.
  - intros x Hx. apply in_map_iff in Hx. destruct Hx as (s & <- & _). apply esc_str_no_lt.
Qed.

Theorem to_array_no_lt : forall us, no_lt (to_array us) = true.
Proof.
  intros us. unfold to_array. rewrite !no_lt_app. rewrite commas_no_lt.
  - reflexivity.
  - intros x Hx. apply in_map_iff in Hx. destruct Hx as (u & <- & _). apply fmt_unit_no_lt.
Qed.

Lemma lower_60 : forall y, lower y = 60 -> y = 60.
Proof.
  intros y. unfold lower. destruct ((65 <=? y) && (y <=? 90)) eqn:E; [| tauto].
  apply andb_true_iff in E. destruct E as [A B]. apply N.leb_le in A. lia.
Qed.

Lemma no_lt_contains_ci : forall p s, no_lt s = true -> contains_ci (60 :: p) s = false.
Proof.
  intros p s. induction s as [| y s IH]; intros H.
  - reflexivity.
  - unfold no_lt in H. cbn [forallb] in H. apply andb_true_iff in H. destruct H as [Hy Hs].
    cbn [contains_ci starts_with_ci].
    assert (E : (60 =? lower y) = false).
    { apply N.eqb_neq. intros E. symmetry in E. apply lower_60 in E. subst y. discriminate Hy. }
    rewrite E. cbn [andb orb]. apply IH. exact Hs.
Qed.

Theorem to_array_html_safe : forall us, html_safe (to_array us) = true.
Proof.
  intros us. unfold html_safe, S_close, S_comment.
  rewrite !no_lt_contains_ci by apply to_array_no_lt. reflexivity.
Qed.

(** * spec_C17 holds of the writer, for any iteration order of the HashMap *)
Lemma strs_eqb_refl : forall ss, strs_eqb ss ss = true.
Proof.
  intros ss. unfold strs_eqb. rewrite Nat.eqb_refl. cbn [andb].
  induction ss as [| s ss IH]; [reflexivity |]. cbn [combine forallb fst snd]. rewrite str_eqb_refl. exact IH.
Qed.

Lemma unit_eqb_refl : forall u, unit_eqb u u = true.
Proof.
  intros [[l i] vs]. unfold unit_eqb. rewrite str_eqb_refl, strs_eqb_refl.
  destruct i as [x |]; cbn [opt_str_eqb]; [rewrite str_eqb_refl |]; reflexivity.
Qed.

Lemma existsb_in_refl : forall u us, In u us -> existsb (unit_eqb u) us = true.
Proof. intros u us H. apply existsb_exists. exists u. split; [exact H | apply unit_eqb_refl]. Qed.

Theorem spec_C17_holds : forall used order, Permutation used order -> spec_C17 used (to_array order) = true.
Proof.
  intros used order HP. unfold spec_C17. rewrite decode_to_array, to_array_html_safe.
  rewrite (Permutation_length HP), Nat.eqb_refl. cbn [andb]. rewrite andb_true_r.
  apply andb_true_iff. split; apply forallb_forall; intros u Hu; apply existsb_in_refl.
  - apply (Permutation_in _ HP). exact Hu.
  - apply (Permutation_in _ (Permutation_sym HP)). exact Hu.
Qed.

(** the writer before the repair: a quote in a translation breaks the script, `</script>` ends it *)
Theorem to_array_old_refuted_quote :
  spec_C17 [([101; 110], None, [[34]])] (to_array_old [([101; 110], None, [[34]])]) = false.
Proof. vm_compute. reflexivity. Qed.
Theorem to_array_old_refuted_script :
  html_safe (to_array_old [([101; 110], None, [[60; 47; 115; 99; 114; 105; 112; 116; 62]])]) = false.
Proof. vm_compute. reflexivity. Qed.

(** * The register *)
Lemma str_eqb_eq : forall a b, str_eqb a b = true <-> a = b.
Proof.
  induction a as [| x a IH]; intros [| y b]; cbn [str_eqb]; split; intros H; try reflexivity; try discriminate H.
  - apply andb_true_iff in H. destruct H as [H1 H2]. apply N.eqb_eq in H1. apply IH in H2. subst. reflexivity.
  - inversion H; subst. rewrite N.eqb_refl. apply IH. reflexivity.
Qed.

Lemma ukey_eqb_eq : forall a b, ukey_eqb a b = true <-> a = b.
Proof.
  intros [l1 i1] [l2 i2]. unfold ukey_eqb. cbn [fst snd]. split; intros H.
  - apply andb_true_iff in H. destruct H as [H1 H2]. apply str_eqb_eq in H1. subst l2.
    destruct i1 as [x |], i2 as [y |]; cbn [opt_str_eqb] in H2; try discriminate H2; [| reflexivity].
    apply str_eqb_eq in H2. subst. reflexivity.
  - inversion H; subst. rewrite str_eqb_refl. destruct i2 as [y |]; cbn [opt_str_eqb]; [apply str_eqb_refl | reflexivity].
Qed.

Lemma reg_insert_in : forall k v m k' v',
  In (k', v') (reg_insert k v m) -> (k' = k /\ v' = v) \/ In (k', v') m.
Proof.
  intros k v m. induction m as [| [k0 v0] m IH]; intros k' v' H; cbn [reg_insert] in H.
  - destruct H as [H | []]. inversion H; subst. left. split; reflexivity.
  - destruct (ukey_eqb k k0) eqn:E.
    + destruct H as [H | H]; [inversion H; subst; left; split; reflexivity | right; right; exact H].
    + destruct H as [H | H]; [right; left; exact H |].
      destruct (IH _ _ H) as [L | R]; [left; exact L | right; right; exact R].
Qed.

Lemma reg_insert_new : forall k v m, In (k, v) (reg_insert k v m).
Proof.
  intros k v m. induction m as [| [k0 v0] m IH]; cbn [reg_insert]; [left; reflexivity |].
  destruct (ukey_eqb k k0); [left; reflexivity | right; exact IH].
Qed.

Lemma reg_insert_old : forall k v m k' v', In (k', v') m -> k' <> k -> In (k', v') (reg_insert k v m).
Proof.
  intros k v m. induction m as [| [k0 v0] m IH]; intros k' v' H Hne; [destruct H |].
  cbn [reg_insert]. destruct (ukey_eqb k k0) eqn:E.
  - destruct H as [H | H]; [| right; exact H].
    inversion H; subst. apply ukey_eqb_eq in E. subst. exfalso. apply Hne. reflexivity.
  - destruct H as [H | H]; [left; exact H | right; apply IH; assumption].
Qed.

Lemma reg_insert_keys : forall k v m k', In k' (map fst (reg_insert k v m)) -> k' = k \/ In k' (map fst m).
Proof.
  intros k v m k' H. apply in_map_iff in H. destruct H as ([k1 v1] & E & H). cbn [fst] in E. subst k1.
  destruct (reg_insert_in _ _ _ _ _ H) as [[L _] | R]; [left; exact L |].
  right. apply in_map_iff. exists (k', v1). split; [reflexivity | exact R].
Qed.

Lemma reg_insert_nodup : forall k v m, NoDup (map fst m) -> NoDup (map fst (reg_insert k v m)).
Proof.
  intros k v m. induction m as [| [k0 v0] m IH]; intros H; cbn [reg_insert].
  - cbn [map fst]. constructor; [intros [] | constructor].
  - cbn [map fst] in H. inversion H as [| x xs Hnin Hnd]; subst.
    destruct (ukey_eqb k k0) eqn:E.
    + apply ukey_eqb_eq in E. subst k0. cbn [map fst]. constructor; assumption.
    + cbn [map fst]. constructor; [| apply IH; exact Hnd].
      intros Hin. apply reg_insert_keys in Hin. destruct Hin as [Hk | Hin]; [| apply Hnin; exact Hin].
      subst k0. rewrite (proj2 (ukey_eqb_eq k k) eq_refl) in E. discriminate E.
Qed.

Lemma ukey_dec : forall a b : ukey, a = b \/ a <> b.
Proof.
  intros a b. destruct (ukey_eqb a b) eqn:E.
  - left. apply ukey_eqb_eq. exact E.
  - right. intros H. apply ukey_eqb_eq in H. rewrite H in E. discriminate E.
Qed.

Lemma run_request_inv : forall tbl touched m seen,
  NoDup (map fst m) ->
  (forall k v, In (k, v) m <-> In k seen /\ v = tbl k) ->
  let m' := fold_left (register tbl) touched m in
  NoDup (map fst m') /\ (forall k v, In (k, v) m' <-> In k (seen ++ touched) /\ v = tbl k).
Proof.
  intros tbl touched. induction touched as [| k0 touched IH]; intros m seen Hnd Hiff; cbn [fold_left].
  - rewrite app_nil_r. split; assumption.
  - replace (seen ++ k0 :: touched) with ((seen ++ [k0]) ++ touched) by (rewrite <- app_assoc; reflexivity).
    apply IH.
    + unfold register. apply reg_insert_nodup. exact Hnd.
    + intros k v. unfold register. split.
      * intros H. apply reg_insert_in in H. destruct H as [[-> ->] | H].
        -- split; [apply in_or_app; right; left; reflexivity | reflexivity].
        -- apply Hiff in H. destruct H as [H1 H2]. split; [apply in_or_app; left; exact H1 | exact H2].
      * intros [H1 ->]. destruct (ukey_dec k k0) as [-> | Hne]; [apply reg_insert_new |].
        apply reg_insert_old; [| exact Hne]. apply Hiff. split; [| reflexivity].
        apply in_app_or in H1. destruct H1 as [H1 | [H1 | []]]; [exact H1 |]. subst. exfalso. apply Hne. reflexivity.
Qed.

(** exactly the units whose accessor ran are in the register, each once, with its own table *)
Theorem register_used_only : forall tbl touched,
  NoDup (map fst (run_request tbl touched)) /\
  (forall k v, In (k, v) (run_request tbl touched) <-> In k touched /\ v = tbl k).
Proof.
  intros tbl touched. unfold run_request.
  apply (run_request_inv tbl touched [] []).
  - constructor.
  - intros k v. split; [intros [] | intros [[] _]].
Qed.

(** * Access times *)
Lemma run_events_accesses : forall tbl ks m,
  run_events tbl (map EvAccess ks) (Some m) = Some (fold_left (register tbl) ks m).
Proof. intros tbl ks. induction ks as [| k ks IH]; intros m; [reflexivity |]. cbn [map run_events fold_left]. apply IH. Qed.

Lemma run_events_before : forall tbl ks rest, run_events tbl (map EvAccess ks ++ rest) None = run_events tbl rest None.
Proof. intros tbl ks rest. induction ks as [| k ks IH]; [reflexivity |]. cbn [map app run_events]. exact IH. Qed.

(** for every sequence of accesses: the registry at the end holds exactly the units accessed at any time between
    the creation of the provider's registry and the end of rendering — eagerly or lazily, in any interleaving —
    each once, each with its own table; accesses made before the registry exists leave no trace *)
Theorem registry_is_accessed_after_provide : forall tbl before after,
  exists m, run_events tbl (map EvAccess before ++ EvProvide :: map EvAccess after) None = Some m
  /\ NoDup (map fst m)
  /\ (forall k v, In (k, v) m <-> In k after /\ v = tbl k).
Proof.
  intros tbl before after. rewrite run_events_before. cbn [run_events]. rewrite run_events_accesses.
  exists (fold_left (register tbl) after []). split; [reflexivity |]. exact (register_used_only tbl after).
Qed.

Theorem page_registry : forall tbl before eager lazy,
  exists m, run_events tbl (page_events before eager lazy) None = Some m
  /\ NoDup (map fst m)
  /\ (forall k v, In (k, v) m <-> (In k eager \/ In k lazy) /\ v = tbl k).
Proof.
  intros tbl before eager lazy. unfold page_events. rewrite <- map_app.
  destruct (registry_is_accessed_after_provide tbl before (eager ++ lazy)) as (m & E & N & I).
  exists m. split; [exact E |]. split; [exact N |]. intros k v. rewrite I. rewrite in_app_iff. reflexivity.
Qed.

(** a registry created after the children were built loses the units that are only accessed eagerly *)
Example page_events_late_refuted :
  let k : ukey := ([101; 110], Some [109]) in
  run_events (fun _ => [[120]]) (page_events_late [] [k] []) None = Some []
  /\ run_events (fun _ => [[120]]) (page_events [] [k] []) None = Some [(k, [[120]])].
Proof. vm_compute. split; reflexivity. Qed.
