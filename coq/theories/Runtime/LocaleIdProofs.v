(** Lemmas about the model of the generated Locale enum (property C13). *)
From Coq Require Import List NArith Bool Arith Lia Permutation.
Import ListNotations.
From LI Require Import Base.StrOps Runtime.LocaleId.
Open Scope N_scope.

(** ** strings *)

Lemma str_eqb_refl : forall a, str_eqb a a = true.
Proof.
  induction a as [|x a IH]; cbn [str_eqb]; [reflexivity|].
  rewrite N.eqb_refl, IH. reflexivity.
Qed.

Lemma str_eqb_eq : forall a b, str_eqb a b = true <-> a = b.
Proof.
  induction a as [|x a IH]; intros [|y b]; cbn [str_eqb]; split; intros H; try reflexivity; try discriminate.
  - apply andb_true_iff in H. destruct H as [Hxy Hab]. apply N.eqb_eq in Hxy. apply IH in Hab. subst. reflexivity.
  - inversion H; subst. rewrite N.eqb_refl. cbn [andb]. apply str_eqb_refl.
Qed.

Lemma str_eqb_neq : forall a b, str_eqb a b = false <-> a <> b.
Proof.
  intros a b. split.
  - intros H E. apply str_eqb_eq in E. congruence.
  - intros H. destruct (str_eqb a b) eqn:E; [|reflexivity]. apply str_eqb_eq in E. contradiction.
Qed.

(** *** [trim] is idempotent *)

Definition no_lead (s : str) : Prop := match s with c :: _ => is_ws c = false | [] => True end.

Lemma trim_start_no_lead : forall s, no_lead (trim_start s).
Proof.
  induction s as [|c r IH]; cbn [trim_start no_lead]; [exact I|].
  destruct (is_ws c) eqn:E; [exact IH|]. cbn [no_lead]. exact E.
Qed.

Lemma trim_start_id : forall s, no_lead s -> trim_start s = s.
Proof.
  intros [|c r] H; cbn [trim_start]; [reflexivity|]. cbn [no_lead] in H. rewrite H. reflexivity.
Qed.

Lemma trim_start_idem : forall s, trim_start (trim_start s) = trim_start s.
Proof. intros s. apply trim_start_id. apply trim_start_no_lead. Qed.

Lemma trim_start_app : forall a b,
  trim_start (a ++ b) = match trim_start a with [] => trim_start b | _ => trim_start a ++ b end.
Proof.
  induction a as [|c a IH]; intros b; cbn [trim_start app]; [reflexivity|].
  destruct (is_ws c) eqn:E; [apply IH|]. reflexivity.
Qed.

Lemma trim_end_nil : trim_end [] = [].
Proof. reflexivity. Qed.

Lemma trim_end_cons : forall c r,
  trim_end (c :: r) = match trim_end r with
                      | [] => if is_ws c then [] else [c]
                      | _ => c :: trim_end r
                      end.
Proof.
  intros c r. unfold trim_end. cbn [rev]. rewrite trim_start_app.
  destruct (trim_start (rev r)) as [|d t] eqn:E.
  - cbn [rev trim_start]. destruct (is_ws c); reflexivity.
  - rewrite rev_app_distr. cbn [rev app].
    destruct (rev t ++ [d]) eqn:E2; [destruct (rev t); discriminate|]. reflexivity.
Qed.

Lemma trim_end_no_lead : forall s, no_lead s -> no_lead (trim_end s).
Proof.
  intros [|c r] H; [exact I|]. cbn [no_lead] in H. rewrite trim_end_cons.
  destruct (trim_end r); [rewrite H|]; cbn [no_lead]; exact H.
Qed.

Lemma trim_end_idem : forall s, trim_end (trim_end s) = trim_end s.
Proof. intros s. unfold trim_end. rewrite rev_involutive, trim_start_idem. reflexivity. Qed.

Lemma trim_idem : forall s, trim (trim s) = trim s.
Proof.
  intros s. unfold trim.
  rewrite (trim_start_id (trim_end (trim_start s))).
  - apply trim_end_idem.
  - apply trim_end_no_lead. apply trim_start_no_lead.
Qed.

Lemma key_new_trimmed : forall raw, trim (key_new raw) = key_new raw.
Proof. intros raw. unfold key_new. apply trim_idem. Qed.

Lemma configured_trimmed : forall raws n, In n (configured raws) -> trim n = n.
Proof.
  intros raws n H. unfold configured in H. apply in_map_iff in H. destruct H as [r [E _]]. subst n.
  apply key_new_trimmed.
Qed.

(** ** [index_of] *)

Lemma index_of_some : forall t l i, index_of t l = Some i -> nth_error l i = Some t.
Proof.
  intros t. induction l as [|x r IH]; intros i H; cbn [index_of] in H; [discriminate|].
  destruct (str_eqb x t) eqn:E.
  - inversion H; subst. apply str_eqb_eq in E. subst. reflexivity.
  - destruct (index_of t r) as [j|] eqn:Ej; cbn [option_map] in H; [|discriminate].
    inversion H; subst. cbn [nth_error]. apply IH. reflexivity.
Qed.

Lemma index_of_none : forall t l, index_of t l = None <-> ~ In t l.
Proof.
  intros t. induction l as [|x r IH]; cbn [index_of In].
  - split; [intros _ []|reflexivity].
  - destruct (str_eqb x t) eqn:E.
    + apply str_eqb_eq in E. split; [discriminate|]. intros H. exfalso. apply H. left. exact E.
    + apply str_eqb_neq in E. destruct (index_of t r) as [j|] eqn:Ej; cbn [option_map].
      * split; [discriminate|]. intros H. exfalso. destruct IH as [_ IH2].
        assert (Hn : ~ In t r) by (intros Hin; apply H; right; exact Hin). specialize (IH2 Hn). discriminate.
      * split; [|reflexivity]. intros _ [H|H]; [contradiction|]. destruct IH as [IH1 _]. apply (IH1 eq_refl). exact H.
Qed.

Lemma index_of_nth_nodup : forall l i t, NoDup l -> nth_error l i = Some t -> index_of t l = Some i.
Proof.
  induction l as [|x r IH]; intros i t Hnd Hn; [destruct i; discriminate|].
  inversion Hnd as [|? ? Hnotin Hnd']; subst. cbn [index_of].
  destruct i as [|i]; cbn [nth_error] in Hn.
  - inversion Hn; subst. rewrite str_eqb_refl. reflexivity.
  - destruct (str_eqb x t) eqn:E.
    + apply str_eqb_eq in E. subst. exfalso. apply Hnotin. eapply nth_error_In. exact Hn.
    + rewrite (IH i t Hnd' Hn). reflexivity.
Qed.

Lemma index_of_lt : forall t l i, index_of t l = Some i -> (i < length l)%nat.
Proof. intros t l i H. apply index_of_some in H. apply nth_error_Some. congruence. Qed.

(** ** the generated match tables compute [nth_error] and [index_of] *)

Lemma match_str_arms : forall (l : list str) off t,
  match_str (combine l (seq off (length l))) t = option_map (Nat.add off) (index_of t l).
Proof.
  induction l as [|x r IH]; intros off t; cbn [length seq combine match_str index_of option_map]; [reflexivity|].
  destruct (str_eqb x t); cbn [option_map].
  - f_equal. lia.
  - rewrite IH. destruct (index_of t r) as [j|]; cbn [option_map]; [|reflexivity]. f_equal. lia.
Qed.

Lemma from_str_index_of : forall names s, from_str names s = index_of (trim s) names.
Proof.
  intros names s. unfold from_str, from_str_arms. rewrite match_str_arms.
  destruct (index_of (trim s) names); reflexivity.
Qed.

Lemma match_variant_arms : forall (l : list str) off v,
  match_variant (combine (seq off (length l)) l) v =
  if (off <=? v)%nat then nth_error l (v - off) else None.
Proof.
  induction l as [|x r IH]; intros off v; cbn [length seq combine match_variant].
  - destruct (off <=? v)%nat; [|reflexivity]. destruct (v - off)%nat; reflexivity.
  - destruct (Nat.eqb off v) eqn:E.
    + apply Nat.eqb_eq in E. subst. rewrite Nat.leb_refl, Nat.sub_diag. reflexivity.
    + apply Nat.eqb_neq in E. rewrite IH.
      destruct (Nat.leb_spec (S off) v) as [L2|L2]; destruct (Nat.leb_spec off v) as [L1|L1]; try lia.
      * replace (v - off)%nat with (S (v - S off)) by lia. reflexivity.
      * reflexivity.
Qed.

Lemma as_str_arms_nth : forall names v, match_variant (as_str_arms names) v = nth_error names v.
Proof.
  intros names v. unfold as_str_arms. rewrite match_variant_arms. cbn [Nat.leb]. rewrite Nat.sub_0_r. reflexivity.
Qed.

Lemma as_str_nth : forall names v n, nth_error names v = Some n -> as_str names v = n.
Proof. intros names v n H. unfold as_str. rewrite as_str_arms_nth, H. reflexivity. Qed.

Lemma nth_error_lt : forall {A} (l : list A) i, (i < length l)%nat -> exists x, nth_error l i = Some x.
Proof.
  intros A l i H. destruct (nth_error l i) eqn:E; [eexists; reflexivity|].
  apply nth_error_None in E. lia.
Qed.

(** ** round trips *)

Definition all_trimmed (names : list str) : Prop := forall n, In n names -> trim n = n.

Lemma from_str_as_str : forall names v,
  NoDup names -> all_trimmed names -> (v < length names)%nat -> from_str names (as_str names v) = Some v.
Proof.
  intros names v Hnd Htr Hlt. destruct (nth_error_lt names v Hlt) as [n Hn].
  rewrite (as_str_nth names v n Hn), from_str_index_of, (Htr n (nth_error_In _ _ Hn)).
  apply index_of_nth_nodup; assumption.
Qed.

Lemma roundtrip_all : forall names v,
  NoDup names -> all_trimmed names -> (v < length names)%nat ->
  from_str names (as_str names v) = Some v
  /\ from_str names (display names v) = Some v
  /\ deserialize names (serialize names v) = v
  /\ cookie_decode names (cookie_encode names v) = Some v
  /\ scoped_from_str names (scoped_as_str names (mk_scoped v)) = Some (mk_scoped v)
  /\ scoped_deserialize names (scoped_serialize names (mk_scoped v)) = mk_scoped v.
Proof.
  intros names v Hnd Htr Hlt. pose proof (from_str_as_str names v Hnd Htr Hlt) as H.
  unfold display, serialize, deserialize, visit_str, visit_borrowed_str, cookie_decode, cookie_encode, display,
    scoped_from_str, scoped_as_str, scoped_deserialize, scoped_serialize, serialize, deserialize, visit_str,
    visit_borrowed_str, base_locale.
  rewrite H. repeat split; reflexivity.
Qed.

Lemma roundtrip_configured : forall raws v,
  let names := configured raws in
  NoDup names -> (v < length names)%nat ->
  from_str names (as_str names v) = Some v
  /\ from_str names (display names v) = Some v
  /\ deserialize names (serialize names v) = v
  /\ cookie_decode names (cookie_encode names v) = Some v
  /\ scoped_from_str names (scoped_as_str names (mk_scoped v)) = Some (mk_scoped v)
  /\ scoped_deserialize names (scoped_serialize names (mk_scoped v)) = mk_scoped v.
Proof.
  intros raws v names Hnd Hlt. apply roundtrip_all; [exact Hnd| |exact Hlt].
  intros n Hn. apply (configured_trimmed raws n Hn).
Qed.

(** the string form is the configured name, through every printer *)
Lemma string_forms : forall names v n,
  nth_error names v = Some n ->
  as_str names v = n /\ display names v = n /\ as_ref_str names v = n /\ serialize names v = n
  /\ cookie_encode names v = n /\ scoped_as_str names (mk_scoped v) = n /\ scoped_display names (mk_scoped v) = n.
Proof.
  intros names v n H. pose proof (as_str_nth names v n H) as E.
  unfold display, as_ref_str, serialize, cookie_encode, display, scoped_as_str, scoped_display, display, base_locale.
  repeat split; exact E.
Qed.

(** ** exactness *)

Lemma from_str_exact : forall names s v,
  NoDup names -> (from_str names s = Some v <-> nth_error names v = Some (trim s)).
Proof.
  intros names s v Hnd. rewrite from_str_index_of. split.
  - apply index_of_some.
  - apply index_of_nth_nodup. exact Hnd.
Qed.

Lemma from_str_sound : forall names s v, from_str names s = Some v -> nth_error names v = Some (trim s).
Proof. intros names s v H. rewrite from_str_index_of in H. apply index_of_some. exact H. Qed.

Lemma unknown_default : forall names s,
  ~ In (trim s) names ->
  from_str names s = None /\ deserialize names s = default_variant /\ cookie_decode names s = None
  /\ scoped_from_str names s = None /\ scoped_deserialize names s = scoped_default.
Proof.
  intros names s H. apply index_of_none in H.
  unfold deserialize, visit_str, visit_borrowed_str, cookie_decode, scoped_from_str, scoped_deserialize, scoped_default,
    deserialize, visit_str, visit_borrowed_str.
  rewrite from_str_index_of, H. repeat split; reflexivity.
Qed.

(** whatever the string, serde yields the named locale or the default - never a third one *)
Lemma deserialize_cases : forall names s,
  (exists v, nth_error names v = Some (trim s) /\ deserialize names s = v) \/
  (~ In (trim s) names /\ deserialize names s = default_variant).
Proof.
  intros names s. unfold deserialize, visit_str, visit_borrowed_str. rewrite from_str_index_of.
  destruct (index_of (trim s) names) as [v|] eqn:E.
  - left. exists v. split; [apply index_of_some; exact E|reflexivity].
  - right. split; [apply index_of_none; exact E|reflexivity].
Qed.

(** ** get_all *)

Lemma map_nth_seq : forall (l : list str) (f : nat -> str) off,
  (forall i n, nth_error l i = Some n -> f (off + i)%nat = n) -> map f (seq off (length l)) = l.
Proof.
  induction l as [|x r IH]; intros f off H; cbn [length seq map]; [reflexivity|]. f_equal.
  - specialize (H 0%nat x eq_refl). rewrite Nat.add_0_r in H. exact H.
  - apply IH. intros i n Hn. replace (S off + i)%nat with (off + S i)%nat by lia. apply H. exact Hn.
Qed.

Lemma get_all_props : forall names,
  NoDup (get_all names)
  /\ length (get_all names) = length names
  /\ (forall v, In v (get_all names) <-> (v < length names)%nat)
  /\ map (as_str names) (get_all names) = names
  /\ (names <> [] -> hd_error (get_all names) = Some default_variant)
  /\ scoped_get_all names = get_all names.
Proof.
  intros names. unfold get_all, scoped_get_all, get_all. repeat split.
  - apply seq_NoDup.
  - apply seq_length.
  - intros H. apply in_seq in H. lia.
  - intros H. apply in_seq. lia.
  - apply map_nth_seq. intros i n Hn. cbn [Nat.add]. apply as_str_nth. exact Hn.
  - intros Hne. destruct names; [contradiction|]. reflexivity.
Qed.

Lemma default_is_first : forall names n, hd_error names = Some n -> as_str names default_variant = n.
Proof. intros [|x r] n H; [discriminate|]. inversion H; subst. reflexivity. Qed.

(** ** ICU part: the embedded locale / direction are the oracle's answers for the configured name *)

Lemma icu_of_name : forall (icu : Type) (parse : str -> option icu) (dir : icu -> option bool) names v n,
  nth_error names v = Some n ->
  as_icu_locale icu parse names v = parse n
  /\ direction_of icu parse dir names v =
     match parse n with
     | Some l => Some match dir l with Some false => LeftToRight | Some true => RightToLeft | None => Auto end
     | None => None
     end.
Proof.
  intros icu parse dir names v n H. unfold direction_of, as_icu_locale. rewrite as_str_arms_nth, H. split; reflexivity.
Qed.

(** ** config normalisation: the default ends up first, nothing is lost or duplicated *)

Lemma position_from_some : forall t l off i,
  position_from off t l = Some i -> exists j, i = (off + j)%nat /\ nth_error l j = Some t.
Proof.
  intros t. induction l as [|x r IH]; intros off i H; cbn [position_from] in H; [discriminate|].
  destruct (str_eqb x t) eqn:E.
  - inversion H; subst. apply str_eqb_eq in E. subst. exists 0%nat. split; [lia|reflexivity].
  - destruct (IH _ _ H) as [j [Hj Hn]]. exists (S j). split; [lia|exact Hn].
Qed.

Lemma position_from_none : forall t l off, position_from off t l = None -> ~ In t l.
Proof.
  intros t. induction l as [|x r IH]; intros off H; cbn [position_from] in H; [intros []|].
  destruct (str_eqb x t) eqn:E; [discriminate|]. apply str_eqb_neq in E.
  intros [Hin|Hin]; [contradiction|]. exact (IH _ H Hin).
Qed.

Lemma swap0_props : forall {A} (l : list A) i x,
  nth_error l i = Some x -> hd_error (swap0 i l) = Some x /\ Permutation l (swap0 i l).
Proof.
  intros A l i x H. unfold swap0. destruct l as [|x0 r]; [destruct i; discriminate|]. rewrite H.
  destruct i as [|k].
  - cbn [nth_error] in H. inversion H; subst. split; [reflexivity|apply Permutation_refl].
  - cbn [nth_error] in H. unfold set_nth. cbn [firstn skipn app].
    split; [reflexivity|].
    pose proof (firstn_skipn k r) as Hsplit.
    assert (Hsk : skipn k r = x :: skipn (S k) r).
    { clear Hsplit. revert r H. induction k as [|k IHk]; intros r H; destruct r as [|y r]; cbn [nth_error] in H; try discriminate.
      - inversion H; subst. reflexivity.
      - cbn [skipn]. apply IHk. exact H. }
    rewrite Hsk in Hsplit. rewrite <- Hsplit at 1.
    change (x0 :: firstn k r ++ x :: skipn (S k) r) with ((x0 :: firstn k r) ++ x :: skipn (S k) r).
    eapply perm_trans; [apply Permutation_sym, Permutation_middle|].
    apply perm_skip. change (x0 :: firstn k r ++ skipn (S k) r) with ((x0 :: firstn k r) ++ skipn (S k) r).
    eapply perm_trans; [|apply Permutation_middle]. cbn [app]. apply Permutation_refl.
Qed.

Lemma cfg_normalise_props : forall default locales,
  hd_error (cfg_normalise default locales) = Some default
  /\ Permutation (if existsb (str_eqb default) locales then locales else locales ++ [default])
                 (cfg_normalise default locales).
Proof.
  intros default locales. unfold cfg_normalise, position.
  destruct (position_from 0 default locales) as [i|] eqn:E.
  - destruct (position_from_some _ _ _ _ E) as [j [Hi Hn]]. cbn [Nat.add] in Hi. subst j.
    assert (Hex : existsb (str_eqb default) locales = true).
    { apply existsb_exists. exists default. split; [eapply nth_error_In; exact Hn|apply str_eqb_refl]. }
    rewrite Hex. apply swap0_props. exact Hn.
  - pose proof (position_from_none _ _ _ E) as Hnot.
    assert (Hex : existsb (str_eqb default) locales = false).
    { destruct (existsb (str_eqb default) locales) eqn:Ex; [|reflexivity].
      apply existsb_exists in Ex. destruct Ex as [y [Hy Heq]]. apply str_eqb_eq in Heq. subst y. contradiction. }
    rewrite Hex. apply swap0_props.
    rewrite nth_error_app2 by lia. rewrite Nat.sub_diag. reflexivity.
Qed.

(** ** the executable spec holds of the model *)

Lemma opt_nat_eqb_refl : forall o, opt_nat_eqb o o = true.
Proof. intros [v|]; cbn [opt_nat_eqb]; [apply Nat.eqb_refl|reflexivity]. Qed.

Lemma spec_parse_holds : forall names s, spec_parse names s (model_parse names s) = true.
Proof.
  intros names s. unfold spec_parse, model_parse, deserialize, visit_str, visit_borrowed_str, cookie_decode.
  cbn [o_from_str o_serde o_cookie]. rewrite from_str_index_of.
  destruct (index_of (trim s) names) as [i|]; cbn [opt_nat_eqb none_or_default default_variant].
  - rewrite Nat.eqb_refl. reflexivity.
  - reflexivity.
Qed.

Lemma nodup_nat_seq : forall n off, nodup_nat (seq off n) = true.
Proof.
  induction n as [|n IH]; intros off; cbn [seq nodup_nat]; [reflexivity|]. rewrite IH, andb_true_r.
  apply negb_true_iff. destruct (existsb (Nat.eqb off) (seq (S off) n)) eqn:E; [|reflexivity].
  apply existsb_exists in E. destruct E as [y [Hy Heq]]. apply Nat.eqb_eq in Heq. subst y. apply in_seq in Hy. lia.
Qed.

Lemma spec_all_holds : forall names, names <> [] -> spec_all names default_variant (get_all names) = true.
Proof.
  intros names Hne. unfold spec_all, get_all, default_variant.
  repeat (apply andb_true_iff; split).
  - reflexivity.
  - destruct names as [|x r]; [contradiction|]. reflexivity.
  - rewrite seq_length. apply Nat.eqb_refl.
  - apply forallb_forall. intros v Hv. apply Nat.ltb_lt. apply in_seq in Hv. lia.
  - apply nodup_nat_seq.
Qed.

Lemma spec_C13_holds : forall names s,
  names <> [] -> spec_C13 names s (model_parse names s) default_variant (get_all names) = true.
Proof.
  intros names s Hne. unfold spec_C13. rewrite spec_parse_holds, (spec_all_holds names Hne). reflexivity.
Qed.

Lemma spec_row_holds : forall (parse : str -> option icu_repr) names v n,
  NoDup names -> all_trimmed names -> nth_error names v = Some n -> parse n <> None ->
  spec_row names v (oracle_of (parse n)) (model_row parse names v) = true.
Proof.
  intros parse names v n Hnd Htr Hn Hp.
  assert (Hlt : (v < length names)%nat) by (apply nth_error_Some; congruence).
  destruct (roundtrip_all names v Hnd Htr Hlt) as [R1 [R2 [R3 [R4 _]]]].
  destruct (string_forms names v n Hn) as [S1 [S2 [S3 [S4 [S5 _]]]]].
  destruct (icu_of_name icu_repr parse snd names v n Hn) as [I1 I2].
  unfold spec_row, model_row. rewrite Hn.
  cbn [r_as_str r_display r_as_ref r_serialized r_cookie r_back_from_str r_back_display r_back_serde r_back_cookie
       r_icu r_langid r_direction].
  rewrite R1, R2, R3, R4, S1, S2, S3, S4, S5, I1, I2, !str_eqb_refl, !opt_nat_eqb_refl.
  destruct (parse n) as [[[a b] d]|]; [|contradiction].
  cbn [oracle_of option_map fst snd q_icu q_langid q_direction opt_str_eqb opt_dir_eqb andb].
  rewrite !str_eqb_refl. destruct d as [[|]|]; reflexivity.
Qed.
