From Coq Require Import List NArith Bool Arith Lia.
Import ListNotations.
Open Scope N_scope.

Definition char := N.
Definition str := list char.

Definition len_utf8 (c : char) : nat :=
  if c <? 128 then 1%nat else if c <? 2048 then 2%nat else if c <? 65536 then 3%nat else 4%nat.
Fixpoint blen (s : str) : nat := match s with [] => 0%nat | c :: r => (len_utf8 c + blen r)%nat end.

(* byte-offset slicing: None = not a char boundary / out of range (Rust panics on index, None on .get) *)
Fixpoint drop_bytes (s : str) (n : nat) : option str :=
  match n, s with
  | O, _ => Some s
  | _, [] => None
  | _, c :: r => if (len_utf8 c <=? n)%nat then drop_bytes r (n - len_utf8 c) else None
  end.
Fixpoint take_bytes (s : str) (n : nat) : option str :=
  match n, s with
  | O, _ => Some []
  | _, [] => None
  | _, c :: r => if (len_utf8 c <=? n)%nat then
                   match take_bytes r (n - len_utf8 c) with Some t => Some (c :: t) | None => None end
                 else None
  end.

Fixpoint str_eqb (a b : str) : bool :=
  match a, b with
  | [], [] => true
  | x :: xs, y :: ys => (x =? y) && str_eqb xs ys
  | _, _ => false
  end.

Fixpoint starts_with (p s : str) : bool :=
  match p, s with
  | [], _ => true
  | x :: xs, y :: ys => (x =? y) && starts_with xs ys
  | _ :: _, [] => false
  end.
Fixpoint strip_prefix (p s : str) : option str :=
  match p, s with
  | [], _ => Some s
  | x :: xs, y :: ys => if x =? y then strip_prefix xs ys else None
  | _ :: _, [] => None
  end.

(* split at first occurrence of pattern p (non-empty) *)
Fixpoint split_once (p s : str) : option (str * str) :=
  match strip_prefix p s with
  | Some rest => Some ([], rest)
  | None => match s with
            | [] => None
            | c :: r => match split_once p r with
                        | Some (a, b) => Some (c :: a, b)
                        | None => None
                        end
            end
  end.
Definition split_once_c (c : char) := split_once [c].

(* last occurrence *)
Fixpoint rsplit_once (p s : str) : option (str * str) :=
  match s with
  | [] => match p with [] => Some ([], []) | _ => None end
  | c :: r =>
      match rsplit_once p r with
      | Some (a, b) => Some (c :: a, b)
      | None => match strip_prefix p s with Some rest => Some ([], rest) | None => None end
      end
  end.

Definition is_ws (c : char) : bool :=
  ((9 <=? c) && (c <=? 13)) || (c =? 32) || (c =? 133) || (c =? 160) || (c =? 5760) ||
  ((8192 <=? c) && (c <=? 8202)) || (c =? 8232) || (c =? 8233) || (c =? 8239) || (c =? 8287) || (c =? 12288).
Fixpoint trim_start (s : str) : str :=
  match s with c :: r => if is_ws c then trim_start r else s | [] => [] end.
Definition trim_end (s : str) : str := rev (trim_start (rev s)).
Definition trim (s : str) : str := trim_end (trim_start s).

(* byte offset of first char satisfying f *)
Fixpoint find_idx (f : char -> bool) (s : str) : option nat :=
  match s with
  | [] => None
  | c :: r => if f c then Some 0%nat else
      match find_idx f r with Some n => Some (len_utf8 c + n)%nat | None => None end
  end.

Fixpoint split_all (c : char) (s : str) : list str :=
  match s with
  | [] => [[]]
  | x :: r => match split_all c r with
              | h :: t => if x =? c then [] :: h :: t else (x :: h) :: t
              | [] => [[]] (* unreachable *)
              end
  end.

Fixpoint replace_c (a b : char) (s : str) : str := map (fun c => if c =? a then b else c) s.
Definition contains (p s : str) : bool := match split_once p s with Some _ => true | None => false end.
